(* C04 at engine level: in every reachable state of Model/Engine.v there is at most one task
   execution carrying the unique key of a given join task (Task.defer finds the existing one
   before creating), for every program, uid oracle and event list. *)
From Coq Require Import List Bool Arith Lia.
Require Import Mistral.Gen.States Mistral.Model.PySort Mistral.Model.Engine.
Require Import Mistral.Proofs.EngineMutual Mistral.Proofs.EngineMore.
Import ListNotations.

Definition key (r : trow) : nat * bool := (t_name r, t_unique r).
Definition keys (s : st) : list (nat * bool) := map key (tasks s).
(* names of the rows that carry a join unique key *)
Definition ujoins_of (l : list (nat * bool)) : list nat := map fst (filter snd l).
Definition ujoins (s : st) : list nat := ujoins_of (keys s).
Definition uniq (s : st) : Prop := NoDup (ujoins s).

Lemma map_set_nth {A B} (f : A -> B) n x (l : list A) d :
  f x = f (nth n l d) -> map f (set_nth n x l) = map f l.
Proof.
  revert n. induction l as [|y l IH]; intros [|n] H; simpl in *; try reflexivity.
  - rewrite H. reflexivity.
  - rewrite IH; [reflexivity|exact H].
Qed.

Lemma keys_upd_task s tid r :
  key r = key (get_task s tid) -> keys (upd_task s tid r) = keys s.
Proof. intros H. unfold keys, upd_task. simpl. apply map_set_nth with (d := dummy_trow). exact H. Qed.

Lemma keys_task_set_state s tid x : keys (task_set_state s tid x) = keys s.
Proof. unfold task_set_state. apply keys_upd_task. reflexivity. Qed.

(* find_join_exec ... false = None: no row with that name carries a unique key *)
Lemma find_first_none (p : trow -> bool) l i : find_first_aux l p i = None -> forall x, In x l -> p x = false.
Proof.
  revert i. induction l as [|y l IH]; intros i H x Hx; simpl in *; [contradiction|].
  destruct (p y) eqn:E; [discriminate|]. destruct Hx as [<-|Hx]; [exact E|eauto].
Qed.

Lemma no_join_exec_not_in s name :
  find_join_exec s name false = None -> ~ In name (ujoins s).
Proof.
  unfold find_join_exec. intros H Hin.
  pose proof (find_first_none _ _ _ H) as Hn. cbv beta in Hn.
  unfold ujoins, ujoins_of, keys in Hin. rewrite in_map_iff in Hin. destruct Hin as [[n u] [E Hf]].
  simpl in E. subst n. apply filter_In in Hf. destruct Hf as [Hk Hu]. simpl in Hu. subst u.
  rewrite in_map_iff in Hk. destruct Hk as [r [Er Hr]]. specialize (Hn r Hr). simpl in Hn.
  unfold key in Er. inversion Er as [[E1 E2]]. rewrite E1, E2, Nat.eqb_refl in Hn. simpl in Hn. discriminate.
Qed.

Lemma ujoins_add s r : ujoins (add_task s r) = ujoins s ++ (if t_unique r then [t_name r] else []).
Proof.
  unfold ujoins, ujoins_of, keys, add_task. simpl. rewrite map_app, filter_app, map_app. simpl.
  destruct (t_unique r); reflexivity.
Qed.

Lemma NoDup_app_one {A} (l : list A) x : NoDup l -> ~ In x l -> NoDup (l ++ [x]).
Proof.
  induction l as [|y l IH]; intros Hn Hx; simpl.
  - constructor; [intros []|constructor].
  - inversion Hn as [|? ? Hy Hl]; subst. constructor.
    + intros Hin. apply in_app_or in Hin. destruct Hin as [Hin|[<-|[]]]; [contradiction|].
      apply Hx. left. reflexivity.
    + apply IH; [exact Hl|]. intros Hin. apply Hx. right. exact Hin.
Qed.

Lemma uniq_defer sp s name trig : uniq s -> uniq (fst (fst (defer sp s name trig))).
Proof.
  intros Hu. unfold defer. destruct (find_join_exec s name true); [exact Hu|].
  destruct (find_join_exec s name false) eqn:E.
  - destruct (_ && _); [|exact Hu]. simpl. unfold uniq, ujoins. rewrite keys_task_set_state. exact Hu.
  - simpl. unfold uniq. rewrite ujoins_add. simpl.
    apply NoDup_app_one; [exact Hu|apply no_join_exec_not_in; exact E].
Qed.

Definition Pu (a b : tx) : Prop := uniq (fst a) -> uniq (fst b).

Lemma keys_only_tasks s s' : tasks s' = tasks s -> uniq s -> uniq s'.
Proof. intros H. unfold uniq, ujoins, keys. rewrite H. auto. Qed.

Lemma tasks_set_workflow_state s x s1 : set_workflow_state s x = Some s1 -> tasks s1 = tasks s.
Proof.
  unfold set_workflow_state. destruct (is_completed x).
  - intros H. apply EngineSafety.stop_workflow_hdr in H. destruct H as [-> | [y ->]]; reflexivity.
  - destruct (is_paused x); [|discriminate]. intros H. apply EngineSafety.pause_workflow_hdr in H.
    destruct H as [-> | [y ->]]; reflexivity.
Qed.

Lemma set_nth_twice {A} n (x y : A) l : set_nth n y (set_nth n x l) = set_nth n y l.
Proof. revert n. induction l as [|z l IH]; intros [|n]; simpl; try reflexivity. rewrite IH. reflexivity. Qed.

Lemma keys_upd_twice s tid r r' :
  key r' = key (get_task s tid) -> keys (upd_task (upd_task s tid r) tid r') = keys s.
Proof.
  intros H. unfold keys, upd_task. simpl. rewrite set_nth_twice.
  apply map_set_nth with (d := dummy_trow). exact H.
Qed.

Lemma keys_complete_pre sp t tid x :
  match complete_pre sp t tid x with
  | PreIgnored t1 | PreRaised t1 | PreCmds t1 _ => keys (fst t1) = keys (fst t)
  end.
Proof.
  unfold complete_pre. destruct (_ && _); [reflexivity|].
  destruct (if is_completed _ then _ else _).
  - cbv zeta. destruct (is_paused _); simpl.
    + rewrite keys_upd_task; [apply keys_task_set_state|]. reflexivity.
    + rewrite keys_upd_twice; [apply keys_task_set_state|]. reflexivity.
  - simpl. apply keys_task_set_state.
Qed.

Lemma uniq_keys s s' : keys s' = keys s -> uniq s -> uniq s'.
Proof. intros H. unfold uniq, ujoins. rewrite H. auto. Qed.

Lemma dispatch_uniq sp fuel :
  (forall t cmds, Pu t (fst (process_cmds sp fuel t cmds))) /\
  (forall t cmds, Pu t (fst (dispatch sp fuel t cmds))) /\
  (forall t tid x, Pu t (fst (complete_task sp fuel t tid x))).
Proof.
  apply mutual_P; unfold Pu.
  - auto.
  - auto.
  - intros t c _ _. apply keys_only_tasks. reflexivity.
  - intros t. apply keys_only_tasks. reflexivity.
  - intros t name w trig _ _ Hu. unfold run_task_cmd. destruct w.
    + pose proof (uniq_defer sp (fst t) name trig Hu) as H.
      destruct (defer sp (fst t) name trig) as [[s1 tid] chk]. exact H.
    + simpl. unfold uniq. rewrite ujoins_add. simpl. rewrite app_nil_r. exact Hu.
  - intros t tid a b _ _. unfold run_existing_cmd. simpl.
    destruct (_ && _); [apply keys_only_tasks; reflexivity|].
    destruct (_ && _); [|apply keys_only_tasks; reflexivity].
    apply uniq_keys. apply keys_upd_task. reflexivity.
  - intros t x s1 _ _ H. simpl. apply keys_only_tasks. apply tasks_set_workflow_state in H. exact H.
  - intros t tid x. pose proof (keys_complete_pre sp t tid x) as H.
    destruct (complete_pre sp t tid x); unfold uniq, ujoins; rewrite H; auto.
Qed.

(* ------------------------------------------------------------ step level *)

Lemma uniq_check_affected sp t tid : uniq (fst t) -> uniq (fst (check_affected sp t tid)).
Proof. unfold check_affected. destruct (negb _); [auto|]. destruct (is_completed _); auto. Qed.

Lemma uniq_commit t : uniq (fst t) -> uniq (commit t).
Proof. unfold commit. destruct (snd t); [auto|]. apply keys_only_tasks. reflexivity. Qed.

Lemma uniq_force_fail s tid : uniq s -> uniq (force_fail s tid).
Proof.
  intros Hu. unfold force_fail. cbv zeta. set (s1 := upd_task s tid _).
  assert (H1 : uniq s1) by (apply (uniq_keys s); [apply keys_upd_task; reflexivity|exact Hu]).
  destruct (fail_workflow s1) as [s2|] eqn:E; [|exact H1].
  apply EngineSafety.fail_workflow_inv in E. destruct E as [-> | ->]; [exact H1|].
  apply (keys_only_tasks s1); [reflexivity|exact H1].
Qed.

Lemma uniq_hdr_only s s1 : EngineSafety.hdr_only s s1 -> uniq s -> uniq s1.
Proof. intros [-> | [x ->]]; [auto|]. apply keys_only_tasks. reflexivity. Qed.

Lemma uniq_do_start_task sp s tid f r x : uniq s -> uniq (fst (do_start_task sp s tid f r x)).
Proof.
  intros Hu. unfold do_start_task. cbv zeta. destruct (Nat.leb _ _); [exact Hu|].
  assert (Hk : forall s', keys s' = keys s -> uniq s') by (intros s' H; apply (uniq_keys s); assumption).
  destruct f.
  - destruct (is_idle _); simpl; apply uniq_commit, uniq_check_affected; simpl; [|exact Hu].
    apply Hk. unfold keys. simpl. apply map_set_nth with (d := dummy_trow). reflexivity.
  - destruct (negb r && negb (is_idle _)); [exact Hu|].
    destruct (negb r).
    + simpl. apply uniq_commit, uniq_check_affected. simpl.
      apply Hk. unfold keys. simpl. apply map_set_nth with (d := dummy_trow). reflexivity.
    + destruct (state_eqb _ SUCCESS); [exact Hu|]. simpl.
      apply uniq_commit, uniq_check_affected. simpl.
      apply Hk. unfold keys. simpl. apply map_set_nth with (d := dummy_trow). reflexivity.
Qed.

Lemma uniq_do_result sp s aid res : uniq s -> uniq (fst (do_result sp s aid res)).
Proof.
  intros Hu. unfold do_result. cbv zeta. destruct (Nat.leb _ _); [exact Hu|].
  destruct (is_completed (a_state _)); [exact Hu|].
  set (s1 := upd_act s aid _).
  assert (H1 : uniq s1) by (apply (keys_only_tasks s); [reflexivity|exact Hu]).
  pose proof (proj2 (proj2 (dispatch_uniq sp (FUEL sp s1))) (s1, []) (a_task (get_act s aid))
                    (state_of_outcome res)) as H. unfold Pu in H. simpl in H. specialize (H H1).
  destruct (complete_task sp (FUEL sp s1) (s1, []) (a_task (get_act s aid)) (state_of_outcome res)) as [t1 fl].
  simpl in H. destruct fl; simpl.
  - apply uniq_commit, uniq_check_affected. exact H.
  - apply uniq_commit. simpl. apply uniq_force_fail. exact H.
Qed.

Lemma uniq_refresh_body sp s tid lg : uniq s -> uniq (fst (refresh_body sp s tid lg)).
Proof.
  intros Hu. unfold refresh_body. cbv zeta. destruct (state_eqb lg RUNNING).
  - simpl. apply uniq_commit, uniq_check_affected. simpl.
    apply (uniq_keys s); [|exact Hu]. unfold keys. simpl. apply map_set_nth with (d := dummy_trow). reflexivity.
  - destruct (state_eqb lg ERROR); [|exact Hu].
    pose proof (proj2 (proj2 (dispatch_uniq sp (FUEL sp s))) (s, []) tid ERROR) as H. unfold Pu in H. simpl in H.
    specialize (H Hu). destruct (complete_task sp (FUEL sp s) (s, []) tid ERROR) as [t1 fl]. simpl in H.
    destruct fl; simpl.
    + apply uniq_commit, uniq_check_affected. exact H.
    + apply uniq_commit. simpl. apply uniq_force_fail. exact H.
Qed.

Lemma uniq_do_refresh sp s tid : uniq s -> uniq (fst (do_refresh sp s tid)).
Proof.
  intros Hu. unfold do_refresh. cbv zeta. destruct (_ || _); [exact Hu|].
  destruct (is_completed (wf_state s)); [exact Hu|].
  apply uniq_refresh_body. apply (uniq_keys s); [apply keys_upd_task; reflexivity|exact Hu].
Qed.

Lemma uniq_run_ops sp ops : forall s, uniq s -> uniq (run_ops sp s ops).
Proof.
  induction ops as [|o ops IH]; intros s Hu; simpl; [exact Hu|]. apply IH.
  destruct o as [tid f r x|aid| |tid]; simpl; try (apply (keys_only_tasks s); [reflexivity|exact Hu]).
  - destruct (check_and_complete s) as [s'|] eqn:E; [|exact Hu].
    apply EngineSafety.check_and_complete_hdr in E. apply (uniq_hdr_only s); assumption.
  - destruct (has_refresh_job s tid); [exact Hu|]. apply (keys_only_tasks s); [reflexivity|exact Hu].
Qed.

Lemma keys_mark_processed s : keys (mark_processed s) = keys s.
Proof.
  unfold keys, mark_processed. simpl. rewrite map_map. apply map_ext. intros r.
  destruct (_ && _); reflexivity.
Qed.

Lemma uniq_schedule_waiting_refresh s : uniq s -> uniq (schedule_waiting_refresh s).
Proof.
  unfold schedule_waiting_refresh.
  generalize (combine (seq 0 (length (tasks s))) (tasks s)). intros l.
  revert s. induction l as [|p l IH]; intros s Hu; simpl; [exact Hu|].
  apply IH. destruct (_ && _); [|exact Hu]. apply (keys_only_tasks s); [reflexivity|exact Hu].
Qed.

Lemma uniq_continue_workflow sp t cmds : uniq (fst t) -> uniq (fst (fst (continue_workflow sp t cmds))).
Proof.
  intros Hu. unfold continue_workflow, continue_workflow_cmds.
  set (cm := filter _ cmds). set (s := mark_processed (fst t)).
  assert (Hs : uniq s) by (apply (uniq_keys (fst t)); [apply keys_mark_processed|exact Hu]).
  assert (Hd : uniq (fst (fst (dispatch sp (FUEL sp s) (s, snd t) cm)))).
  { exact (proj1 (proj2 (dispatch_uniq sp (FUEL sp s))) (s, snd t) cm Hs). }
  assert (Hres : uniq (fst (fst (match cm, backlog s with
            | [], [] => match check_and_complete s with
                        | Some s1 => ((s1, snd t), FOk)
                        | None => ((s, snd t), FForce)
                        end
            | _, _ => dispatch sp (FUEL sp s) (s, snd t) cm
            end)))).
  { destruct cm as [|c cm']; [|exact Hd]. destruct (backlog s); [|exact Hd].
    destruct (check_and_complete s) as [s1|] eqn:Ec; simpl; [|exact Hs].
    apply EngineSafety.check_and_complete_hdr in Ec. apply (uniq_hdr_only s); assumption. }
  destruct (match cm, backlog s with
            | [], [] => _
            | _, _ => _ end) as [t1 fl].
  simpl in Hres. destruct fl; simpl; [apply uniq_schedule_waiting_refresh|]; exact Hres.
Qed.

Theorem uniq_step sp s e : uniq s -> uniq (fst (step sp s e)).
Proof.
  intros Hu. destruct e as [|i|n| | |x|tid reset|tid|i|]; simpl.
  - destruct (wf_created s); [exact Hu|].
    set (s0 := mkSt true RUNNING [] [] [] [] (pend s) (uids s)).
    assert (H0 : uniq s0) by constructor.
    match goal with |- context [dispatch sp ?f (s0, []) ?c] =>
      pose proof (proj1 (proj2 (dispatch_uniq sp f)) (s0, []) c H0) as H;
      destruct (dispatch sp f (s0, []) c) as [t1 fl] end.
    simpl in H. destruct fl; [|exact Hu].
    destruct (check_and_complete (fst t1)) as [s2|] eqn:E; [|exact Hu].
    simpl. apply uniq_commit. simpl. apply EngineSafety.check_and_complete_hdr in E.
    apply (uniq_hdr_only (fst t1)); assumption.
  - destruct (remove_first (item_eqb i) (pend s)) as [[it rest]|]; [|exact Hu].
    assert (H0 : uniq (set_pend s rest)) by (apply (keys_only_tasks s); [reflexivity|exact Hu]).
    destruct it as [tid f r x|aid|aid res|ops|tid].
    + apply uniq_do_start_task. exact H0.
    + simpl. apply (keys_only_tasks s); [reflexivity|exact Hu].
    + pose proof (uniq_do_result sp (set_pend s rest) aid res H0) as H.
      destruct (do_result sp (set_pend s rest) aid res) as [s1 o]. simpl in H. destruct o; simpl; assumption.
    + exact Hu.
    + apply uniq_do_refresh. exact H0.
  - destruct (remove_nth_ptq n (pend s)) as [[ops rest]|]; [|exact Hu].
    simpl. apply uniq_run_ops. apply (keys_only_tasks s); [reflexivity|exact Hu].
  - destruct (negb (wf_created s)); [exact Hu|].
    destruct (pause_workflow s) as [s1|] eqn:E; [|exact Hu].
    simpl. apply EngineSafety.pause_workflow_hdr in E. apply (uniq_hdr_only s); assumption.
  - destruct (negb (wf_created s)); [exact Hu|].
    destruct (negb (is_paused_or_idle (wf_state s))); [exact Hu|].
    destruct (wf_set_state s RUNNING) as [s1|] eqn:E; [|exact Hu].
    assert (H1 : uniq s1) by (apply EngineSafety.wf_set_state_inv in E; subst s1; apply (keys_only_tasks s); [reflexivity|exact Hu]).
    match goal with |- context [fold_right ?f ?a ?l] => destruct (fold_right f a l) as [more|] end; [|exact Hu].
    match goal with |- context [continue_workflow sp (s1, []) ?c] =>
      pose proof (uniq_continue_workflow sp (s1, []) c H1) as H;
      destruct (continue_workflow sp (s1, []) c) as [t1 fl] end.
    simpl in H. destruct fl; simpl; [apply uniq_commit; exact H|exact Hu].
  - destruct (negb (wf_created s)); [exact Hu|].
    destruct (stop_workflow s x) as [s1|] eqn:E; [|exact Hu].
    simpl. apply EngineSafety.stop_workflow_hdr in E. apply (uniq_hdr_only s); assumption.
  - destruct (negb (wf_created s)); [exact Hu|]. destruct (Nat.leb _ _); [exact Hu|].
    destruct (state_eqb (wf_state s) PAUSED); [exact Hu|].
    destruct (wf_set_state s RUNNING) as [s1|] eqn:E; [|exact Hu].
    assert (H1 : uniq s1) by (apply EngineSafety.wf_set_state_inv in E; subst s1; apply (keys_only_tasks s); [reflexivity|exact Hu]).
    cbv zeta. set (s1' := upd_task s1 tid _).
    assert (H2 : uniq s1') by (apply (uniq_keys s1); [apply keys_upd_task; reflexivity|exact H1]).
    pose proof (uniq_continue_workflow sp (s1', []) [CRunExisting tid reset true] H2) as H.
    destruct (continue_workflow sp (s1', []) _) as [t1 fl]. simpl in H.
    destruct fl; simpl; [apply uniq_commit; exact H|exact Hu].
  - destruct (negb (wf_created s)); [exact Hu|]. destruct (Nat.leb _ _); [exact Hu|].
    destruct (state_eqb (wf_state s) PAUSED); [exact Hu|].
    destruct (wf_set_state s RUNNING) as [s1|] eqn:E; [|exact Hu].
    assert (H1 : uniq s1) by (apply EngineSafety.wf_set_state_inv in E; subst s1; apply (keys_only_tasks s); [reflexivity|exact Hu]).
    cbv zeta. set (s1' := upd_task s1 tid _).
    assert (H2 : uniq s1') by (apply (uniq_keys s1); [apply keys_upd_task; reflexivity|exact H1]).
    pose proof (uniq_continue_workflow sp (s1', []) [CSkip tid] H2) as H.
    destruct (continue_workflow sp (s1', []) _) as [t1 fl]. simpl in H.
    destruct fl; simpl; [apply uniq_commit, uniq_check_affected; exact H|exact Hu].
  - destruct i as [tid f r x|aid|aid res|ops|tid]; try exact Hu.
    + apply uniq_do_start_task. exact Hu.
    + pose proof (uniq_do_result sp s aid res Hu) as H.
      destruct (do_result sp s aid res) as [s1 o]. simpl in H. destruct o; simpl; assumption.
  - exact Hu.
Qed.

(* every reachable state has at most one execution per join unique key *)
Theorem join_executions_unique sp u evs : uniq (run sp u evs).
Proof.
  unfold run.
  assert (H : forall s, uniq s -> uniq (fold_left (fun s e => fst (step sp s e)) evs s)).
  { induction evs as [|e evs IH]; intros s Hs; simpl; [exact Hs|]. apply IH, uniq_step, Hs. }
  apply H. constructor.
Qed.

(* spelled out on rows *)
Theorem join_executions_unique_rows sp u evs i j ri rj :
  let s := run sp u evs in
  nth_error (tasks s) i = Some ri -> nth_error (tasks s) j = Some rj ->
  t_unique ri = true -> t_unique rj = true -> t_name ri = t_name rj -> i = j.
Proof.
  intros s Hi Hj Ui Uj Hn.
  pose proof (join_executions_unique sp u evs) as Hu. fold s in Hu. unfold uniq, ujoins, ujoins_of, keys in Hu.
  revert i j Hi Hj. generalize dependent (tasks s). intros l Hu.
  induction l as [|r l IH]; intros i j Hi Hj; [destruct i; discriminate|].
  simpl in Hu. destruct (t_unique r) eqn:Ur; simpl in Hu.
  - inversion Hu as [|? ? Hnot Hnd]; subst.
    assert (Hin : forall k rk, nth_error l k = Some rk -> t_unique rk = true -> In (t_name rk) (map fst (filter snd (map key l)))).
    { intros k rk Hk Uk. apply in_map_iff. exists (key rk). split; [reflexivity|].
      apply filter_In. split; [apply in_map; eapply nth_error_In; exact Hk|exact Uk]. }
    destruct i as [|i], j as [|j]; simpl in Hi, Hj.
    + reflexivity.
    + inversion Hi; subst r. exfalso. apply Hnot. rewrite Hn. eapply Hin; eauto.
    + inversion Hj; subst r. exfalso. apply Hnot. rewrite <- Hn. eapply Hin; eauto.
    + f_equal. eapply IH; eauto.
  - destruct i as [|i], j as [|j]; simpl in Hi, Hj.
    + reflexivity.
    + inversion Hi; subst r. congruence.
    + inversion Hj; subst r. congruence.
    + f_equal. eapply IH; eauto.
Qed.
