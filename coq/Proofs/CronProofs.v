(* Proofs about Model/Cron.v (property C17): a global invariant over arbitrary step lists (including other
   processors acting between the SELECT and the DELETE / UPDATE of one database call: Sel / Wr), any number of
   processors and triggers, any `nxt` with t < nxt t, under the hypotheses that
     - a write that changed no row reports 0 (drc = true, urm = true: the compare-and-swap shape of
       delete_cron_trigger / update_cron_trigger, instantiated in Properties/C17.v from Gen/CronCfg.v), and
     - trigger names are unambiguous (no two rows with the same name one of which is visible to the other's project;
       only needed when rows are looked up by name).
   Without either hypothesis the faithful model refutes the property: see the lemmas at the end. *)
From Coq Require Import List NArith ZArith Bool Arith Lia ZifyBool ZifyNat ZifyN.
Require Import Mistral.Model.Cron.
Import ListNotations.
Open Scope N_scope.

Lemma upd_eq : forall A (f : nat -> A) k v, upd f k v k = v.
Proof. intros. unfold upd. now rewrite Nat.eqb_refl. Qed.

Lemma upd_neq : forall A (f : nat -> A) k v j, j <> k -> upd f k v j = f j.
Proof. intros. unfold upd. destruct (Nat.eqb_spec j k); congruence. Qed.

Definition same_static (a b : trig) : Prop :=
  t_name a = t_name b /\ t_proj a = t_proj b /\ t_public a = t_public b /\ t_payload a = t_payload b.

Lemma same_static_refl : forall a, same_static a a.
Proof. firstorder. Qed.

Lemma same_static_trans : forall a b c, same_static a b -> same_static b c -> same_static a c.
Proof. unfold same_static. intros. intuition congruence. Qed.

Lemma same_static_set_dyn : forall d n r, same_static (set_dyn d n r) d.
Proof. intros. unfold same_static, set_dyn. simpl. auto. Qed.

(* names are unambiguous: two rows with one name, one of them visible to the other's project, are one row *)
Definition unamb (d : nat -> option trig) : Prop :=
  forall k1 k2 a b, d k1 = Some a -> d k2 = Some b -> t_name a = t_name b ->
    (t_proj a = t_proj b \/ t_public a = true \/ t_public b = true) -> k1 = k2.

Definition covers (keys : list nat) (d : nat -> option trig) : Prop :=
  forall k t, d k = Some t -> In k keys.

(* a snapshot strictly older than the row: how their remaining_executions relate *)
Definition rem_stale (a b : option Z) : Prop :=
  match a, b with
  | None, None => True
  | Some x, Some y => ((x < 0 /\ y = x) \/ (1 <= y /\ y < x))%Z
  | _, _ => False
  end.

Definition fos (sn d : trig) : Prop :=
  (t_next sn = t_next d /\ t_rem sn = t_rem d) \/ (t_next sn < t_next d /\ rem_stale (t_rem sn) (t_rem d)).

Definition done (s : state) : list (nat * N) := map occ_of (starts s) ++ lost s.

Lemma count_key_cons : forall k x l,
  count_key k (x :: l) = if Nat.eqb (fst x) k then S (count_key k l) else count_key k l.
Proof. intros. unfold count_key. simpl. destruct (Nat.eqb (fst x) k); reflexivity. Qed.

Lemma nodup_app_l : forall A (l r : list A), NoDup (l ++ r) -> NoDup l.
Proof.
  induction l as [|a l IH]; intros r H; simpl in *; [constructor|].
  inversion H as [|x y Hn Hr]; subst. constructor.
  - intro X. apply Hn. apply in_or_app. auto.
  - eapply IH. exact Hr.
Qed.

Section Proofs.
(* the compare-and-swap shape of the two database calls (Gen/CronCfg.v): a writer that lost the race reports 0 *)
Variable drc urm : bool.
Hypothesis Hdrc : drc = true.
Hypothesis Hurm : urm = true.
Variable byname : bool.
Variable keys : list nat.
Variable nxt : nat -> N -> N.
Hypothesis Hnxt : forall k t, t < nxt k t.
Variable t0 : N.
Variable db0 : nat -> option trig.
Hypothesis Hcov : covers keys db0.
Hypothesis Hun : byname = true -> unamb db0.

Notation stp := (step byname drc urm keys nxt).
Notation rn := (run byname drc urm keys nxt).

Definition static_of (k : nat) (t : trig) : Prop := exists d0, db0 k = Some d0 /\ same_static t d0.

Record Inv (s : state) : Prop := mkInv {
  inv_static : forall k d, db s k = Some d -> static_of k d;
  inv_snap : forall i k sn, snap s i k = Some sn ->
     static_of k sn /\ (forall d, db s k = Some d -> fos sn d) /\ t_next sn < now s + 2;
  inv_sel : forall i k sn k' nv, sel s i = Some (k, sn, k', nv) ->
     pend s i = None /\ k' = k /\ static_of k sn /\ (forall d, db s k = Some d -> fos sn d) /\ t_next sn < now s + 2 /\
     exists nw, nw <= now s /\ nv = nxt k (N.max nw (t_next sn));
  inv_pend : forall i k sn, pend s i = Some (k, sn) ->
     static_of k sn /\ In (k, t_next sn) (won s) /\ ~ In (k, t_next sn) (done s) /\ t_next sn < now s + 2;
  inv_pend_distinct : forall i j k sn k' sn', i <> j -> pend s i = Some (k, sn) -> pend s j = Some (k', sn') ->
     (k, t_next sn) <> (k', t_next sn');
  inv_won_nodup : NoDup (won s);
  inv_won_lt : forall k n d, In (k, n) (won s) -> db s k = Some d -> n < t_next d;
  inv_done_nodup : NoDup (done s);
  inv_done_won : forall x, In x (done s) -> In x (won s);
  inv_acct : forall k n, In (k, n) (won s) ->
     In (k, n) (done s) \/ exists i sn, pend s i = Some (k, sn) /\ t_next sn = n;
  inv_starts : forall e, In e (starts s) ->
     exists d0, db0 (e_key e) = Some d0 /\ e_payload e = t_payload d0 /\ e_proj e = t_proj d0 /\ e_occ e < now s + 2;
  inv_count : forall k d0 c, db0 k = Some d0 -> t_rem d0 = Some c -> (1 <= c)%Z ->
     match db s k with
     | Some d => exists r, t_rem d = Some r /\ (1 <= r)%Z /\ (Z.of_nat (count_key k (won s)) + r = c)%Z
     | None => Z.of_nat (count_key k (won s)) = c
     end;
  inv_once : forall k d0, db0 k = Some d0 -> t_rem d0 = Some 1%Z ->
     (forall d, db s k = Some d -> t_next d = t_next d0 /\ t_rem d = Some 1%Z) /\
     (forall n, In (k, n) (won s) -> n = t_next d0)
}.

Lemma Hnxt_max : forall k (nw : N) (d : trig), t_next d < nxt k (N.max nw (t_next d)).
Proof. intros. pose proof (Hnxt k (N.max nw (t_next d))). lia. Qed.

Lemma inv_init : Inv (init t0 db0).
Proof.
  constructor; unfold init, done; simpl; try discriminate; try tauto; try constructor.
  - intros k d H. exists d. split; auto using same_static_refl.
  - intros k d0 c H1 H2 H3. rewrite H1. exists c. repeat split; auto.
  - intros d H1. rewrite H in H1. inversion H1. subst. auto.
  - intros n [].
Qed.

(* ---- get_cron_trigger(name) finds the row itself when names are unambiguous ---- *)
Lemma resolve_spec : forall s i k sn, Inv s -> snap s i k = Some sn ->
  resolve byname keys (db s) k sn = match db s k with Some _ => Some k | None => None end.
Proof.
  intros s i k sn HI Hs. unfold resolve. destruct byname eqn:Hb; [|reflexivity].
  specialize (Hun eq_refl).
  destruct (inv_snap s HI _ _ _ Hs) as [[d0 [Hd0 Hst]] _].
  assert (Hmatch : forall k' d', db s k' = Some d' ->
            (Nat.eqb (t_name d') (t_name sn) && visible (t_proj sn) d') = true -> k' = k).
  { intros k' d' Hk' Hp. apply andb_prop in Hp as [Hn Hv].
    apply Nat.eqb_eq in Hn.
    destruct (inv_static s HI _ _ Hk') as [d0' [Hd0' Hst']].
    unfold same_static in *. apply (Hun k' k d0' d0 Hd0' Hd0).
    - intuition congruence.
    - unfold visible in Hv. apply orb_prop in Hv as [Hv|Hv].
      + apply Nat.eqb_eq in Hv. left. intuition congruence.
      + right. left. intuition congruence. }
  destruct (db s k) as [d|] eqn:Hk.
  - match goal with |- find ?f keys = _ => destruct (find f keys) as [k'|] eqn:R end.
    + apply find_some in R as [_ Hp]. destruct (db s k') as [d'|] eqn:Hk'; [|discriminate].
      f_equal. eauto.
    + exfalso. pose proof (find_none _ _ R k (Hcov _ _ Hd0)) as Hp. cbv beta in Hp. rewrite Hk in Hp.
      destruct (inv_static s HI _ _ Hk) as [d0' [Hd0' Hst']]. rewrite Hd0 in Hd0'. inversion Hd0'. subst d0'.
      unfold same_static, visible in *.
      assert (t_name d = t_name sn) as E1 by intuition congruence.
      assert (t_proj d = t_proj sn) as E2 by intuition congruence.
      rewrite E1, E2, !Nat.eqb_refl in Hp. discriminate.
  - match goal with |- find ?f keys = _ => destruct (find f keys) as [k'|] eqn:R end; [|reflexivity].
    apply find_some in R as [_ Hp]. destruct (db s k') as [d'|] eqn:Hk'; [|discriminate].
    assert (k' = k) by eauto. subst. congruence.
Qed.

(* what a winning write needs: the processor is inside the call for its snapshot sn of row k, the row still
   carries the values of the snapshot *)
Definition win_ok (s : state) (i k : nat) (sn : trig) (nv : N) (d : trig) (v : option trig) : Prop :=
  sel s i = Some (k, sn, k, nv) /\ pend s i = None /\ static_of k sn /\ t_next sn < now s + 2 /\
  db s k = Some d /\ t_next d = t_next sn /\ t_rem d = t_rem sn /\
  (exists nw, nw <= now s /\ nv = nxt k (N.max nw (t_next d))) /\
  match v with
  | None => is_zero (dec (t_rem d)) = true
  | Some d' => is_zero (dec (t_rem d)) = false /\ d' = set_dyn d nv (dec (t_rem d))
  end.

Lemma fos_same_next : forall sn d, fos sn d -> t_next d = t_next sn -> t_rem sn = t_rem d.
Proof. unfold fos. intros sn d [[_ H]|[H _]] E; auto. lia. Qed.

Lemma dec_nonzero_some : forall y, is_zero (dec (Some y)) = false ->
  ((y < 0)%Z /\ dec (Some y) = Some y) \/ ((2 <= y)%Z /\ dec (Some y) = Some (y - 1)%Z).
Proof.
  intros y. unfold is_zero, dec.
  destruct (Z.ltb_spec 0 y).
  - destruct (Z.eqb_spec (y - 1) 0); [discriminate|]. intros _. right. split; [lia|reflexivity].
  - destruct (Z.eqb_spec y 0); [discriminate|]. intros _. left. split; [lia|reflexivity].
Qed.

Lemma dec_zero_some : forall y, is_zero (dec (Some y)) = true -> (y = 0 \/ y = 1)%Z.
Proof.
  intros y. unfold is_zero, dec.
  destruct (Z.ltb_spec 0 y).
  - destruct (Z.eqb_spec (y - 1) 0); [lia|discriminate].
  - destruct (Z.eqb_spec y 0); [lia|discriminate].
Qed.

Lemma fos_last : forall sn d, fos sn d -> is_zero (dec (t_rem sn)) = true -> t_next sn = t_next d /\ t_rem sn = t_rem d.
Proof.
  unfold fos. intros sn d [H|[H1 H2]] Z; auto. exfalso.
  unfold rem_stale in *.
  destruct (t_rem sn) as [x|]; [|discriminate]. destruct (t_rem d) as [y|]; [|contradiction].
  apply dec_zero_some in Z. lia.
Qed.

(* the SELECT half: nothing, or the snapshot is consumed and either lost (row gone) or the call is entered *)
Definition entered (s : state) (i k : nat) (sn : trig) : state :=
  mkS (now s) (db s) (clear_snap s i k) (upd (sel s) i (Some (k, sn, k, nxt k (N.max (now s) (t_next sn)))))
      (pend s) (starts s) (won s) (lost s).

Lemma select_cases : forall s i k, Inv s ->
  select byname keys nxt s i k = s \/
  (exists sn, pend s i = None /\ sel s i = None /\ snap s i k = Some sn /\
     (select byname keys nxt s i k = lose s i k \/ select byname keys nxt s i k = entered s i k sn)).
Proof.
  intros s i k HI. unfold select.
  destruct (pend s i) eqn:Hp; auto.
  destruct (sel s i) eqn:Hse; auto.
  destruct (snap s i k) as [sn|] eqn:Hs; auto.
  right. exists sn. repeat split; auto.
  rewrite (resolve_spec s i k sn HI Hs).
  destruct (inv_snap s HI _ _ _ Hs) as [[d0 [Hd0 Hst]] _].
  destruct (db s k) as [d|] eqn:Hk; [|left; reflexivity].
  cbv beta iota. rewrite Hk.
  destruct (inv_static s HI _ _ Hk) as [d0' [Hd0' Hst']]. rewrite Hd0 in Hd0'. inversion Hd0'. subst d0'.
  assert (t_proj d = t_proj sn) as E by (unfold same_static in *; intuition congruence).
  rewrite E, Nat.eqb_refl. cbn [negb]. rewrite andb_false_r. right. reflexivity.
Qed.

(* the DELETE / UPDATE half *)
Lemma write_cases : forall s i, Inv s ->
  write drc urm s i = s \/
  (exists e, sel s i = Some e /\ write drc urm s i = wr_lose s i) \/
  (exists k sn nv d v, win_ok s i k sn nv d v /\ write drc urm s i = wr_win s i k sn k d v).
Proof.
  intros s i HI. unfold write.
  destruct (sel s i) as [[[[k sn] k'] nv]|] eqn:Hs; auto.
  right. destruct (inv_sel s HI _ _ _ _ _ Hs) as (Hp & -> & Hst & Hf & Hdue & nw & Hnw & Hnv).
  cbv zeta. rewrite Hdrc, Hurm.
  destruct (db s k) as [d|] eqn:Hk.
  - specialize (Hf d eq_refl). destruct (is_zero (dec (t_rem sn))) eqn:Z.
    + destruct (fos_last _ _ Hf Z) as [E1 E2]. right. exists k, sn, nv, d, None. split; [|reflexivity].
      unfold win_ok. rewrite E2 in Z. rewrite E1 in Hnv. repeat split; auto. exists nw. auto.
    + destruct (N.eqb_spec (t_next d) (t_next sn)) as [E|E]; [|left; eauto].
      right. pose proof (fos_same_next _ _ Hf E) as E2.
      exists k, sn, nv, d, (Some (set_dyn d nv (dec (t_rem sn)))). split; [|reflexivity].
      unfold win_ok. rewrite E2 in Z. rewrite E2. rewrite <- E in Hnv. repeat split; auto. exists nw. auto.
  - left. destruct (is_zero (dec (t_rem sn))); eauto.
Qed.

Ltac upd_cases :=
  repeat match goal with
  | H : context [upd _ ?k _ ?j] |- _ =>
      destruct (Nat.eq_dec j k) as [?E|?E]; [first [subst j | subst k]; rewrite upd_eq in H | rewrite upd_neq in H by assumption]
  | |- context [upd _ ?k _ ?j] =>
      destruct (Nat.eq_dec j k) as [?E|?E]; [first [subst j | subst k]; rewrite upd_eq | rewrite upd_neq by assumption]
  end.

Lemma lose_inv : forall s i k, Inv s -> Inv (lose s i k).
Proof.
  intros s i k HI. destruct HI. constructor; unfold lose, clear_snap, done in *; simpl; auto.
  intros j k2 sn H. upd_cases; try discriminate; eauto.
Qed.

Lemma entered_inv : forall s i k sn, Inv s -> pend s i = None -> snap s i k = Some sn -> Inv (entered s i k sn).
Proof.
  intros s i k sn HI Hp Hs. destruct (inv_snap s HI _ _ _ Hs) as (Hst & Hf & Hdue).
  destruct HI. constructor; unfold entered, clear_snap, done in *; simpl; auto.
  - intros j k2 sn2 H. upd_cases; try discriminate; eauto.
  - intros j k2 sn2 k2' nv2 H. upd_cases; [|eauto].
    inversion H. subst k2 sn2 k2' nv2. repeat split; auto. exists (now s). split; [lia|reflexivity].
Qed.

Lemma select_inv : forall s i k, Inv s -> Inv (select byname keys nxt s i k).
Proof.
  intros s i k HI. destruct (select_cases s i k HI) as [E|(sn & Hp & _ & Hs & [E|E])]; rewrite E; auto.
  - apply lose_inv; auto.
  - apply entered_inv; auto.
Qed.

Lemma wr_lose_inv : forall s i, Inv s -> Inv (wr_lose s i).
Proof.
  intros s i HI. destruct HI. constructor; unfold wr_lose, done in *; simpl; auto.
  intros j k2 sn2 k2' nv2 H. upd_cases; [discriminate|eauto].
Qed.

Lemma in_done_cons_start : forall e s x,
  In x (map occ_of (e :: starts s) ++ lost s) <-> x = occ_of e \/ In x (done s).
Proof. intros. unfold done. simpl. intuition. Qed.

Lemma in_done_cons_lost : forall y s x,
  In x (map occ_of (starts s) ++ y :: lost s) <-> x = y \/ In x (done s).
Proof. intros. unfold done. rewrite !in_app_iff. simpl. intuition. Qed.

Lemma nodup_done_cons_lost : forall y s, NoDup (done s) -> ~ In y (done s) ->
  NoDup (map occ_of (starts s) ++ y :: lost s).
Proof. intros. unfold done in *. apply NoDup_Add with (a := y) (l := map occ_of (starts s) ++ lost s).
  - apply Add_app.
  - split; auto.
Qed.

Lemma stale_after_update : forall sn d n',
  fos sn d -> is_zero (dec (t_rem d)) = false -> t_next d < n' ->
  fos sn (set_dyn d n' (dec (t_rem d))).
Proof.
  intros sn d n' Hf Z Hlt. right. unfold set_dyn. cbn [t_next t_rem].
  unfold fos, rem_stale in *.
  destruct Hf as [[E1 E2]|[E1 E2]].
  - split; [lia|]. rewrite E2. destruct (t_rem d) as [y|]; [|simpl; auto].
    destruct (dec_nonzero_some y Z) as [[A B]|[A B]]; rewrite B; lia.
  - split; [lia|]. destruct (t_rem sn) as [x|]; destruct (t_rem d) as [y|]; try (simpl; tauto).
    destruct (dec_nonzero_some y Z) as [[A B]|[A B]]; rewrite B; lia.
Qed.

Lemma win_inv : forall s i k sn nv d v, Inv s -> win_ok s i k sn nv d v -> Inv (wr_win s i k sn k d v).
Proof.
  intros s i k sn nv d v HI (Hse & Hp & Hst & Hdue & Hk & En & Er & (nw & Hnw & Hnv) & Hv).
  assert (Hlt : t_next d < nv) by (rewrite Hnv; apply Hnxt_max).
  assert (Hfresh : ~ In (k, t_next d) (won s)).
  { intro H. pose proof (inv_won_lt s HI _ _ _ H Hk). lia. }
  assert (Hfresh' : ~ In (k, t_next d) (done s)).
  { intro H. apply Hfresh. apply (inv_done_won s HI). exact H. }
  (* rows seen through older copies stay "fresh or stale" *)
  assert (Hfos : forall k2 x, (forall d2, db s k2 = Some d2 -> fos x d2) ->
                 forall d2, upd (db s) k v k2 = Some d2 -> fos x d2).
  { intros k2 x B d2 H2. upd_cases; [|auto].
    destruct v as [d'|]; [|discriminate]. destruct Hv as [Z Hv]. inversion H2. subst d2 d'.
    apply stale_after_update; auto. }
  constructor; unfold wr_win; simpl.
  - (* static *)
    intros k2 d2 H. upd_cases.
    + destruct v as [d'|]; [|discriminate]. destruct Hv as [_ Hv]. inversion H. subst d2 d'.
      destruct (inv_static s HI _ _ Hk) as [d0 [A B]]. exists d0. split; [exact A|].
      eapply same_static_trans; [apply same_static_set_dyn|exact B].
    + eapply inv_static; eauto.
  - (* snapshots *)
    intros j k2 sn2 H.
    destruct (inv_snap s HI _ _ _ H) as [A [B C]].
    split; [exact A|]. split; [|exact C]. apply Hfos. exact B.
  - (* calls in progress of the other processors *)
    intros j k2 sn2 k2' nv2 H.
    destruct (Nat.eq_dec j i) as [->|Hne]; [rewrite upd_eq in H; discriminate|].
    rewrite upd_neq in H by assumption. rewrite upd_neq by assumption.
    destruct (inv_sel s HI _ _ _ _ _ H) as (A & B & C & D & F & G).
    split; [exact A|]. split; [exact B|]. split; [exact C|]. split; [apply Hfos; exact D|]. split; [exact F|exact G].
  - (* pending *)
    intros j k2 sn2 H. upd_cases.
    + inversion H. subst k2 sn2. rewrite <- En. unfold done in *. simpl. repeat split; auto; lia.
    + destruct (inv_pend s HI _ _ _ H) as (A & B & C & D). unfold done in *. simpl. repeat split; auto.
  - (* pending distinct *)
    intros j1 j2 k1 sn1 k2 sn2 Hne H1 H2. upd_cases; try congruence;
      try (apply (inv_pend_distinct s HI _ _ _ _ _ _ Hne); assumption);
      match goal with H : pend s _ = Some _ |- _ => destruct (inv_pend s HI _ _ _ H) as (_ & B & _) end;
      intro EQ; injection EQ as ? ?;
      repeat match goal with H : Some (_, _) = Some (_, _) |- _ => injection H as ? ? end;
      subst; apply Hfresh;
      match goal with B : In (_, ?x) (won s) |- _ => replace (t_next d) with x by congruence; exact B end.
  - constructor; auto. apply (inv_won_nodup s HI).
  - (* won below the row *)
    intros k2 n d2 [H|H] H2.
    + inversion H. subst k2 n. rewrite upd_eq in H2.
      destruct v as [d'|]; [|discriminate]. destruct Hv as [_ Hv]. inversion H2. subst d2 d'.
      unfold set_dyn. simpl. exact Hlt.
    + upd_cases.
      * destruct v as [d'|]; [|discriminate]. destruct Hv as [_ Hv]. inversion H2. subst d2 d'.
        pose proof (inv_won_lt s HI _ _ _ H Hk). unfold set_dyn. simpl. lia.
      * eapply inv_won_lt; eauto.
  - apply (inv_done_nodup s HI).
  - intros x H. right. apply (inv_done_won s HI). exact H.
  - (* accounting *)
    intros k2 n [H|H].
    + inversion H. subst k2 n. right. exists i, sn. rewrite upd_eq. auto.
    + destruct (inv_acct s HI _ _ H) as [A|(j & sn2 & A & B)]; [left; exact A|].
      right. exists j, sn2. rewrite upd_neq; [auto|]. intro. subst. congruence.
  - apply (inv_starts s HI).
  - (* count *)
    intros k2 d0 c H1 H2 H3. pose proof (inv_count s HI _ _ _ H1 H2 H3) as IC.
    rewrite count_key_cons. simpl fst.
    upd_cases.
    + rewrite Nat.eqb_refl. rewrite Hk in IC. destruct IC as (r & R1 & R2 & R3).
      rewrite R1 in Hv.
      destruct v as [d'|].
      * destruct Hv as [Z Hv]. subst d'. unfold set_dyn. cbn [t_rem].
        destruct (dec_nonzero_some r Z) as [[A B]|[A B]]; [lia|]. rewrite B.
        exists (r - 1)%Z. repeat split; auto; lia.
      * apply dec_zero_some in Hv. lia.
    + destruct (Nat.eqb_spec k k2); [congruence|]. exact IC.
  - (* first-time-only *)
    intros k2 d0 H1 H2. destruct (inv_once s HI _ _ H1 H2) as [A B]. split.
    + intros d2 Hd2. upd_cases; [|auto].
      destruct (A _ Hk) as [A1 A2].
      destruct v as [d'|]; [|discriminate]. destruct Hv as [Z _].
      rewrite A2 in Z. discriminate.
    + intros n [H|H]; [|auto]. inversion H. subst. destruct (A _ Hk). auto.
Qed.

Lemma write_inv : forall s i, Inv s -> Inv (write drc urm s i).
Proof.
  intros s i HI. destruct (write_cases s i HI) as [E|[(e & _ & E)|(k & sn & nv & d & v & W & E)]]; rewrite E; auto.
  - apply wr_lose_inv; auto.
  - eapply win_inv; eauto.
Qed.

Lemma tick_inv : forall s d, Inv s -> Inv (stp s (Tick d)).
Proof.
  intros s d HI. constructor; simpl; try apply HI.
  - intros i k sn H. destruct (inv_snap s HI _ _ _ H) as (A & B & C). repeat split; auto. lia.
  - intros i k sn k' nv H. destruct (inv_sel s HI _ _ _ _ _ H) as (A & B & C & D & F & nw & G1 & G2).
    repeat split; auto; [lia|]. exists nw. split; [lia|exact G2].
  - intros i k sn H. destruct (inv_pend s HI _ _ _ H) as (A & B & C & D). repeat split; auto. lia.
  - intros e H. destruct (inv_starts s HI _ H) as (d0 & A & B & C & D). exists d0. repeat split; auto. lia.
Qed.

Lemma read_inv : forall s i, Inv s -> Inv (stp s (Read i)).
Proof.
  intros s i HI. constructor; simpl; try apply HI.
  intros j k sn H. upd_cases; [|eapply inv_snap; eauto].
  destruct (db s k) as [d|] eqn:Hk; [|discriminate].
  destruct (due (now s) d) eqn:Hd; [|discriminate]. inversion H. subst sn.
  split; [eapply inv_static; eauto|]. split.
  - intros d' Hd'. inversion Hd'. subst. left. auto.
  - unfold due in Hd. lia.
Qed.

(* a pending start leaves the processor: started (e) or lost (y) *)
Lemma finish_inv : forall s i k sn st' lo',
  Inv s -> pend s i = Some (k, sn) ->
  (st' = mkEv i k (t_next sn) (t_payload sn) (t_proj sn) :: starts s /\ lo' = lost s) \/
  (st' = starts s /\ lo' = (k, t_next sn) :: lost s) ->
  forall sp se, (forall j k2 x, sp j k2 = Some x -> snap s j k2 = Some x) ->
  (forall j x, se j = Some x -> sel s j = Some x) ->
  Inv (mkS (now s) (db s) sp se (upd (pend s) i None) st' (won s) lo').
Proof.
  intros s i k sn st' lo' HI Hp Hcase sp se Hsp Hse.
  destruct (inv_pend s HI _ _ _ Hp) as (Hst & Hw & Hnd & Hdue).
  assert (Hin : forall x, In x (map occ_of st' ++ lo') <-> x = (k, t_next sn) \/ In x (done s)).
  { intros x. destruct Hcase as [[-> ->]|[-> ->]].
    - rewrite in_done_cons_start. reflexivity.
    - rewrite in_done_cons_lost. reflexivity. }
  constructor; unfold done in *; simpl; try apply HI.
  - intros j k2 x H. apply Hsp in H. eapply inv_snap; eauto.
  - intros j k2 sn2 k2' nv2 H. apply Hse in H.
    destruct (inv_sel s HI _ _ _ _ _ H) as (A & B & C & D & F & G). repeat split; auto.
    destruct (Nat.eq_dec j i) as [->|Hne]; [apply upd_eq|]. rewrite upd_neq by assumption. exact A.
  - intros j k2 sn2 H. upd_cases; [discriminate|].
    destruct (inv_pend s HI _ _ _ H) as (A & B & C & D). repeat split; auto.
    rewrite Hin. intros [X|X]; [|auto].
    apply (inv_pend_distinct s HI j i k2 sn2 k sn); auto.
  - intros j1 j2 k1 sn1 k2 sn2 Hne H1 H2. upd_cases; try discriminate.
    eapply (inv_pend_distinct s HI j1 j2); eauto.
  - destruct Hcase as [[-> ->]|[-> ->]].
    + simpl. constructor; [exact Hnd | apply (inv_done_nodup s HI)].
    + apply nodup_done_cons_lost; [apply (inv_done_nodup s HI) | exact Hnd].
  - intros x. rewrite Hin. intros [->|X]; auto. apply (inv_done_won s HI). exact X.
  - intros k2 n H. rewrite Hin.
    destruct (inv_acct s HI _ _ H) as [A|(j & sn2 & A & B)]; [auto|].
    destruct (Nat.eq_dec j i).
    + subst j. rewrite Hp in A. inversion A. subst. auto.
    + right. exists j, sn2. rewrite upd_neq by assumption. auto.
  - destruct Hcase as [[-> ->]|[-> ->]]; [|apply (inv_starts s HI)].
    intros e [<-|H]; [|apply (inv_starts s HI); exact H]. simpl.
    destruct Hst as (d0 & A & B). exists d0. unfold same_static in B. intuition.
Qed.

Lemma step_inv : forall s o, Inv s -> Inv (stp s o).
Proof.
  intros s o HI. destruct o as [d|i|i k|i k|i|i|i|i].
  - apply tick_inv; auto.
  - apply read_inv; auto.
  - simpl. unfold adv. destruct (sel s i); auto. apply write_inv. apply select_inv. exact HI.
  - apply select_inv; auto.
  - apply write_inv; auto.
  - simpl. destruct (pend s i) as [[k sn]|] eqn:Hp; auto.
    apply finish_inv with (k := k) (sn := sn); auto.
  - simpl. destruct (pend s i) as [[k sn]|] eqn:Hp; auto.
    apply finish_inv with (k := k) (sn := sn); auto.
  - simpl. destruct (pend s i) as [[k sn]|] eqn:Hp.
    + apply finish_inv with (k := k) (sn := sn); auto.
      * intros j k2 x H. upd_cases; [discriminate|auto].
      * intros j x H. upd_cases; [discriminate|auto].
    + destruct HI. constructor; unfold done in *; simpl; auto.
      * intros j k2 x H. upd_cases; [discriminate|eauto].
      * intros j k2 sn2 k2' nv2 H.
        destruct (Nat.eq_dec j i) as [->|Hne]; [rewrite upd_eq in H; discriminate|].
        rewrite upd_neq in H by assumption. rewrite upd_neq by assumption. eauto.
      * intros j k2 sn2 H. upd_cases; [discriminate|eauto].
      * intros j1 j2 k1 sn1 k2 sn2 Hne H1 H2. upd_cases; try discriminate. eauto.
      * intros k2 n H. destruct (inv_acct0 _ _ H) as [A|(j & sn2 & A & B)]; [auto|].
        right. exists j, sn2. rewrite upd_neq; auto. intro. subst. congruence.
Qed.

Lemma run_inv : forall ops s, Inv s -> Inv (rn s ops).
Proof. induction ops as [|o ops IH]; intros s HI; simpl; auto. apply IH. apply step_inv. exact HI. Qed.

Definition reach (ops : list op) : state := rn (init t0 db0) ops.

Lemma reach_inv : forall ops, Inv (reach ops).
Proof. intros. apply run_inv. apply inv_init. Qed.

(* ---------------- consequences ---------------- *)

Lemma once_per_occurrence : forall ops, NoDup (map occ_of (starts (reach ops))).
Proof.
  intros. pose proof (inv_done_nodup _ (reach_inv ops)) as H. unfold done in H.
  eapply nodup_app_l. exact H.
Qed.

Lemma starts_in_won : forall ops e, In e (starts (reach ops)) -> In (occ_of e) (won (reach ops)).
Proof.
  intros. apply (inv_done_won _ (reach_inv ops)). unfold done. apply in_or_app. left. apply in_map. auto.
Qed.

Lemma accounted : forall ops k n, In (k, n) (won (reach ops)) ->
  In (k, n) (map occ_of (starts (reach ops))) \/ In (k, n) (lost (reach ops)) \/
  exists i sn, pend (reach ops) i = Some (k, sn) /\ t_next sn = n.
Proof.
  intros ops k n H. destruct (inv_acct _ (reach_inv ops) _ _ H) as [A|A]; auto.
  unfold done in A. apply in_app_or in A. tauto.
Qed.

Definition no_loss_op (o : op) : Prop := match o with Drop _ | Crash _ => False | _ => True end.

(* the SELECT half touches nothing but the processor's own snapshot / call slot *)
Lemma select_frame : forall s i k,
  now (select byname keys nxt s i k) = now s /\ db (select byname keys nxt s i k) = db s /\
  won (select byname keys nxt s i k) = won s /\ lost (select byname keys nxt s i k) = lost s.
Proof.
  intros. unfold select, lose.
  repeat match goal with |- context [match ?x with _ => _ end] => destruct x end; simpl; auto.
Qed.

Lemma write_lost : forall s i, lost (write drc urm s i) = lost s.
Proof.
  intros. unfold write, wr_lose, wr_win, wr_phantom.
  repeat match goal with |- context [match ?x with _ => _ end] => destruct x end; reflexivity.
Qed.

Lemma step_lost : forall s o, no_loss_op o -> lost (stp s o) = lost s.
Proof.
  intros s o H. destruct o; simpl in H |- *; try contradiction; auto.
  - unfold adv. destruct (sel s i); auto. rewrite write_lost. apply select_frame.
  - apply select_frame.
  - apply write_lost.
  - destruct (pend s i) as [[? ?]|]; reflexivity.
Qed.

Lemma run_lost : forall ops s, Forall no_loss_op ops -> lost (rn s ops) = lost s.
Proof.
  induction ops as [|o ops IH]; intros s H; simpl; auto.
  inversion H as [|o' ops' Ho Hr]. rewrite IH by assumption. apply step_lost. assumption.
Qed.

Lemma exactly_once_unless_crash : forall ops k n, Forall no_loss_op ops -> In (k, n) (won (reach ops)) ->
  In (k, n) (map occ_of (starts (reach ops))) \/ exists i sn, pend (reach ops) i = Some (k, sn) /\ t_next sn = n.
Proof.
  intros ops k n Hn H. destruct (accounted ops k n H) as [A|[A|A]]; auto.
  unfold reach in A. rewrite run_lost in A by assumption. destruct A.
Qed.

(* the ghost `won` is exactly the history of the rows: a step changes a row iff it records the value left *)
Definition row_history (s s' : state) : Prop :=
  (won s' = won s /\ forall k, db s' k = db s k) \/
  (exists k d, db s k = Some d /\ won s' = (k, t_next d) :: won s /\ db s' k <> Some d /\
               forall k', k' <> k -> db s' k' = db s k').

Lemma write_history : forall s i, Inv s -> row_history s (write drc urm s i).
Proof.
  intros s i HI. unfold row_history.
  destruct (write_cases s i HI) as [E|[(e & _ & E)|(k & sn & nv & d & v & W & E)]]; rewrite E; auto.
  right. exists k, d. destruct W as (Hse & Hp & Hst & Hdue & Hk & En & Er & (nw & Hnw & Hnv) & Hv). unfold wr_win. simpl.
  repeat split; auto.
  - rewrite upd_eq. destruct v as [d'|]; [|discriminate]. destruct Hv as [_ ->].
    intro X. inversion X as [Y]. pose proof (Hnxt_max k nw d) as L.
    assert (t_next (set_dyn d nv (dec (t_rem d))) = t_next d) as Z by (rewrite Y; reflexivity).
    unfold set_dyn in Z. simpl in Z. lia.
  - intros k' Hne. apply upd_neq. exact Hne.
Qed.

Lemma won_is_row_history : forall s o, Inv s -> row_history s (stp s o).
Proof.
  intros s o HI. destruct o as [d|i|i k|i k|i|i|i|i]; simpl; try (left; split; reflexivity).
  - unfold adv. destruct (sel s i); [left; auto|].
    pose proof (write_history _ i (select_inv s i k HI)) as H.
    destruct (select_frame s i k) as (_ & Ed & Ew & _). unfold row_history in *. rewrite Ed, Ew in H. exact H.
  - destruct (select_frame s i k) as (_ & Ed & Ew & _). left. rewrite Ed, Ew. auto.
  - apply write_history; auto.
  - destruct (pend s i) as [[? ?]|]; left; auto.
  - destruct (pend s i) as [[? ?]|]; left; auto.
Qed.

Lemma count_key_le : forall k l w, NoDup l -> incl l w -> (count_key k l <= count_key k w)%nat.
Proof.
  intros k l w Hn Hi. unfold count_key. apply NoDup_incl_length.
  - apply NoDup_filter. exact Hn.
  - intros x Hx. apply filter_In in Hx as [A B]. apply filter_In. split; auto.
Qed.

Lemma starts_le_won : forall ops k,
  (count_key k (map occ_of (starts (reach ops))) <= count_key k (won (reach ops)))%nat.
Proof.
  intros. apply count_key_le. apply once_per_occurrence.
  intros x Hx. apply in_map_iff in Hx as (e & <- & He). apply starts_in_won. exact He.
Qed.

Lemma count_bound : forall ops k d0 c, db0 k = Some d0 -> t_rem d0 = Some c -> (1 <= c)%Z ->
  let s := reach ops in
  (Z.of_nat (count_key k (map occ_of (starts s))) <= Z.of_nat (count_key k (won s)))%Z /\
  match db s k with
  | Some d => exists r, t_rem d = Some r /\ (1 <= r)%Z /\ (Z.of_nat (count_key k (won s)) + r = c)%Z
  | None => Z.of_nat (count_key k (won s)) = c
  end.
Proof.
  intros ops k d0 c H1 H2 H3 s. subst s. split.
  - pose proof (starts_le_won ops k). lia.
  - apply (inv_count _ (reach_inv ops) _ _ _ H1 H2 H3).
Qed.

Lemma count_bound_starts : forall ops k d0 c, db0 k = Some d0 -> t_rem d0 = Some c -> (1 <= c)%Z ->
  (Z.of_nat (count_key k (map occ_of (starts (reach ops)))) <= c)%Z.
Proof.
  intros ops k d0 c H1 H2 H3. destruct (count_bound ops k d0 c H1 H2 H3) as [A B].
  destruct (db (reach ops) k); [destruct B as (r & _ & ? & ?)|]; lia.
Qed.

Lemma first_only_run : forall ops k d0, db0 k = Some d0 -> t_rem d0 = Some 1%Z ->
  (count_key k (map occ_of (starts (reach ops))) <= 1)%nat /\
  (forall e, In e (starts (reach ops)) -> e_key e = k -> e_occ e = t_next d0) /\
  (forall d, db (reach ops) k = Some d -> t_next d = t_next d0 /\ count_key k (won (reach ops)) = 0%nat).
Proof.
  intros ops k d0 H1 H2.
  assert (1 <= 1)%Z as H3 by lia.
  pose proof (count_bound_starts ops k d0 1%Z H1 H2 H3) as A.
  destruct (inv_once _ (reach_inv ops) _ _ H1 H2) as [B C].
  split; [lia|]. split.
  - intros e He Hk. apply starts_in_won in He. unfold occ_of in He. rewrite Hk in He. apply C. exact He.
  - intros d Hd. split; [apply B; exact Hd|].
    pose proof (inv_count _ (reach_inv ops) _ _ _ H1 H2 H3) as IC. rewrite Hd in IC.
    destruct IC as (r & R1 & R2 & R3). destruct (B _ Hd) as [_ R]. rewrite R in R1. inversion R1. lia.
Qed.

(* a row is left alone or moved forward along its pattern: next' = nxt (max nw next) for a clock value nw the
   writer has seen (the value is computed before the database call; nw = now when the call is not interrupted) *)
Definition moved (nw_max : N) (k : nat) (d d' : trig) : Prop :=
  d' = d \/ (exists nw, nw <= nw_max /\ t_next d' = nxt k (N.max nw (t_next d)) /\ t_next d < t_next d' /\ nw < t_next d' /\
             t_rem d' = dec (t_rem d) /\ same_static d' d).

Lemma write_forward : forall s i k d d', Inv s -> db s k = Some d -> db (write drc urm s i) k = Some d' ->
  moved (now s) k d d'.
Proof.
  intros s i k d d' HI Hk H. unfold moved.
  destruct (write_cases s i HI) as [E|[(e & _ & E)|(k2 & sn & nv & d3 & v & W & E)]]; rewrite E in H;
    try (simpl in H; left; congruence).
  destruct W as (Hse & Hp & Hst & Hdue & Hk3 & En & Er & (nw & Hnw & Hnv) & Hv). unfold wr_win in H. simpl in H.
  destruct (Nat.eq_dec k k2) as [->|Hne]; [|rewrite upd_neq in H by assumption; left; congruence].
  rewrite upd_eq in H. rewrite Hk in Hk3. inversion Hk3. subst d3.
  destruct v as [dv|]; [|discriminate]. destruct Hv as [_ ->]. inversion H. subst d'. right.
  exists nw. unfold set_dyn. simpl. pose proof (Hnxt k2 (N.max nw (t_next d))).
  repeat split; auto; try lia.
Qed.

Lemma step_forward : forall s o k d d', Inv s -> db s k = Some d -> db (stp s o) k = Some d' ->
  moved (now s) k d d'.
Proof.
  intros s o k d d' HI Hk H.
  destruct o as [?|?|i k2|i k2|i|i|i|i]; simpl in H; try (left; congruence).
  - unfold adv in H. destruct (sel s i); [left; congruence|].
    destruct (select_frame s i k2) as (En & Ed & _).
    rewrite <- En. apply write_forward with (i := i); [apply select_inv; exact HI| rewrite Ed; exact Hk | exact H].
  - destruct (select_frame s i k2) as (_ & Ed & _). rewrite Ed in H. left. congruence.
  - apply write_forward with (i := i); auto.
  - destruct (pend s i) as [[? ?]|]; simpl in H; left; congruence.
  - destruct (pend s i) as [[? ?]|]; simpl in H; left; congruence.
Qed.

Lemma step_stays_removed : forall s o k, Inv s -> db s k = None -> db (stp s o) k = None.
Proof.
  intros s o k HI Hk.
  destruct (won_is_row_history s o HI) as [[_ A]|(k2 & d2 & A & _ & _ & B)].
  - rewrite A. exact Hk.
  - destruct (Nat.eq_dec k k2) as [->|Hne]; [congruence|]. rewrite B by assumption. exact Hk.
Qed.

Lemma run_stays_removed : forall ops s k, Inv s -> db s k = None -> db (rn s ops) k = None.
Proof.
  induction ops as [|o ops IH]; intros s k HI Hn; simpl; auto.
  apply IH; [apply step_inv; auto | apply step_stays_removed; auto].
Qed.

Lemma run_forward : forall ops s k d, Inv s -> db s k = Some d ->
  match db (rn s ops) k with Some d' => t_next d <= t_next d' | None => True end.
Proof.
  induction ops as [|o ops IH]; intros s k d HI Hk; simpl.
  - rewrite Hk. lia.
  - destruct (db (stp s o) k) as [d1|] eqn:H1.
    + pose proof (IH _ _ _ (step_inv s o HI) H1) as A.
      destruct (db (rn (stp s o) ops) k); auto.
      destruct (step_forward s o k d d1 HI Hk H1) as [->|(nw & _ & _ & L & _)]; lia.
    + rewrite run_stays_removed; auto. apply step_inv; auto.
Qed.

Lemma next_monotone : forall ops1 ops2 k d, db (reach ops1) k = Some d ->
  match db (reach (ops1 ++ ops2)) k with Some d' => t_next d <= t_next d' | None => True end.
Proof.
  intros. unfold reach, run. rewrite fold_left_app. apply run_forward; auto. apply reach_inv.
Qed.

Lemma start_context : forall ops e, In e (starts (reach ops)) ->
  exists d0, db0 (e_key e) = Some d0 /\ e_payload e = t_payload d0 /\ e_proj e = t_proj d0.
Proof.
  intros ops e H. destruct (inv_starts _ (reach_inv ops) _ H) as (d0 & A & B & C & _). eauto.
Qed.

Lemma not_early : forall ops e, In e (starts (reach ops)) -> e_occ e < now (reach ops) + 2.
Proof.
  intros ops e H. destruct (inv_starts _ (reach_inv ops) _ H) as (d0 & _ & _ & _ & D). exact D.
Qed.

End Proofs.

(* creation of a first-execution-time-only trigger *)
Lemma create_first_only : forall nw nx f count start n r,
  create nw nx None (Some f) count start = Some (n, r) ->
  match count with Some z => (0 <= z)%Z | None => True end ->
  n = f /\ r = Some 1%Z /\ nw + 60 <= f.
Proof.
  intros nw nx f count start n r. unfold create, count_gt1, count_truthy. simpl.
  destruct (N.ltb_spec f (nw + 60)); simpl; [discriminate|].
  destruct count as [z|]; simpl.
  - destruct (Z.ltb_spec 1 z); simpl; [discriminate|].
    destruct (Z.eqb_spec z 0); simpl; intros E Hz; inversion E; subst; repeat split; auto.
    f_equal. lia.
  - intros E _. inversion E. subst. auto.
Qed.

Lemma create_rejects : forall nw nx pat first count start,
  (pat = None /\ first = None) \/ pat = Some false \/ (exists f, first = Some f /\ f < nw + 60) \/
  (pat = None /\ first <> None /\ count_gt1 count = true) ->
  create nw nx pat first count start = None.
Proof.
  intros nw nx pat first count start H. unfold create.
  destruct H as [[-> ->]|[->|[(f & -> & L)|(-> & F & C)]]]; simpl; auto.
  - destruct first as [f|]; simpl; auto. destruct (f <? nw + 60); simpl; auto.
  - destruct (N.ltb_spec f (nw + 60)); [|lia]. simpl. destruct pat; reflexivity.
  - destruct first as [f|]; [|congruence]. rewrite C. simpl. rewrite orb_true_r. reflexivity.
Qed.

(* ---------------- the property fails when names are ambiguous ----------------
   A private trigger of project 1 and a PUBLIC trigger of project 0 share the name 0.  get_cron_trigger(name)
   under project 1's context may return the public row (it is visible): the conditional UPDATE then hits the
   other project's row.  Witness: rows enumerated public-first (what sqlite does on the real code). *)
Definition amb_rows : list (nat * trig) :=
  [(0%nat, mkTrig 0 1 false 1 100020 None); (1%nat, mkTrig 0 0 true 2 100020 (Some 1%Z))].
Definition amb_keys : list nat := [1%nat; 0%nat].
Definition amb_nxt (_ : nat) (t : N) : N := (t / 60 + 1) * 60.

Lemma amb_nxt_gt : forall k t, t < amb_nxt k t.
Proof.
  intros. unfold amb_nxt. pose proof (N.div_mod t 60). pose proof (N.mod_lt t 60). lia.
Qed.

Lemma amb_covers : covers amb_keys (db_of amb_rows).
Proof.
  intros k t. unfold amb_rows, amb_keys, db_of, upd.
  destruct k as [|[|k]]; simpl; intros; auto. discriminate.
Qed.

(* one processor, no crash: occurrence 100020 of trigger 0 is started twice *)
Lemma once_per_occurrence_refuted_ambiguous_names :
  exists keys nxt t0 db0 ops,
    (forall k t, t < nxt k t) /\ covers keys db0 /\ Forall no_loss_op ops /\
    ~ NoDup (map occ_of (starts (run true true true keys nxt (init t0 db0) ops))).
Proof.
  exists amb_keys, amb_nxt, 100019, (db_of amb_rows),
    [Read 0; Adv 0 0; Start 0; Adv 0 1; Start 0; Tick 60; Read 0; Adv 0 0; Start 0].
  split; [exact amb_nxt_gt|]. split; [exact amb_covers|]. split.
  - repeat constructor.
  - vm_compute. intro H. inversion H as [|x l Hn Hr]. apply Hn. right. left. reflexivity.
Qed.

(* the public trigger has count 1 and is started twice (its count was overwritten through the other row) *)
Lemma count_bound_refuted_ambiguous_names :
  exists keys nxt t0 db0 ops k d0,
    (forall k t, t < nxt k t) /\ covers keys db0 /\ db0 k = Some d0 /\ t_rem d0 = Some 1%Z /\
    (2 <= count_key k (map occ_of (starts (run true true true keys nxt (init t0 db0) ops))))%nat.
Proof.
  exists amb_keys, amb_nxt, 100019, (db_of amb_rows),
    [Read 0; Adv 0 0; Start 0; Crash 0; Tick 60; Read 0; Adv 0 0; Adv 0 1; Start 0; Tick 60; Read 0; Adv 0 0; Adv 0 1; Start 0],
    1%nat, (mkTrig 0 0 true 2 100020 (Some 1%Z)).
  split; [exact amb_nxt_gt|]. split; [exact amb_covers|]. repeat split.
  vm_compute. lia.
Qed.

(* ---------------- the property fails when a lost write still reports 1 ----------------
   Two processors have read the same due trigger and are both inside their database call (both have SELECTed the
   row) before either writes.  Row addressed by id, names unambiguous (a single row). *)
Definition race_nxt := amb_nxt.
Definition race_keys : list nat := [0%nat].
Definition race_ops : list op := [Read 0; Read 1; Sel 0 0; Sel 1 0; Wr 1; Start 1; Wr 0; Start 0].

Lemma race_covers : forall t, covers race_keys (db_of [(0%nat, t)]).
Proof. intros t k d. destruct k; simpl; intros; auto. discriminate. Qed.

Lemma race_unamb : forall t, unamb (db_of [(0%nat, t)]).
Proof. intros t k1 k2 a b. destruct k1, k2; simpl; intros; auto; discriminate. Qed.

(* delete_cron_trigger does not return the row count of its DELETE (delete_reports_rowcount = false): the LAST
   occurrence of a trigger (count 1 = also a first-execution-time-only trigger) is started by both processors *)
Lemma last_occurrence_twice_when_delete_not_rowcount :
  exists keys nxt t0 db0 ops k d0,
    (forall k t, t < nxt k t) /\ covers keys db0 /\ unamb db0 /\ Forall no_loss_op ops /\
    db0 k = Some d0 /\ t_rem d0 = Some 1%Z /\
    let s := run false false true keys nxt (init t0 db0) ops in
    ~ NoDup (map occ_of (starts s)) /\ (2 <= count_key k (map occ_of (starts s)))%nat /\ db s k = None.
Proof.
  exists race_keys, race_nxt, 100019, (db_of [(0%nat, mkTrig 0 0 false 1 100020 (Some 1%Z))]), race_ops,
    0%nat, (mkTrig 0 0 false 1 100020 (Some 1%Z)).
  split; [exact amb_nxt_gt|]. split; [apply race_covers|]. split; [apply race_unamb|]. split; [repeat constructor|].
  split; [reflexivity|]. split; [reflexivity|]. vm_compute. split; [|split; [lia|reflexivity]].
  intro H. inversion H as [|x l Hn Hr]. apply Hn. left. reflexivity.
Qed.

(* update_cron_trigger reports 1 although its conditional UPDATE matched no row (update_reports_match = false):
   an occurrence that is not the last one is started by both processors, and a trigger with count 2 fires 3 times *)
Lemma occurrence_twice_when_update_not_matched :
  exists keys nxt t0 db0 ops k d0,
    (forall k t, t < nxt k t) /\ covers keys db0 /\ unamb db0 /\ Forall no_loss_op ops /\
    db0 k = Some d0 /\ t_rem d0 = Some 2%Z /\
    let s := run false true false keys nxt (init t0 db0) ops in
    ~ NoDup (map occ_of (starts s)) /\ (3 <= count_key k (map occ_of (starts s)))%nat /\ db s k = None.
Proof.
  exists race_keys, race_nxt, 100019, (db_of [(0%nat, mkTrig 0 0 false 1 100020 (Some 2%Z))]),
    (race_ops ++ [Tick 60; Read 0; Adv 0 0; Start 0]),
    0%nat, (mkTrig 0 0 false 1 100020 (Some 2%Z)).
  split; [exact amb_nxt_gt|]. split; [apply race_covers|]. split; [apply race_unamb|]. split; [repeat constructor|].
  split; [reflexivity|]. split; [reflexivity|]. vm_compute. split; [|split; [lia|reflexivity]].
  intro H. inversion H as [|x l Hn Hr]. inversion Hr as [|x2 l2 Hn2 Hr2]. apply Hn2. left. reflexivity.
Qed.

(* the same two schedules are harmless when the writes report what they did *)
Example race_schedules_ok_when_reported :
  map occ_of (starts (run false true true race_keys race_nxt
                        (init 100019 (db_of [(0%nat, mkTrig 0 0 false 1 100020 (Some 1%Z))])) race_ops)) = [(0%nat, 100020)] /\
  map occ_of (starts (run false true true race_keys race_nxt
                        (init 100019 (db_of [(0%nat, mkTrig 0 0 false 1 100020 (Some 2%Z))]))
                        (race_ops ++ [Tick 60; Read 0; Adv 0 0; Start 0]))) = [(0%nat, 100080); (0%nat, 100020)].
Proof. vm_compute. split; reflexivity. Qed.
