(* Proofs about Model/SchedLegacy.v (legacy scheduler, `processing` flag):
   not early, only committed calls run, at most once (unconditionally), and the
   refutation of crash recovery (a captured call of a dead process is stuck for ever). *)
From Coq Require Import List NArith Bool Arith Lia ZifyBool ZifyNat ZifyN Permutation.
Require Import Mistral.Model.Sched Mistral.Model.SchedLegacy Mistral.Proofs.SchedLists.
Import ListNotations.
Open Scope N_scope.

(* ---- store operations ---- *)

Lemma lmatches_spec : forall j r, lmatches j r = true <-> lid r = j /\ lproc r = false.
Proof.
  intros. unfold lmatches. rewrite andb_true_iff, Nat.eqb_eq, negb_true_iff. tauto.
Qed.

Lemma lcas_some : forall s j s', lcas s j = Some s' ->
  (exists r, In r s /\ lid r = j /\ lproc r = false) /\
  s' = map (fun r => if lmatches j r then mkLRow (lid r) (lexec r) true (lkey r) else r) s.
Proof.
  unfold lcas. intros s j s' H. destruct (existsb (lmatches j) s) eqn:E; try discriminate.
  inversion H; subst. split; auto.
  apply existsb_exists in E. destruct E as [r [Hr Hm]]. apply lmatches_spec in Hm. exists r. tauto.
Qed.

Lemma lcas_ids : forall s j s', lcas s j = Some s' -> map lid s' = map lid s.
Proof.
  intros s j s' H. apply lcas_some in H. destruct H as [_ H]. subst.
  rewrite map_map. apply map_ext. intros r. destruct (lmatches j r); auto.
Qed.

Lemma lcas_In : forall s j s' r', lcas s j = Some s' -> In r' s' ->
  exists r, In r s /\ lid r' = lid r /\ lexec r' = lexec r /\
            ((r' = r /\ ~ (lid r = j /\ lproc r = false)) \/ (lid r = j /\ lproc r' = true)).
Proof.
  intros s j s' r' H Hin. apply lcas_some in H. destruct H as [_ H]. subst.
  apply in_map_iff in Hin. destruct Hin as [r [Hr Hin]]. exists r. split; auto.
  destruct (lmatches j r) eqn:E; subst; simpl.
  - apply lmatches_spec in E. intuition.
  - repeat split; auto. left. split; auto. intro X. apply lmatches_spec in X. congruence.
Qed.

Lemma leligible_spec : forall t r, leligible t r = true <-> lexec r <= t /\ lproc r = false.
Proof.
  intros. unfold leligible. rewrite andb_true_iff, N.ltb_lt, negb_true_iff. split; intros [H1 H2]; split; auto; lia.
Qed.

Lemma lcandidates_In : forall b t ord s r, In r (lcandidates b t ord s) -> In r s /\ leligible t r = true.
Proof.
  unfold lcandidates. intros b t ord s r H. apply In_take in H. apply In_isort in H.
  apply filter_In in H. auto.
Qed.

Lemma ltx_rows_In : forall tx p r, In r (ltx_rows tx p) <-> In (tx, r) p.
Proof.
  intros. unfold ltx_rows. rewrite in_map_iff. split.
  - intros [[t r'] [H1 H2]]. simpl in H1. subst. apply filter_In in H2. destruct H2 as [H2 H3].
    simpl in H3. apply Nat.eqb_eq in H3. subst. auto.
  - intros H. exists (tx, r). split; auto. apply filter_In. split; auto. simpl. apply Nat.eqb_refl.
Qed.

Lemma ltx_others_In : forall tx p t r, In (t, r) (ltx_others tx p) <-> In (t, r) p /\ t <> tx.
Proof.
  intros. unfold ltx_others. rewrite filter_In. simpl. rewrite negb_true_iff, Nat.eqb_neq. tauto.
Qed.

Lemma NoDup_map_filter' : forall {A B} (f : A -> B) (g : A -> bool) l, NoDup (map f l) -> NoDup (map f (filter g l)).
Proof.
  intros. eapply Sub_NoDup. 2: exact H. apply Sub_map. apply Sub_filter.
Qed.

Lemma mem_nat_spec : forall j l, mem_nat j l = true <-> In j l.
Proof.
  intros. unfold mem_nat. rewrite existsb_exists. split.
  - intros [x [H1 H2]]. apply Nat.eqb_eq in H2. subst. auto.
  - intros H. exists j. split; auto. apply Nat.eqb_refl.
Qed.

(* ---- history invariant ---- *)

Definition lsched_at (st : lstate) (j : jid) (e : N) : Prop :=
  exists s d, In (mkJ j s d) (ljobs st) /\ e = s + d.
Definition ldue (st : lstate) (j : jid) : Prop :=
  exists s d, In (mkJ j s d) (ljobs st) /\ s + d <= lnow st.
Definition lready (st : lstate) (j : jid) : Prop := In j (lcommitted st) /\ ldue st j.

Record lgood (st : lstate) : Prop := mkLGood {
  lg_jobs : map jj (ljobs st) = seq 0 (lnext st);
  lg_store_sched : forall r, In r (lstore st) -> lsched_at st (lid r) (lexec r);
  lg_pend_sched : forall tx r, In (tx, r) (lpend st) -> lsched_at st (lid r) (lexec r);
  lg_thr : forall t j, In t (lthreads st) -> In j (tsel t) \/ In j (ttodo t) -> lready st j;
  lg_log : forall e, In e (llog st) ->
           In (ej e) (lcommitted st) /\ exists s d, In (mkJ (ej e) s d) (ljobs st) /\ s + d <= et e;
  lg_store_comm : forall r, In r (lstore st) -> In (lid r) (lcommitted st);
  lg_pend_fresh : forall tx r, In (tx, r) (lpend st) ->
           ~ In (lid r) (lcommitted st) /\ ~ In (lid r) (lrolled st) /\ (lid r < lnext st)%nat;
  lg_ids : forall j, In j (lcommitted st) \/ In j (lrolled st) -> (j < lnext st)%nat;
  lg_nodup_store : NoDup (map lid (lstore st));
  lg_nodup_pend : NoDup (map (fun p => lid (snd p)) (lpend st));
  lg_disj : forall j, In j (lrolled st) -> ~ In j (lcommitted st)
}.

Lemma lgood_init : lgood linit.
Proof. constructor; simpl; try (intros; tauto); try constructor. Qed.

Ltac lgsimpl := unfold lready, ldue, lsched_at in *; simpl in *.

Lemma lgood_step : forall b st s, lgood st -> lgood (lstep b st s).
Proof.
  intros b st s G. destruct G.
  destruct s; simpl.
  - (* LTick *)
    constructor; lgsimpl; auto.
    intros t j Ht Hj. destruct (lg_thr0 t j Ht Hj) as [Hc [s [dd [H1 H2]]]]. split; auto. exists s, dd. split; auto. lia.
  - (* LPersist *)
    constructor; lgsimpl.
    + change (0%nat :: seq 1 (lnext st)) with (seq 0 (S (lnext st))). rewrite map_app, lg_jobs0, seq_S. reflexivity.
    + intros r Hr. destruct (lg_store_sched0 r Hr) as [s [dd [H1 H2]]]. exists s, dd. rewrite in_app_iff. auto.
    + intros tx0 r Hr. apply in_app_iff in Hr. destruct Hr as [Hr|Hr].
      * destruct (lg_pend_sched0 tx0 r Hr) as [s [dd [H1 H2]]]. exists s, dd. rewrite in_app_iff. auto.
      * simpl in Hr. destruct Hr as [Hr|[]]. inversion Hr; subst. simpl.
        exists (lnow st), delay. rewrite in_app_iff. simpl. auto.
    + intros t j Ht Hj. destruct (lg_thr0 t j Ht Hj) as [Hc [s [dd [H1 H2]]]]. split; auto.
      exists s, dd. rewrite in_app_iff. auto.
    + intros e Hin. destruct (lg_log0 e Hin) as [Hc [s [dd [H1 H2]]]]. split; auto. exists s, dd. rewrite in_app_iff. auto.
    + auto.
    + intros tx0 r Hr. apply in_app_iff in Hr. destruct Hr as [Hr|Hr].
      * destruct (lg_pend_fresh0 tx0 r Hr) as [H1 [H2 H3]]. repeat split; auto.
      * simpl in Hr. destruct Hr as [Hr|[]]. inversion Hr; subst. simpl.
        repeat split; try lia; intro X; [assert (lnext st < lnext st)%nat by (apply lg_ids0; auto)
                                       | assert (lnext st < lnext st)%nat by (apply lg_ids0; auto)]; lia.
    + intros j Hj. apply lg_ids0 in Hj. lia.
    + auto.
    + rewrite map_app. simpl. apply NoDup_app_intro; auto.
      * constructor; auto. constructor.
      * intros x Hx [Hy|[]]. subst. apply in_map_iff in Hx. destruct Hx as [[t r] [E Hin]]. simpl in E.
        destruct (lg_pend_fresh0 t r Hin) as [_ [_ H3]]. lia.
    + auto.
  - (* LCommit *)
    constructor; lgsimpl; auto.
    + intros r Hr. apply in_app_iff in Hr. destruct Hr as [Hr|Hr]; auto.
      apply ltx_rows_In in Hr. eauto.
    + intros t r Hr. apply ltx_others_In in Hr. destruct Hr. eauto.
    + intros t j Ht Hj. destruct (lg_thr0 t j Ht Hj) as [Hc Hd]. split; auto. rewrite in_app_iff. auto.
    + intros e Hin. destruct (lg_log0 e Hin) as [Hc Hd]. split; auto. rewrite in_app_iff. auto.
    + intros r Hr. rewrite in_app_iff. apply in_app_iff in Hr. destruct Hr as [Hr|Hr]; auto.
      right. apply in_map. auto.
    + intros t r Hr. apply ltx_others_In in Hr. destruct Hr as [Hr Hne].
      destruct (lg_pend_fresh0 t r Hr) as [H1 [H2 H3]]. repeat split; auto.
      rewrite in_app_iff. intros [X|X]; auto.
      apply in_map_iff in X. destruct X as [r' [E Hr']]. apply ltx_rows_In in Hr'.
      assert ((t, r) = (tx, r')) as Q.
      { eapply (NoDup_map_inj (fun p => lid (snd p))); eauto. }
      inversion Q; subst; auto.
    + intros j [Hj|Hj]; auto. apply in_app_iff in Hj. destruct Hj as [Hj|Hj]; auto.
      apply in_map_iff in Hj. destruct Hj as [r [E Hr]]. apply ltx_rows_In in Hr. subst.
      destruct (lg_pend_fresh0 tx r Hr) as [_ [_ H3]]. auto.
    + rewrite map_app. apply NoDup_app_intro; auto.
      * unfold ltx_rows. rewrite map_map. apply NoDup_map_filter'. auto.
      * intros x Hx Hy. apply in_map_iff in Hx. destruct Hx as [r [E Hr]]. apply lg_store_comm0 in Hr.
        apply in_map_iff in Hy. destruct Hy as [r' [E' Hr']]. apply ltx_rows_In in Hr'.
        destruct (lg_pend_fresh0 tx r' Hr') as [H1 _]. congruence.
    + unfold ltx_others. apply NoDup_map_filter'. auto.
    + intros j Hj. rewrite in_app_iff. intros [X|X]. eapply lg_disj0; eauto.
      apply in_map_iff in X. destruct X as [r [E Hr]]. apply ltx_rows_In in Hr. subst.
      destruct (lg_pend_fresh0 tx r Hr) as [_ [H2 _]]. auto.
  - (* LRollback *)
    constructor; lgsimpl; auto.
    + intros t r Hr. apply ltx_others_In in Hr. destruct Hr. eauto.
    + intros t r Hr. apply ltx_others_In in Hr. destruct Hr as [Hr Hne].
      destruct (lg_pend_fresh0 t r Hr) as [H1 [H2 H3]]. repeat split; auto.
      rewrite in_app_iff. intros [X|X]; auto.
      apply in_map_iff in X. destruct X as [r' [E Hr']]. apply ltx_rows_In in Hr'.
      assert ((t, r) = (tx, r')) as Q.
      { eapply (NoDup_map_inj (fun p => lid (snd p))); eauto. }
      inversion Q; subst; auto.
    + intros j [Hj|Hj]; auto. apply in_app_iff in Hj. destruct Hj as [Hj|Hj]; auto.
      apply in_map_iff in Hj. destruct Hj as [r [E Hr]]. apply ltx_rows_In in Hr. subst.
      destruct (lg_pend_fresh0 tx r Hr) as [_ [_ H3]]. auto.
    + unfold ltx_others. apply NoDup_map_filter'. auto.
    + intros j Hj. apply in_app_iff in Hj. destruct Hj as [Hj|Hj]; auto.
      apply in_map_iff in Hj. destruct Hj as [r [E Hr]]. apply ltx_rows_In in Hr. subst.
      destruct (lg_pend_fresh0 tx r Hr) as [H1 _]. auto.
  - (* LSelect *)
    destruct (existsb (fun t => Nat.eqb (ti t) i) (lthreads st)); [constructor; auto|].
    destruct (lcandidates b (lnow st) ord (lstore st)) as [|r0 cs] eqn:C; [constructor; auto|].
    constructor; lgsimpl; auto.
    intros t j Ht Hj. apply in_app_iff in Ht. destruct Ht as [Ht|Ht]; eauto.
    simpl in Ht. destruct Ht as [Ht|[]]. subst t.
    assert (In j (map lid (r0 :: cs))) as Hj'. { destruct Hj as [Hj|Hj]; [exact Hj|simpl in Hj; tauto]. }
    clear Hj. apply in_map_iff in Hj'. destruct Hj' as [r [Ej Hr]]. subst j.
    rewrite <- C in Hr. apply lcandidates_In in Hr. destruct Hr as [Hr He].
    apply leligible_spec in He. destruct He as [He _].
    split. apply lg_store_comm0; auto.
    destruct (lg_store_sched0 r Hr) as [s [dd [H1 H2]]]. exists s, dd. split; auto. lia.
  - (* LCapture *)
    destruct (nth_error (lthreads st) k) as [[i [|j rest] cap todo]|] eqn:E; try (constructor; auto; fail).
    pose proof (nth_error_In _ _ E) as Ht0.
    assert (lready st j) as Hrdy. { eapply lg_thr0; eauto. simpl. auto. }
    assert (forall t j0, In t (set_nth k (mkLT i rest (cap ++ [j]) (todo ++ [j])) (lthreads st)) \/
                         In t (set_nth k (mkLT i rest cap todo) (lthreads st)) \/
                         In t (remove_nth k (lthreads st)) ->
                         In j0 (tsel t) \/ In j0 (ttodo t) -> lready st j0) as TH.
    { intros t j0 Ht Hj0.
      destruct Ht as [Ht|[Ht|Ht]].
      - apply In_set_nth in Ht. destruct Ht as [Ht|Ht]; eauto. subst t. simpl in Hj0.
        rewrite in_app_iff in Hj0. simpl in Hj0. destruct Hj0 as [Hj0|[Hj0|[Hj0|[]]]].
        + eapply lg_thr0; eauto. simpl. auto.
        + eapply lg_thr0; eauto.
        + subst j0. auto.
      - apply In_set_nth in Ht. destruct Ht as [Ht|Ht]; eauto. subst t. simpl in Hj0.
        destruct Hj0 as [Hj0|Hj0]; eapply lg_thr0; eauto; simpl; auto.
      - apply In_remove_nth in Ht. eauto. }
    destruct (lcas (lstore st) j) as [s'|] eqn:C.
    + pose proof (lcas_ids _ _ _ C) as Hids.
      constructor; lgsimpl; auto.
      * intros r Hr. destruct (lcas_In _ _ _ _ C Hr) as [r1 [H1 [H2 [H3 _]]]]. rewrite H2, H3. auto.
      * intros t j0 Ht. apply TH. auto.
      * intros r Hr. destruct (lcas_In _ _ _ _ C Hr) as [r1 [H1 [H2 _]]]. rewrite H2. auto.
      * rewrite Hids. auto.
    + constructor; lgsimpl; auto.
      intros t j0 Ht. apply TH. destruct rest; destruct cap; auto.
  - (* LInvoke *)
    destruct (nth_error (lthreads st) k) as [[i [|j0 rest0] cap [|j rest]]|] eqn:E; try (constructor; auto; fail).
    pose proof (nth_error_In _ _ E) as Ht0.
    assert (lready st j) as Hrdy. { eapply lg_thr0; eauto. simpl. auto. }
    constructor; lgsimpl; auto.
    + intros t j0 Ht Hj0. apply In_set_nth in Ht. destruct Ht as [Ht|Ht]; eauto. subst t. simpl in Hj0.
      destruct Hj0 as [[]|Hj0]. eapply lg_thr0; eauto. simpl. auto.
    + intros e Hin. apply in_app_iff in Hin. destruct Hin as [Hin|Hin]; auto.
      simpl in Hin. destruct Hin as [Hin|[]]. subst e. simpl. exact Hrdy.
  - (* LDelete *)
    destruct (nth_error (lthreads st) k) as [[i [|j0 rest0] cap [|j rest]]|] eqn:E; try (constructor; auto; fail).
    constructor; lgsimpl; auto.
    + intros r Hr. apply filter_In in Hr. destruct Hr. auto.
    + intros t j0 Ht. apply In_remove_nth in Ht. eauto.
    + intros r Hr. apply filter_In in Hr. destruct Hr. auto.
    + apply NoDup_map_filter'. auto.
  - (* LCrash *)
    constructor; lgsimpl; auto.
    intros t j Ht. apply filter_In in Ht. destruct Ht. eauto.
  - (* LQuery *)
    constructor; lgsimpl; auto.
Qed.

Lemma lgood_run : forall b steps st, lgood st -> lgood (lrun b steps st).
Proof.
  unfold lrun. induction steps; simpl; intros st G; auto. apply IHsteps. apply lgood_step. auto.
Qed.

Lemma legacy_not_early : forall b steps e, In e (llog (lrun b steps linit)) ->
  exists s d, In (mkJ (ej e) s d) (ljobs (lrun b steps linit)) /\ s + d <= et e.
Proof.
  intros b steps e H. pose proof (lgood_run b steps linit lgood_init) as G.
  destruct (lg_log _ G e H) as [_ X]. exact X.
Qed.

Lemma legacy_only_committed : forall b steps e, In e (llog (lrun b steps linit)) ->
  In (ej e) (lcommitted (lrun b steps linit)).
Proof.
  intros b steps e H. pose proof (lgood_run b steps linit lgood_init) as G.
  destruct (lg_log _ G e H) as [X _]. exact X.
Qed.

Lemma legacy_rollback_never_runs : forall b steps j, In j (lrolled (lrun b steps linit)) ->
  forall e, In e (llog (lrun b steps linit)) -> ej e <> j.
Proof.
  intros b steps j Hj e He E. pose proof (lgood_run b steps linit lgood_init) as G.
  apply (lg_disj _ G j Hj). subst j. destruct (lg_log _ G e He) as [X _]. exact X.
Qed.

Lemma ljobs_unique : forall st j s d s' d', lgood st ->
  In (mkJ j s d) (ljobs st) -> In (mkJ j s' d') (ljobs st) -> s = s' /\ d = d'.
Proof.
  intros st j s d s' d' G H1 H2.
  assert (mkJ j s d = mkJ j s' d') as E.
  { eapply (NoDup_map_inj jj); eauto. rewrite (lg_jobs _ G). apply seq_NoDup. }
  inversion E; auto.
Qed.

(* ---- at most once, unconditionally ---- *)

Record lonce (S : list lrow) (T : list jid) (L : list entry) : Prop := mkLOnce {
  lo_uniq : NoDup T;
  lo_flag : forall j r, In j T \/ In j (map ej L) -> In r S -> lid r = j -> lproc r = true;
  lo_done : forall e, In e L -> ~ In (ej e) T;
  lo_log : NoDup (map ej L)
}.

Lemma lonce_perm : forall S T T' L, Permutation T T' -> lonce S T L -> lonce S T' L.
Proof.
  intros S T T' L P [O1 O2 O3 O4]. constructor; auto.
  - eapply Permutation_NoDup; eauto.
  - intros j r [Hj|Hj]; eauto. apply O2. left. eapply Permutation_in. apply Permutation_sym. exact P. exact Hj.
  - intros e He X. apply (O3 e He). eapply Permutation_in. apply Permutation_sym. exact P. exact X.
Qed.

Lemma lonce_capture : forall S T L j S', lonce S T L -> lcas S j = Some S' -> lonce S' (j :: T) L.
Proof.
  intros S T L j S' [O1 O2 O3 O4] C.
  destruct (lcas_some _ _ _ C) as [[r0 [Hr0 [Hj0 Hp0]]] _].
  assert (~ In j T /\ ~ In j (map ej L)) as [N1 N2].
  { split; intro X; assert (lproc r0 = true) by (eapply O2; eauto); congruence. }
  constructor; auto.
  - constructor; auto.
  - intros j1 r Hj1 Hr Ej. destruct (lcas_In _ _ _ _ C Hr) as [r1 [Hr1 [E1 [_ [[E2 _]|[_ E2]]]]]]; auto.
    subst r1. destruct Hj1 as [[Hj1|Hj1]|Hj1].
    + subst j1. destruct (lproc r) eqn:P; auto. exfalso.
      (* an unmatched row with id j and processing = false cannot exist next to a matched one unless equal; but then it was matched *)
      destruct (lcas_In _ _ _ _ C Hr) as [r2 [Hr2 [_ [_ [[E3 E4]|[_ E4]]]]]]; try congruence.
      subst r2. apply E4. auto.
    + eapply O2; eauto.
    + eapply O2; eauto.
  - intros e He [X|X]. apply N2. rewrite X. apply in_map. auto. eapply O3; eauto.
Qed.

Lemma lonce_invoke : forall S R L j t i, lonce S (j :: R) L -> lonce S R (L ++ [mkE j t i]).
Proof.
  intros S R L j t i [O1 O2 O3 O4]. inversion O1 as [|x l Hnotin Hnd]; subst.
  constructor; auto.
  - intros j1 r Hj1 Hr Ej. apply (O2 j1 r); auto. destruct Hj1 as [Hj1|Hj1]. left; simpl; auto.
    rewrite map_app, in_app_iff in Hj1. simpl in Hj1. destruct Hj1 as [Hj1|[Hj1|[]]]; auto. left; simpl; auto.
  - intros e He X. apply in_app_iff in He. destruct He as [He|[He|[]]].
    + apply (O3 e He). simpl. auto.
    + subst e. simpl in X. auto.
  - rewrite map_app. simpl. apply NoDup_app_intro; auto.
    + constructor; auto. constructor.
    + intros x Hx [Hy|[]]. subst x. apply in_map_iff in Hx. destruct Hx as [e [E He]].
      apply (O3 e He). rewrite E. simpl. auto.
Qed.

Lemma lonce_rows : forall S S' T L, lonce S T L -> (forall r, In r S' -> In r S) -> lonce S' T L.
Proof.
  intros S S' T L [O1 O2 O3 O4] Hs. constructor; auto. intros j r Hj Hr. apply O2; auto.
Qed.

Lemma lonce_drop : forall S T T' L, lonce S T L -> Sub T' T -> lonce S T' L.
Proof.
  intros S T T' L [O1 O2 O3 O4] Hs. constructor; auto.
  - eapply Sub_NoDup; eauto.
  - intros j r [Hj|Hj]; eauto. apply O2. left. eapply Sub_In; eauto.
  - intros e He X. apply (O3 e He). eapply Sub_In; eauto.
Qed.

Lemma lonce_grow : forall S T L rs, lonce S T L ->
  (forall r, In r rs -> ~ In (lid r) T /\ ~ In (lid r) (map ej L)) -> lonce (S ++ rs) T L.
Proof.
  intros S T L rs [O1 O2 O3 O4] Hnew. constructor; auto.
  intros j r Hj Hr Ej. apply in_app_iff in Hr. destruct Hr as [Hr|Hr]; eauto.
  exfalso. destruct (Hnew r Hr) as [N1 N2]. subst j. tauto.
Qed.

Notation FT := (flat_map ttodo).

Lemma perm_FT_nth : forall k (P : list lthread) p, nth_error P k = Some p ->
  Permutation (FT P) (ttodo p ++ FT (remove_nth k P)).
Proof.
  intros k P p H. apply perm_nth in H. apply (Permutation_flat_map ttodo) in H. exact H.
Qed.

Lemma perm_FT_set : forall k (P : list lthread) p p', nth_error P k = Some p ->
  Permutation (FT (set_nth k p' P)) (ttodo p' ++ FT (remove_nth k P)).
Proof.
  intros k P p p' H. eapply perm_set_nth with (y := p') in H.
  apply (Permutation_flat_map ttodo) in H. exact H.
Qed.

Definition lonce_inv (st : lstate) : Prop := lonce (lstore st) (FT (lthreads st)) (llog st).

Lemma lonce_step : forall b st s, lgood st -> lonce_inv st -> lonce_inv (lstep b st s).
Proof.
  unfold lonce_inv. intros b st s G O.
  destruct s; simpl; auto.
  - (* LCommit *)
    apply lonce_grow; auto. intros r Hr. apply ltx_rows_In in Hr.
    destruct (lg_pend_fresh _ G tx r Hr) as [X _]. split; intro Y; apply X.
    + apply in_flat_map in Y. destruct Y as [t [Ht Hj]]. eapply (lg_thr _ G); eauto.
    + apply in_map_iff in Y. destruct Y as [e [E He]]. rewrite <- E. apply (lg_log _ G e He).
  - (* LSelect *)
    destruct (existsb (fun t => Nat.eqb (ti t) i) (lthreads st)); auto.
    destruct (lcandidates b (lnow st) ord (lstore st)) as [|r0 cs] eqn:C; auto.
    simpl. rewrite flat_map_app. simpl. rewrite app_nil_r. exact O.
  - (* LCapture *)
    destruct (nth_error (lthreads st) k) as [[i [|j rest] cap todo]|] eqn:E; auto.
    destruct (lcas (lstore st) j) as [s'|] eqn:C; simpl.
    + eapply lonce_perm.
      { apply Permutation_sym. eapply perm_trans. eapply perm_FT_set; eauto. simpl.
        rewrite <- app_assoc. simpl. apply Permutation_sym. apply Permutation_middle. }
      eapply lonce_capture; eauto.
      eapply lonce_perm. 2: exact O. eapply perm_FT_nth in E. exact E.
    + destruct rest; destruct cap; simpl;
        try (eapply lonce_perm; [apply Permutation_sym; eapply perm_FT_set; eauto|];
             simpl; eapply lonce_perm; [|exact O]; eapply perm_FT_nth in E; exact E).
      eapply lonce_drop. exact O. apply Sub_flat_map. apply Sub_remove_nth. auto.
  - (* LInvoke *)
    destruct (nth_error (lthreads st) k) as [[i [|j0 rest0] cap [|j rest]]|] eqn:E; auto.
    simpl. eapply lonce_perm.
    { apply Permutation_sym. eapply perm_FT_set; eauto. }
    simpl. apply lonce_invoke. eapply lonce_perm. 2: exact O. eapply perm_FT_nth in E. exact E.
  - (* LDelete *)
    destruct (nth_error (lthreads st) k) as [[i [|j0 rest0] cap [|j rest]]|] eqn:E; auto.
    simpl. eapply lonce_rows.
    + eapply lonce_drop. exact O. apply Sub_flat_map. apply Sub_remove_nth. auto.
    + intros r Hr. apply filter_In in Hr. tauto.
  - (* LCrash *)
    eapply lonce_drop. exact O. apply Sub_flat_map. apply Sub_filter. auto.
Qed.

Lemma lonce_init : lonce_inv linit.
Proof. unfold lonce_inv. simpl. constructor; simpl; try tauto; constructor. Qed.

Lemma lonce_run : forall b steps st, lgood st -> lonce_inv st -> lonce_inv (lrun b steps st).
Proof.
  unfold lrun. induction steps; simpl; intros st G O; auto.
  apply IHsteps. apply lgood_step; auto. apply lonce_step; auto.
Qed.

Lemma legacy_at_most_once : forall b steps, NoDup (map ej (llog (lrun b steps linit))).
Proof.
  intros b steps. apply (lo_log _ _ _ (lonce_run b steps linit lgood_init lonce_init)).
Qed.

(* ---- crash recovery fails: a call captured by a process that died is stuck for ever ---- *)

Definition stuck (j : jid) (st : lstate) : Prop :=
  (j < lnext st)%nat /\
  (forall tx r, In (tx, r) (lpend st) -> lid r <> j) /\
  (exists r, In r (lstore st) /\ lid r = j) /\
  (forall r, In r (lstore st) -> lid r = j -> lproc r = true) /\
  (forall t, In t (lthreads st) -> ~ In j (tcap t) /\ ~ In j (ttodo t)) /\
  ~ In j (map ej (llog st)).

Lemma stuck_step : forall b j st s, stuck j st -> stuck j (lstep b st s).
Proof.
  intros b j st s [S1 [S2 [S3 [S4 [S5 S6]]]]].
  destruct s; simpl; unfold stuck; simpl.
  - repeat split; auto; apply S5; auto.
  - (* LPersist *)
    repeat split; auto; try (apply S5; auto).
    intros tx0 r Hr. apply in_app_iff in Hr. destruct Hr as [Hr|[Hr|[]]]; eauto.
    inversion Hr; subst. simpl. lia.
  - (* LCommit *)
    repeat split; auto; try (apply S5; auto).
    + intros t r Hr. apply ltx_others_In in Hr. destruct Hr. eauto.
    + destruct S3 as [r [Hr E]]. exists r. rewrite in_app_iff. auto.
    + intros r Hr E. apply in_app_iff in Hr. destruct Hr as [Hr|Hr]; auto.
      apply ltx_rows_In in Hr. exfalso. eapply S2; eauto.
  - (* LRollback *)
    repeat split; auto; try (apply S5; auto).
    intros t r Hr. apply ltx_others_In in Hr. destruct Hr. eauto.
  - (* LSelect *)
    destruct (existsb (fun t => Nat.eqb (ti t) i) (lthreads st)); [repeat split; auto; apply S5; auto|].
    destruct (lcandidates b (lnow st) ord (lstore st)) as [|r0 cs] eqn:C; [repeat split; auto; apply S5; auto|].
    simpl. repeat split; auto.
    + apply in_app_iff in H. destruct H as [H|[H|[]]]. apply S5; auto. subst t. simpl. tauto.
    + apply in_app_iff in H. destruct H as [H|[H|[]]]. apply S5; auto. subst t. simpl. tauto.
  - (* LCapture *)
    destruct (nth_error (lthreads st) k) as [[i [|j1 rest] cap todo]|] eqn:E;
      try (repeat split; auto; apply S5; auto; fail).
    pose proof (nth_error_In _ _ E) as Ht0. destruct (S5 _ Ht0) as [T1 T2]. simpl in T1, T2.
    destruct (lcas (lstore st) j1) as [s'|] eqn:C; simpl.
    + destruct (lcas_some _ _ _ C) as [[r1 [Hr1 [Ej1 Hp1]]] _].
      assert (j1 <> j) as Hne. { intro X. subst j1. assert (lproc r1 = true) by auto. congruence. }
      repeat split; auto.
      * destruct S3 as [r [Hr Er]]. apply lcas_some in C. destruct C as [_ C]. subst s'.
        eexists. split. apply in_map_iff. exists r. split. reflexivity. exact Hr.
        destruct (lmatches j1 r); simpl; auto.
      * intros r Hr Er. destruct (lcas_In _ _ _ _ C Hr) as [r2 [Hr2 [E1 [_ [[E2 _]|[_ E2]]]]]]; auto.
        subst r2. auto.
      * apply In_set_nth in H. destruct H as [H|H]. subst t. simpl. rewrite in_app_iff. simpl. intuition.
        apply S5; auto.
      * apply In_set_nth in H. destruct H as [H|H]. subst t. simpl. rewrite in_app_iff. simpl. intuition.
        apply S5; auto.
    + repeat split; auto.
      * destruct rest; destruct cap; try (apply In_remove_nth in H; apply S5; auto);
          (apply In_set_nth in H; destruct H as [H|H]; [subst t; simpl; auto | apply S5; auto]).
      * destruct rest; destruct cap; try (apply In_remove_nth in H; apply S5; auto);
          (apply In_set_nth in H; destruct H as [H|H]; [subst t; simpl; auto | apply S5; auto]).
  - (* LInvoke *)
    destruct (nth_error (lthreads st) k) as [[i [|j0 rest0] cap [|j1 rest]]|] eqn:E;
      try (repeat split; auto; apply S5; auto; fail).
    pose proof (nth_error_In _ _ E) as Ht0. destruct (S5 _ Ht0) as [T1 T2]. simpl in T1, T2.
    simpl. repeat split; auto.
    + apply In_set_nth in H. destruct H as [H|H]. subst t. simpl. auto. apply S5; auto.
    + apply In_set_nth in H. destruct H as [H|H]. subst t. simpl. tauto. apply S5; auto.
    + rewrite map_app, in_app_iff. simpl. tauto.
  - (* LDelete *)
    destruct (nth_error (lthreads st) k) as [[i [|j0 rest0] cap [|j1 rest]]|] eqn:E;
      try (repeat split; auto; apply S5; auto; fail).
    pose proof (nth_error_In _ _ E) as Ht0. destruct (S5 _ Ht0) as [T1 T2]. simpl in T1, T2.
    simpl. repeat split; auto.
    + destruct S3 as [r [Hr Er]]. exists r. split; auto. apply filter_In. split; auto.
      apply negb_true_iff. destruct (mem_nat (lid r) cap) eqn:M; auto.
      apply mem_nat_spec in M. rewrite Er in M. tauto.
    + intros r Hr. apply filter_In in Hr. destruct Hr. auto.
    + apply In_remove_nth in H. apply S5; auto.
    + apply In_remove_nth in H. apply S5; auto.
  - (* LCrash *)
    repeat split; auto; apply filter_In in H; destruct H; apply S5; auto.
  - (* LQuery *)
    repeat split; auto; apply S5; auto.
Qed.

Lemma stuck_run : forall b j steps st, stuck j st -> stuck j (lrun b steps st).
Proof.
  unfold lrun. induction steps; simpl; intros st S; auto. apply IHsteps. apply stuck_step. auto.
Qed.

Definition legacy_crash_prefix : list lev :=
  [LPersist 0%nat 0 1%nat; LCommit 0%nat; LSelect 0%nat []; LCapture 0%nat; LCrash 0%nat].

Lemma legacy_crash_recovery_refuted :
  exists b pre j,
    let st := lrun b pre linit in
    In j (lcommitted st) /\ ~ In j (map ej (llog st)) /\
    forall post, ~ In j (map ej (llog (lrun b post st))) /\
                 exists r, In r (lstore (lrun b post st)) /\ lid r = j /\ lproc r = true.
Proof.
  exists None, legacy_crash_prefix, 0%nat.
  assert (stuck 0%nat (lrun None legacy_crash_prefix linit)) as S.
  { vm_compute. repeat split; try tauto; try lia.
    - eexists. split. left. reflexivity. reflexivity.
    - intros r [Hr|[]] _. subst r. reflexivity. }
  cbv zeta. split; [vm_compute; auto|]. split; [vm_compute; tauto|].
  intros post. pose proof (stuck_run None 0%nat post _ S) as [_ [_ [[r [Hr Er]] [S4 [_ S6]]]]].
  split; auto. exists r. auto.
Qed.
