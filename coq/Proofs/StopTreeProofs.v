(* Proofs about Model/StopTree.v (property C11 tree clauses, property C10 pause clause). *)
From Coq Require Import List Bool Arith Lia.
Require Import Mistral.Gen.States Mistral.Model.StopTree.
Import ListNotations.

(* ------------------------------------------------------------------ *)
(* induction over the execution tree                                    *)
Section NodeInd.
  Variable P : node -> Prop.
  Hypothesis H : forall st info sent ts,
    Forall (fun t : task => Forall P (snd t)) ts -> P (mkN st info sent ts).
  Fixpoint node_ind' (n : node) : P n :=
    match n with
    | mkN st info sent ts =>
      H st info sent ts
        ((fix F (l : list task) : Forall (fun t : task => Forall P (snd t)) l :=
            match l with
            | [] => Forall_nil _
            | t :: r =>
              Forall_cons t
                (match t as t0 return Forall P (snd t0) with
                 | (_, subs) =>
                   (fix G (l2 : list node) : Forall P l2 :=
                      match l2 with
                      | [] => Forall_nil _
                      | c :: r2 => Forall_cons c (node_ind' c) (G r2)
                      end) subs
                 end) (F r)
            end) ts)
    end.
End NodeInd.

(* ------------------------------------------------------------------ *)
(* generic list facts                                                   *)
Lemma upd_length {A} n (f : A -> A) l : length (upd n f l) = length l.
Proof. revert n; induction l as [|x r IH]; intros [|n]; simpl; auto. Qed.

Lemma nth_error_upd {A} n (f : A -> A) l m :
  nth_error (upd n f l) m = if n =? m then option_map f (nth_error l m) else nth_error l m.
Proof.
  revert n m; induction l as [|x r IH]; intros n m.
  - destruct n, m; simpl; try reflexivity; destruct (n =? m); reflexivity.
  - destruct n, m; simpl; try reflexivity. apply IH.
Qed.

Lemma upd_same {A} n (f : A -> A) l x : nth_error l n = Some x -> f x = x -> upd n f l = l.
Proof.
  revert n; induction l as [|y r IH]; intros [|n] Hn Hf; simpl in *; try discriminate; auto.
  - inversion Hn; subst. now rewrite Hf.
  - f_equal. now apply IH.
Qed.

Lemma upd_upd {A} n (f g : A -> A) l : upd n f (upd n g l) = upd n (fun x => f (g x)) l.
Proof. revert n; induction l as [|y r IH]; intros [|n]; simpl; auto. now rewrite IH. Qed.

Lemma upd_ext {A} n (f g : A -> A) l : (forall x, f x = g x) -> upd n f l = upd n g l.
Proof. intro H. revert n; induction l as [|y r IH]; intros [|n]; simpl; auto; [now rewrite H|now rewrite IH]. Qed.

Lemma map_upd {A B} (F : A -> B) n (g : A -> A) l x :
  nth_error l n = Some x -> F (g x) = F x -> map F (upd n g l) = map F l.
Proof.
  revert n; induction l as [|y r IH]; intros [|n] Hn HF; simpl in *; try discriminate; auto.
  - inversion Hn; subst. now rewrite HF.
  - f_equal. now apply IH.
Qed.

Lemma flat_map_upd {A B} (F : A -> list B) n (g : A -> A) l x :
  nth_error l n = Some x -> F (g x) = F x -> flat_map F (upd n g l) = flat_map F l.
Proof.
  revert n; induction l as [|y r IH]; intros [|n] Hn HF; simpl in *; try discriminate; auto.
  - inversion Hn; subst. now rewrite HF.
  - f_equal. now apply IH.
Qed.

Lemma Forall2_refl {A} (R : A -> A -> Prop) (Hr : forall x, R x x) l : Forall2 R l l.
Proof. induction l; constructor; auto. Qed.

Lemma Forall2_flat_map_upd {A B} (R : B -> B -> Prop) (Hr : forall x, R x x) (F : A -> list B) n (g : A -> A) l x :
  nth_error l n = Some x -> Forall2 R (F x) (F (g x)) -> Forall2 R (flat_map F l) (flat_map F (upd n g l)).
Proof.
  revert n; induction l as [|y r IH]; intros [|n] Hn HF; simpl in *; try discriminate.
  - inversion Hn; subst. apply Forall2_app; [exact HF|apply Forall2_refl; exact Hr].
  - apply Forall2_app; [apply Forall2_refl; exact Hr|now apply IH].
Qed.

Lemma Forall2_flat_map {A B} (R : B -> B -> Prop) (F G : A -> list B) l :
  Forall (fun x => Forall2 R (F x) (G x)) l -> Forall2 R (flat_map F l) (flat_map G l).
Proof. induction 1; simpl; [constructor|now apply Forall2_app]. Qed.

Lemma Forall2_trans {A} (R : A -> A -> Prop) (Ht : forall a b c, R a b -> R b c -> R a c) l1 :
  forall l2 l3, Forall2 R l1 l2 -> Forall2 R l2 l3 -> Forall2 R l1 l3.
Proof.
  induction l1; intros l2 l3 H1 H2; inversion H1; subst; inversion H2; subst; constructor; eauto.
Qed.

Lemma flat_map_map {A B C} (f : A -> B) (g : B -> list C) l : flat_map g (map f l) = flat_map (fun x => g (f x)) l.
Proof. induction l; simpl; auto. now rewrite IHl. Qed.

Lemma map_flat_map {A B C} (f : B -> C) (g : A -> list B) l : map f (flat_map g l) = flat_map (fun x => map f (g x)) l.
Proof. induction l; simpl; auto. now rewrite map_app, IHl. Qed.

Lemma flat_map_ext_Forall {A B} (f g : A -> list B) l : Forall (fun x => f x = g x) l -> flat_map f l = flat_map g l.
Proof. induction 1; simpl; auto. now rewrite H, IHForall. Qed.

Lemma map_ext_Forall {A B} (f g : A -> B) l : Forall (fun x => f x = g x) l -> map f l = map g l.
Proof. induction 1; simpl; auto. now rewrite H, IHForall. Qed.

Lemma forallb_Forall {A} (f : A -> bool) l : forallb f l = true <-> Forall (fun x => f x = true) l.
Proof.
  induction l; simpl; [split; auto|]. rewrite andb_true_iff, IHl. split.
  - intros [H1 H2]; constructor; auto.
  - intro H; inversion H; auto.
Qed.

(* ------------------------------------------------------------------ *)
(* the rows of a tree, root first: (is a sub-workflow, state, state_info tag, results sent) *)
Definition row := (bool * state * nat * nat)%type.

Fixpoint rows (child : bool) (n : node) : list row :=
  match n with
  | mkN st info sent ts => (child, st, info, sent) :: flat_map (fun t : task => flat_map (rows true) (snd t)) ts
  end.

Definition r_child (r : row) : bool := fst (fst (fst r)).
Definition r_state (r : row) : state := snd (fst (fst r)).
Definition r_info (r : row) : nat := snd (fst r).
Definition r_sent (r : row) : nat := snd r.
Definition r_fin (r : row) : bool := is_completed (r_state r).

(* the tree without its workflow rows: task states, kinds and the shape *)
Fixpoint skeleton (n : node) : node :=
  match n with
  | mkN _ _ _ ts => mkN RUNNING 0 0 (map (fun t : task => let '(s, k, subs) := t in (s, k, map skeleton subs)) ts)
  end.

Lemma all_nodes_rows P c n : all_nodes P n = true -> forall Q : row -> bool,
  (forall c0 x, P x = true -> Q (c0, nstate x, ninfo x, nsent x) = true) -> forallb Q (rows c n) = true.
Proof.
  revert c. induction n as [st info sent ts IH] using node_ind'. intros c Ha Q HQ.
  simpl in *. apply andb_true_iff in Ha. destruct Ha as [Hp Hs].
  apply andb_true_iff. split; [apply (HQ c (mkN st info sent ts) Hp)|].
  rewrite forallb_forall. intros r Hr. apply in_flat_map in Hr. destruct Hr as (t & Ht & Hr).
  apply in_flat_map in Hr. destruct Hr as (x & Hx & Hr).
  rewrite Forall_forall in IH. specialize (IH t Ht). rewrite Forall_forall in IH. specialize (IH x Hx).
  rewrite forallb_forall in Hs. specialize (Hs t Ht). destruct t as [[s k] subs]. simpl in *.
  rewrite forallb_forall in Hs. specialize (Hs x Hx).
  specialize (IH true Hs Q HQ). rewrite forallb_forall in IH. auto.
Qed.

(* ------------------------------------------------------------------ *)
(* states                                                               *)
Lemma state_eqb_eq a b : state_eqb a b = true -> a = b.
Proof. destruct a, b; simpl; congruence. Qed.

Lemma can_go_success a : can_go a SUCCESS = true -> a <> SUCCESS -> is_completed a = false.
Proof. destruct a; simpl; intros H Hn; try reflexivity; try discriminate; congruence. Qed.

(* ------------------------------------------------------------------ *)
(* cancel                                                               *)
Definition cancel_row (m : nat) (r : row) : row :=
  if r_fin r then r else (r_child r, CANCELLED, m, if r_child r then S (r_sent r) else r_sent r).

(* closed form of the cancel walk, for EVERY tree: every unfinished execution becomes (CANCELLED, msg) and - if it is
   a sub-workflow - sends one result; every finished execution keeps its row *)
Theorem cancel_rows m n : forall c, rows c (cancel c m n) = map (cancel_row m) (rows c n).
Proof.
  induction n as [st info sent ts IH] using node_ind'. intro c. simpl.
  assert (E : flat_map (fun t : task => flat_map (rows true) (snd t))
                (map (fun t : task => let '(s, k, subs) := t in (s, k, map (cancel true m) subs)) ts) =
              map (cancel_row m) (flat_map (fun t : task => flat_map (rows true) (snd t)) ts)).
  { rewrite flat_map_map, map_flat_map. apply flat_map_ext_Forall.
    rewrite Forall_forall in *. intros t Ht. specialize (IH t Ht). destruct t as [[s k] subs]. simpl in *.
    rewrite flat_map_map, map_flat_map. apply flat_map_ext_Forall.
    rewrite Forall_forall in *. intros x Hx. apply (IH x Hx). }
  unfold cancel_row at 1, r_fin, r_state, r_child, r_sent. simpl.
  destruct (is_completed st); simpl; now rewrite E.
Qed.

(* tasks and shape are not touched: nothing is created, no task changes *)
Theorem cancel_skeleton m n : forall c, skeleton (cancel c m n) = skeleton n.
Proof.
  induction n as [st info sent ts IH] using node_ind'. intro c. simpl.
  assert (E : map (fun t : task => let '(s, k, subs) := t in (s, k, map skeleton subs))
                (map (fun t : task => let '(s, k, subs) := t in (s, k, map (cancel true m) subs)) ts) =
              map (fun t : task => let '(s, k, subs) := t in (s, k, map skeleton subs)) ts).
  { rewrite map_map. apply map_ext_Forall. rewrite Forall_forall in *. intros t Ht. specialize (IH t Ht).
    destruct t as [[s k] subs]. simpl in *. f_equal. rewrite map_map. apply map_ext_Forall.
    rewrite Forall_forall in *. intros x Hx. apply (IH x Hx). }
  destruct (is_completed st); simpl; now rewrite E.
Qed.

(* after a cancel every execution of the subtree is finished *)
Theorem cancel_all_finished m n : forall c, forallb r_fin (rows c (cancel c m n)) = true.
Proof.
  intro c. rewrite cancel_rows, forallb_forall. intros r Hr. apply in_map_iff in Hr. destruct Hr as (r0 & <- & _).
  unfold cancel_row. destruct (r_fin r0) eqn:E; [exact E|reflexivity].
Qed.

(* every execution that was unfinished is CANCELLED with the message and has sent one more result if it has a parent *)
Theorem cancel_unfinished_cancelled m n c :
  Forall2 (fun r r' => r_child r' = r_child r /\
                       (r_fin r = true -> r' = r) /\
                       (r_fin r = false -> r_state r' = CANCELLED /\ r_info r' = m /\
                                           r_sent r' = if r_child r then S (r_sent r) else r_sent r))
          (rows c n) (rows c (cancel c m n)).
Proof.
  rewrite cancel_rows. induction (rows c n) as [|r l IH]; simpl; constructor; auto.
  unfold cancel_row. destruct (r_fin r) eqn:E; repeat split; auto; try congruence.
Qed.

(* ------------------------------------------------------------------ *)
(* the relation every request keeps between the rows before and after   *)
Definition keeps (r r' : row) : Prop :=
  r_child r' = r_child r /\
  (r_fin r = true -> r' = r) /\
  (r_fin r = false -> r_sent r' = if r_child r && r_fin r' then S (r_sent r) else r_sent r).

Lemma keeps_refl r : keeps r r.
Proof.
  unfold keeps. repeat split; auto. intro E. rewrite E, andb_false_r. reflexivity.
Qed.

Lemma keeps_trans a b c : keeps a b -> keeps b c -> keeps a c.
Proof.
  unfold keeps. intros (C1 & F1 & U1) (C2 & F2 & U2). split; [congruence|]. split.
  - intro Ha. rewrite (F1 Ha) in *. apply F2. exact Ha.
  - intro Ha. specialize (U1 Ha). destruct (r_fin b) eqn:Eb.
    + rewrite (F2 eq_refl). rewrite Eb. exact U1.
    + rewrite (U2 eq_refl), U1, C1. rewrite andb_false_r. reflexivity.
Qed.

Definition Keeps c n n' := Forall2 keeps (rows c n) (rows c n').

Lemma Keeps_refl c n : Keeps c n n.
Proof. apply Forall2_refl, keeps_refl. Qed.

Lemma Keeps_trans c n1 n2 n3 : Keeps c n1 n2 -> Keeps c n2 n3 -> Keeps c n1 n3.
Proof. apply Forall2_trans, keeps_trans. Qed.

(* replacing one sub-workflow by a related one *)
Lemma Keeps_subst ch st info sent ts ti si s k subs c c' :
  nth_error ts ti = Some (s, k, subs) -> nth_error subs si = Some c -> Keeps true c c' ->
  forall s', Keeps ch (mkN st info sent ts) (mkN st info sent (upd ti (fun _ => (s', k, upd si (fun _ => c') subs)) ts)).
Proof.
  intros Ht Hs Hk s'. unfold Keeps. simpl. constructor; [apply keeps_refl|].
  apply (Forall2_flat_map_upd keeps keeps_refl _ _ _ _ _ Ht). simpl.
  apply (Forall2_flat_map_upd keeps keeps_refl _ _ _ _ _ Hs). exact Hk.
Qed.

(* changing task states only *)
Lemma rows_tasks_only ch st info sent ts (g : task -> task) :
  (forall t, snd (g t) = snd t) ->
  rows ch (mkN st info sent (map g ts)) = rows ch (mkN st info sent ts).
Proof.
  intro Hg. simpl. f_equal. rewrite flat_map_map. apply flat_map_ext_Forall, Forall_forall. intros t _. now rewrite Hg.
Qed.

Lemma cancel_keeps m n c : Keeps c n (cancel c m n).
Proof.
  unfold Keeps. rewrite cancel_rows. induction (rows c n) as [|r l IH]; simpl; constructor; auto.
  unfold keeps, cancel_row. destruct (r_fin r) eqn:E; repeat split; auto; try congruence.
  intros _. unfold r_fin, r_state, r_child, r_sent. simpl. now rewrite andb_true_r.
Qed.

Lemma finish_keeps c S0 m st info sent ts :
  is_completed st = false -> is_completed S0 = true ->
  Keeps c (mkN st info sent ts) (finish c S0 m sent ts).
Proof.
  intros Hu Hf. unfold Keeps, finish. simpl. constructor; [|apply Forall2_refl, keeps_refl].
  unfold keeps, r_fin, r_state, r_child, r_sent. simpl. rewrite Hu, Hf. repeat split; auto; try congruence.
  intros _. now rewrite andb_true_r.
Qed.

Lemma stop_node_keeps c s m n : Keeps c n (fst (stop_node c s m n)).
Proof.
  destruct n as [st info sent ts]. unfold stop_node.
  destruct s; try apply Keeps_refl.
  - (* SUCCESS *)
    destruct (state_eqb st SUCCESS) eqn:E; [apply Keeps_refl|].
    destruct (can_go st SUCCESS) eqn:G; [|apply Keeps_refl]. simpl.
    apply finish_keeps; [|reflexivity]. apply (can_go_success _ G). intro; subst. discriminate.
  - (* CANCELLED *)
    destruct (cancel_ok (mkN st info sent ts)); [apply cancel_keeps|apply Keeps_refl].
  - (* ERROR *)
    destruct (is_completed st) eqn:E; [apply Keeps_refl|].
    destruct (can_go st ERROR); [|apply Keeps_refl]. simpl. apply finish_keeps; [exact E|reflexivity].
Qed.

Lemma at_path_keeps (f : bool -> node -> node * outcome) :
  (forall c n, Keeps c n (fst (f c n))) ->
  forall p c n r, at_path p f c n = Some r -> Keeps c n (fst r).
Proof.
  intros Hf. induction p as [|[ti si] rest IH]; intros c n r H; simpl in H.
  - inversion H; subst. apply Hf.
  - destruct n as [st info sent ts].
    destruct (nth_error ts ti) as [[[s k] subs]|] eqn:Et; [|discriminate].
    destruct (nth_error subs si) as [x|] eqn:Es; [|discriminate].
    destruct (at_path rest f true x) as [[x' o]|] eqn:Ea; [|discriminate].
    inversion H; subst. simpl. apply (Keeps_subst _ _ _ _ _ _ _ _ _ _ _ _ Et Es). apply (IH true x _ Ea).
Qed.

Lemma guarded_keeps n r : (forall x, r = Some x -> Keeps false n (fst x)) -> Keeps false n (fst (guarded n r)).
Proof.
  intro H. unfold guarded. destruct (in_class n); [|apply Keeps_refl].
  destruct r as [x|]; [apply H; reflexivity|apply Keeps_refl].
Qed.

Lemma stop_at_keeps s m p n : Keeps false n (fst (stop_at s m p n)).
Proof.
  unfold stop_at. apply guarded_keeps. intros x Hx.
  apply (at_path_keeps (fun child c => stop_node child s m c) (fun c n0 => stop_node_keeps c s m n0) _ _ _ _ Hx).
Qed.

(* pause / resume only move unfinished executions between RUNNING and PAUSED *)
Definition live_move (r r' : row) : Prop :=
  r' = r \/ (r_fin r = false /\ r_fin r' = false /\ r_child r' = r_child r /\ r_info r' = r_info r /\ r_sent r' = r_sent r).

Lemma live_move_keeps r r' : live_move r r' -> keeps r r'.
Proof.
  intros [->|(U & U' & C & _ & S)]; [apply keeps_refl|].
  unfold keeps. repeat split; auto; try congruence. intros _. rewrite U', andb_false_r. exact S.
Qed.

Lemma pause_down_rows n : forall c,
  rows c (pause_down n) = map (fun r : row => (r_child r, (if state_eqb (r_state r) RUNNING then PAUSED else r_state r), r_info r, r_sent r)) (rows c n).
Proof.
  induction n as [st info sent ts IH] using node_ind'. intro c. simpl. f_equal.
  rewrite flat_map_map, map_flat_map. apply flat_map_ext_Forall.
  rewrite Forall_forall in *. intros t Ht. specialize (IH t Ht). destruct t as [[s k] subs]. simpl in *.
  rewrite flat_map_map, map_flat_map. apply flat_map_ext_Forall.
  rewrite Forall_forall in *. intros x Hx. apply (IH x Hx).
Qed.

Lemma pause_down_keeps n c : Keeps c n (pause_down n).
Proof.
  unfold Keeps. rewrite pause_down_rows. induction (rows c n) as [|r l IH]; simpl; constructor; auto.
  apply live_move_keeps. destruct r as [[[ch st] info] sent]. unfold r_state, r_child, r_info, r_sent. simpl.
  destruct (state_eqb st RUNNING) eqn:E; [|left; reflexivity].
  apply state_eqb_eq in E; subst. right. unfold r_fin, r_state. simpl. auto.
Qed.

Opaque pause_down.
Lemma pause_path_keeps p : forall c n n' up, pause_path p n = Some (n', up) -> Keeps c n n'.
Proof.
  induction p as [|[ti si] rest IH]; intros c n n' up H; cbn [pause_path] in H.
  - destruct (state_eqb (nstate n) RUNNING || state_eqb (nstate n) PAUSED); [|discriminate].
    inversion H; subst. apply pause_down_keeps.
  - destruct n as [st info sent ts].
    destruct (nth_error ts ti) as [[[s k] subs]|] eqn:Et; [|discriminate].
    destruct (nth_error subs si) as [x|] eqn:Es; [|discriminate].
    destruct (pause_path rest x) as [[x' u]|] eqn:Ea; [|discriminate].
    pose proof (Keeps_subst c st info sent ts ti si s k subs x x' Et Es (IH true x x' u Ea)) as K.
    cbv zeta in H.
    destruct (u && match k with Plain => true | Items => false end); injection H as <- _.
    + eapply Keeps_trans; [apply K|apply pause_down_keeps].
    + apply K.
Qed.
Transparent pause_down.

Lemma pause_at_keeps p n : Keeps false n (fst (pause_at p n)).
Proof.
  unfold pause_at. apply guarded_keeps. intros x Hx.
  destruct (pause_path p n) as [[n' u]|] eqn:E; [|discriminate]. inversion Hx; subst. simpl.
  apply (pause_path_keeps _ _ _ _ _ E).
Qed.

Lemma resume_walk_keeps n : forall c, Keeps c n (resume_walk n).
Proof.
  induction n as [st info sent ts IH] using node_ind'. intro c. simpl.
  destruct (is_completed st || resumable st) eqn:E; [|apply Keeps_refl].
  unfold Keeps. simpl. constructor.
  - apply live_move_keeps. unfold live_move, r_fin, r_state, r_child, r_info, r_sent. simpl.
    destruct (is_completed st) eqn:Ec; [left; reflexivity|]. right. repeat split; auto.
  - rewrite flat_map_map. apply Forall2_flat_map. rewrite Forall_forall in *. intros t Ht. specialize (IH t Ht).
    destruct t as [[s k] subs]. simpl in *. rewrite flat_map_map. apply Forall2_flat_map.
    rewrite Forall_forall in *. intros x Hx. apply (IH x Hx true).
Qed.

Lemma resume_down_keeps n : forall c, Keeps c n (resume_down n).
Proof. intro c. unfold resume_down. destruct (resumable (nstate n)); [apply resume_walk_keeps|apply Keeps_refl]. Qed.

Opaque resume_down.
Lemma resume_path_keeps p : forall c n n' up, resume_path p n = Some (n', up) -> Keeps c n n'.
Proof.
  induction p as [|[ti si] rest IH]; intros c n n' up H; cbn [resume_path] in H.
  - inversion H; subst. apply resume_down_keeps.
  - destruct n as [st info sent ts].
    destruct (nth_error ts ti) as [[[s k] subs]|] eqn:Et; [|discriminate].
    destruct (nth_error subs si) as [x|] eqn:Es; [|discriminate].
    destruct (resume_path rest x) as [[x' u]|] eqn:Ea; [|discriminate].
    pose proof (fun s' => Keeps_subst c st info sent ts ti si s k subs x x' Et Es (IH true x x' u Ea) s') as K.
    cbv zeta in H.
    match type of H with (if ?b then _ else _) = _ => destruct b end; injection H as <- _.
    + eapply Keeps_trans; [apply K|apply resume_down_keeps].
    + apply K.
Qed.
Transparent resume_down.

Lemma resume_at_keeps p n : Keeps false n (fst (resume_at p n)).
Proof.
  unfold resume_at. destruct (in_class n); [|apply Keeps_refl].
  destruct (resume_path p n) as [[n' u]|] eqn:E; [|apply Keeps_refl].
  destruct (settled n'); [|apply Keeps_refl]. simpl. apply (resume_path_keeps _ _ _ _ _ E).
Qed.

(* the deferred report to a with-items parent *)
Lemma Keeps_task_state c st info sent ts ti s k subs s' :
  nth_error ts ti = Some (s, k, subs) ->
  Keeps c (mkN st info sent ts) (mkN st info sent (upd ti (fun _ => (s', k, subs)) ts)).
Proof.
  intro Ht. unfold Keeps. simpl. constructor; [apply keeps_refl|].
  rewrite (flat_map_upd _ _ _ _ _ Ht); [apply Forall2_refl, keeps_refl|reflexivity].
Qed.

Lemma up_pause_keeps c n0 st info sent ts ti s k subs :
  (forall s', Keeps c n0 (mkN st info sent (upd ti (fun _ => (s', k, subs)) ts))) ->
  Keeps c n0 (fst (up_pause st info sent ts ti s k subs)).
Proof. intro H. unfold up_pause. cbv zeta. cbn [fst]. eapply Keeps_trans; [apply H|apply pause_down_keeps]. Qed.

Lemma up_resume_keeps c n0 st info sent ts ti s k subs :
  (forall s', Keeps c n0 (mkN st info sent (upd ti (fun _ => (s', k, subs)) ts))) ->
  Keeps c n0 (fst (up_resume st info sent ts ti s k subs)).
Proof.
  intro H. unfold up_resume. cbv zeta.
  match goal with |- context [if any_task_paused ?b then _ else _] => destruct (any_task_paused b) end; cbn [fst]; [apply H|].
  eapply Keeps_trans; [apply H|apply resume_down_keeps].
Qed.

Opaque up_pause up_resume.
Lemma notify_path_keeps p : forall c n n' nt, notify_path p n = Some (n', nt) -> Keeps c n n'.
Proof.
  induction p as [|[ti si] rest IH]; intros c n n' nt H; cbn [notify_path] in H; [discriminate|].
  destruct n as [st info sent ts]. unfold task in *.
  destruct (nth_error ts ti) as [[[s k] subs]|] eqn:Et; [|discriminate].
  destruct (nth_error subs si) as [x|] eqn:Es; [|discriminate].
  destruct rest as [|q rest'].
  - destruct (finished x); [injection H as <- _; apply Keeps_refl|].
    destruct (state_eqb (nstate x) PAUSED).
    + replace n' with (fst (up_pause st info sent ts ti s k subs)) by (now rewrite (f_equal fst (f_equal (fun o => match o with Some y => y | None => (n', nt) end) H))).
      apply up_pause_keeps. intro s'. apply (Keeps_task_state c st info sent ts ti s k subs s' Et).
    + destruct (is_running (nstate x)); [|injection H as <- _; apply Keeps_refl].
      replace n' with (fst (up_resume st info sent ts ti s k subs)) by (now rewrite (f_equal fst (f_equal (fun o => match o with Some y => y | None => (n', nt) end) H))).
      apply up_resume_keeps. intro s'. apply (Keeps_task_state c st info sent ts ti s k subs s' Et).
  - destruct (notify_path (q :: rest') x) as [[x' nt']|] eqn:Ea; [|discriminate].
    pose proof (fun s' => Keeps_subst c st info sent ts ti si s k subs x x' Et Es (IH true x x' nt' Ea) s') as K.
    cbv zeta in H.
    destruct nt', k;
      try (injection H as <- _; apply K);
      [replace n' with (fst (up_pause st info sent ts ti s Plain (upd si (fun _ => x') subs))) by (now rewrite (f_equal fst (f_equal (fun o => match o with Some y => y | None => (n', nt) end) H))); apply up_pause_keeps; exact K
      |replace n' with (fst (up_resume st info sent ts ti s Plain (upd si (fun _ => x') subs))) by (now rewrite (f_equal fst (f_equal (fun o => match o with Some y => y | None => (n', nt) end) H))); apply up_resume_keeps; exact K].
Qed.
Transparent up_pause up_resume.

Lemma notify_at_keeps p n : Keeps false n (fst (notify_at p n)).
Proof.
  unfold notify_at. destruct (in_class n); [|apply Keeps_refl].
  destruct (notify_path p n) as [[n' u]|] eqn:E; [|apply Keeps_refl].
  destruct (settled n'); [|apply Keeps_refl]. simpl. apply (notify_path_keeps _ _ _ _ _ E).
Qed.

(* a hand-off changes no workflow row at all *)
Lemma deliver_path_rows p : forall c n n', deliver_path p n = Some n' -> rows c n' = rows c n.
Proof.
  induction p as [|[ti si] rest IH]; intros c n n' H; simpl in H; [discriminate|].
  destruct n as [st info sent ts].
  destruct (nth_error ts ti) as [[[s k] subs]|] eqn:Et; [|discriminate].
  destruct (nth_error subs si) as [x|] eqn:Es; [|discriminate].
  destruct rest as [|q rest'].
  - destruct (finished x); [|discriminate]. inversion H; subst. simpl. f_equal.
    apply (flat_map_upd _ _ _ _ _ Et). reflexivity.
  - destruct (deliver_path (q :: rest') x) as [x'|] eqn:Ed; [|discriminate]. inversion H; subst.
    specialize (IH true x x' Ed). simpl. f_equal.
    apply (flat_map_upd _ _ _ _ _ Et). simpl.
    apply (flat_map_upd _ _ _ _ _ Es). exact IH.
Qed.

Lemma deliver_at_keeps p n : Keeps false n (fst (deliver_at p n)).
Proof.
  unfold deliver_at. destruct (deliver_path p n) as [n'|] eqn:E; [|apply Keeps_refl]. simpl.
  unfold Keeps. rewrite (deliver_path_rows _ _ _ _ E). apply Forall2_refl, keeps_refl.
Qed.

Lemma apply_op_keeps n o : Keeps false n (apply_op n o).
Proof.
  destruct o; simpl; [apply stop_at_keeps|apply pause_at_keeps|apply resume_at_keeps|apply deliver_at_keeps|apply notify_at_keeps].
Qed.

(* whatever requests and hand-offs follow, in whatever order: finished executions keep state, message and number of
   results sent; an unfinished sub-workflow sends exactly one result at the moment it finishes *)
Theorem history_keeps ops : forall n, Keeps false n (fold_left apply_op ops n).
Proof.
  induction ops as [|o r IH]; intro n; simpl; [apply Keeps_refl|].
  eapply Keeps_trans; [apply apply_op_keeps|apply IH].
Qed.

(* "reported exactly once": the invariant sent = 1 for finished sub-workflows, 0 otherwise *)
Definition sent_right (r : row) : bool := r_sent r =? (if r_child r && r_fin r then 1 else 0).

Lemma keeps_sent_right r r' : keeps r r' -> sent_right r = true -> sent_right r' = true.
Proof.
  unfold keeps, sent_right. intros (C & F & U) H. apply Nat.eqb_eq in H. apply Nat.eqb_eq.
  destruct (r_fin r) eqn:E.
  - rewrite (F eq_refl). rewrite E. exact H.
  - rewrite (U eq_refl), H, C. rewrite andb_false_r. destruct (r_child r && r_fin r'); reflexivity.
Qed.

Theorem reported_exactly_once ops n :
  forallb sent_right (rows false n) = true -> forallb sent_right (rows false (fold_left apply_op ops n)) = true.
Proof.
  intro H. pose proof (history_keeps ops n) as K. unfold Keeps in K.
  revert H. induction K; simpl; auto. intro H0. apply andb_true_iff in H0. destruct H0 as [H1 H2].
  apply andb_true_iff. split; [eapply keeps_sent_right; eauto|auto].
Qed.

(* finished executions are never changed again *)
Theorem finished_rows_never_change ops n :
  Forall2 (fun r r' => r_fin r = true -> r' = r) (rows false n) (rows false (fold_left apply_op ops n)).
Proof.
  pose proof (history_keeps ops n) as K. unfold Keeps in K. induction K; constructor; auto.
  destruct H as (_ & F & _). exact F.
Qed.

(* after a cancel of the root nothing in the tree changes any more, whatever follows *)
Theorem nothing_changes_after_cancel m n ops :
  rows false (fold_left apply_op ops (cancel false m n)) = rows false (cancel false m n).
Proof.
  pose proof (finished_rows_never_change ops (cancel false m n)) as K.
  pose proof (cancel_all_finished m n false) as A. rewrite forallb_forall in A.
  revert K A. generalize (rows false (fold_left apply_op ops (cancel false m n))).
  induction (rows false (cancel false m n)) as [|r l IH]; intros l' K A; inversion K; subst; [reflexivity|].
  f_equal; [apply H1, A; left; reflexivity|]. apply IH; [assumption|]. intros x Hx. apply A. right. exact Hx.
Qed.

(* ------------------------------------------------------------------ *)
(* forced stop                                                          *)
Theorem stop_holds_state c s m n :
  (s = SUCCESS \/ s = ERROR \/ s = CANCELLED) ->
  let r := stop_node c s m n in
  (snd r = Ok /\ ((nstate (fst r) = s /\ (finished n = false -> ninfo (fst r) = m)) \/
                  (finished n = true /\ nstate (fst r) = nstate n /\ ninfo (fst r) = ninfo n)))
  \/ (snd r = Declared /\ fst r = n).
Proof.
  intros Hs r. subst r. destruct n as [st info sent ts].
  destruct Hs as [->|[->| ->]]; cbn [stop_node].
  - destruct (state_eqb st SUCCESS) eqn:E.
    + left. split; [reflexivity|]. apply state_eqb_eq in E; subst. right. repeat split; reflexivity.
    + destruct (can_go st SUCCESS); [left; split; [reflexivity|left; split; [reflexivity|intros _; reflexivity]]|right; auto].
  - unfold finished. cbn [nstate]. destruct (is_completed st) eqn:E.
    + left. split; [reflexivity|]. right. repeat split; reflexivity.
    + destruct (can_go st ERROR); [left; split; [reflexivity|left; split; [reflexivity|intros _; reflexivity]]|right; auto].
  - destruct (cancel_ok (mkN st info sent ts)); [|right; auto].
    left. split; [reflexivity|]. unfold finished. cbn [cancel fst nstate]. destruct (is_completed st) eqn:E; cbn [finish nstate ninfo].
    + right. repeat split; reflexivity.
    + left. split; [reflexivity|]. intros _. reflexivity.
Qed.

(* a forced stop SUCCESS / ERROR changes the row of that execution only: no task, no other execution *)
Theorem forced_stop_touches_one_row c s m st info sent ts :
  (s = SUCCESS \/ s = ERROR) ->
  ntasks (fst (stop_node c s m (mkN st info sent ts))) = ts.
Proof.
  intros [->| ->]; unfold stop_node.
  - destruct (state_eqb st SUCCESS); [reflexivity|]. destruct (can_go st SUCCESS); reflexivity.
  - destruct (is_completed st); [reflexivity|]. destruct (can_go st ERROR); reflexivity.
Qed.

(* ------------------------------------------------------------------ *)
(* pause                                                                *)
Theorem pause_down_no_running n c : forallb (fun r => negb (state_eqb (r_state r) RUNNING)) (rows c (pause_down n)) = true.
Proof.
  rewrite pause_down_rows, forallb_forall. intros r Hr. apply in_map_iff in Hr. destruct Hr as (r0 & <- & _).
  unfold r_state. simpl. destruct (state_eqb (snd (fst (fst r0))) RUNNING) eqn:E; [reflexivity|]. now rewrite E.
Qed.

Theorem pause_down_exact n c :
  Forall2 (fun r r' => r_child r' = r_child r /\ r_info r' = r_info r /\ r_sent r' = r_sent r /\
                       r_state r' = if state_eqb (r_state r) RUNNING then PAUSED else r_state r)
          (rows c n) (rows c (pause_down n)).
Proof.
  rewrite pause_down_rows. induction (rows c n) as [|r l IH]; simpl; constructor; auto.
Qed.

(* the acknowledged pause of the root of a tree (or of any execution taken as the root of its subtree) *)
Theorem pause_at_root n :
  in_class n = true -> (nstate n = RUNNING \/ nstate n = PAUSED) ->
  pause_at [] n = (pause_down n, Ok).
Proof.
  intros Hc Hs. unfold pause_at, guarded. rewrite Hc. cbn [pause_path].
  assert (E : state_eqb (nstate n) RUNNING || state_eqb (nstate n) PAUSED = true).
  { destruct Hs as [H|H]; rewrite H; reflexivity. }
  rewrite E. reflexivity.
Qed.

(* the pause of ONE item's sub-workflow, once reported to the with-items parent task, comes down again: no execution
   below the parent workflow is left RUNNING (siblings included), whatever the states of the tasks are *)
Opaque pause_down.
Theorem reported_pause_comes_down c st info sent ts ti si s k subs x n' nt :
  nth_error ts ti = Some (s, k, subs) -> nth_error subs si = Some x -> nstate x = PAUSED ->
  notify_path [(ti, si)] (mkN st info sent ts) = Some (n', nt) ->
  forallb (fun r => negb (state_eqb (r_state r) RUNNING)) (rows c n') = true.
Proof.
  intros Et Es Hx H. cbn [notify_path] in H. unfold task in *. rewrite Et, Es in H.
  unfold finished in H. rewrite Hx in H. cbn [is_completed mem existsb state_eqb orb] in H.
  unfold up_pause in H. cbv zeta in H. injection H as <- _. apply pause_down_no_running.
Qed.
Transparent pause_down.

(* the subtree of the execution named by the address *)
Fixpoint subtree (p : path) (n : node) : option node :=
  match p with
  | [] => Some n
  | (ti, si) :: rest =>
    match nth_error (ntasks n) ti with
    | Some (_, _, subs) => match nth_error subs si with Some c => subtree rest c | None => None end
    | None => None
    end
  end.

Lemma pause_down_idem n : pause_down (pause_down n) = pause_down n.
Proof.
  induction n as [st info sent ts IH] using node_ind'. simpl. f_equal.
  - destruct (state_eqb st RUNNING) eqn:E; [reflexivity|now rewrite E].
  - rewrite map_map. apply map_ext_Forall. rewrite Forall_forall in *. intros t Ht. specialize (IH t Ht).
    destruct t as [[s k] subs]. simpl in *.
    assert (Hn : existsb (fun c => state_eqb (nstate c) RUNNING) (map pause_down subs) = false).
    { clear. induction subs as [|x l IHl]; simpl; [reflexivity|]. rewrite IHl, orb_false_r.
      destruct x as [st i se tt]. simpl. destruct (state_eqb st RUNNING) eqn:E; [reflexivity|exact E]. }
    rewrite Hn. f_equal; [destruct k; reflexivity|].
    rewrite map_map. apply map_ext_Forall. exact IH.
Qed.

Lemma subtree_upd n ti si s k subs c c' rest s' st info sent ts :
  n = mkN st info sent ts -> nth_error ts ti = Some (s, k, subs) -> nth_error subs si = Some c ->
  subtree ((ti, si) :: rest) (mkN st info sent (upd ti (fun _ => (s', k, upd si (fun _ => c') subs)) ts)) = subtree rest c'.
Proof.
  intros _ Ht Hs. cbn [subtree ntasks]. rewrite (nth_error_upd ti _ ts ti), Nat.eqb_refl. rewrite Ht. cbn [option_map].
  rewrite (nth_error_upd si _ subs si), Nat.eqb_refl. rewrite Hs. reflexivity.
Qed.

Lemma subtree_pause_down p : forall n c, subtree p n = Some c -> subtree p (pause_down n) = Some (pause_down c).
Proof.
  induction p as [|[ti si] rest IH]; intros n c H.
  - cbn in *. inversion H. reflexivity.
  - destruct n as [st info sent ts]. cbn [subtree ntasks pause_down] in *. unfold task in *.
    rewrite nth_error_map. destruct (nth_error ts ti) as [[[s k] subs]|]; [|simpl in H; discriminate]. cbn.
    rewrite nth_error_map. destruct (nth_error subs si) as [x|]; [|simpl in H; discriminate]. cbn. apply IH, H.
Qed.

(* after an accepted pause request for the execution at ANY address - the request may go on upwards and pause the
   enclosing executions too - the subtree of that execution is exactly its paused form: no RUNNING execution is left in it *)
Opaque pause_down.
Theorem pause_path_subtree p : forall n n' up c,
  pause_path p n = Some (n', up) -> subtree p n = Some c -> subtree p n' = Some (pause_down c).
Proof.
  induction p as [|[ti si] rest IH]; intros n n' up c H Hs; cbn [pause_path] in H.
  - destruct (state_eqb (nstate n) RUNNING || state_eqb (nstate n) PAUSED); [|discriminate].
    injection H as <- _. cbn [subtree] in *. injection Hs as <-. reflexivity.
  - destruct n as [st info sent ts]. cbn [subtree ntasks] in Hs. unfold task in *.
    destruct (nth_error ts ti) as [[[s k] subs]|] eqn:Et; [|discriminate].
    destruct (nth_error subs si) as [x|] eqn:Es; [|discriminate].
    destruct (pause_path rest x) as [[x' u]|] eqn:Ea; [|discriminate].
    specialize (IH x x' u c Ea Hs). cbv zeta in H.
    destruct (u && match k with Plain => true | Items => false end); injection H as <- _.
    + erewrite subtree_pause_down.
      * rewrite pause_down_idem. reflexivity.
      * erewrite subtree_upd; eauto.
    + erewrite subtree_upd; eauto.
Qed.
Transparent pause_down.

(* ------------------------------------------------------------------ *)
(* hand-off                                                             *)
Lemma dstate_same_or_completed s k l : dstate s k l = s \/ is_completed (dstate s k l) = true.
Proof.
  unfold dstate. destruct (is_completed s) eqn:E; [left; reflexivity|]. destruct k.
  - destruct l as [|c [|c2 l2]]; try (left; reflexivity).
    destruct (is_completed c) eqn:Ec; [right; exact Ec|left; reflexivity].
  - destruct (existsb (fun c => state_eqb c CANCELLED) l); [right; reflexivity|].
    destruct ((2 <=? length l) && forallb is_completed l); [|left; reflexivity].
    destruct (existsb (fun c => state_eqb c ERROR) l); right; reflexivity.
Qed.

Lemma dstate_idem s k l : dstate (dstate s k l) k l = dstate s k l.
Proof.
  destruct (dstate_same_or_completed s k l) as [E|E]; [now rewrite E|].
  unfold dstate at 1. now rewrite E.
Qed.

Lemma deliver_task_idem t : deliver_task (deliver_task t) = deliver_task t.
Proof. destruct t as [[s k] subs]. simpl. now rewrite dstate_idem. Qed.

(* a second hand-off of the same result changes nothing: the parent accepts a finished child once *)
Theorem deliver_twice p : forall n n', deliver_path p n = Some n' -> deliver_path p n' = Some n'.
Proof.
  induction p as [|[ti si] rest IH]; intros n n' H; simpl in H; [discriminate|].
  destruct n as [st info sent ts].
  destruct (nth_error ts ti) as [[[s k] subs]|] eqn:Et; [|discriminate].
  destruct (nth_error subs si) as [x|] eqn:Es; [|discriminate].
  destruct rest as [|q rest'].
  - destruct (finished x) eqn:Ef; [|discriminate]. inversion H; subst. simpl.
    rewrite nth_error_upd, Nat.eqb_refl, Et. simpl. rewrite Es, Ef. f_equal. f_equal.
    rewrite upd_upd. apply upd_ext. intro t. apply deliver_task_idem.
  - destruct (deliver_path (q :: rest') x) as [x'|] eqn:Ed; [|discriminate]. inversion H; subst.
    specialize (IH x x' Ed). simpl.
    rewrite nth_error_upd, Nat.eqb_refl, Et. simpl.
    rewrite nth_error_upd, Nat.eqb_refl, Es. simpl.
    change (match q :: rest' with [] => _ | _ :: _ => ?b end) with b.
    simpl in IH. simpl. rewrite IH. f_equal. f_equal. rewrite upd_upd. simpl. rewrite upd_upd. reflexivity.
Qed.

(* a Plain task that is not finished takes over the state of its finished sub-workflow, an Items one becomes CANCELLED
   as soon as one of its sub-workflows is CANCELLED; a finished task is left alone *)
Theorem deliver_plain s c : is_completed s = false -> finished c = true -> deliver_task (s, Plain, [c]) = (nstate c, Plain, [c]).
Proof. intros Hs Hc. unfold deliver_task, dstate. simpl. unfold finished in Hc. now rewrite Hs, Hc. Qed.

Theorem deliver_items_cancelled s subs c :
  is_completed s = false -> In c subs -> nstate c = CANCELLED -> deliver_task (s, Items, subs) = (CANCELLED, Items, subs).
Proof.
  intros Hs Hin Hc. unfold deliver_task, dstate. rewrite Hs.
  replace (existsb (fun c0 => state_eqb c0 CANCELLED) (map nstate subs)) with true; [reflexivity|].
  symmetry. apply existsb_exists. exists CANCELLED. split; [|reflexivity]. rewrite <- Hc. now apply in_map.
Qed.

Theorem deliver_finished_task_unchanged s k subs : is_completed s = true -> deliver_task (s, k, subs) = (s, k, subs).
Proof. intro H. unfold deliver_task, dstate. now rewrite H. Qed.

(* all hand-offs delivered: every task with a finished sub-workflow has processed it *)
Fixpoint deliver_all (n : node) : node :=
  match n with
  | mkN st info sent ts =>
    mkN st info sent (map (fun t : task => let '(s, k, subs) := t in
                             ((if existsb finished subs then dstate s k (map nstate subs) else s), k, map deliver_all subs)) ts)
  end.

Lemma deliver_all_nstate n : nstate (deliver_all n) = nstate n.
Proof. destruct n; reflexivity. Qed.

Lemma map_nstate_deliver_all l : map nstate (map deliver_all l) = map nstate l.
Proof. rewrite map_map. apply map_ext. apply deliver_all_nstate. Qed.

(* ORDER INDEPENDENCE: whichever hand-off is delivered first, the fully delivered tree is the same *)
Theorem deliver_absorbed p : forall n n', deliver_path p n = Some n' -> deliver_all n' = deliver_all n.
Proof.
  induction p as [|[ti si] rest IH]; intros n n' H; simpl in H; [discriminate|].
  destruct n as [st info sent ts].
  destruct (nth_error ts ti) as [[[s k] subs]|] eqn:Et; [|discriminate].
  destruct (nth_error subs si) as [x|] eqn:Es; [|discriminate].
  destruct rest as [|q rest'].
  - destruct (finished x) eqn:Ef; [|discriminate]. inversion H; subst. simpl. f_equal.
    apply (map_upd _ _ _ _ _ Et). simpl.
    assert (Hex : existsb finished subs = true).
    { apply existsb_exists. exists x. split; [eapply nth_error_In; eauto|exact Ef]. }
    rewrite Hex, dstate_idem. reflexivity.
  - destruct (deliver_path (q :: rest') x) as [x'|] eqn:Ed; [|discriminate]. inversion H; subst.
    specialize (IH x x' Ed). simpl. f_equal.
    apply (map_upd _ _ _ _ _ Et). simpl.
    assert (Hst : nstate x' = nstate x).
    { pose proof (deliver_path_rows _ true _ _ Ed) as R. destruct x, x'. simpl in R. inversion R. reflexivity. }
    assert (E1 : map nstate (upd si (fun _ => x') subs) = map nstate subs) by (apply (map_upd _ _ _ _ _ Es); exact Hst).
    assert (E2 : existsb finished (upd si (fun _ => x') subs) = existsb finished subs).
    { clear -Es Hst. revert si Es. induction subs as [|y l IHl]; intros [|si] Es; simpl in *; try discriminate.
      - inversion Es; subst. unfold finished. now rewrite Hst.
      - f_equal. now apply IHl. }
    assert (E3 : map deliver_all (upd si (fun _ => x') subs) = map deliver_all subs) by (apply (map_upd _ _ _ _ _ Es); exact IH).
    now rewrite E1, E2, E3.
Qed.

Theorem deliveries_any_order ps : forall n,
  deliver_all (fold_left (fun t p => fst (deliver_at p t)) ps n) = deliver_all n.
Proof.
  induction ps as [|p r IH]; intro n; simpl; [reflexivity|]. rewrite IH. unfold deliver_at.
  destruct (deliver_path p n) as [n'|] eqn:E; [|reflexivity]. simpl. apply (deliver_absorbed _ _ _ E).
Qed.

(* after cancel + all hand-offs: the parent task of every sub-workflow that the cancel reached is CANCELLED unless it
   had finished before - stated on one task of the cancelled tree *)
Theorem cancelled_child_cancels_parent_task m s k subs c :
  is_completed s = false -> In c subs -> finished c = false -> (k = Plain -> subs = [c]) ->
  let subs' := map (cancel true m) subs in
  fst (fst (deliver_task (s, k, subs'))) = CANCELLED.
Proof.
  intros Hs Hin Hc Hk. simpl.
  assert (Hcc : nstate (cancel true m c) = CANCELLED).
  { destruct c as [st i se ts]. unfold finished in Hc. simpl in *. now rewrite Hc. }
  destruct k.
  - rewrite (Hk eq_refl). simpl. unfold dstate. rewrite Hs, Hcc. reflexivity.
  - unfold dstate. rewrite Hs.
    replace (existsb (fun c0 => state_eqb c0 CANCELLED) (map nstate (map (cancel true m) subs))) with true; [reflexivity|].
    symmetry. apply existsb_exists. exists CANCELLED. split; [|reflexivity].
    rewrite <- Hcc. apply in_map, in_map, Hin.
Qed.

(* ------------------------------------------------------------------ *)
(* no request creates a task or an execution: the shape of the tree      *)
Fixpoint tshape (n : node) : node :=
  match n with
  | mkN _ _ _ ts => mkN RUNNING 0 0 (map (fun t : task => let '(_, k, subs) := t in (RUNNING, k, map tshape subs)) ts)
  end.

Lemma tshape_map (F : node -> node) st info sent ts (g : state -> kind -> list node -> state) st' info' sent' :
  Forall (fun t : task => Forall (fun c => tshape (F c) = tshape c) (snd t)) ts ->
  tshape (mkN st' info' sent' (map (fun t : task => let '(s, k, subs) := t in (g s k subs, k, map F subs)) ts)) =
  tshape (mkN st info sent ts).
Proof.
  intro H. simpl. f_equal. rewrite map_map. apply map_ext_Forall. rewrite Forall_forall in *. intros t Ht.
  specialize (H t Ht). destruct t as [[s k] subs]. simpl in *. f_equal. rewrite map_map. apply map_ext_Forall. exact H.
Qed.

Lemma tshape_cancel m n : forall c, tshape (cancel c m n) = tshape n.
Proof.
  induction n as [st info sent ts IH] using node_ind'. intro c. cbn [cancel].
  destruct (is_completed st); unfold finish;
    apply (tshape_map (cancel true m) st info sent ts (fun s _ _ => s));
    (rewrite Forall_forall in *; intros t Ht; specialize (IH t Ht); rewrite Forall_forall in *; intros x Hx; apply (IH x Hx)).
Qed.

Lemma tshape_pause_down n : tshape (pause_down n) = tshape n.
Proof.
  induction n as [st info sent ts IH] using node_ind'. cbn [pause_down].
  apply (tshape_map pause_down st info sent ts
           (fun s k subs => match k with
                            | Plain => if existsb (fun c => state_eqb (nstate c) RUNNING) subs
                                       then (if is_completed st then ERROR else task_pause s) else s
                            | Items => s end)). exact IH.
Qed.

Lemma tshape_resume_walk n : tshape (resume_walk n) = tshape n.
Proof.
  induction n as [st info sent ts IH] using node_ind'. cbn [resume_walk].
  destruct (is_completed st || resumable st); [|reflexivity].
  apply (tshape_map resume_walk st info sent ts
           (fun s k subs => match k with
                            | Plain => if existsb (fun c => resumable (nstate c)) subs &&
                                          negb (existsb (fun c => state_eqb (nstate c) PAUSED) (map resume_walk subs))
                                       then task_resume s else s
                            | Items => s end)). exact IH.
Qed.

Lemma tshape_resume_down n : tshape (resume_down n) = tshape n.
Proof. unfold resume_down. destruct (resumable (nstate n)); [apply tshape_resume_walk|reflexivity]. Qed.

(* replacing a task state and one sub-workflow by one of the same shape *)
Lemma tshape_subst st info sent ts ti si s k subs c c' s' :
  nth_error ts ti = Some (s, k, subs) -> nth_error subs si = Some c -> tshape c' = tshape c ->
  tshape (mkN st info sent (upd ti (fun _ => (s', k, upd si (fun _ => c') subs)) ts)) = tshape (mkN st info sent ts).
Proof.
  intros Ht Hs Hc. simpl. f_equal. apply (map_upd _ _ _ _ _ Ht). f_equal. apply (map_upd _ _ _ _ _ Hs). exact Hc.
Qed.

Lemma tshape_task_state st info sent ts ti s k subs s' :
  nth_error ts ti = Some (s, k, subs) ->
  tshape (mkN st info sent (upd ti (fun _ => (s', k, subs)) ts)) = tshape (mkN st info sent ts).
Proof. intro Ht. simpl. f_equal. apply (map_upd _ _ _ _ _ Ht). reflexivity. Qed.

Lemma tshape_stop_node c s m n : tshape (fst (stop_node c s m n)) = tshape n.
Proof.
  destruct n as [st info sent ts]. unfold stop_node. destruct s; try reflexivity.
  - destruct (state_eqb st SUCCESS); [reflexivity|]. destruct (can_go st SUCCESS); reflexivity.
  - destruct (cancel_ok (mkN st info sent ts)); [apply tshape_cancel|reflexivity].
  - destruct (is_completed st); [reflexivity|]. destruct (can_go st ERROR); reflexivity.
Qed.

Lemma tshape_at_path (f : bool -> node -> node * outcome) :
  (forall c n, tshape (fst (f c n)) = tshape n) ->
  forall p c n r, at_path p f c n = Some r -> tshape (fst r) = tshape n.
Proof.
  intros Hf. induction p as [|[ti si] rest IH]; intros c n r H; cbn [at_path] in H.
  - injection H as <-. apply Hf.
  - destruct n as [st info sent ts]. unfold task in *.
    destruct (nth_error ts ti) as [[[s k] subs]|] eqn:Et; [|discriminate].
    destruct (nth_error subs si) as [x|] eqn:Es; [|discriminate].
    destruct (at_path rest f true x) as [[x' o]|] eqn:Ea; [|discriminate].
    injection H as <-. cbn [fst]. apply (tshape_subst _ _ _ _ _ _ _ _ _ _ _ _ Et Es). apply (IH true x _ Ea).
Qed.

Opaque pause_down resume_down.
Lemma tshape_pause_path p : forall n n' up, pause_path p n = Some (n', up) -> tshape n' = tshape n.
Proof.
  induction p as [|[ti si] rest IH]; intros n n' up H; cbn [pause_path] in H.
  - destruct (state_eqb (nstate n) RUNNING || state_eqb (nstate n) PAUSED); [|discriminate].
    injection H as <- _. apply tshape_pause_down.
  - destruct n as [st info sent ts]. unfold task in *.
    destruct (nth_error ts ti) as [[[s k] subs]|] eqn:Et; [|discriminate].
    destruct (nth_error subs si) as [x|] eqn:Es; [|discriminate].
    destruct (pause_path rest x) as [[x' u]|] eqn:Ea; [|discriminate].
    pose proof (fun s' => tshape_subst st info sent ts ti si s k subs x x' s' Et Es (IH x x' u Ea)) as K.
    cbv zeta in H.
    destruct (u && match k with Plain => true | Items => false end); injection H as <- _.
    + rewrite tshape_pause_down. apply K.
    + apply K.
Qed.

Lemma tshape_resume_path p : forall n n' up, resume_path p n = Some (n', up) -> tshape n' = tshape n.
Proof.
  induction p as [|[ti si] rest IH]; intros n n' up H; cbn [resume_path] in H.
  - injection H as <- _. apply tshape_resume_down.
  - destruct n as [st info sent ts]. unfold task in *.
    destruct (nth_error ts ti) as [[[s k] subs]|] eqn:Et; [|discriminate].
    destruct (nth_error subs si) as [x|] eqn:Es; [|discriminate].
    destruct (resume_path rest x) as [[x' u]|] eqn:Ea; [|discriminate].
    pose proof (fun s' => tshape_subst st info sent ts ti si s k subs x x' s' Et Es (IH x x' u Ea)) as K.
    cbv zeta in H.
    match type of H with (if ?b then _ else _) = _ => destruct b end; injection H as <- _.
    + rewrite tshape_resume_down. apply K.
    + apply K.
Qed.

Lemma tshape_up_pause st info sent ts ti s k subs T :
  (forall s', tshape (mkN st info sent (upd ti (fun _ => (s', k, subs)) ts)) = T) ->
  tshape (fst (up_pause st info sent ts ti s k subs)) = T.
Proof. intro H. unfold up_pause. cbv zeta. cbn [fst]. rewrite tshape_pause_down. apply H. Qed.

Lemma tshape_up_resume st info sent ts ti s k subs T :
  (forall s', tshape (mkN st info sent (upd ti (fun _ => (s', k, subs)) ts)) = T) ->
  tshape (fst (up_resume st info sent ts ti s k subs)) = T.
Proof.
  intro H. unfold up_resume. cbv zeta.
  match goal with |- context [if any_task_paused ?b then _ else _] => destruct (any_task_paused b) end; cbn [fst]; [apply H|].
  rewrite tshape_resume_down. apply H.
Qed.

Opaque up_pause up_resume.
Lemma tshape_notify_path p : forall n n' nt, notify_path p n = Some (n', nt) -> tshape n' = tshape n.
Proof.
  induction p as [|[ti si] rest IH]; intros n n' nt H; cbn [notify_path] in H; [discriminate|].
  destruct n as [st info sent ts]. unfold task in *.
  destruct (nth_error ts ti) as [[[s k] subs]|] eqn:Et; [|discriminate].
  destruct (nth_error subs si) as [x|] eqn:Es; [|discriminate].
  assert (P : forall (r : node * note), Some r = Some (n', nt) -> n' = fst r) by (intros r Hr; injection Hr as ->; reflexivity).
  destruct rest as [|q rest'].
  - destruct (finished x); [injection H as <- _; reflexivity|].
    destruct (state_eqb (nstate x) PAUSED).
    + rewrite (P _ H). apply tshape_up_pause. intro s'. apply (tshape_task_state _ _ _ _ _ _ _ _ _ Et).
    + destruct (is_running (nstate x)); [|injection H as <- _; reflexivity].
      rewrite (P _ H). apply tshape_up_resume. intro s'. apply (tshape_task_state _ _ _ _ _ _ _ _ _ Et).
  - destruct (notify_path (q :: rest') x) as [[x' nt']|] eqn:Ea; [|discriminate].
    pose proof (fun s' => tshape_subst st info sent ts ti si s k subs x x' s' Et Es (IH x x' nt' Ea)) as K.
    cbv zeta in H.
    destruct nt', k; try (injection H as <- _; apply K);
      rewrite (P _ H); [apply tshape_up_pause|apply tshape_up_resume]; exact K.
Qed.
Transparent up_pause up_resume pause_down resume_down.

Lemma tshape_deliver_path p : forall n n', deliver_path p n = Some n' -> tshape n' = tshape n.
Proof.
  induction p as [|[ti si] rest IH]; intros n n' H; cbn [deliver_path] in H; [discriminate|].
  destruct n as [st info sent ts]. unfold task in *.
  destruct (nth_error ts ti) as [[[s k] subs]|] eqn:Et; [|discriminate].
  destruct (nth_error subs si) as [x|] eqn:Es; [|discriminate].
  destruct rest as [|q rest'].
  - destruct (finished x); [|discriminate]. injection H as <-. simpl. f_equal. apply (map_upd _ _ _ _ _ Et). reflexivity.
  - destruct (deliver_path (q :: rest') x) as [x'|] eqn:Ed; [|discriminate]. injection H as <-.
    apply (tshape_subst _ _ _ _ _ _ _ _ _ _ _ _ Et Es). apply (IH _ _ Ed).
Qed.

Lemma tshape_apply_op n o : tshape (apply_op n o) = tshape n.
Proof.
  destruct o; cbn [apply_op].
  - unfold stop_at, guarded. destruct (in_class n); [|reflexivity].
    destruct (at_path p (fun child c => stop_node child s m c) false n) as [r|] eqn:E; [|reflexivity].
    apply (tshape_at_path (fun child c => stop_node child s m c) (fun c n0 => tshape_stop_node c s m n0) _ _ _ _ E).
  - unfold pause_at, guarded. destruct (in_class n); [|reflexivity].
    destruct (pause_path p n) as [[n' u]|] eqn:E; [|reflexivity]. apply (tshape_pause_path _ _ _ _ E).
  - unfold resume_at. destruct (in_class n); [|reflexivity].
    destruct (resume_path p n) as [[n' u]|] eqn:E; [|reflexivity]. destruct (settled n'); [|reflexivity].
    apply (tshape_resume_path _ _ _ _ E).
  - unfold deliver_at. destruct (deliver_path p n) as [n'|] eqn:E; [|reflexivity]. apply (tshape_deliver_path _ _ _ E).
  - unfold notify_at. destruct (in_class n); [|reflexivity].
    destruct (notify_path p n) as [[n' u]|] eqn:E; [|reflexivity]. destruct (settled n'); [|reflexivity].
    apply (tshape_notify_path _ _ _ _ E).
Qed.

(* no stop / cancel / pause / resume request, no report and no hand-off ever creates a task or an execution *)
Theorem requests_create_nothing ops : forall n, tshape (fold_left apply_op ops n) = tshape n.
Proof. induction ops as [|o r IH]; intro n; simpl; [reflexivity|]. now rewrite IH, tshape_apply_op. Qed.

(* the only thing that adds an execution is the start of a sub-workflow; below a CANCELLED execution it adds a
   CANCELLED one with the parent's message that owns no task and has reported once *)
Theorem late_child_is_cancelled_and_empty parent :
  nstate parent = CANCELLED -> new_child parent = mkN CANCELLED (ninfo parent) 1 [].
Proof. intro H. unfold new_child. now rewrite H. Qed.

(* ... and it never gets a task, never changes and never reports again, whatever requests follow *)
Theorem late_child_stays_empty parent ops :
  nstate parent = CANCELLED ->
  ntasks (fold_left apply_op ops (new_child parent)) = [] /\
  rows false (fold_left apply_op ops (new_child parent)) = rows false (new_child parent).
Proof.
  intro H. rewrite (late_child_is_cancelled_and_empty _ H). split.
  - pose proof (requests_create_nothing ops (mkN CANCELLED (ninfo parent) 1 [])) as T.
    destruct (fold_left apply_op ops (mkN CANCELLED (ninfo parent) 1 [])) as [st i se ts]. simpl in *.
    injection T as T. destruct ts; [reflexivity|discriminate].
  - pose proof (finished_rows_never_change ops (mkN CANCELLED (ninfo parent) 1 [])) as K.
    remember (rows false (fold_left apply_op ops (mkN CANCELLED (ninfo parent) 1 []))) as R. cbn [rows flat_map] in *.
    inversion K as [|a b l l' Hab Hl]; subst. inversion Hl; subst. f_equal. now apply Hab.
Qed.

(* its result, once processed, cancels the (unfinished) Plain parent task; an Items one as soon as it is processed *)
Theorem late_child_cancels_parent_task parent s :
  nstate parent = CANCELLED -> is_completed s = false ->
  deliver_task (s, Plain, [new_child parent]) = (CANCELLED, Plain, [new_child parent]).
Proof.
  intros H Hs. rewrite (late_child_is_cancelled_and_empty _ H). unfold deliver_task, dstate. simpl. now rewrite Hs.
Qed.

(* the start touches nothing else: the existing rows keep their place, one row is added *)
Theorem start_adds_executions_to_one_task ti cnt c st info sent ts s k subs :
  nth_error ts ti = Some (s, k, subs) ->
  fst (start_node ti cnt c (mkN st info sent ts)) =
  mkN st info sent (upd ti (fun _ => ((if state_eqb s IDLE then RUNNING else s), k,
                                       subs ++ repeat (new_child (mkN st info sent ts)) cnt)) ts).
Proof. intro H. unfold start_node. unfold task in *. now rewrite H. Qed.
