(* Proofs about Model/Policy.v, part 3 (property C08): what the phase invariant of
   Proofs/PolicyPhase.v gives for a well-typed configuration without timeout, under EVERY event
   sequence: the retry rule, the verdict, finality, dispatch, delays, pause-before. *)
From Coq Require Import List NArith ZArith Bool Lia ZifyBool ZifyN ZifyNat.
Require Import Mistral.Gen.States Mistral.Model.Policy Mistral.Proofs.PolicyBound Mistral.Proofs.PolicyPhase.
Import ListNotations.
Open Scope N_scope.

Local Arguments N.add : simpl never.
Local Arguments N.of_nat : simpl never.
Local Arguments N.ltb : simpl never.
Local Arguments N.leb : simpl never.
Local Arguments N.eqb : simpl never.

Lemma completed_phase n s : Inv n s -> is_completed (s_state s) = true -> Ph n PFin s.
Proof.
  intros (_ & p & P) C. destruct p; cbn [Ph] in P; try exact P; exfalso;
    destruct P as (A & _); rewrite A in C; discriminate.
Qed.

(* ---- which attempts happen: every attempt but the last was a "go on" outcome ---- *)
Theorem attempts_follow_rule n s : Inv n s ->
  forall k h, nth_error (s_hist s) k = Some h -> (S k < length (s_hist s))%nat -> goes n (N.of_nat k) h = true.
Proof.
  intros (_ & p & P) k h Hk Lt. destruct p; cbn [Ph] in P.
  - destruct P as (_ & _ & _ & Hh & _). rewrite Hh in Hk. destruct k; discriminate.
  - destruct P as (_ & _ & Hh & _). rewrite Hh in Hk. destruct k; discriminate.
  - destruct P as (_ & _ & _ & _ & _ & _ & Ga & _). exact (Ga k h Hk).
  - destruct P as (_ & _ & _ & _ & _ & _ & h0 & a & i & Hh & _). rewrite Hh in Lt. cbn in Lt. lia.
  - destruct P as (_ & _ & _ & _ & _ & _ & _ & _ & Ga & _). exact (Ga k h Hk).
  - destruct P as (_ & _ & _ & _ & _ & hs & h1 & t & Hh & Ga & _). rewrite Hh in Hk, Lt.
    rewrite app_length in Lt. cbn in Lt. apply nth_error_snoc in Hk. destruct Hk as [(Hk & _)|(-> & _)]; [|lia].
    exact (Ga k h Hk).
Qed.

(* ---- the verdict: a completed task had a last attempt that did not go on; its state is what that
        attempt counts as; nothing is pending; the follow-ups were dispatched once, for this state ---- *)
Theorem final_verdict n s : Inv n s -> is_completed (s_state s) = true ->
  exists hs h t, s_hist s = hs ++ [h] /\ goes n (N.of_nat (length hs)) h = false /\
    s_state s = eff n (h_res h) /\ result_state (h_res h) = true /\
    s_jobs s = [] /\ length (s_acts s) = length (s_hist s) /\ Forall done_act (s_acts s) /\
    s_disp s = [(t, s_state s)].
Proof.
  intros I C. pose proof (completed_phase n s I C) as P. destruct I as ((G1 & _) & _).
  cbn [Ph] in P. destruct P as (_ & J & _ & L & F & hs & h & t & Hh & _ & Gn & St & D & _).
  exists hs, h, t. repeat split; auto.
  apply G1. rewrite Hh. apply in_app_iff. right. left. reflexivity.
Qed.

(* ---- follow-up commands are dispatched only for a completed task ---- *)
Theorem dispatch_only_when_final n s : Inv n s -> is_completed (s_state s) = false -> s_disp s = [].
Proof.
  intros (_ & p & P) C. destruct p; cbn [Ph] in P; try tauto.
  destruct P as (A & _). congruence.
Qed.

(* ---- finality: nothing changes a completed task any more ---- *)
Lemma final_step n s e : Inv n s -> is_completed (s_state s) = true ->
  step_n n s e = s \/ exists d, step_n n s e = set_now (s_now s + d) s.
Proof.
  intros I C. pose proof (completed_phase n s I C) as P. cbn [Ph] in P.
  destruct P as (_ & J & W & _ & F & _).
  destruct e; cbn [step_n].
  - left. unfold start_n. rewrite (completed_not_idle _ C). reflexivity.
  - left. unfold resume. rewrite W. reflexivity.
  - left. apply act_noop, F.
  - left. apply fire_none. rewrite J. destruct j; reflexivity.
  - right. eexists. reflexivity.
Qed.

Definition same_task (s s' : st) : Prop :=
  s_state s' = s_state s /\ s_info s' = s_info s /\ s_acts s' = s_acts s /\ s_disp s' = s_disp s /\
  s_jobs s' = s_jobs s /\ s_hist s' = s_hist s /\ s_rno s' = s_rno s /\ s_wf s' = s_wf s.

Theorem finality n s evs : n_tmo n = 0 -> Inv n s -> is_completed (s_state s) = true ->
  same_task s (fold_left (step_n n) evs s).
Proof.
  intros T. revert s. induction evs as [|e t IH]; intros s I C; [repeat split|].
  cbn [fold_left]. destruct (final_step n s e I C) as [E|(d & E)].
  - rewrite E. apply IH; assumption.
  - assert (I' : Inv n (step_n n s e)) by (apply step_inv; assumption).
    rewrite E in *. destruct (IH _ I' C) as (A1 & A2 & A3 & A4 & A5 & A6 & A7 & A8). repeat split; assumption.
Qed.

(* ---- delays (when no job ran before its execute_at) ---- *)
Theorem delays_kept n s : Inv n s -> s_early s = false ->
  (forall k a h, nth_error (s_acts s) (S k) = Some a -> nth_error (s_hist s) k = Some h -> h_time h + n_dl n <= a_start a) /\
  (n_pause n = false -> forall a t0, nth_error (s_acts s) 0 = Some a -> s_t0 s = Some t0 -> t0 + n_wb n <= a_start a) /\
  (forall t x h0, In (t, x) (s_disp s) -> nth_error (s_hist s) 0 = Some h0 -> h_time h0 + n_wa n <= t).
Proof. intros ((_ & G2 & G3 & G4) & _) E. split; [exact (G2 E)|split; [intros Pz; exact (G3 E Pz)|exact (G4 E)]]. Qed.

(* a task waiting for its retry has exactly one job, a continue job not earlier than completion + delay;
   a task waiting before its start has exactly one job, at start + wait-before, and no action yet;
   a task serving wait-after has exactly one job that carries the completion it postpones *)
Theorem delayed_task_has_its_job n s : Inv n s -> s_state s = RUNNING_DELAYED ->
  exists jb, s_jobs s = [jb] /\ s_disp s = [] /\ Forall done_act (s_acts s) /\
    ((j_kind jb = JContinue /\ s_acts s = [] /\ exists t0, s_t0 s = Some t0 /\ j_at jb = t0 + n_wb n) \/
     (j_kind jb = JContinue /\ exists hs h, s_hist s = hs ++ [h] /\ h_time h + n_dl n <= j_at jb) \/
     (exists h i, s_hist s = [h] /\ j_kind jb = JComplete (h_res h) i /\ j_at jb = h_time h + n_wa n)).
Proof.
  intros (_ & p & P) St. destruct p; cbn [Ph] in P; try (destruct P as (A & _); congruence).
  - destruct P as (_ & Ha & _ & Hd & _ & _ & _ & _ & _ & t0 & Ht & Hj).
    eexists. split; [exact Hj|]. rewrite Ha. repeat split; auto. left. cbn. eauto.
  - destruct P as (_ & Hd & _ & _ & _ & _ & h & a & i & Hh & Ha & Da & Hj & _).
    eexists. split; [exact Hj|]. rewrite Ha. repeat split; auto. right. right. exists h, i. cbn. auto.
  - destruct P as (_ & Hd & _ & L & F & Ne & _ & _ & _ & _ & _ & at_ & Hj & Hat).
    eexists. split; [exact Hj|]. repeat split; auto. right. left. cbn. split; [reflexivity|].
    destruct (exists_last Ne) as (hs & h & Hs). exists hs, h. split; [exact Hs|]. exact (Hat hs h Hs).
  - destruct P as (A & _). rewrite St in A. discriminate.
Qed.

(* ---- pause-before: no action before the workflow is resumed ---- *)
Definition idle_clean (s : st) : Prop :=
  s_state s = IDLE /\ s_acts s = [] /\ s_jobs s = [] /\ s_wbskip s = false.

Lemma pause_step n s e : n_pause n = true -> n_tmo n = 0 -> e <> EResume -> idle_clean s ->
  idle_clean (step_n n s e) /\ (e = EStart -> s_wf (step_n n s e) = PAUSED).
Proof.
  intros Pz T Ne (A & B & C & D). destruct e; cbn [step_n]; try congruence.
  - unfold start_n, before_n, pause_n, wb_n, tmo_n, conc_n. rewrite A, Pz, T. change (0 =? 0) with true.
    cbn [is_idle state_eqb].
    destruct (s_t0 s); fields; rewrite ?D; destruct (n_wb n =? 0); fields; destruct (n_conc n =? 0); fields;
      (split; [repeat split; auto|reflexivity]).
  - unfold act_done_n. rewrite B. destruct i; cbn; (split; [repeat split; auto|discriminate]).
  - unfold fire_n. rewrite C. destruct j; cbn; (split; [repeat split; auto|discriminate]).
  - split; [repeat split; auto|discriminate].
Qed.

Theorem pause_before_no_action n evs : n_pause n = true -> n_tmo n = 0 -> ~ In EResume evs ->
  s_acts (run_n n evs) = [] /\ s_state (run_n n evs) = IDLE /\ (In EStart evs -> s_wf (run_n n evs) = PAUSED).
Proof.
  intros Pz T. unfold run_n.
  assert (G : forall evs s, idle_clean s -> ~ In EResume evs ->
            idle_clean (fold_left (step_n n) evs s) /\
            ((s_wf s = PAUSED \/ In EStart evs) -> s_wf (fold_left (step_n n) evs s) = PAUSED)).
  { induction evs0 as [|e t IH]; intros s Is Hn; [split; [exact Is|intros [H|[]]; exact H]|].
    cbn [fold_left]. assert (Ne : e <> EResume) by (intros ->; apply Hn; left; reflexivity).
    destruct (pause_step n s e Pz T Ne Is) as (Is' & Hw).
    destruct (IH _ Is' (fun H => Hn (or_intror H))) as (IH1 & IH2). split; [exact IH1|].
    intros [Hp|[He|Ht]]; apply IH2.
    - left. destruct e; try congruence.
      + exact (Hw eq_refl).
      + cbn [step_n]. unfold act_done_n. destruct Is as (_ & Ba & _). rewrite Ba. destruct i; exact Hp.
      + cbn [step_n]. unfold fire_n. destruct Is as (_ & _ & Bj & _). rewrite Bj. destruct j; exact Hp.
      + exact Hp.
    - left. subst e. apply Hw. reflexivity.
    - right. exact Ht. }
  intros Hn. destruct (G evs init) as ((A & B & _) & W); [repeat split|exact Hn|].
  repeat split; auto.
Qed.

(* ------------------------------------------------------------------ *)
(* the statements on the machine with exceptions (Model.Policy.step), for well-typed configurations *)

Definition no_timeout (c : cfg) : Prop := n_tmo (norm c) = 0.

Lemma inv_run c evs : cfg_ok c = true -> no_timeout c -> Inv (norm c) (run c evs).
Proof. intros H T. rewrite (run_norm _ _ H). apply run_inv, T. Qed.

Theorem c_retry_stops c evs : cfg_ok c = true -> no_timeout c ->
  forall k h, nth_error (s_hist (run c evs)) k = Some h -> (S k < length (s_hist (run c evs)))%nat ->
  goes (norm c) (N.of_nat k) h = true.
Proof. intros H T. apply attempts_follow_rule, inv_run; assumption. Qed.

Theorem c_retry_verdict c evs : cfg_ok c = true -> no_timeout c ->
  let s := run c evs in
  is_completed (s_state s) = true ->
  exists hs h t, s_hist s = hs ++ [h] /\ goes (norm c) (N.of_nat (length hs)) h = false /\
    s_state s = eff (norm c) (h_res h) /\
    (s_state s = SUCCESS <-> h_res h = SUCCESS /\ n_fail (norm c) = false) /\
    s_jobs s = [] /\ length (s_acts s) = length (s_hist s) /\ Forall done_act (s_acts s) /\
    s_disp s = [(t, s_state s)].
Proof.
  intros H T s C. destruct (final_verdict (norm c) s (inv_run c evs H T) C) as (hs & h & t & A1 & A2 & A3 & A4 & A5 & A6 & A7 & A8).
  exists hs, h, t. split; [exact A1|split; [exact A2|split; [exact A3|split; [rewrite A3; apply eff_success|repeat split; auto]]]].
Qed.

Theorem c_finality c evs evs' : cfg_ok c = true -> no_timeout c ->
  is_completed (s_state (run c evs)) = true -> same_task (run c evs) (run c (evs ++ evs')).
Proof.
  intros H T C. unfold run. rewrite fold_left_app. fold (run c evs).
  rewrite (run_norm_from c evs' _ H). apply finality; [exact T|apply inv_run; assumption|exact C].
Qed.

Theorem c_follow_ups_once c evs : cfg_ok c = true -> no_timeout c ->
  let s := run c evs in
  (is_completed (s_state s) = false -> s_disp s = []) /\
  (is_completed (s_state s) = true -> exists t, s_disp s = [(t, s_state s)]).
Proof.
  intros H T s. pose proof (inv_run c evs H T) as I. split.
  - apply (dispatch_only_when_final (norm c)), I.
  - intros C. destruct (final_verdict _ _ I C) as (hs & h & t & _ & _ & _ & _ & _ & _ & _ & D). eauto.
Qed.

Theorem c_delays c evs : cfg_ok c = true -> no_timeout c ->
  let s := run c evs in let n := norm c in
  s_early s = false ->
  (forall k a h, nth_error (s_acts s) (S k) = Some a -> nth_error (s_hist s) k = Some h -> h_time h + n_dl n <= a_start a) /\
  (n_pause n = false -> forall a t0, nth_error (s_acts s) 0 = Some a -> s_t0 s = Some t0 -> t0 + n_wb n <= a_start a) /\
  (forall t x h0, In (t, x) (s_disp s) -> nth_error (s_hist s) 0 = Some h0 -> h_time h0 + n_wa n <= t).
Proof. intros H T s n. apply delays_kept, inv_run; assumption. Qed.

Theorem c_delayed_task_has_its_job c evs : cfg_ok c = true -> no_timeout c ->
  let s := run c evs in let n := norm c in
  s_state s = RUNNING_DELAYED ->
  exists jb, s_jobs s = [jb] /\ s_disp s = [] /\ Forall done_act (s_acts s) /\
    ((j_kind jb = JContinue /\ s_acts s = [] /\ exists t0, s_t0 s = Some t0 /\ j_at jb = t0 + n_wb n) \/
     (j_kind jb = JContinue /\ exists hs h, s_hist s = hs ++ [h] /\ h_time h + n_dl n <= j_at jb) \/
     (exists h i, s_hist s = [h] /\ j_kind jb = JComplete (h_res h) i /\ j_at jb = h_time h + n_wa n)).
Proof. intros H T s n. apply delayed_task_has_its_job, inv_run; assumption. Qed.

Theorem c_pause_before c evs : cfg_ok c = true -> no_timeout c -> n_pause (norm c) = true -> ~ In EResume evs ->
  s_acts (run c evs) = [] /\ s_state (run c evs) = IDLE /\ (In EStart evs -> s_wf (run c evs) = PAUSED).
Proof. intros H T Pz Hn. rewrite (run_norm _ _ H). apply pause_before_no_action; assumption. Qed.

Theorem c_timeout_after_completion c s j jb : cfg_ok c = true ->
  nth_error (s_jobs s) j = Some jb -> j_kind jb = JTimeout -> j_at jb <= s_now s ->
  is_completed (s_state s) = true ->
  step c s (EFire j) = set_jobs (del_nth (s_jobs s) j) s.
Proof. intros H. rewrite (step_norm _ _ _ H). apply timeout_after_completion. Qed.

Theorem c_timeout_before_completion c s j jb : cfg_ok c = true ->
  nth_error (s_jobs s) j = Some jb -> j_kind jb = JTimeout ->
  is_completed (s_state s) = false -> n_cnt (norm c) = 0 ->
  let s' := step c s (EFire j) in let n := norm c in
  (s_state s' = ERROR /\ s_info s' = ITimeout /\ (n_wa n = 0 \/ s_waskip s = true)) \/
  (s_state s' = RUNNING_DELAYED /\ n_wa n <> 0 /\ s_waskip s = false /\
   exists l, s_jobs s' = l ++ [mkJob (s_now s + n_wa n) (JComplete ERROR ITimeout)]).
Proof. intros H. cbv zeta. rewrite (step_norm _ _ _ H). apply timeout_before_completion. Qed.

Theorem c_late_result_ignored c s i x co br : cfg_ok c = true ->
  is_completed (s_state s) = true ->
  let s' := step c s (EAct i x co br) in
  s_state s' = s_state s /\ s_info s' = s_info s /\ s_jobs s' = s_jobs s /\ s_disp s' = s_disp s /\
  length (s_acts s') = length (s_acts s) /\ s_rno s' = s_rno s.
Proof. intros H. cbv zeta. rewrite (step_norm _ _ _ H). apply late_result_ignored. Qed.

Theorem c_no_exception c : cfg_ok c = true ->
  forall s, (exists s', before_hooks c s = Ok s') /\ (exists s', after_hooks c s = Ok s').
Proof. intros H s. rewrite (before_hooks_norm _ _ H), (after_hooks_norm _ _ H). eauto. Qed.

(* the retry policy's continue job is scheduled for (time of the completing transaction) + delay *)
Theorem retry_job_after_delay n x i s :
  is_completed (s_state s) = false -> result_state x = true -> (n_wa n = 0 \/ s_waskip s = true) ->
  retry_decide (n_cnt n) (rnoN s) (eff n x) (n_hc n) (s_cont s) (n_hb n) (s_brk s) = true ->
  let s' := complete_n n x i s in
  s_state s' = RUNNING_DELAYED /\ s_jobs s' = s_jobs s ++ [mkJob (s_now s + n_dl n) JContinue] /\
  s_rno s' = Some (rnoN s + 1) /\ s_disp s' = s_disp s /\ Forall (fun a => a_acc a = false) (s_acts s').
Proof.
  intros C R W D. cbv zeta.
  destruct (complete_case n x i s C R) as [(Wa & Ws & _)|[(_ & _ & i' & Eq)|(_ & D' & _)]].
  - exfalso. destruct W; congruence.
  - cbv zeta in Eq. rewrite Eq. cbn. repeat split; auto. rewrite Forall_map. apply Forall_forall. reflexivity.
  - congruence.
Qed.

(* ------------------------------------------------------------------ *)
(* With the guards of _continue_task / _complete_task: for EVERY well-typed configuration (timeouts
   included) and EVERY event sequence a completed task is final and its follow-ups are dispatched at
   most once. *)

Definition core_same (s s' : st) : Prop :=
  s_state s' = s_state s /\ s_info s' = s_info s /\ s_disp s' = s_disp s /\ s_rno s' = s_rno s /\
  length (s_acts s') = length (s_acts s) /\
  (s_jobs s' = s_jobs s \/ exists j, s_jobs s' = del_nth (s_jobs s) j).

Lemma completed_not_delayed x : is_completed x = true -> state_eqb x RUNNING_DELAYED = false.
Proof. destruct x; vm_compute; congruence. Qed.

Lemma final_step_all n s e : is_completed (s_state s) = true -> core_same s (step_n n s e).
Proof.
  intros C. destruct e as [| |i x co br|j|d]; cbn [step_n].
  - unfold start_n. rewrite (completed_not_idle _ C). repeat split; auto.
  - unfold resume. destruct (is_paused (s_wf s)); [|repeat split; auto].
    cbn [s_state set_wf]. rewrite (completed_not_idle _ C). repeat split; auto.
  - destruct (late_result_ignored n s i x co br C) as (A1 & A2 & A3 & A4 & A5 & A6).
    repeat split; auto.
  - unfold fire_n. destruct (nth_error (s_jobs s) j) as [jb|]; [|repeat split; auto].
    set (s1 := if s_now s <? j_at jb then _ else _).
    assert (Q : core_same s s1).
    { unfold s1. destruct (_ <? _); repeat split; auto; right; exists j; reflexivity. }
    assert (Qs : s_state s1 = s_state s) by (destruct Q; assumption).
    destruct (j_kind jb); rewrite ?Qs, ?(completed_not_delayed _ C), ?C; exact Q.
  - repeat split; auto.
Qed.

Lemma core_same_trans a b c : core_same a b -> is_completed (s_state a) = true ->
  (is_completed (s_state b) = true -> core_same b c) ->
  s_state c = s_state a /\ s_info c = s_info a /\ s_disp c = s_disp a /\ s_rno c = s_rno a /\
  length (s_acts c) = length (s_acts a).
Proof.
  intros (A1 & A2 & A3 & A4 & A5 & _) C H.
  destruct H as (B1 & B2 & B3 & B4 & B5 & _); [rewrite A1; exact C|]. repeat split; congruence.
Qed.

Theorem finality_all n s evs : is_completed (s_state s) = true ->
  let s' := fold_left (step_n n) evs s in
  s_state s' = s_state s /\ s_info s' = s_info s /\ s_disp s' = s_disp s /\ s_rno s' = s_rno s /\
  length (s_acts s') = length (s_acts s).
Proof.
  revert s. induction evs as [|e t IH]; intros s C; cbn [fold_left]; [repeat split|].
  pose proof (final_step_all n s e C) as F. destruct F as (A1 & A2 & A3 & A4 & A5 & A6).
  assert (C' : is_completed (s_state (step_n n s e)) = true) by (rewrite A1; exact C).
  destruct (IH _ C') as (B1 & B2 & B3 & B4 & B5). cbv zeta. repeat split; congruence.
Qed.

Theorem c_finality_all c evs evs' : cfg_ok c = true -> is_completed (s_state (run c evs)) = true ->
  let s := run c evs in let s' := run c (evs ++ evs') in
  s_state s' = s_state s /\ s_info s' = s_info s /\ s_disp s' = s_disp s /\ s_rno s' = s_rno s /\
  length (s_acts s') = length (s_acts s).
Proof.
  intros H C. cbv zeta. unfold run. rewrite fold_left_app. fold (run c evs).
  rewrite (run_norm_from c evs' _ H). apply finality_all, C.
Qed.

Definition jc_res (j : job) : Prop := match j_kind j with JComplete x _ => result_state x = true | _ => True end.

Definition Dsp (s : st) : Prop :=
  Forall jc_res (s_jobs s) /\
  (s_disp s = [] \/ (is_completed (s_state s) = true /\ length (s_disp s) = 1%nat)).

Lemma complete_dsp n x i s : result_state x = true -> Forall jc_res (s_jobs s) -> s_disp s = [] ->
  is_completed (s_state s) = false -> Dsp (complete_n n x i s).
Proof.
  intros R F D C.
  destruct (complete_case n x i s C R) as [(_ & _ & Eq)|[(_ & _ & i' & Eq)|(_ & _ & i' & Eq)]];
    cbv zeta in Eq; rewrite Eq; clear Eq; unfold Dsp.
  - cbn. split; [|left; exact D]. apply Forall_app. split; [exact F|]. repeat constructor. exact R.
  - cbn. split; [|left; exact D]. apply Forall_app. split; [exact F|]. repeat constructor.
  - unfold dispatch. cbn [s_wf set_state]. destruct (is_paused (s_wf s)); cbn; (split; [exact F|]).
    + left. exact D.
    + right. rewrite D. split; [apply result_completed, eff_result, R|reflexivity].
Qed.

Lemma before_n_dsp n s : Forall jc_res (s_jobs s) -> s_disp s = [] ->
  Forall jc_res (s_jobs (before_n n s)) /\ s_disp (before_n n s) = [].
Proof.
  intros F D. unfold before_n, conc_n, tmo_n, wb_n, pause_n.
  destruct (n_pause n), (n_wb n =? 0), (n_tmo n =? 0), (n_conc n =? 0); cbn;
    repeat match goal with |- context [if ?b then _ else _] => destruct b; cbn end;
    (split; [|exact D]); repeat (apply Forall_app; split); auto; repeat constructor.
Qed.

Lemma step_dsp n s e : Dsp s -> Dsp (step_n n s e).
Proof.
  intros (F & D).
  destruct (is_completed (s_state s)) eqn:C.
  { destruct (final_step_all n s e C) as (A1 & _ & A3 & _ & _ & A6). unfold Dsp. rewrite A1, A3, C. split; [|exact D].
    destruct A6 as [->|(j & ->)]; [exact F|apply Forall_del, F]. }
  destruct D as [D|(D & _)]; [|discriminate D].
  destruct e as [| |i x co br|j|d]; cbn [step_n].
  - unfold start_n. destruct (is_idle (s_state s)); [|split; auto].
    set (s0 := match s_t0 s with None => _ | Some _ => s end).
    assert (F0 : Forall jc_res (s_jobs (set_state RUNNING (s_info s0) s0)) /\ s_disp (set_state RUNNING (s_info s0) s0) = [])
      by (unfold s0; destruct (s_t0 s); split; assumption).
    destruct (before_n_dsp n _ (proj1 F0) (proj2 F0)) as (F2 & D2).
    destruct (state_eqb _ RUNNING); (split; [exact F2|left; exact D2]).
  - unfold resume. destruct (is_paused (s_wf s)); [|split; auto]. cbn [s_state set_wf].
    destruct (is_idle (s_state s)); (split; [exact F|left; exact D]).
  - unfold act_done_n. destruct (nth_error (s_acts s) i) as [a|]; [|split; auto].
    destruct (state_eqb (a_state a) RUNNING && result_state x) eqn:E; [|split; auto].
    apply andb_prop in E. destruct E as (_ & Rx). apply complete_dsp; auto.
  - unfold fire_n. destruct (nth_error (s_jobs s) j) as [jb|] eqn:E; [|split; auto].
    pose proof (Forall_nth _ _ _ _ F E) as Hjb.
    set (s1 := if s_now s <? j_at jb then _ else _).
    assert (Q : Forall jc_res (s_jobs s1) /\ s_disp s1 = [] /\ s_state s1 = s_state s)
      by (unfold s1; destruct (_ <? _); repeat split; auto; apply Forall_del, F).
    destruct Q as (Q1 & Q2 & Q3). unfold jc_res in Hjb.
    destruct (j_kind jb) as [|x i| |].
    + destruct (state_eqb (s_state s1) RUNNING_DELAYED); (split; [exact Q1|left; exact Q2]).
    + destruct (state_eqb (s_state s1) RUNNING_DELAYED); [|split; [exact Q1|left; exact Q2]].
      apply complete_dsp; auto. rewrite Q3. exact C.
    + rewrite Q3, C. apply complete_dsp; auto. change (s_state (abandon s1)) with (s_state s1). rewrite Q3. exact C.
    + split; [exact Q1|left; exact Q2].
  - split; [exact F|left; exact D].
Qed.

Theorem c_follow_ups_at_most_once c evs : cfg_ok c = true ->
  let s := run c evs in
  s_disp s = [] \/ (is_completed (s_state s) = true /\ length (s_disp s) = 1%nat).
Proof.
  intros H. cbv zeta. rewrite (run_norm _ _ H). unfold run_n.
  assert (G : forall evs s, Dsp s -> Dsp (fold_left (step_n (norm c)) evs s)).
  { induction evs0 as [|e t IH]; intros s D; [exact D|]. cbn. apply IH, step_dsp, D. }
  apply G. split; [constructor|left; reflexivity].
Qed.
