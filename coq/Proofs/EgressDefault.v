(* The default deny list (Gen/EgressCfg.v, regenerated from mistral/config.py)
   covers loopback, link-local and the metadata service (property C19). *)
From Coq Require Import List NArith ZArith Bool String Lia ZifyBool ZifyN.
Require Import Mistral.Model.Egress Mistral.Proofs.EgressProofs Mistral.Gen.EgressCfg.
Import ListNotations.
Open Scope N_scope.

Lemma addr_denied_intro denied a n :
  In n denied -> in_net a n = true -> addr_denied denied a = true.
Proof.
  intros Hn Hin. unfold addr_denied. apply existsb_exists. exists a. split.
  - unfold candidates. destruct (ipv4_mapped a); simpl; auto.
  - apply existsb_exists. exists n. auto.
Qed.

Lemma addr_denied_mapped denied a m n :
  ipv4_mapped a = Some m -> In n denied -> in_net m n = true -> addr_denied denied a = true.
Proof.
  intros Hm Hn Hin. unfold addr_denied. apply existsb_exists. exists m. split.
  - unfold candidates. rewrite Hm. simpl; auto.
  - apply existsb_exists. exists n. auto.
Qed.

Lemma in_range_in_net fam base len v :
  len <= bits fam ->
  let k := bits fam - len in
  (base / 2 ^ k) * 2 ^ k <= v < (base / 2 ^ k) * 2 ^ k + 2 ^ k ->
  in_net (mkAddr fam v) (mkNet fam base len) = true.
Proof.
  intros Hl k Hr. apply in_net_range. unfold net_lo, net_size. simpl. auto.
Qed.

(* 127.0.0.0/8 *)
Lemma default_covers_loopback4 v :
  2130706432 <= v < 2147483648 -> addr_denied default_denied (mkAddr V4 v) = true.
Proof.
  intros Hv. apply (addr_denied_intro _ _ (mkNet V4 2130706432 8)).
  - vm_compute. tauto.
  - apply in_range_in_net; [vm_compute; discriminate|].
    change (bits V4 - 8) with 24. change (2 ^ 24) with 16777216.
    change (2130706432 / 16777216 * 16777216) with 2130706432. lia.
Qed.

(* 169.254.0.0/16, which contains the metadata service 169.254.169.254 *)
Lemma default_covers_linklocal4 v :
  2851995648 <= v < 2852061184 -> addr_denied default_denied (mkAddr V4 v) = true.
Proof.
  intros Hv. apply (addr_denied_intro _ _ (mkNet V4 2851995648 16)).
  - vm_compute. tauto.
  - apply in_range_in_net; [vm_compute; discriminate|].
    change (bits V4 - 16) with 16. change (2 ^ 16) with 65536.
    change (2851995648 / 65536 * 65536) with 2851995648. lia.
Qed.

Lemma default_covers_metadata :
  addr_denied default_denied (mkAddr V4 2852039166) = true.
Proof. apply default_covers_linklocal4. lia. Qed.

(* ::1 *)
Lemma default_covers_loopback6 : addr_denied default_denied (mkAddr V6 1) = true.
Proof. vm_compute. reflexivity. Qed.

(* fe80::/10 *)
Lemma default_covers_linklocal6 v :
  338288524927261089654018896841347694592 <= v < 338620831926207318622244848606417780736 ->
  addr_denied default_denied (mkAddr V6 v) = true.
Proof.
  intros Hv. apply (addr_denied_intro _ _ (mkNet V6 338288524927261089654018896841347694592 10)).
  - vm_compute. tauto.
  - apply in_range_in_net; [vm_compute; discriminate|].
    change (bits V6 - 10) with 118.
    change (2 ^ 118) with 332306998946228968225951765070086144.
    change (338288524927261089654018896841347694592 / 332306998946228968225951765070086144
            * 332306998946228968225951765070086144) with 338288524927261089654018896841347694592.
    lia.
Qed.

(* IPv4-mapped IPv6 spellings of the denied IPv4 ranges *)
Lemma default_covers_mapped v :
  (2130706432 <= v < 2147483648 \/ 2851995648 <= v < 2852061184) ->
  addr_denied default_denied (mkAddr V6 (mapped_val v)) = true.
Proof.
  intros Hv.
  assert (Hlt : v < 4294967296) by lia.
  pose proof (mapped_is_mapped v Hlt) as Hm.
  destruct Hv as [Hv|Hv].
  - apply (addr_denied_mapped _ _ (mkAddr V4 v) (mkNet V4 2130706432 8) Hm).
    + vm_compute. tauto.
    + apply in_range_in_net; [vm_compute; discriminate|].
      change (bits V4 - 8) with 24. change (2 ^ 24) with 16777216.
      change (2130706432 / 16777216 * 16777216) with 2130706432. lia.
  - apply (addr_denied_mapped _ _ (mkAddr V4 v) (mkNet V4 2851995648 16) Hm).
    + vm_compute. tauto.
    + apply in_range_in_net; [vm_compute; discriminate|].
      change (bits V4 - 16) with 16. change (2 ^ 16) with 65536.
      change (2851995648 / 65536 * 65536) with 2851995648. lia.
Qed.

(* a URL whose host resolves to any default-denied address is refused under the default config *)
Lemma default_refuses scheme host l a :
  In a l -> addr_denied default_denied a = true ->
  validate default_denied default_allowed_hosts scheme host (Some l) <> Allow.
Proof.
  intros Ha Hd H. apply validate_allow_bool in H. destruct H as (_ & _ & _ & H).
  specialize (H l eq_refl). apply (proj1 (existsb_false_forall _ _)) with (x := a) in H; auto.
  congruence.
Qed.
