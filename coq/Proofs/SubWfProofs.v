(* Proofs about Model/SubWf.v (property C09, component level). *)
From Coq Require Import List Bool String Ascii Arith Lia.
Require Import Mistral.Gen.States Mistral.Model.SubWf.
Import ListNotations.
Open Scope string_scope.

(* ------------------------------------------------------------------ *)
(* dictionaries, pointwise                                              *)

Lemma eqb_neq_sym (a b : string) : String.eqb a b = false -> String.eqb b a = false.
Proof. rewrite !String.eqb_neq. congruence. Qed.

Lemma lookup_dset : forall d k k' v,
  lookup k (dset k' v d) = if String.eqb k' k then Some v else lookup k d.
Proof.
  induction d as [|[k0 v0] r IH]; intros k k' v; cbn [dset lookup].
  - reflexivity.
  - destruct (String.eqb k0 k') eqn:E0.
    + apply String.eqb_eq in E0. subst k0. cbn [lookup].
      destruct (String.eqb k' k); reflexivity.
    + cbn [lookup]. rewrite IH. destruct (String.eqb k0 k) eqn:E1; [|reflexivity].
      apply String.eqb_eq in E1. subst k0. rewrite (eqb_neq_sym _ _ E0). reflexivity.
Qed.

Lemma lookup_dremove : forall d k k',
  lookup k (dremove k' d) = if String.eqb k' k then None else lookup k d.
Proof.
  induction d as [|[k0 v0] r IH]; intros k k'; cbn [dremove lookup].
  - destruct (String.eqb k' k); reflexivity.
  - destruct (String.eqb k0 k') eqn:E0.
    + apply String.eqb_eq in E0. subst k0. rewrite IH. destruct (String.eqb k' k); reflexivity.
    + cbn [lookup]. rewrite IH. destruct (String.eqb k0 k) eqn:E1; [|reflexivity].
      apply String.eqb_eq in E1. subst k0. rewrite (eqb_neq_sym _ _ E0). reflexivity.
Qed.

Lemma lookup_notin : forall d k, ~ In k (map fst d) -> lookup k d = None.
Proof.
  induction d as [|[k0 v0] r IH]; intros k H; cbn [lookup]; [reflexivity|].
  cbn [map fst In] in H. destruct (String.eqb k0 k) eqn:E.
  - apply String.eqb_eq in E. tauto.
  - apply IH. tauto.
Qed.

Lemma lookup_in : forall d k, lookup k d <> None -> In k (map fst d).
Proof.
  intros d k H. destruct (in_dec string_dec k (map fst d)) as [Hi|Hn]; [exact Hi|].
  exfalso. apply H. apply lookup_notin. exact Hn.
Qed.

(* the loop of WorkflowAction.schedule when it is not refused, characterised pointwise for any
   state of the two dictionaries (python dict: keys are unique); third clause: no undeclared
   key met a param of its name *)
Lemma split_loop_some : forall decl items inp par inp' par' k,
  NoDup (map fst items) ->
  split_loop decl items inp par = Some (inp', par') ->
  lookup k inp' =
    match lookup k items with
    | Some _ => if mem_key k decl then lookup k inp else None
    | None => lookup k inp
    end /\
  lookup k par' =
    match lookup k items with
    | Some v => if mem_key k decl then lookup k par else Some v
    | None => lookup k par
    end /\
  (lookup k items <> None -> mem_key k decl = false -> lookup k par = None).
Proof.
  intros decl items. induction items as [|[k0 v0] t IH]; intros inp par inp' par' k ND E.
  - cbn in E. inversion E; subst. cbn. repeat split; congruence.
  - cbn [map fst] in ND. inversion ND as [|? ? Hnotin ND']; subst.
    cbn [split_loop] in E. cbn [lookup].
    destruct (mem_key k0 decl) eqn:Ed.
    + destruct (IH inp par inp' par' k ND' E) as [I1 [I2 I3]]. rewrite I1, I2.
      destruct (String.eqb k0 k) eqn:Ek.
      * apply String.eqb_eq in Ek. subst k0. rewrite (lookup_notin t k Hnotin), Ed.
        repeat split; congruence.
      * repeat split; auto.
    + destruct (lookup k0 par) eqn:Ep; [discriminate E|].
      destruct (IH _ _ inp' par' k ND' E) as [I1 [I2 I3]]. rewrite I1, I2.
      rewrite lookup_dremove, lookup_dset in *.
      destruct (String.eqb k0 k) eqn:Ek.
      * apply String.eqb_eq in Ek. subst k0. rewrite (lookup_notin t k Hnotin), Ed.
        repeat split; auto.
      * repeat split; auto.
Qed.

Lemma split_loop_none : forall decl items inp par,
  NoDup (map fst items) ->
  split_loop decl items inp par = None ->
  exists k, lookup k items <> None /\ mem_key k decl = false /\ lookup k par <> None.
Proof.
  intros decl items. induction items as [|[k0 v0] t IH]; intros inp par ND E.
  - discriminate E.
  - cbn [map fst] in ND. inversion ND as [|? ? Hnotin ND']; subst. cbn [split_loop] in E.
    destruct (mem_key k0 decl) eqn:Ed.
    + destruct (IH inp par ND' E) as [k [H1 [H2 H3]]]. exists k. cbn [lookup].
      destruct (String.eqb k0 k); repeat split; auto; discriminate.
    + destruct (lookup k0 par) eqn:Ep.
      * exists k0. cbn [lookup]. rewrite String.eqb_refl, Ep. repeat split; auto; discriminate.
      * destruct (IH _ _ ND' E) as [k [H1 [H2 H3]]]. exists k. cbn [lookup].
        assert (Hne : String.eqb k0 k = false).
        { apply String.eqb_neq. intros ->. apply Hnotin. apply lookup_in. exact H1. }
        rewrite Hne. rewrite lookup_dset, Hne in H3. repeat split; auto.
Qed.

(* declared keys stay input with their values; undeclared keys leave the input *)
Lemma param_split_input : forall decl input sys inp' par' k,
  NoDup (map fst input) -> param_split decl input sys = Some (inp', par') ->
  lookup k inp' = if mem_key k decl then lookup k input else None.
Proof.
  intros decl input sys inp' par' k ND E. unfold param_split in E.
  destruct (split_loop_some decl input input sys inp' par' k ND E) as [H _]. rewrite H.
  destruct (lookup k input); destruct (mem_key k decl); reflexivity.
Qed.

(* undeclared keys become params with their values; every other param is what it was *)
Lemma param_split_params : forall decl input sys inp' par' k,
  NoDup (map fst input) -> param_split decl input sys = Some (inp', par') ->
  lookup k par' =
    match lookup k input with
    | Some v => if mem_key k decl then lookup k sys else Some v
    | None => lookup k sys
    end.
Proof.
  intros decl input sys inp' par' k ND E. unfold param_split in E.
  destruct (split_loop_some decl input input sys inp' par' k ND E) as [_ [H _]]. exact H.
Qed.

(* nothing is dropped: every input key reaches the child as input or as a param, with its value *)
Lemma param_split_nothing_dropped : forall decl input sys inp' par' k v,
  NoDup (map fst input) -> param_split decl input sys = Some (inp', par') -> lookup k input = Some v ->
  (mem_key k decl = true /\ lookup k inp' = Some v) \/
  (mem_key k decl = false /\ lookup k par' = Some v /\ lookup k inp' = None).
Proof.
  intros decl input sys inp' par' k v ND E H.
  rewrite (param_split_input _ _ _ _ _ k ND E), (param_split_params _ _ _ _ _ k ND E). rewrite H.
  destruct (mem_key k decl); [left|right]; auto.
Qed.

(* UNCONDITIONALLY: whenever a child is started, every system param (root, parent task, index,
   namespace, notify) reaches it exactly as the engine set it *)
Lemma param_split_sys_kept : forall decl input sys inp' par' k,
  NoDup (map fst input) -> param_split decl input sys = Some (inp', par') ->
  lookup k sys <> None -> lookup k par' = lookup k sys.
Proof.
  intros decl input sys inp' par' k ND E Hs. unfold param_split in E.
  destruct (split_loop_some decl input input sys inp' par' k ND E) as [_ [H2 H3]]. rewrite H2.
  destruct (lookup k input) eqn:Ei; [|reflexivity].
  destruct (mem_key k decl) eqn:Ed; [reflexivity|].
  exfalso. apply Hs. apply H3; congruence.
Qed.

(* the call is refused (InputException, nothing started) exactly when an undeclared input key
   carries the name of a param the engine has set *)
Lemma param_split_refused_iff : forall decl input sys,
  NoDup (map fst input) ->
  (param_split decl input sys = None <->
   exists k, lookup k input <> None /\ mem_key k decl = false /\ lookup k sys <> None).
Proof.
  intros decl input sys ND. split.
  - apply split_loop_none. exact ND.
  - intros [k [H1 [H2 H3]]]. destruct (param_split decl input sys) as [[inp' par']|] eqn:E; [|reflexivity].
    exfalso. apply H3. unfold param_split in E.
    destruct (split_loop_some decl input input sys inp' par' k ND E) as [_ [_ H]]. apply H; assumption.
Qed.

(* the former witness of the override is now refused *)
Lemma old_override_refused :
  param_split ["a"] [("a", 1); ("root_execution_id", 7); ("namespace", 8)] (sys_params 90 91 0 92 None) = None.
Proof. vm_compute. reflexivity. Qed.

(* root propagation over any nesting depth: the root of the tree has no root id; every
   descendant records root_of (parent's root) (parent's id) *)
Fixpoint descend (parent_root : option nat) (parent_id : nat) (ids : list nat) : list nat :=
  match ids with
  | [] => []
  | c :: r => let cr := root_of parent_root parent_id in cr :: descend (Some cr) c r
  end.

Lemma descend_some : forall ids r p, Forall (fun x => x = r) (descend (Some r) p ids).
Proof.
  induction ids as [|c t IH]; intros r p; cbn [descend root_of]; constructor; [reflexivity|apply IH].
Qed.

Lemma root_propagation : forall ids r, Forall (fun x => x = r) (descend None r ids).
Proof.
  intros [|c t] r; cbn [descend root_of]; constructor; [reflexivity|apply descend_some].
Qed.

(* ------------------------------------------------------------------ *)
(* rstrip with a character set, [:-1]                                    *)

Lemma append_assoc_s : forall a b c : string, (a ++ b) ++ c = a ++ (b ++ c).
Proof. induction a as [|x r IH]; intros b c; cbn; [reflexivity|rewrite IH; reflexivity]. Qed.

Lemma length_append_s : forall a b : string, String.length (a ++ b) = String.length a + String.length b.
Proof. induction a as [|x r IH]; intros b; cbn; [reflexivity|rewrite IH; reflexivity]. Qed.

Lemma rstrip_all : forall t cs,
  (forall c, mem_char c t = true -> mem_char c cs = true) -> rstrip t cs = EmptyString.
Proof.
  induction t as [|x r IH]; intros cs H; cbn [rstrip]; [reflexivity|].
  rewrite IH.
  - rewrite (H x); [reflexivity|]. cbn [mem_char]. rewrite Ascii.eqb_refl. reflexivity.
  - intros c Hc. apply H. cbn [mem_char]. rewrite Hc. apply orb_true_r.
Qed.

(* trailing characters that all belong to the set are removed *)
Lemma rstrip_app_sub : forall s t cs,
  (forall c, mem_char c t = true -> mem_char c cs = true) -> rstrip (s ++ t) cs = rstrip s cs.
Proof.
  induction s as [|x r IH]; intros t cs H.
  - cbn [append rstrip]. apply rstrip_all. exact H.
  - cbn [append rstrip]. rewrite (IH t cs H). reflexivity.
Qed.

(* a last character outside the set stops the stripping *)
Lemma rstrip_last_kept : forall s c cs,
  mem_char c cs = false -> rstrip (s ++ String c EmptyString) cs = s ++ String c EmptyString.
Proof.
  induction s as [|x r IH]; intros c cs H.
  - cbn [append rstrip]. rewrite H. reflexivity.
  - cbn [append rstrip]. rewrite (IH c cs H). destruct r; reflexivity.
Qed.

Lemma drop_last_snoc : forall s c, drop_last (s ++ String c EmptyString) = s.
Proof.
  induction s as [|x r IH]; intros c; [reflexivity|].
  cbn [append]. specialize (IH c). destruct r as [|y r'].
  - reflexivity.
  - cbn [append drop_last] in *. rewrite IH. reflexivity.
Qed.

Lemma rstrip_length : forall s cs, String.length (rstrip s cs) <= String.length s.
Proof.
  induction s as [|x r IH]; intros cs; cbn [rstrip String.length]; [lia|].
  specialize (IH cs). destruct (rstrip r cs) eqn:E.
  - destruct (mem_char x cs); cbn [String.length]; lia.
  - cbn [String.length] in *. lia.
Qed.

Lemma drop_last_length : forall s, String.length (drop_last s) = String.length s - 1.
Proof.
  induction s as [|x r IH]; [reflexivity|].
  destruct r as [|y r']; [reflexivity|].
  cbn [drop_last String.length] in *. rewrite IH. lia.
Qed.

Definition dot : ascii := "."%char.

(* '.' not in the parent's spec name: the character-set rstrip yields exactly the workbook
   prefix "wb.", so wb_name is the workbook name - for every workbook name and spec name *)
Lemma wb_name_exact : forall wb spec,
  mem_char dot spec = false ->
  rstrip (wb ++ "." ++ spec) spec = wb ++ "." /\ wb_name_of (wb ++ "." ++ spec) spec = wb.
Proof.
  intros wb spec H.
  assert (E : rstrip (wb ++ "." ++ spec) spec = wb ++ ".").
  { rewrite <- append_assoc_s. rewrite rstrip_app_sub by auto. apply rstrip_last_kept. exact H. }
  split; [exact E|]. unfold wb_name_of. rewrite E. apply drop_last_snoc.
Qed.

(* '.' in the spec name: the rstrip runs through the separator into the workbook name; the
   computed workbook name is then never the real one (it is strictly shorter) *)
Lemma wb_name_overstrip : forall wb spec,
  mem_char dot spec = true ->
  wb_name_of (wb ++ "." ++ spec) spec = drop_last (rstrip wb spec) /\
  (wb <> EmptyString -> wb_name_of (wb ++ "." ++ spec) spec <> wb).
Proof.
  intros wb spec H.
  assert (E : wb_name_of (wb ++ "." ++ spec) spec = drop_last (rstrip wb spec)).
  { unfold wb_name_of. f_equal. apply rstrip_app_sub.
    intros c Hc. cbn [append mem_char] in Hc. apply orb_true_iff in Hc. destruct Hc as [Hc|Hc]; [|exact Hc].
    apply Ascii.eqb_eq in Hc. subst c. exact H. }
  split; [exact E|]. intros Hne Heq. rewrite E in Heq.
  pose proof (drop_last_length (rstrip wb spec)) as L1. pose proof (rstrip_length wb spec) as L2.
  rewrite Heq in L1. destruct wb; [congruence|]. cbn [String.length] in *. lia.
Qed.

Lemma qualified_differs : forall wb spec, String.eqb (wb ++ "." ++ spec) spec = false.
Proof.
  intros wb spec. apply String.eqb_neq. intros H.
  apply (f_equal String.length) in H. rewrite !length_append_s in H. cbn [String.length] in H. lia.
Qed.

(* lookup order for a workflow of a workbook (names per the workbook grammar: no '.' in
   the spec name): the workbook-relative definition, then the global one; and
   within each the caller's namespace before the default namespace *)
Lemma resolve_order : forall db wb pspec ns child,
  mem_char dot pspec = false ->
  resolve db (wb ++ "." ++ pspec) pspec ns child =
    match load db (wb ++ "." ++ child) ns with
    | Some d => Some d
    | None => load db child ns
    end.
Proof.
  intros db wb pspec ns child H. unfold resolve.
  rewrite qualified_differs. destruct (wb_name_exact wb pspec H) as [_ E]. rewrite E. reflexivity.
Qed.

Lemma resolve_standalone : forall db p ns child, resolve db p p ns child = load db child ns.
Proof. intros. unfold resolve. rewrite String.eqb_refl. reflexivity. Qed.

Lemma load_priority : forall db name ns,
  load db name ns = match find_def db name ns with Some d => Some d | None => find_def db name "" end.
Proof. reflexivity. Qed.

(* with a dotted spec name the workbook-relative lookup uses a wrong name: a sibling of
   the same workbook is missed and the global definition of the same short name is taken *)
Lemma resolve_overstrip_witness :
  let db := [mkDef "wb.child" "" 1; mkDef "child" "" 2] in
  resolve db "wb.a.b" "a.b" "" "child" = Some 2 /\
  resolve db "wb.ab" "ab" "" "child" = Some 1.
Proof. vm_compute. split; reflexivity. Qed.

(* ------------------------------------------------------------------ *)
(* result hand-off                                                      *)

Lemma result_class : forall s,
  (result_to_parent s = SendStored <-> s = SUCCESS) /\
  (result_to_parent s = SendError <-> s = ERROR) /\
  (result_to_parent s = SendCancel <-> s = CANCELLED) /\
  (result_to_parent s = SendRefused <-> is_completed s = false \/ s = SKIPPED).
Proof.
  destruct s; vm_compute; repeat split; intros; try congruence; auto;
    match goal with H : _ \/ _ |- _ => destruct H; congruence end.
Qed.

Lemma parent_mirrors_child : forall s,
  result_to_parent s <> SendRefused ->
  (parent_task_state s = SUCCESS <-> s = SUCCESS) /\
  (parent_task_state s = ERROR <-> s = ERROR) /\
  (parent_task_state s = CANCELLED <-> s = CANCELLED) /\
  is_completed (parent_task_state s) = true.
Proof.
  destruct s; vm_compute; intros H; repeat split; intros; try congruence.
Qed.
