(* Proofs about Model/Tenancy.v (property C15): generic lemmas over exec_op for ALL
   databases, contexts, arguments and call sequences; the statements about the
   generated table Gen/DbShapes.v are obtained from them in Properties/C15.v. *)
From Coq Require Import List Bool Arith Lia String.
Require Import Mistral.Model.Tenancy.
Import ListNotations.

(* ---- shape classes (computable) -------------------------------------------- *)

Definition q_secure (q : qmode) : bool := match q with QInsecure => false | _ => true end.
Definition fetch_secure (f : fetch) : bool := q_secure (f_q f).
(* the query only ever yields rows of the caller's own project (all rows for an admin) *)
Definition q_own (q : qmode) : bool := match q with QOwn | QOwnAdmin => true | _ => false end.
Definition guard_on (g : guard) : bool := match g with GNone => false | _ => true end.

(* every query of the function carries the tenancy filter *)
Definition shape_secure (s : shape) : bool :=
  match s with
  | SGet f | SLoad f | SDeleteQuery f => fetch_secure f
  | SList q | SCount q | SDeleteAll q => q_secure q
  | SCreate _ => true
  | SUpdate f _ _ | SDeleteObj f _ _ => fetch_secure f
  | SCreateOrUpdate p u _ _ => fetch_secure p && fetch_secure u
  | SInternal => true
  end.

Definition is_write (s : shape) : bool :=
  match s with
  | SUpdate _ _ _ | SDeleteObj _ _ _ | SDeleteQuery _ | SDeleteAll _ | SCreateOrUpdate _ _ _ _ => true
  | _ => false
  end.

(* every mutation of an existing row is preceded by check_db_obj_access, or works on a
   query restricted to the caller's own rows *)
Definition shape_guarded (s : shape) : bool :=
  match s with
  | SUpdate f g _ | SDeleteObj f g _ => guard_on g || q_own (f_q f)
  | SCreateOrUpdate _ u g _ => guard_on g || q_own (f_q u)
  | SDeleteQuery f => q_own (f_q f)
  | SDeleteAll q => q_own q
  | _ => true
  end.

(* a writing shape with neither guard: its fetch reaches rows of other projects and nothing checks the owner *)
Definition shape_exposed (s : shape) : bool :=
  match s with
  | SUpdate f g _ | SDeleteObj f g _ => negb (guard_on g) && negb (q_own (f_q f))
  | SCreateOrUpdate p u g _ => negb (guard_on g) && negb (q_own (f_q u)) && negb (q_own (f_q p))
  | SDeleteQuery f => negb (q_own (f_q f))
  | SDeleteAll q => negb (q_own q)
  | _ => false
  end.

(* the model class has the _set_project_id hook *)
Definition shape_forced (s : shape) : bool :=
  match s with
  | SCreate f | SUpdate _ _ f | SCreateOrUpdate _ _ _ f => f
  | _ => true
  end.

Definition result_rows (r : result) : list res :=
  match r with RRow x => [x] | RRows l => l | _ => [] end.

Definition wf_db (d : db) : Prop := NoDup (map r_id (rows d)).

(* ---- list facts -------------------------------------------------------------- *)

Lemma nodup_id_inj : forall (l : list res) x y,
  NoDup (map r_id l) -> In x l -> In y l -> r_id x = r_id y -> x = y.
Proof.
  induction l as [|h t IH]; intros x y Hnd Hx Hy Heq; [contradiction|].
  cbn [map] in Hnd. inversion Hnd as [|? ? Hnot Hnd']; subst.
  destruct Hx as [Hx|Hx], Hy as [Hy|Hy]; subst.
  - reflexivity.
  - exfalso. apply Hnot. rewrite Heq. apply in_map. exact Hy.
  - exfalso. apply Hnot. rewrite <- Heq. apply in_map. exact Hx.
  - apply IH; assumption.
Qed.

Lemma nodup_map_filter : forall (f : res -> bool) (l : list res),
  NoDup (map r_id l) -> NoDup (map r_id (filter f l)).
Proof.
  induction l as [|h t IH]; intros Hnd; cbn [filter map]; [constructor|].
  cbn [map] in Hnd. inversion Hnd as [|? ? Hnot Hnd']; subst.
  destruct (f h); cbn [map].
  - constructor; [|apply IH; exact Hnd'].
    intro Hin. apply Hnot. apply in_map_iff in Hin. destruct Hin as [x [Hx Hin]].
    apply filter_In in Hin. destruct Hin as [Hin _]. rewrite <- Hx. apply in_map. exact Hin.
  - apply IH; exact Hnd'.
Qed.

Lemma nodup_snoc : forall (l : list nat) x, NoDup l -> ~ In x l -> NoDup (l ++ [x]).
Proof.
  induction l as [|h t IH]; intros x Hnd Hx; cbn [app].
  - constructor; [intros []|constructor].
  - inversion Hnd as [|? ? Hnot Hnd']; subst. constructor.
    + intro Hin. apply in_app_or in Hin. destruct Hin as [Hin|[Hin|[]]]; [contradiction|].
      subst. apply Hx. left. reflexivity.
    + apply IH; [exact Hnd'|]. intro Hin. apply Hx. right. exact Hin.
Qed.

Lemma map_id_replace : forall r' l, map r_id (replace_row r' l) = map r_id l.
Proof.
  intros r' l. unfold replace_row. rewrite map_map. apply map_ext_in. intros x _.
  destruct (r_id x =? r_id r') eqn:E; [apply Nat.eqb_eq in E; symmetry; exact E|reflexivity].
Qed.

Lemma in_replace_other : forall r' l x, In x l -> r_id x <> r_id r' -> In x (replace_row r' l).
Proof.
  intros r' l x Hin Hne. unfold replace_row. apply in_map_iff. exists x. split; [|exact Hin].
  destruct (r_id x =? r_id r') eqn:E; [apply Nat.eqb_eq in E; contradiction|reflexivity].
Qed.

Lemma in_replace_inv : forall r' l x, In x (replace_row r' l) ->
  (x = r' /\ exists y, In y l /\ r_id y = r_id r') \/ In x l.
Proof.
  intros r' l x Hin. unfold replace_row in Hin. apply in_map_iff in Hin. destruct Hin as [y [Hy Hin]].
  destruct (r_id y =? r_id r') eqn:E.
  - left. split; [symmetry; exact Hy|]. exists y. split; [exact Hin|apply Nat.eqb_eq; exact E].
  - right. subst. exact Hin.
Qed.

Lemma first_of_in : forall l a x, first_of l a = Some x -> In x l.
Proof.
  intros l a x H. unfold first_of in H. destruct l as [|h t]; [discriminate|].
  assert (Hx : x = nth (a_pick a) (h :: t) h) by (injection H as H; symmetry; exact H).
  rewrite Hx. destruct (nth_in_or_default (a_pick a) (h :: t) h) as [Hi|Hd];
    [exact Hi|rewrite Hd; left; reflexivity].
Qed.

(* ---- candidates are rows the query mode lets through --------------------------- *)

Lemma candidates_sound : forall f d c a x,
  In x (candidates f d c a) -> In x (rows d) /\ q_visible (f_q f) d c a x = true.
Proof.
  intros f d c a x H. unfold candidates in H.
  set (base := filter (fun r => in_table a r && q_visible (f_q f) d c a r) (rows d)) in *.
  assert (Hb : forall y, In y base -> In y (rows d) /\ q_visible (f_q f) d c a y = true).
  { intros y Hy. unfold base in Hy. apply filter_In in Hy. destruct Hy as [Hy Hc].
    apply andb_true_iff in Hc. tauto. }
  destruct (f_sel f); destruct (filter _ base) eqn:E in H;
    try (rewrite <- E in H); try (apply filter_In in H; destruct H as [H _]; apply Hb; exact H);
    try contradiction.
Qed.

Lemma q_visible_nonadmin : forall q d c a x,
  q_secure q = true -> c_admin c = false -> a_insecure a = false ->
  q_visible q d c a x = true -> visible d c x = true.
Proof.
  intros q d c a x Hq Hc Ha. destruct q; cbn [q_visible]; try discriminate;
    rewrite ?Hc, ?Ha; cbn [orb]; try (intro H; exact H);
    intro H; unfold visible; rewrite H; reflexivity.
Qed.

Lemma q_own_nonadmin : forall q d c a x,
  q_own q = true -> c_admin c = false -> q_visible q d c a x = true -> r_owner x = c_project c.
Proof.
  intros q d c a x Hq Hc. destruct q; cbn [q_own q_visible] in *; try discriminate;
    rewrite ?Hc; cbn [orb]; intro H; apply Nat.eqb_eq; exact H.
Qed.

Lemma candidates_visible : forall f d c a x,
  fetch_secure f = true -> c_admin c = false -> a_insecure a = false ->
  In x (candidates f d c a) -> In x (rows d) /\ visible d c x = true.
Proof.
  intros f d c a x Hf Hc Ha H. apply candidates_sound in H. destruct H as [H1 H2].
  split; [exact H1|]. exact (q_visible_nonadmin (f_q f) d c a x Hf Hc Ha H2).
Qed.

(* ---- visibility only shrinks when member rows disappear ------------------------- *)

Definition mems_sub (d' d : db) : Prop := forall m, In m (mems d') -> In m (mems d).

Lemma shared_with_mono : forall d d' c r,
  mems_sub d' d -> shared_with d c r = false -> shared_with d' c r = false.
Proof.
  intros d d' c r Hsub H. unfold shared_with in *. destruct (res_type (r_model r)) as [t|]; [|reflexivity].
  destruct (existsb (Nat.eqb (r_id r)) (shared_ids d' c t)) eqn:E; [|reflexivity].
  rewrite <- H. symmetry. apply existsb_exists. apply existsb_exists in E. destruct E as [i [Hi He]].
  exists i. split; [|exact He]. unfold shared_ids in *. apply in_map_iff in Hi. destruct Hi as [m [Hm Hi]].
  apply in_map_iff. exists m. split; [exact Hm|]. apply filter_In in Hi. apply filter_In.
  split; [apply Hsub; tauto|tauto].
Qed.

Lemma visible_split : forall d c r,
  visible d c r = false <->
  (r_owner r =? c_project c) = false /\ is_public (r_scope r) = false /\ shared_with d c r = false.
Proof.
  intros. unfold visible. rewrite !orb_false_iff. tauto.
Qed.

Lemma visible_mono : forall d d' c r,
  mems_sub d' d -> visible d c r = false -> visible d' c r = false.
Proof.
  intros d d' c r Hsub H. apply visible_split in H. apply visible_split.
  destruct H as [H1 [H2 H3]]. repeat split; try assumption. eapply shared_with_mono; eassumption.
Qed.

Lemma drop_members_sub : forall i t l m, In m (drop_members i t l) -> In m l.
Proof.
  intros i t l m H. unfold drop_members in H. destruct t; [apply filter_In in H; tauto|exact H].
Qed.

(* ---- one call made by a context that cannot see r --------------------------------- *)

Definition step_inv (r : res) (c : ctx) (d : db) (out : result * db) : Prop :=
  (forall x, In x (result_rows (fst out)) -> r_id x <> r_id r) /\
  In r (rows (snd out)) /\ wf_db (snd out) /\ mems_sub (snd out) d.

Lemma mems_sub_refl : forall d, mems_sub d d.
Proof. intros d m H. exact H. Qed.

Lemma create_inv : forall forced d c a r,
  wf_db d -> In r (rows d) -> step_inv r c d (do_create forced d c a).
Proof.
  intros forced d c a r Hwf Hin. unfold do_create.
  destruct (existsb (clashes (new_row forced c a)) (rows d)) eqn:E.
  - repeat split; cbn [fst snd result_rows]; try assumption; [intros x []|apply mems_sub_refl].
  - assert (Hfresh : forall y, In y (rows d) -> r_id y <> r_id (new_row forced c a)).
    { intros y Hy Heq. assert (existsb (clashes (new_row forced c a)) (rows d) = true) as Hc.
      { apply existsb_exists. exists y. split; [exact Hy|]. unfold clashes.
        apply orb_true_iff. left. apply Nat.eqb_eq. exact Heq. }
      rewrite Hc in E. discriminate. }
    repeat split; cbn [fst snd result_rows rows mems].
    + intros x [Hx|[]]. subst x. intro Heq. apply (Hfresh r Hin). symmetry. exact Heq.
    + apply in_or_app. left. exact Hin.
    + unfold wf_db. cbn [rows]. rewrite map_app. cbn [map]. apply nodup_snoc.
      * exact Hwf.
      * intro Hi. apply in_map_iff in Hi. destruct Hi as [y [Hy Hi]]. exact (Hfresh y Hi Hy).
    + intros m Hm. exact Hm.
Qed.

Lemma unchanged_inv : forall res d c r,
  result_rows res = [] -> wf_db d -> In r (rows d) -> step_inv r c d (res, d).
Proof.
  intros res d c r Hres Hwf Hin. unfold step_inv. cbn [fst snd]. rewrite Hres.
  repeat split; try assumption; [intros x []|apply mems_sub_refl].
Qed.

Lemma vis_ne : forall d c r x,
  wf_db d -> In r (rows d) -> visible d c r = false -> In x (rows d) -> visible d c x = true ->
  r_id x <> r_id r.
Proof.
  intros d c r x Hwf Hr Hvr Hx Hvx Heq.
  assert (x = r) by (eapply nodup_id_inj; eauto). subst. rewrite Hvx in Hvr. discriminate.
Qed.

Lemma rows_result_inv : forall l d c r,
  wf_db d -> In r (rows d) -> visible d c r = false ->
  (forall x, In x l -> In x (rows d) /\ visible d c x = true) ->
  step_inv r c d (RRows l, d).
Proof.
  intros l d c r Hwf Hr Hv Hl. unfold step_inv. cbn [fst snd result_rows].
  repeat split; try assumption; [|apply mems_sub_refl].
  intros x Hx. destruct (Hl x Hx) as [H1 H2]. eapply vis_ne; eauto.
Qed.

Lemma update_inv : forall f chk forced d c a r,
  fetch_secure f = true -> c_admin c = false -> a_insecure a = false ->
  wf_db d -> In r (rows d) -> visible d c r = false ->
  step_inv r c d (do_update f chk forced d c a).
Proof.
  intros f chk forced d c a r Hf Hc Ha Hwf Hr Hv. unfold do_update.
  destruct (first_of (candidates f d c a) a) as [r0|] eqn:E;
    [|apply unchanged_inv; [reflexivity|assumption|assumption]].
  apply first_of_in in E. apply candidates_visible in E; try assumption. destruct E as [Hr0 Hv0].
  assert (Hne : r_id r0 <> r_id r) by (eapply vis_ne; eauto).
  destruct (guard_check chk c r0);
    try (apply unchanged_inv; [reflexivity|assumption|assumption]).
  unfold step_inv. cbn [fst snd result_rows rows mems]. repeat split.
  - intros x [Hx|[]]. subst x. cbn [apply_sets r_id]. exact Hne.
  - apply in_replace_other; [exact Hr|]. cbn [apply_sets r_id]. intro Heq. apply Hne. symmetry. exact Heq.
  - unfold wf_db. cbn [rows]. rewrite map_id_replace. exact Hwf.
  - intros m Hm. exact Hm.
Qed.

Lemma delete_hits_inv : forall (hit : list res) d c r ms,
  wf_db d -> In r (rows d) -> visible d c r = false ->
  (forall x, In x hit -> In x (rows d) /\ visible d c x = true) ->
  (forall m, In m ms -> In m (mems d)) ->
  step_inv r c d (ROk, mkDb (filter (fun y => negb (existsb (fun h => r_id h =? r_id y) hit)) (rows d)) ms).
Proof.
  intros hit d c r ms Hwf Hr Hv Hhit Hms. unfold step_inv. cbn [fst snd result_rows rows mems]. repeat split.
  - intros x [].
  - apply filter_In. split; [exact Hr|]. apply negb_true_iff.
    destruct (existsb (fun h => r_id h =? r_id r) hit) eqn:E; [|reflexivity].
    apply existsb_exists in E. destruct E as [h [Hh He]]. apply Nat.eqb_eq in He.
    destruct (Hhit h Hh) as [H1 H2]. exfalso. exact (vis_ne d c r h Hwf Hr Hv H1 H2 He).
  - unfold wf_db. cbn [rows]. apply nodup_map_filter. exact Hwf.
  - exact Hms.
Qed.

(* a call through a secure shape, by a non-admin context that cannot see r:
   the result does not mention r, r is still there unchanged, the invariants hold *)
Lemma exec_step_inv : forall s d c a r,
  shape_secure s = true -> c_admin c = false -> a_insecure a = false ->
  wf_db d -> In r (rows d) -> visible d c r = false ->
  step_inv r c d (exec_op s d c a).
Proof.
  intros s d c a r Hs Hc Ha Hwf Hr Hv.
  destruct s as [f|f|q|q|forced|f chk forced|f chk cas|f|q|p u chk forced|]; cbn [exec_op shape_secure] in *.
  - (* SGet *)
    destruct (first_of (candidates f d c a) a) as [r0|] eqn:E;
      [|apply unchanged_inv; [reflexivity|assumption|assumption]].
    apply first_of_in in E. apply candidates_visible in E; try assumption. destruct E as [H1 H2].
    unfold step_inv. cbn [fst snd result_rows]. repeat split; try assumption; [|apply mems_sub_refl].
    intros x [Hx|[]]. subst x. eapply vis_ne; eauto.
  - (* SLoad *)
    destruct (first_of (candidates f d c a) a) as [r0|] eqn:E;
      [|apply unchanged_inv; [reflexivity|assumption|assumption]].
    apply first_of_in in E. apply candidates_visible in E; try assumption. destruct E as [H1 H2].
    unfold step_inv. cbn [fst snd result_rows]. repeat split; try assumption; [|apply mems_sub_refl].
    intros x [Hx|[]]. subst x. eapply vis_ne; eauto.
  - (* SList *)
    apply rows_result_inv; try assumption. intros x Hx. apply filter_In in Hx. destruct Hx as [Hx _].
    apply (candidates_visible (mkFetch q SelAll)) in Hx; assumption.
  - (* SCount *)
    apply unchanged_inv; [reflexivity|assumption|assumption].
  - (* SCreate *)
    apply create_inv; assumption.
  - (* SUpdate *)
    apply update_inv; assumption.
  - (* SDeleteObj *)
    destruct (first_of (candidates f d c a) a) as [r0|] eqn:E;
      [|apply unchanged_inv; [reflexivity|assumption|assumption]].
    apply first_of_in in E. apply candidates_visible in E; try assumption. destruct E as [Hr0 Hv0].
    assert (Hne : r_id r0 <> r_id r) by (eapply vis_ne; eauto).
    destruct (guard_check chk c r0);
      try (apply unchanged_inv; [reflexivity|assumption|assumption]).
    unfold step_inv. cbn [fst snd result_rows rows mems]. repeat split.
    + intros x [].
    + unfold remove_row. apply filter_In. split; [exact Hr|]. apply negb_true_iff. apply Nat.eqb_neq.
      intro Heq. apply Hne. symmetry. exact Heq.
    + unfold wf_db, remove_row. cbn [rows]. apply nodup_map_filter. exact Hwf.
    + intros m Hm. destruct cas; [eapply drop_members_sub; exact Hm|exact Hm].
  - (* SDeleteQuery *)
    destruct (candidates f d c a) as [|h t] eqn:E;
      [apply unchanged_inv; [reflexivity|assumption|assumption]|].
    apply delete_hits_inv; try assumption; [|intros m Hm; exact Hm].
    intros x Hx. rewrite <- E in Hx. apply candidates_visible in Hx; assumption.
  - (* SDeleteAll *)
    apply delete_hits_inv; try assumption; [|intros m Hm; exact Hm].
    intros x Hx. apply filter_In in Hx. destruct Hx as [Hx _].
    apply (candidates_visible (mkFetch q SelAll)) in Hx; assumption.
  - (* SCreateOrUpdate *)
    apply andb_true_iff in Hs. destruct Hs as [Hp Hu].
    destruct (candidates p d c a); [apply create_inv; assumption|apply update_inv; assumption].
  - (* SInternal *)
    apply unchanged_inv; [reflexivity|assumption|assumption].
Qed.

(* ---- call sequences ------------------------------------------------------------ *)

Definition call := (shape * ctx * args)%type.

Fixpoint run (ops : list call) (d : db) : list result * db :=
  match ops with
  | [] => ([], d)
  | (s, c, a) :: t =>
      let '(r, d1) := exec_op s d c a in
      let '(rs, d2) := run t d1 in (r :: rs, d2)
  end.

(* the caller is no admin, passes no insecure=True, and at the start cannot see r:
   it is another project, r is private and no accepted share of r names it *)
Definition blind_call (d0 : db) (r : res) (k : call) : Prop :=
  let '(s, c, a) := k in
  shape_secure s = true /\ c_admin c = false /\ a_insecure a = false /\ visible d0 c r = false.

Definition silent_about (r : res) (res : result) : Prop :=
  forall x, In x (result_rows res) -> r_id x <> r_id r.

Lemma private_isolated_gen : forall ops d0 r d,
  Forall (blind_call d0 r) ops ->
  wf_db d -> In r (rows d) -> mems_sub d d0 ->
  In r (rows (snd (run ops d))) /\ Forall (silent_about r) (fst (run ops d)).
Proof.
  induction ops as [|[[s c] a] t IH]; intros d0 r d Hall Hwf Hr Hsub; cbn [run].
  - cbn [fst snd]. split; [exact Hr|constructor].
  - inversion Hall as [|? ? Hk Ht]; subst. destruct Hk as [Hs [Hc [Ha Hv]]].
    assert (Hv' : visible d c r = false) by (eapply visible_mono; eauto).
    pose proof (exec_step_inv s d c a r Hs Hc Ha Hwf Hr Hv') as Hstep.
    destruct (exec_op s d c a) as [res d1] eqn:E. unfold step_inv in Hstep. cbn [fst snd] in Hstep.
    destruct Hstep as [Hres [Hr1 [Hwf1 Hsub1]]].
    assert (Hsub1' : mems_sub d1 d0) by (intros m Hm; apply Hsub; apply Hsub1; exact Hm).
    destruct (IH d0 r d1 Ht Hwf1 Hr1 Hsub1') as [IH1 IH2].
    destruct (run t d1) as [rs d2]. cbn [fst snd] in *. split; [exact IH1|].
    constructor; [exact Hres|exact IH2].
Qed.

Theorem private_isolated : forall ops d0 r,
  wf_db d0 -> In r (rows d0) -> Forall (blind_call d0 r) ops ->
  In r (rows (snd (run ops d0))) /\ Forall (silent_about r) (fst (run ops d0)).
Proof.
  intros ops d0 r Hwf Hr Hall. apply (private_isolated_gen ops d0 r d0 Hall Hwf Hr). apply mems_sub_refl.
Qed.

(* what "cannot see" means in terms of the row and the member table *)
Lemma blind_characterised : forall d c r,
  visible d c r = false <->
  r_owner r <> c_project c /\ r_scope r = Private /\
  (forall t m, res_type (r_model r) = Some t -> In m (mems d) ->
     m_res m = r_id r -> m_type m = t -> m_member m = c_project c -> m_status m <> Accepted).
Proof.
  intros d c r. rewrite visible_split. split.
  - intros [H1 [H2 H3]]. split; [apply Nat.eqb_neq; exact H1|]. split; [destruct (r_scope r); [reflexivity|discriminate]|].
    intros t m Ht Hm Hres Hty Hmem Hst. unfold shared_with in H3. rewrite Ht in H3.
    assert (existsb (Nat.eqb (r_id r)) (shared_ids d c t) = true) as Hx.
    { apply existsb_exists. exists (m_res m). split; [|apply Nat.eqb_eq; symmetry; exact Hres].
      unfold shared_ids. apply in_map. apply filter_In. split; [exact Hm|]. unfold accepted_for.
      rewrite Hty, Hmem, Hst, !Nat.eqb_refl. reflexivity. }
    rewrite Hx in H3. discriminate.
  - intros [H1 [H2 H3]]. split; [apply Nat.eqb_neq; exact H1|]. split; [rewrite H2; reflexivity|].
    unfold shared_with. destruct (res_type (r_model r)) as [t|] eqn:Ht; [|reflexivity].
    destruct (existsb (Nat.eqb (r_id r)) (shared_ids d c t)) eqn:E; [|reflexivity]. exfalso.
    apply existsb_exists in E. destruct E as [i [Hi He]]. apply Nat.eqb_eq in He. subst i.
    unfold shared_ids in Hi. apply in_map_iff in Hi. destruct Hi as [m [Hm Hi]]. apply filter_In in Hi.
    destruct Hi as [Hi Hacc]. unfold accepted_for in Hacc. apply andb_true_iff in Hacc. destruct Hacc as [Hacc H5].
    apply andb_true_iff in Hacc. destruct Hacc as [H6 H7]. apply Nat.eqb_eq in H5, H6.
    apply (H3 t m eq_refl Hi Hm H6 H5). destruct (m_status m); try discriminate. reflexivity.
Qed.

(* ---- guarded writes never touch another project's row ------------------------------ *)

Lemma access_ok_owner : forall c r0,
  c_admin c = false -> access_check c r0 = AOk -> r_owner r0 = c_project c.
Proof.
  intros c r0 Hc H. unfold access_check in H. rewrite Hc in H. cbn [negb andb] in H.
  destruct (r_owner r0 =? c_project c) eqn:E; [apply Nat.eqb_eq; exact E|cbn [negb] in H; discriminate].
Qed.

Lemma guarded_fetch_owner : forall f chk d c a r0,
  guard_on chk || q_own (f_q f) = true -> c_admin c = false ->
  q_visible (f_q f) d c a r0 = true ->
  (guard_check chk c r0) = AOk -> r_owner r0 = c_project c.
Proof.
  intros f chk d c a r0 Hg Hc Hq Ha. destruct chk; cbn [guard_on guard_check orb] in *.
  - eapply q_own_nonadmin; eauto.
  - rewrite Hc in Ha. cbn [negb andb] in Ha.
    destruct (r_owner r0 =? c_project c) eqn:E; [apply Nat.eqb_eq; exact E|cbn [negb] in Ha; discriminate].
  - apply access_ok_owner; assumption.
Qed.

Lemma guarded_update : forall f chk forced d c a r,
  guard_on chk || q_own (f_q f) = true ->
  c_admin c = false -> r_owner r <> c_project c -> wf_db d -> In r (rows d) ->
  In r (rows (snd (do_update f chk forced d c a))) /\ wf_db (snd (do_update f chk forced d c a)).
Proof.
  intros f chk forced d c a r Hg Hc Hown Hwf Hr. unfold do_update.
  destruct (first_of (candidates f d c a) a) as [r0|] eqn:E; [|split; assumption].
  apply first_of_in in E. apply candidates_sound in E. destruct E as [Hr0 Hq0].
  destruct (guard_check chk c r0) eqn:Ha; try (split; assumption).
  pose proof (guarded_fetch_owner f chk d c a r0 Hg Hc Hq0 Ha) as Ho. cbn [snd rows]. split.
  - apply in_replace_other; [exact Hr|]. cbn [apply_sets r_id]. intro Heq.
    assert (r = r0) by (eapply nodup_id_inj; eauto). subst. contradiction.
  - unfold wf_db. cbn [rows]. rewrite map_id_replace. exact Hwf.
Qed.

Lemma delete_own_hits_keep : forall (hit : list res) d c r ms,
  wf_db d -> In r (rows d) -> r_owner r <> c_project c ->
  (forall x, In x hit -> In x (rows d) /\ r_owner x = c_project c) ->
  In r (rows (mkDb (filter (fun y => negb (existsb (fun h => r_id h =? r_id y) hit)) (rows d)) ms)) /\
  wf_db (mkDb (filter (fun y => negb (existsb (fun h => r_id h =? r_id y) hit)) (rows d)) ms).
Proof.
  intros hit d c r ms Hwf Hr Hown Hhit. cbn [rows]. split.
  - apply filter_In. split; [exact Hr|]. apply negb_true_iff.
    destruct (existsb (fun h => r_id h =? r_id r) hit) eqn:E; [|reflexivity].
    apply existsb_exists in E. destruct E as [h [Hh He]]. apply Nat.eqb_eq in He.
    destruct (Hhit h Hh) as [H1 H2]. assert (h = r) by (eapply nodup_id_inj; eauto). subst. contradiction.
  - unfold wf_db. cbn [rows]. apply nodup_map_filter. exact Hwf.
Qed.

Lemma exec_guarded_step : forall s d c a r,
  shape_guarded s = true -> c_admin c = false -> r_owner r <> c_project c ->
  wf_db d -> In r (rows d) ->
  In r (rows (snd (exec_op s d c a))) /\ wf_db (snd (exec_op s d c a)).
Proof.
  intros s d c a r Hs Hc Hown Hwf Hr.
  destruct s as [f|f|q|q|forced|f chk forced|f chk cas|f|q|p u chk forced|]; cbn [exec_op shape_guarded] in *;
    try discriminate; try (split; assumption).
  - destruct (create_inv forced d c a r Hwf Hr) as [_ [H1 [H2 _]]]. split; assumption.
  - apply guarded_update; assumption.
  - destruct (first_of (candidates f d c a) a) as [r0|] eqn:E; [|split; assumption].
    apply first_of_in in E. apply candidates_sound in E. destruct E as [Hr0 Hq0].
    destruct (guard_check chk c r0) eqn:Ha; try (split; assumption).
    pose proof (guarded_fetch_owner f chk d c a r0 Hs Hc Hq0 Ha) as Ho. cbn [snd rows]. split.
    + unfold remove_row. apply filter_In. split; [exact Hr|]. apply negb_true_iff. apply Nat.eqb_neq. intro Heq.
      assert (r = r0) by (eapply nodup_id_inj; eauto). subst. contradiction.
    + unfold wf_db, remove_row. cbn [rows]. apply nodup_map_filter. exact Hwf.
  - destruct (candidates f d c a) as [|h t] eqn:E; [split; assumption|]. cbn [snd].
    apply (delete_own_hits_keep (h :: t) d c r (mems d)); try assumption.
    intros x Hx. rewrite <- E in Hx. apply candidates_sound in Hx. destruct Hx as [H1 H2].
    split; [exact H1|eapply q_own_nonadmin; eauto].
  - cbn [snd]. apply (delete_own_hits_keep _ d c r (mems d)); try assumption.
    intros x Hx. apply filter_In in Hx. destruct Hx as [Hx _]. apply candidates_sound in Hx.
    destruct Hx as [H1 H2]. split; [exact H1|]. cbn [f_q] in H2. eapply q_own_nonadmin; eauto.
  - destruct (candidates p d c a).
    + destruct (create_inv forced d c a r Hwf Hr) as [_ [H1 [H2 _]]]. split; assumption.
    + apply guarded_update; assumption.
Qed.

Definition guarded_foreign_call (r : res) (k : call) : Prop :=
  let '(s, c, a) := k in shape_guarded s = true /\ c_admin c = false /\ c_project c <> r_owner r.

(* any sequence of calls through guarded shapes by non-admin projects other than the owner -
   whatever they can see or address - leaves the row in place, unchanged *)
Theorem guarded_preserves_foreign : forall ops d r,
  wf_db d -> In r (rows d) -> Forall (guarded_foreign_call r) ops ->
  In r (rows (snd (run ops d))).
Proof.
  induction ops as [|[[s c] a] t IH]; intros d r Hwf Hr Hall; cbn [run]; [exact Hr|].
  inversion Hall as [|? ? Hk Ht]; subst. destruct Hk as [Hs [Hc Hown]].
  assert (Hown' : r_owner r <> c_project c) by (intro Heq; apply Hown; symmetry; exact Heq).
  pose proof (exec_guarded_step s d c a r Hs Hc Hown' Hwf Hr) as Hstep.
  destruct (exec_op s d c a) as [res d1]. cbn [snd] in Hstep. destruct Hstep as [H1 H2].
  specialize (IH d1 r H2 H1 Ht). destruct (run t d1) as [rs d2]. exact IH.
Qed.

(* ---- and an unguarded write does: a witness for every such shape ---------------------- *)

Definition wit_r (m : model) : res := mkRes 7 m 1 Public 7 0 5 false.
Definition wit_d (m : model) : db := mkDb [wit_r m] [].
Definition wit_c : ctx := mkCtx 2 false.
Definition wit_a (m : model) : args :=
  mkArgs m 7 (Some 0) false 0 None None 8 8 0 Private 0 (Some 99) None None.

Lemma wit_candidates : forall f m, q_own (f_q f) = false -> candidates f (wit_d m) wit_c (wit_a m) = [wit_r m].
Proof. intros [q s] m H. destruct q; try discriminate H; destruct s, m; reflexivity. Qed.

Lemma unguarded_violates : forall s m,
  shape_exposed s = true ->
  find_row 7 (snd (exec_op s (wit_d m) wit_c (wit_a m))) <> Some (wit_r m).
Proof.
  intros s m Hg.
  destruct s as [f|f|q|q|forced|f chk forced|f chk cas|f|q|p u chk forced|]; cbn [shape_exposed] in *;
    try discriminate; cbn [exec_op].
  - apply andb_true_iff in Hg. destruct Hg as [Hchk Hq]. apply negb_true_iff in Hchk, Hq.
    destruct chk; try discriminate Hchk.
    unfold do_update. rewrite (wit_candidates f m Hq). destruct m, forced; vm_compute; discriminate.
  - apply andb_true_iff in Hg. destruct Hg as [Hchk Hq]. apply negb_true_iff in Hchk, Hq.
    destruct chk; try discriminate Hchk.
    rewrite (wit_candidates f m Hq). destruct m, cas; vm_compute; discriminate.
  - apply negb_true_iff in Hg. rewrite (wit_candidates f m Hg). destruct m; vm_compute; discriminate.
  - apply negb_true_iff in Hg. rewrite (wit_candidates (mkFetch q SelAll) m Hg). destruct m; vm_compute; discriminate.
  - apply andb_true_iff in Hg. destruct Hg as [Hg Hp]. apply andb_true_iff in Hg. destruct Hg as [Hchk Hq].
    apply negb_true_iff in Hchk, Hq, Hp. destruct chk; try discriminate Hchk.
    rewrite (wit_candidates p m Hp). unfold do_update. rewrite (wit_candidates u m Hq).
    destruct m, forced; vm_compute; discriminate.
Qed.

Lemma exposed_not_guarded : forall s, shape_exposed s = true -> is_write s = true /\ shape_guarded s = false.
Proof.
  intros s H. destruct s as [f|f|q|q|forced|f chk forced|f chk cas|f|q|p u chk forced|]; cbn in *; try discriminate;
    repeat (apply andb_true_iff in H; destruct H as [H ?]);
    repeat match goal with X : negb _ = true |- _ => apply negb_true_iff in X end;
    split; try reflexivity; try (apply orb_false_iff; split; assumption); try assumption.
Qed.

Lemma wit_facts : forall m,
  wf_db (wit_d m) /\ In (wit_r m) (rows (wit_d m)) /\ r_scope (wit_r m) = Public /\
  c_admin wit_c = false /\ c_project wit_c <> r_owner (wit_r m) /\ r_id (wit_r m) = 7.
Proof.
  intros m. repeat split.
  - unfold wf_db. cbn. constructor; [intros []|constructor].
  - left. reflexivity.
  - cbn. discriminate.
Qed.

(* ---- ownership --------------------------------------------------------------------- *)

Lemma owner_forced_step : forall s d c a x,
  shape_forced s = true -> In x (rows (snd (exec_op s d c a))) ->
  (exists x0, In x0 (rows d) /\ r_id x0 = r_id x /\ r_owner x0 = r_owner x) \/ r_owner x = c_project c.
Proof.
  intros s d c a x Hf Hx.
  assert (Hkeep : forall y, In y (rows d) -> exists x0, In x0 (rows d) /\ r_id x0 = r_id y /\ r_owner x0 = r_owner y)
    by (intros y Hy; exists y; repeat split; assumption).
  assert (Hcreate : In x (rows (snd (do_create true d c a))) ->
          (exists x0, In x0 (rows d) /\ r_id x0 = r_id x /\ r_owner x0 = r_owner x) \/ r_owner x = c_project c).
  { unfold do_create. destruct (existsb (clashes (new_row true c a)) (rows d)); cbn [snd rows]; intro H.
    - left. apply Hkeep. exact H.
    - apply in_app_or in H. destruct H as [H|[H|[]]]; [left; apply Hkeep; exact H|].
      right. subst x. unfold new_row. cbn [r_owner]. destruct (a_owner_val a); reflexivity. }
  assert (Hupdate : forall f chk, In x (rows (snd (do_update f chk true d c a))) ->
          (exists x0, In x0 (rows d) /\ r_id x0 = r_id x /\ r_owner x0 = r_owner x) \/ r_owner x = c_project c).
  { intros f chk. unfold do_update. destruct (first_of (candidates f d c a) a) as [r0|] eqn:E;
      [|cbn [snd]; intro H; left; apply Hkeep; exact H].
    apply first_of_in in E. apply candidates_sound in E. destruct E as [Hr0 _].
    destruct (guard_check chk c r0); cbn [snd rows]; intro H;
      try (left; apply Hkeep; exact H).
    apply in_replace_inv in H. destruct H as [[Hx' _]|H]; [|left; apply Hkeep; exact H].
    subst x. cbn [apply_sets r_owner r_id]. destruct (a_owner_val a); [right; reflexivity|].
    left. exists r0. repeat split. exact Hr0. }
  destruct s as [f|f|q|q|forced|f chk forced|f chk cas|f|q|p u chk forced|]; cbn [exec_op shape_forced snd] in *;
    try (left; apply Hkeep; exact Hx).
  - subst forced. apply Hcreate. exact Hx.
  - subst forced. eapply Hupdate. exact Hx.
  - left. destruct (first_of (candidates f d c a) a) as [r0|]; [|apply Hkeep; exact Hx].
    destruct (guard_check chk c r0); cbn [snd rows] in Hx; try (apply Hkeep; exact Hx).
    unfold remove_row in Hx. apply filter_In in Hx. apply Hkeep. tauto.
  - left. destruct (candidates f d c a); cbn [snd rows] in Hx; [apply Hkeep; exact Hx|].
    apply filter_In in Hx. apply Hkeep. tauto.
  - left. apply filter_In in Hx. apply Hkeep. tauto.
  - subst forced. destruct (candidates p d c a); [apply Hcreate; exact Hx|eapply Hupdate; exact Hx].
Qed.

(* over a whole history: a row of the final table either kept the owner it had at the start
   or belongs to the project of one of the callers *)
Theorem owner_forced_history : forall ops d x,
  Forall (fun k : call => shape_forced (fst (fst k)) = true) ops ->
  In x (rows (snd (run ops d))) ->
  (exists x0, In x0 (rows d) /\ r_id x0 = r_id x /\ r_owner x0 = r_owner x) \/
  (exists k, In k ops /\ r_owner x = c_project (snd (fst k))).
Proof.
  induction ops as [|[[s c] a] t IH]; intros d x Hall Hx; cbn [run] in Hx.
  - left. exists x. repeat split. exact Hx.
  - inversion Hall as [|? ? Hk Ht]; subst. cbn [fst snd] in Hk.
    destruct (exec_op s d c a) as [res d1] eqn:E.
    destruct (run t d1) as [rs d2] eqn:E2. cbn [snd] in Hx.
    assert (Hx' : In x (rows (snd (run t d1)))) by (rewrite E2; exact Hx).
    destruct (IH d1 x Ht Hx') as [[x1 [H1 [H2 H3]]]|[k [Hk1 Hk2]]].
    + assert (H1' : In x1 (rows (snd (exec_op s d c a)))) by (rewrite E; exact H1).
      destruct (owner_forced_step s d c a x1 Hk H1') as [[x0 [G1 [G2 G3]]]|G].
      * left. exists x0. repeat split; [exact G1|congruence|congruence].
      * right. exists (s, c, a). split; [left; reflexivity|]. cbn [fst snd]. congruence.
    + right. exists k. split; [right; exact Hk1|exact Hk2].
Qed.

Definition own_d (m : model) : db := mkDb [mkRes 7 m 2 Public 7 0 5 false] [].
Definition own_a (m : model) : args :=
  mkArgs m 7 (Some 0) false 0 None None 8 8 0 Private 0 None None (Some 1).

Lemma own_candidates : forall f m, candidates f (own_d m) wit_c (own_a m) = [mkRes 7 m 2 Public 7 0 5 false].
Proof. intros [q s] m. destruct q, s, m; reflexivity. Qed.

Definition stolen (s : shape) (m : model) : Prop :=
  exists i x, find_row i (snd (exec_op s (own_d m) wit_c (own_a m))) = Some x /\
              r_owner x <> c_project wit_c /\
              (forall x0, find_row i (own_d m) = Some x0 -> r_owner x0 <> r_owner x).

(* without the hook a caller-supplied project_id is stored as given *)
Lemma unforced_violates : forall s m, shape_forced s = false -> stolen s m.
Proof.
  intros s m Hf.
  destruct s as [f|f|q|q|forced|f chk forced|f chk cas|f|q|p u chk forced|]; cbn [shape_forced] in Hf;
    try discriminate; subst forced; unfold stolen; cbn [exec_op].
  - exists 8, (mkRes 8 m 1 Private 8 0 0 false). destruct m; vm_compute; repeat split; try discriminate.
  - exists 7, (mkRes 7 m 1 Public 7 0 5 false). unfold do_update. rewrite own_candidates.
    destruct m, chk; vm_compute; (split; [reflexivity|split; [discriminate|intros x0 H; inversion H; cbn; discriminate]]).
  - exists 7, (mkRes 7 m 1 Public 7 0 5 false). rewrite own_candidates. unfold do_update. rewrite own_candidates.
    destruct m, chk; vm_compute; (split; [reflexivity|split; [discriminate|intros x0 H; inversion H; cbn; discriminate]]).
Qed.

(* ---- membership -------------------------------------------------------------------- *)

Lemma filter_absorb : forall (A : Type) (f g : A -> bool) (l : list A),
  (forall x, f x = true -> g x = true) -> filter f (filter g l) = filter f l.
Proof.
  intros A f g l H. induction l as [|h t IH]; [reflexivity|]. cbn [filter].
  destruct (g h) eqn:G; cbn [filter].
  - rewrite IH. reflexivity.
  - destruct (f h) eqn:F; [rewrite (H h F) in G; discriminate|exact IH].
Qed.

Definition accepted_only (d : db) : db :=
  mkDb (rows d) (filter (fun m => is_accepted (m_status m)) (mems d)).

(* pending and rejected offers grant nothing: visibility is a function of the accepted rows *)
Theorem visible_accepted_only : forall d c r, visible (accepted_only d) c r = visible d c r.
Proof.
  intros d c r. unfold visible, shared_with, shared_ids, accepted_only. cbn [mems].
  destruct (res_type (r_model r)) as [t|]; [|reflexivity].
  rewrite filter_absorb; [reflexivity|].
  intros m H. unfold accepted_for in H. apply andb_true_iff in H. destruct H as [H _].
  apply andb_true_iff in H. tauto.
Qed.

Lemma mem_exec_rows : forall o d c g, rows (snd (mem_exec o d c g)) = rows d.
Proof.
  intros o d c g. destruct o; cbn [mem_exec].
  - destruct (existsb _ (mems d)); reflexivity.
  - destruct (filter _ (mems d)); reflexivity.
  - reflexivity.
  - destruct (negb (g_member g =? c_project c)); [reflexivity|]. destruct (filter _ (mems d)); reflexivity.
  - destruct (existsb _ (mems d)); reflexivity.
Qed.

(* a member row changes only through update_resource_member called by its member,
   and disappears only through delete_resource_member called by the project that created it *)
Theorem mem_row_stable : forall o d c g m,
  In m (mems d) ->
  (o = MUpdate -> m_member m <> c_project c) ->
  (o = MDelete -> m_owner m <> c_project c) ->
  In m (mems (snd (mem_exec o d c g))).
Proof.
  intros o d c g m Hin Hu Hd. destruct o; cbn [mem_exec].
  - destruct (existsb _ (mems d)); cbn [snd mems]; [exact Hin|apply in_or_app; left; exact Hin].
  - destruct (filter _ (mems d)); exact Hin.
  - exact Hin.
  - specialize (Hu eq_refl). destruct (negb (g_member g =? c_project c)); [exact Hin|].
    destruct (filter _ (mems d)) as [|m0 t] eqn:E; [exact Hin|]. cbn [snd mems].
    assert (Hm0 : In m0 (filter (fun m1 => (m_type m1 =? g_type g) && crit_member c g true m1) (mems d)))
      by (rewrite E; left; reflexivity).
    apply filter_In in Hm0. destruct Hm0 as [_ Hc]. apply andb_true_iff in Hc. destruct Hc as [_ Hc].
    unfold crit_member in Hc. destruct (true && negb (g_member g =? c_project c)); [discriminate|].
    apply andb_true_iff in Hc. destruct Hc as [Hc _]. apply Nat.eqb_eq in Hc.
    apply in_map_iff. exists m. split; [|exact Hin].
    destruct ((m_res m =? m_res m0) && (m_type m =? m_type m0) && (m_member m =? m_member m0)) eqn:K; [|reflexivity].
    apply andb_true_iff in K. destruct K as [_ K]. apply Nat.eqb_eq in K. exfalso. apply Hu. congruence.
  - specialize (Hd eq_refl). destruct (existsb _ (mems d)); cbn [snd mems]; [|exact Hin].
    apply filter_In. split; [exact Hin|]. apply negb_true_iff.
    destruct ((m_type m =? g_type g) && crit_owner c g true m) eqn:K; [|reflexivity].
    apply andb_true_iff in K. destruct K as [_ K]. unfold crit_owner in K.
    apply andb_true_iff in K. destruct K as [K _]. apply andb_true_iff in K. destruct K as [K _].
    apply Nat.eqb_eq in K. contradiction.
Qed.

Definition mresult_rows (r : mresult) : list member :=
  match r with MRow m => [m] | MRows l => l | _ => [] end.

(* get / list show a project only the offers it made and the offers made to it *)
Theorem mem_reads_own : forall o d c g m,
  (o = MGet \/ o = MList) -> In m (mresult_rows (fst (mem_exec o d c g))) ->
  m_owner m = c_project c \/ m_member m = c_project c.
Proof.
  intros o d c g m Ho Hin. destruct Ho; subst o; cbn [mem_exec] in Hin.
  - destruct (filter _ (mems d)) as [|m0 t] eqn:E; cbn [fst mresult_rows] in Hin; [contradiction|].
    destruct Hin as [Hin|[]]. subst m0.
    assert (Hm : In m (filter (fun m1 => (m_type m1 =? g_type g) && (crit_owner c g true m1 || crit_member c g true m1)) (mems d)))
      by (rewrite E; left; reflexivity).
    apply filter_In in Hm. destruct Hm as [_ Hc]. apply andb_true_iff in Hc. destruct Hc as [_ Hc].
    apply orb_true_iff in Hc. destruct Hc as [Hc|Hc].
    + left. unfold crit_owner in Hc. apply andb_true_iff in Hc. destruct Hc as [Hc _].
      apply andb_true_iff in Hc. destruct Hc as [Hc _]. apply Nat.eqb_eq. exact Hc.
    + right. unfold crit_member in Hc. destruct (true && negb (g_member g =? c_project c)); [discriminate|].
      apply andb_true_iff in Hc. destruct Hc as [Hc _]. apply Nat.eqb_eq. exact Hc.
  - cbn [fst mresult_rows] in Hin. apply filter_In in Hin. destruct Hin as [_ Hc].
    apply andb_true_iff in Hc. destruct Hc as [_ Hc]. apply orb_true_iff in Hc. destruct Hc as [Hc|Hc].
    + left. unfold crit_owner in Hc. apply andb_true_iff in Hc. destruct Hc as [Hc _].
      apply andb_true_iff in Hc. destruct Hc as [Hc _]. apply Nat.eqb_eq. exact Hc.
    + right. unfold crit_member in Hc. cbn [andb] in Hc.
      apply andb_true_iff in Hc. destruct Hc as [Hc _]. apply Nat.eqb_eq. exact Hc.
Qed.

(* an accepted member offers the resource to a third project, which accepts: the third
   project sees the owner's private workflow although the owner never offered it, and the
   owner can neither list nor revoke that offer *)
Definition rs_r : res := mkRes 7 WorkflowDefinition 1 Private 7 0 5 false.
Definition rs_d0 : db := mkDb [rs_r] [mkMem 7 0 1 2 Accepted].
Definition rs_d1 : db := snd (mem_exec MCreate rs_d0 (mkCtx 2 false) (mkMargs 7 0 3 None Pending)).
Definition rs_d2 : db := snd (mem_exec MUpdate rs_d1 (mkCtx 3 false) (mkMargs 7 0 3 None Accepted)).

Lemma reshare_witness :
  visible rs_d0 (mkCtx 3 false) rs_r = false /\
  visible rs_d2 (mkCtx 3 false) rs_r = true /\
  (forall m, In m (mems rs_d2) -> m_member m = 3 -> m_owner m <> r_owner rs_r) /\
  fst (mem_exec MList rs_d2 (mkCtx 1 false) (mkMargs 7 0 0 None Pending)) = MRows [mkMem 7 0 1 2 Accepted] /\
  fst (mem_exec MDelete rs_d2 (mkCtx 1 false) (mkMargs 7 0 3 None Pending)) = MNotFound.
Proof.
  repeat split; try (vm_compute; reflexivity).
  intros m Hin Hm. vm_compute in Hin. destruct Hin as [Hin|[Hin|[]]]; subst m; cbn in *; discriminate.
Qed.

(* ---- the REST list layer ------------------------------------------------------------ *)

(* for a non-admin caller every request that passes the policy gates reaches the db layer with insecure = False
   (checked over the four shapes of a request: all_projects yes/no x project_id filter yes/no) *)
Definition ep_safe (ic : list icond) (ep : list_ep) : bool :=
  forallb (fun ap : bool * bool => let '(allp, pid) := ap in
             negb (rule_ok (le_rule ep) false)
             || (gate_fires (le_gate ep) allp pid && negb (rule_ok (le_allp_rule ep) false))
             || negb (rest_insecure ic ep allp pid false))
          [(false, false); (false, true); (true, false); (true, true)].

Lemma ep_safe_spec : forall ic ep allp pid,
  ep_safe ic ep = true ->
  rule_ok (le_rule ep) false = true ->
  gate_fires (le_gate ep) allp pid && negb (rule_ok (le_allp_rule ep) false) = false ->
  rest_insecure ic ep allp pid false = false.
Proof.
  intros ic ep allp pid H Hr Hg. unfold ep_safe in H. rewrite forallb_forall in H.
  assert (Hin : In (allp, pid) [(false, false); (false, true); (true, false); (true, true)])
    by (destruct allp, pid; cbn; tauto).
  specialize (H (allp, pid) Hin). cbn beta iota in H. rewrite Hr, Hg in H. cbn [negb orb] in H.
  apply negb_true_iff in H. exact H.
Qed.

(* a non-admin list result contains only rows the caller may see: own, public, shared through an accepted
   membership - for every request (all_projects, project_id of any project, name filter), every database *)
Theorem rest_list_isolated : forall ic ep q d c r l x,
  ep_safe ic ep = true -> q_secure q = true -> c_admin c = false ->
  rest_list ic ep q d c r = LOk l -> In x l ->
  In x (rows d) /\ visible d c x = true.
Proof.
  intros ic ep q d c r l x Hs Hq Hc Hl Hx. unfold rest_list in Hl. rewrite Hc in Hl.
  destruct (rule_ok (le_rule ep) false) eqn:Hr; cbn [negb] in Hl; [|discriminate].
  destruct (gate_fires (le_gate ep) (lq_allp r) (is_some (lq_pid r)) && negb (rule_ok (le_allp_rule ep) false)) eqn:Hg;
    [discriminate|].
  rewrite (ep_safe_spec ic ep _ _ Hs Hr Hg) in Hl. injection Hl as Hl. subst l.
  apply filter_In in Hx. destruct Hx as [Hx _].
  apply (candidates_visible (mkFetch q SelAll)) in Hx; try assumption. reflexivity.
Qed.

(* and an endpoint that is not safe leaks: a witness request for every such endpoint over a filtered list query *)
Definition leak_d (m : model) : db := mkDb [mkRes 7 m 1 Private 7 0 5 false] [].

Lemma rest_unsafe_leaks : forall ic ep q,
  ep_safe ic ep = false -> q = QAdminArg ->
  exists r, rest_list ic ep q (leak_d (le_model ep)) (mkCtx 2 false) r = LOk [mkRes 7 (le_model ep) 1 Private 7 0 5 false].
Proof.
  intros ic ep q H Hq. subst q. unfold ep_safe in H.
  assert (Hex : exists allp pid, rule_ok (le_rule ep) false = true /\
            gate_fires (le_gate ep) allp pid && negb (rule_ok (le_allp_rule ep) false) = false /\
            rest_insecure ic ep allp pid false = true).
  { cbn [forallb] in H. repeat rewrite andb_false_iff in H.
    destruct H as [H|[H|[H|[H|H]]]]; try discriminate;
      repeat (apply orb_false_iff in H; destruct H as [H ?]);
      repeat match goal with X : negb _ = false |- _ => apply negb_false_iff in X end;
      eexists _, _; repeat split; eassumption. }
  destruct Hex as [allp [pid [Hr [Hg Hi]]]].
  exists (mkLreq allp (if pid then Some 1 else None) None).
  unfold rest_list. cbn [c_admin lq_allp lq_pid].
  assert (Hp : is_some (if pid then Some 1 else None) = pid) by (destruct pid; reflexivity).
  rewrite Hp, Hr, Hg, Hi. cbn [negb]. f_equal.
  destruct ep as [m fn ru g ar pa pp]. cbn [le_model le_pass_pid rest_args].
  destruct m, pp, pid; reflexivity.
Qed.
