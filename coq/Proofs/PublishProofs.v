(* Proofs about Model/Publish.v: merge of publish clauses (get_publish), ContextView
   priorities of the expression contexts, visibility of published values. *)
From Coq Require Import List ZArith NArith Bool String Lia.
Require Import Mistral.Model.Ctx Mistral.Model.Publish Mistral.Proofs.CtxProofs.
Import ListNotations.
Open Scope string_scope.

(* ------------------------------------------------------------------ *)
(* pmerge (utils.merge_dicts on publish clauses) *)

Definition is_pdict (e : pexpr) : bool := match e with PDict _ => true | _ => false end.

Lemma pmerge_v_dict : forall ld rd, pmerge_v (PDict ld) (PDict rd) = PDict (pmerge ld rd).
Proof. reflexivity. Qed.

Lemma pmerge_v_leaf : forall lv rv, is_pdict lv && is_pdict rv = false -> pmerge_v lv rv = rv.
Proof. intros lv rv H. destruct rv; try reflexivity. destruct lv; try reflexivity. discriminate. Qed.

Theorem lookup_pmerge : forall r l k,
  NoDup (map fst r) ->
  lookup k (pmerge l r) =
  match lookup k l, lookup k r with
  | None, x => x
  | Some a, None => Some a
  | Some a, Some b => Some (pmerge_v a b)
  end.
Proof.
  induction r as [|[k1 v1] t IH]; intros l k ND; unfold pmerge; cbn [fold_left lookup].
  - destruct (lookup k l); reflexivity.
  - cbn [map fst] in ND. inversion ND as [|? ? Hn ND']; subst.
    fold (pmerge (pmerge_step l (k1, v1)) t). rewrite IH by assumption.
    unfold pmerge_step. cbn [fst snd].
    destruct (String.eqb k k1) eqn:E.
    + apply String.eqb_eq in E; subst k. apply lookup_None_notin in Hn. rewrite Hn.
      destruct (lookup k1 l) eqn:E1; rewrite lookup_set, eqb_refl'; reflexivity.
    + destruct (lookup k1 l) eqn:E1; rewrite lookup_set, E; reflexivity.
Qed.

Corollary has_pmerge : forall r l k, NoDup (map fst r) ->
  has k (pmerge l r) = has k l || has k r.
Proof.
  intros r l k ND. unfold has. rewrite lookup_pmerge by assumption.
  destruct (lookup k l), (lookup k r); reflexivity.
Qed.

Lemma pmerge_nil : forall l, pmerge l [] = l.
Proof. reflexivity. Qed.

(* ------------------------------------------------------------------ *)
(* PublishSpec.merge *)

Lemma merge_part_some_some : forall m t, merge_part (Some m) (Some t) = Some (pmerge m t).
Proof. intros m [|x t]; reflexivity. Qed.

Lemma merge_part_none : forall t, merge_part None t = if nonempty t then t else None.
Proof. intros [[|x t]|]; reflexivity. Qed.

Lemma merge_part_some_none : forall m, merge_part (Some m) None = Some m.
Proof. reflexivity. Qed.

Definition part_has (k : string) (o : option pd) : bool :=
  match o with Some d => has k d | None => false end.

Definition nodup_part (o : option pd) : Prop :=
  match o with Some d => NoDup (map fst d) | None => True end.

Definition nodup_spec (o : option pubspec) : Prop :=
  match o with Some s => nodup_part (ps_branch s) /\ nodup_part (ps_global s) | None => True end.

Lemma part_has_merge_part : forall mine theirs k, nodup_part theirs ->
  part_has k (merge_part mine theirs) = part_has k mine || part_has k theirs.
Proof.
  intros [m|] [t|] k ND.
  - rewrite merge_part_some_some. cbn [part_has]. apply has_pmerge. assumption.
  - cbn [merge_part nonempty part_has]. rewrite orb_false_r. reflexivity.
  - rewrite merge_part_none. destruct t; reflexivity.
  - reflexivity.
Qed.

Lemma nodup_pmerge : forall r l, NoDup (map fst l) -> NoDup (map fst (pmerge l r)).
Proof.
  induction r as [|[k1 v1] t IH]; intros l ND; unfold pmerge; cbn [fold_left]; [assumption|].
  fold (pmerge (pmerge_step l (k1, v1)) t). apply IH. unfold pmerge_step.
  destruct (lookup (fst (k1, v1)) l); apply nodup_set; assumption.
Qed.

Lemma nodup_merge_part : forall mine theirs, nodup_part mine -> nodup_part theirs -> nodup_part (merge_part mine theirs).
Proof.
  intros [m|] [t|] Hm Ht.
  - rewrite merge_part_some_some. cbn [nodup_part] in *. apply nodup_pmerge; assumption.
  - exact Hm.
  - rewrite merge_part_none. destruct (nonempty (Some t)); [exact Ht | exact I].
  - exact I.
Qed.

(* what the workflow text declares for the state, and what get_publish returns *)
Definition declared_branch (tl : pd) (oc oncl : option pubspec) (k : string) : bool :=
  has k tl
  || match oc with Some o => part_has k (ps_branch o) | None => false end
  || match oncl with Some c => part_has k (ps_branch c) | None => false end.

Definition declared_global (oc oncl : option pubspec) (k : string) : bool :=
  match oc with Some o => part_has k (ps_global o) | None => false end
  || match oncl with Some c => part_has k (ps_global c) | None => false end.

Definition result_branch (r : option pubspec) (k : string) : bool :=
  match r with Some s => part_has k (ps_branch s) | None => false end.

Definition result_global (r : option pubspec) (k : string) : bool :=
  match r with Some s => part_has k (ps_global s) | None => false end.

Lemma has_nil : forall k, @has pexpr k [] = false.
Proof. reflexivity. Qed.

Definition spec0_of (tl : pd) : option pubspec :=
  match tl with [] => None | _ => Some (mkPS (Some tl) None) end.

Definition spec1_of (tl : pd) (oc : option pubspec) : option pubspec :=
  match oc with
  | Some o => match spec0_of tl with Some s => Some (ps_merge s o) | None => Some o end
  | None => spec0_of tl
  end.

Lemma get_publish_eq : forall tl oc oncl,
  get_publish tl oc oncl =
  match oncl with
  | Some c => match spec1_of tl oc with Some s => Some (ps_merge c s) | None => Some c end
  | None => spec1_of tl oc
  end.
Proof. reflexivity. Qed.

Lemma nodup_spec1 : forall tl oc, NoDup (map fst tl) -> nodup_spec oc -> nodup_spec (spec1_of tl oc).
Proof.
  intros tl oc Htl Hoc. unfold spec1_of, spec0_of.
  destruct oc as [o|]; destruct tl as [|e tl']; cbn [nodup_spec ps_merge ps_branch ps_global nodup_part]; auto.
  destruct Hoc as [Hb Hg]. split; apply nodup_merge_part; cbn [nodup_part]; auto.
Qed.

Lemma result_branch_spec1 : forall tl oc k, nodup_spec oc ->
  result_branch (spec1_of tl oc) k = has k tl || match oc with Some o => part_has k (ps_branch o) | None => false end.
Proof.
  intros tl oc k Hoc. unfold spec1_of, spec0_of.
  destruct oc as [o|]; destruct tl as [|e tl']; cbn [result_branch ps_merge ps_branch]; try reflexivity.
  - rewrite part_has_merge_part by apply Hoc. reflexivity.
  - cbn [part_has]. rewrite orb_false_r. reflexivity.
Qed.

Lemma result_global_spec1 : forall tl oc k, nodup_spec oc ->
  result_global (spec1_of tl oc) k = match oc with Some o => part_has k (ps_global o) | None => false end.
Proof.
  intros tl oc k Hoc. unfold spec1_of, spec0_of.
  destruct oc as [o|]; destruct tl as [|e tl']; cbn [result_global ps_merge ps_global]; try reflexivity.
  rewrite part_has_merge_part by apply Hoc. reflexivity.
Qed.

(* Branch variables: exactly the declared ones are published - nothing is lost, nothing invented
   (after fix f28ee2d0; before it a clause without the part discarded the other side's) *)
Theorem get_publish_branch_exact : forall tl oc oncl k,
  nodup_spec oc -> nodup_spec oncl -> NoDup (map fst tl) ->
  result_branch (get_publish tl oc oncl) k = declared_branch tl oc oncl k.
Proof.
  intros tl oc oncl k Hoc Hcl Htl. unfold declared_branch. rewrite get_publish_eq.
  pose proof (result_branch_spec1 tl oc k Hoc) as H1. pose proof (nodup_spec1 tl oc Htl Hoc) as N1.
  destruct oncl as [c|].
  - destruct (spec1_of tl oc) as [s|] eqn:Es.
    + cbn [result_branch ps_merge ps_branch]. rewrite part_has_merge_part by apply N1.
      cbn [result_branch] in H1. rewrite H1.
      destruct (has k tl), (match oc with Some o => part_has k (ps_branch o) | None => false end), (part_has k (ps_branch c)); reflexivity.
    + cbn [result_branch] in *. rewrite <- H1. reflexivity.
  - rewrite H1. rewrite orb_false_r. reflexivity.
Qed.

Theorem get_publish_global_exact : forall tl oc oncl k,
  nodup_spec oc -> nodup_spec oncl -> NoDup (map fst tl) ->
  result_global (get_publish tl oc oncl) k = declared_global oc oncl k.
Proof.
  intros tl oc oncl k Hoc Hcl Htl. unfold declared_global. rewrite get_publish_eq.
  pose proof (result_global_spec1 tl oc k Hoc) as H1. pose proof (nodup_spec1 tl oc Htl Hoc) as N1.
  destruct oncl as [c|].
  - destruct (spec1_of tl oc) as [s|] eqn:Es.
    + cbn [result_global ps_merge ps_global]. rewrite part_has_merge_part by apply N1.
      cbn [result_global] in H1. rewrite H1. apply orb_comm.
    + cbn [result_global] in *. rewrite <- H1. reflexivity.
  - rewrite H1. rewrite orb_false_r. reflexivity.
Qed.

Corollary get_publish_branch_complete : forall tl oc oncl k,
  nodup_spec oc -> nodup_spec oncl -> NoDup (map fst tl) ->
  declared_branch tl oc oncl k = true -> result_branch (get_publish tl oc oncl) k = true.
Proof. intros. rewrite get_publish_branch_exact; assumption. Qed.

Corollary get_publish_global_complete : forall tl oc oncl k,
  nodup_spec oc -> nodup_spec oncl -> NoDup (map fst tl) ->
  declared_global oc oncl k = true -> result_global (get_publish tl oc oncl) k = true.
Proof. intros. rewrite get_publish_global_exact; assumption. Qed.

(* regression witnesses of the former defect F5 (three shapes): all declared variables are
   now in the result *)
Lemma former_f5_witnesses_clean :
  result_global (get_publish [("x", PLit (VNum 1))]
                   (Some (mkPS (Some [("y", PLit (VNum 2))]) (Some [("g", PLit (VNum 7))]))) None) "g" = true /\
  result_branch (get_publish [("x", PLit (VNum 1))] None (Some (mkPS None (Some [("g", PLit (VNum 7))])))) "x" = true /\
  result_global (get_publish [] (Some (mkPS None (Some [("g", PLit (VNum 7))])))
                   (Some (mkPS (Some [("x", PLit (VNum 1))]) None))) "g" = true.
Proof. repeat split; reflexivity. Qed.

(* priority among clauses that define the same (non-dict) variable:
   on-complete over task-level over the on-clause of the final state *)
Theorem get_publish_branch_priority : forall tl ob og cb cg k,
  tl <> [] -> NoDup (map fst tl) -> NoDup (map fst ob) ->
  (forall e, lookup k tl = Some e -> is_pdict e = false) ->
  (forall e, lookup k ob = Some e -> is_pdict e = false) ->
  (forall e, lookup k cb = Some e -> is_pdict e = false) ->
  exists r, get_publish tl (Some (mkPS (Some ob) og)) (Some (mkPS (Some cb) cg)) = Some r /\
            exists rb, ps_branch r = Some rb /\
            lookup k rb = match lookup k ob with
                          | Some e => Some e
                          | None => match lookup k tl with Some e => Some e | None => lookup k cb end
                          end.
Proof.
  intros tl ob og cb cg k Hne NDt NDo Ft Fo Fc.
  destruct tl as [|e0 tl']; [contradiction|].
  eexists. split; [reflexivity|]. cbn [ps_merge ps_branch]. rewrite !merge_part_some_some.
  eexists. split; [reflexivity|].
  assert (NDm : NoDup (map fst (pmerge (e0 :: tl') ob))).
  { assert (G : forall r l, NoDup (map fst l) -> NoDup (map fst (pmerge l r))).
    { induction r as [|[k1 v1] t IH]; intros l ND; unfold pmerge; cbn [fold_left]; [assumption|].
      fold (pmerge (pmerge_step l (k1, v1)) t). apply IH. unfold pmerge_step.
      destruct (lookup (fst (k1, v1)) l); apply nodup_set; assumption. }
    apply G; assumption. }
  rewrite lookup_pmerge by assumption. rewrite (lookup_pmerge ob) by assumption.
  destruct (lookup k ob) as [eo|] eqn:Eo; destruct (lookup k (e0 :: tl')) as [et|] eqn:Et;
    destruct (lookup k cb) as [ec|] eqn:Ec; try reflexivity.
  - rewrite (pmerge_v_leaf et eo) by (rewrite (Fo eo eq_refl); apply andb_false_r).
    rewrite pmerge_v_leaf by (rewrite (Fo eo eq_refl); apply andb_false_r). reflexivity.
  - rewrite (pmerge_v_leaf et eo) by (rewrite (Fo eo eq_refl); apply andb_false_r). reflexivity.
  - rewrite pmerge_v_leaf by (rewrite (Fo eo eq_refl); apply andb_false_r). reflexivity.
  - rewrite pmerge_v_leaf by (rewrite (Ft et eq_refl); apply andb_false_r). reflexivity.
Qed.

(* ------------------------------------------------------------------ *)
(* ContextView priorities per call site *)

Definition first_of (k : string) (ds : list dict) : option value := view_lookup k ds.

Lemma lookup_task_dict : forall tid tname k, k <> TASK_EXECUTION_KEY -> lookup k (task_dict tid tname) = None.
Proof.
  intros tid tname k H. unfold task_dict. cbn [lookup].
  destruct (String.eqb k TASK_EXECUTION_KEY) eqn:E; [apply String.eqb_eq in E; contradiction | reflexivity].
Qed.

Lemma lookup_env_dict : forall env k, k <> "__env" -> lookup k (env_dict env) = None.
Proof.
  intros env k H. unfold env_dict. cbn [lookup].
  destruct (String.eqb k "__env") eqn:E; [apply String.eqb_eq in E; contradiction | reflexivity].
Qed.

(* publish / next-task conditions: what the task inherited or published, then the
   workflow context (vars and global publishes), then the workflow input *)
Theorem publish_view_priority : forall tid tname in_ctx env wctx input k,
  k <> TASK_EXECUTION_KEY -> k <> "__env" ->
  view_lookup k (publish_view tid tname in_ctx env wctx input) =
  match lookup k in_ctx with
  | Some v => Some v
  | None => match lookup k wctx with Some v => Some v | None => lookup k input end
  end.
Proof.
  intros. unfold publish_view. cbn [view_lookup].
  rewrite lookup_task_dict, lookup_env_dict by assumption.
  destruct (lookup k in_ctx); [reflexivity|]. destruct (lookup k wctx); [reflexivity|].
  destruct (lookup k input); reflexivity.
Qed.

Theorem publish_view_env : forall tid tname in_ctx env wctx input,
  lookup "__env" in_ctx = None ->
  view_lookup "__env" (publish_view tid tname in_ctx env wctx input) = Some (VDict env).
Proof. intros. unfold publish_view. cbn [view_lookup task_dict lookup String.eqb Ascii.eqb Bool.eqb]. rewrite H. reflexivity. Qed.

Theorem output_view_priority : forall final env wctx input k,
  k <> "__env" ->
  view_lookup k (output_view final env wctx input) =
  match lookup k final with
  | Some v => Some v
  | None => match lookup k wctx with Some v => Some v | None => lookup k input end
  end.
Proof.
  intros. unfold output_view. cbn [view_lookup]. rewrite lookup_env_dict by assumption.
  destruct (lookup k final); [reflexivity|]. destruct (lookup k wctx); [reflexivity|].
  destruct (lookup k input); reflexivity.
Qed.

Theorem vars_view_priority : forall env wctx input k,
  k <> "__env" ->
  view_lookup k (vars_view env wctx input) =
  match lookup k wctx with Some v => Some v | None => lookup k input end.
Proof.
  intros. unfold vars_view. cbn [view_lookup]. rewrite lookup_env_dict by assumption.
  destruct (lookup k wctx); [reflexivity|]. destruct (lookup k input); reflexivity.
Qed.

(* action input parameters: the extra context given by the caller, then the inbound
   context, then workflow context, then input *)
Theorem expr_view_priority : forall tid tname env extra in_ctx wctx input k,
  k <> TASK_EXECUTION_KEY -> k <> "__env" ->
  view_lookup k (expr_view tid tname env extra in_ctx wctx input) =
  match lookup k extra with
  | Some v => Some v
  | None => match lookup k in_ctx with
            | Some v => Some v
            | None => match lookup k wctx with Some v => Some v | None => lookup k input end
            end
  end.
Proof.
  intros. unfold expr_view. cbn [view_lookup]. rewrite lookup_task_dict, lookup_env_dict by assumption.
  destruct (lookup k extra); [reflexivity|]. destruct (lookup k in_ctx); [reflexivity|].
  destruct (lookup k wctx); [reflexivity|]. destruct (lookup k input); reflexivity.
Qed.

(* a value published by a task is what an expression of its successor reads, whatever
   the environment, the workflow context and the input hold under that name *)
Theorem published_value_visible : forall c pub tid tname env wctx input k v,
  NoDup (map fst pub) -> k <> TASK_EXECUTION_KEY -> k <> "__env" ->
  lookup k pub = Some v ->
  eval (publish_view tid tname (cdata (outbound c pub)) env wctx input) (PPath [k]) = Some v.
Proof.
  intros c pub tid tname env wctx input k v ND H1 H2 Hv. cbn [eval].
  rewrite publish_view_priority by assumption. rewrite outbound_data by assumption. rewrite Hv. reflexivity.
Qed.

(* and an inherited value is read when the task itself did not publish the name *)
Theorem inherited_value_visible : forall c pub tid tname env wctx input k v,
  NoDup (map fst pub) -> k <> TASK_EXECUTION_KEY -> k <> "__env" ->
  lookup k pub = None -> lookup k (cdata c) = Some v ->
  eval (publish_view tid tname (cdata (outbound c pub)) env wctx input) (PPath [k]) = Some v.
Proof.
  intros c pub tid tname env wctx input k v ND H1 H2 Hn Hv. cbn [eval].
  rewrite publish_view_priority by assumption. rewrite outbound_data by assumption. rewrite Hn, Hv. reflexivity.
Qed.

(* a name nobody published falls back to workflow context, then input *)
Theorem unpublished_falls_back : forall c pub tid tname env wctx input k,
  NoDup (map fst pub) -> k <> TASK_EXECUTION_KEY -> k <> "__env" ->
  lookup k pub = None -> lookup k (cdata c) = None ->
  view_lookup k (publish_view tid tname (cdata (outbound c pub)) env wctx input) =
  match lookup k wctx with Some v => Some v | None => lookup k input end.
Proof.
  intros c pub tid tname env wctx input k ND H1 H2 Hn Hc.
  rewrite publish_view_priority by assumption. rewrite outbound_data by assumption. rewrite Hn, Hc. reflexivity.
Qed.
