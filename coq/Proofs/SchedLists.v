(* List lemmas shared by the scheduler proofs (Model/Sched.v, Model/SchedLegacy.v). *)
From Coq Require Import List NArith Bool Arith Lia Permutation.
Require Import Mistral.Model.Sched.
Import ListNotations.

Section Lists.
Context {A : Type}.

Lemma In_remove_nth : forall k (l : list A) x, In x (remove_nth k l) -> In x l.
Proof.
  induction k; destruct l; simpl; intros x Hx; auto.
  destruct Hx as [Hx|Hx]; auto.
Qed.

Lemma In_set_nth : forall k (l : list A) y x, In x (set_nth k y l) -> x = y \/ In x l.
Proof.
  induction k; destruct l; simpl; intros y x Hx; auto.
  - destruct Hx as [Hx|Hx]; auto.
  - destruct Hx as [Hx|Hx]; auto. apply IHk in Hx. tauto.
Qed.

Lemma perm_nth : forall k (l : list A) x, nth_error l k = Some x -> Permutation l (x :: remove_nth k l).
Proof.
  induction k; destruct l; simpl; intros x Hx; try discriminate.
  - inversion Hx; subst. apply Permutation_refl.
  - apply IHk in Hx. eapply perm_trans. apply perm_skip. exact Hx. apply perm_swap.
Qed.

Lemma perm_set_nth : forall k (l : list A) x y, nth_error l k = Some x ->
  Permutation (set_nth k y l) (y :: remove_nth k l).
Proof.
  induction k; destruct l; simpl; intros x y Hx; try discriminate.
  - apply Permutation_refl.
  - eapply perm_trans. apply perm_skip. eapply IHk; eauto. apply perm_swap.
Qed.

Lemma In_insert : forall (le : A -> A -> bool) x y l, In x (insert le y l) <-> x = y \/ In x l.
Proof.
  induction l; simpl.
  - intuition.
  - destruct (le y a); simpl; rewrite ?IHl; intuition.
Qed.

Lemma In_isort : forall (le : A -> A -> bool) x l, In x (isort le l) <-> In x l.
Proof.
  induction l; simpl. tauto.
  unfold isort in *. simpl. rewrite In_insert, IHl. intuition.
Qed.

Lemma perm_insert : forall (le : A -> A -> bool) y l, Permutation (insert le y l) (y :: l).
Proof.
  induction l; simpl. apply Permutation_refl.
  destruct (le y a). apply Permutation_refl.
  eapply perm_trans. apply perm_skip. exact IHl. apply perm_swap.
Qed.

Lemma perm_isort : forall (le : A -> A -> bool) l, Permutation (isort le l) l.
Proof.
  induction l; simpl. apply perm_nil.
  unfold isort in *; simpl. eapply perm_trans. apply perm_insert. apply perm_skip. exact IHl.
Qed.

Lemma In_take : forall b (l : list A) x, In x (take b l) -> In x l.
Proof.
  intros [n|] l x; simpl; auto. revert l. induction n; destruct l; simpl; intuition.
Qed.

(* subsequences *)
Inductive Sub : list A -> list A -> Prop :=
| Sub_nil : Sub [] []
| Sub_keep : forall x l' l, Sub l' l -> Sub (x :: l') (x :: l)
| Sub_skip : forall x l' l, Sub l' l -> Sub l' (x :: l).

Lemma Sub_refl : forall l, Sub l l.
Proof. induction l; constructor; auto. Qed.

Lemma Sub_In : forall l' l x, Sub l' l -> In x l' -> In x l.
Proof. induction 1; simpl; intuition. Qed.

Lemma Sub_filter : forall (f : A -> bool) l, Sub (filter f l) l.
Proof. induction l; simpl. constructor. destruct (f a); constructor; auto. Qed.

Lemma Sub_remove_nth : forall k l, Sub (remove_nth k l) l.
Proof.
  induction k; destruct l; simpl; try constructor; auto using Sub_refl.
Qed.

Lemma Sub_app : forall a' a b' b, Sub a' a -> Sub b' b -> Sub (a' ++ b') (a ++ b).
Proof. induction 1; simpl; intros; auto; constructor; auto. Qed.

Lemma Sub_nil_l : forall l, Sub [] l.
Proof. induction l; constructor; auto. Qed.

Lemma Sub_tail : forall x l, Sub l (x :: l).
Proof. intros. apply Sub_skip, Sub_refl. Qed.

End Lists.

Lemma Sub_map : forall {A B} (f : A -> B) l' l, Sub l' l -> Sub (map f l') (map f l).
Proof. induction 1; simpl; constructor; auto. Qed.

Lemma Sub_flat_map : forall {A B} (f g : A -> list B) l' l,
  Sub l' l -> (forall x, In x l' -> f x = g x) -> Sub (flat_map f l') (flat_map g l).
Proof.
  induction 1; simpl; intros Hfg.
  - constructor.
  - rewrite (Hfg x) by auto. apply Sub_app. apply Sub_refl. apply IHSub. auto.
  - change (flat_map f l') with ([] ++ flat_map f l'). apply Sub_app. apply Sub_nil_l. auto.
Qed.

Lemma Sub_NoDup : forall {A} (l' l : list A), Sub l' l -> NoDup l -> NoDup l'.
Proof.
  induction 1; intros Hn; auto.
  - inversion Hn; subst. constructor; auto. intro Hx. apply H2. eapply Sub_In; eauto.
  - inversion Hn; subst. auto.
Qed.

Lemma NoDup_app_intro : forall {A} (l l' : list A),
  NoDup l -> NoDup l' -> (forall x, In x l -> ~ In x l') -> NoDup (l ++ l').
Proof.
  induction l; simpl; intros l' H1 H2 H3; auto.
  inversion H1; subst. constructor.
  - rewrite in_app_iff. intros [Hx|Hx]; auto. eapply H3; eauto.
  - apply IHl; auto.
Qed.

Lemma NoDup_map_inj : forall {A B} (f : A -> B) l x y,
  NoDup (map f l) -> In x l -> In y l -> f x = f y -> x = y.
Proof.
  induction l; simpl; intros x y Hn Hx Hy Hf. tauto.
  inversion Hn; subst.
  destruct Hx as [Hx|Hx], Hy as [Hy|Hy]; subst; auto.
  - exfalso. apply H1. rewrite Hf. apply in_map. auto.
  - exfalso. apply H1. rewrite <- Hf. apply in_map. auto.
Qed.

Lemma nth_error_In' : forall {A} (l : list A) k x, nth_error l k = Some x -> In x l.
Proof. intros. eapply nth_error_In; eauto. Qed.
