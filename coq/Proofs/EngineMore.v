(* Corollaries over whole runs (arbitrary event lists, by induction) and smaller facts about
   Model/Engine.v, used by the Properties files C01, C03, C10, C11, C12. *)
From Coq Require Import List Bool Arith Lia Permutation.
Require Import Mistral.Gen.States Mistral.Model.PySort Mistral.Model.Engine.
Require Import Mistral.Proofs.StatesProofs Mistral.Proofs.EngineMutual Mistral.Proofs.EngineWf
               Mistral.Proofs.EngineSafety.
Import ListNotations.

Definition steps (sp : spec) (s : st) (evs : list ev) : st := fold_left (fun s e => fst (step sp s e)) evs s.

Lemma steps_app sp s a b : steps sp s (a ++ b) = steps sp (steps sp s a) b.
Proof. unfold steps. apply fold_left_app. Qed.

Lemma run_steps sp u evs : run sp u evs = steps sp (init_with u) evs.
Proof. reflexivity. Qed.

(* ------------------------------------------------ documented moves only *)
Definition Doc (a b : state) : Prop := documented_wf_move a b = true.

Lemma reach_documented e a b :
  live_wf_state a = true -> reach (step_move e) a b -> reach Doc a b /\ live_wf_state b = true.
Proof.
  intros Ha Hr. induction Hr as [a|a b c Hab IH Hbc].
  - split; [apply reach_refl|exact Ha].
  - destruct (IH Ha) as [Hd Hb]. split.
    + destruct (step_move_documented e b c Hb Hbc) as [<-|Hdoc]; [exact Hd|].
      eapply reach_step; [exact Hd|exact Hdoc].
    + eapply reach_live; [|exact Hb]. apply reach_one. exact Hbc.
Qed.

(* every state of every run is well-formed w.r.t. the header *)
Lemma hdr_inv_steps sp evs : forall s, hdr_inv s -> hdr_inv (steps sp s evs).
Proof.
  induction evs as [|e evs IH]; intros s Hs; simpl; [exact Hs|]. apply IH, hdr_inv_step, Hs.
Qed.

Lemma created_steps sp evs : forall s, wf_created s = true -> wf_created (steps sp s evs) = true.
Proof.
  induction evs as [|e evs IH]; intros s Hs; simpl; [exact Hs|]. apply IH, created_monotone, Hs.
Qed.

(* In every reachable state every event moves the workflow only along documented edges *)
Theorem reachable_step_documented sp u evs e :
  let s := run sp u evs in
  wf_created s = true ->
  reach Doc (wf_state s) (wf_state (fst (step sp s e))).
Proof.
  intros s Hc.
  assert (Hl : live_wf_state (wf_state s) = true) by (apply (hdr_inv_run sp u evs); exact Hc).
  apply (reach_documented e); [exact Hl|apply step_wf_moves; exact Hc].
Qed.

(* SUCCESS is never left, over arbitrary continuations *)
Theorem success_stays sp s evs :
  wf_created s = true -> wf_state s = SUCCESS -> wf_state (steps sp s evs) = SUCCESS.
Proof.
  revert s. induction evs as [|e evs IH]; intros s Hc Hs; simpl; [exact Hs|].
  apply IH; [apply created_monotone; exact Hc|apply success_final; assumption].
Qed.

(* ERROR / CANCELLED are held over any continuation without rerun / skip *)
Theorem failed_stays sp s evs :
  wf_created s = true -> (wf_state s = ERROR \/ wf_state s = CANCELLED) ->
  forallb (fun e => negb (is_rerun e)) evs = true ->
  wf_state (steps sp s evs) = wf_state s.
Proof.
  revert s. induction evs as [|e evs IH]; intros s Hc Hs He; simpl; [reflexivity|].
  simpl in He. apply andb_true_iff in He. destruct He as [He1 He2]. apply negb_true_iff in He1.
  assert (E : wf_state (fst (step sp s e)) = wf_state s) by (apply failed_left_only_by_rerun; assumption).
  rewrite IH; [exact E|apply created_monotone; exact Hc|rewrite E; exact Hs|exact He2].
Qed.

(* ------------------------------------------------ quiet states stay quiet *)
Definition no_restart (e : ev) : bool :=
  match e with EResume | ERerun _ _ | ESkipTask _ => false | _ => true end.

Lemma no_restart_not_rerun e : no_restart e = true -> is_rerun e = false.
Proof. destruct e; simpl; congruence. Qed.

Lemma reach_M_from_quiet a b :
  reach M a b -> (a = PAUSED \/ is_completed a = true) -> live_wf_state a = true ->
  (b = PAUSED \/ is_completed b = true).
Proof.
  intros Hr. induction Hr as [a|a b c Hab IH Hbc]; intros Ha Hl; [exact Ha|].
  specialize (IH Ha Hl). destruct Hbc as [V F].
  destruct c; vm_compute in F; try discriminate; auto.
Qed.

Lemma quiet_iff s : quiet s = true <-> (wf_state s = PAUSED \/ is_completed (wf_state s) = true).
Proof.
  unfold quiet. rewrite orb_true_iff. split; intros [H|H]; auto.
  - left. destruct (wf_state s); simpl in H; try discriminate; reflexivity.
  - left. rewrite H. reflexivity.
Qed.

(* a PAUSED or completed workflow stays PAUSED-or-completed under every event that is
   not resume / rerun / skip *)
Lemma reach_step_move_no_restart e a b :
  no_restart e = true -> reach (step_move e) a b -> reach M a b.
Proof.
  intros He Hr. induction Hr as [a|a b c Hab IH Hbc]; [apply reach_refl|].
  eapply reach_step; [exact IH|].
  destruct Hbc as [Hm|[_ [_ [[-> _]|Hre]]]]; [exact Hm|discriminate He|].
  destruct e; simpl in He, Hre; congruence.
Qed.

Theorem quiet_preserved sp s e :
  wf_created s = true -> live_wf_state (wf_state s) = true -> quiet s = true -> no_restart e = true ->
  quiet (fst (step sp s e)) = true.
Proof.
  intros Hc Hl Hq He. apply quiet_iff. apply quiet_iff in Hq.
  eapply reach_M_from_quiet; [|exact Hq|exact Hl].
  apply (reach_step_move_no_restart e); [exact He|apply step_wf_moves; exact Hc].
Qed.

Lemma quiet_no_creation sp s e :
  wf_created s = true -> quiet s = true -> no_restart e = true ->
  ntasks (fst (step sp s e)) = ntasks s.
Proof.
  intros Hc Hq He. apply quiet_iff in Hq. destruct Hq as [Hp|Hcmp].
  - apply paused_no_task_creation; [exact Hc|exact Hp|]. intros ->. discriminate He.
  - apply completed_no_task_creation; [exact Hc|exact Hcmp|apply no_restart_not_rerun; exact He].
Qed.

(* C10 / C11 over whole histories: from a PAUSED or completed workflow, any sequence of events
   without resume / rerun / skip creates no task execution *)
Theorem quiet_run_no_creation sp evs : forall s,
  wf_created s = true -> live_wf_state (wf_state s) = true -> quiet s = true ->
  forallb no_restart evs = true ->
  ntasks (steps sp s evs) = ntasks s.
Proof.
  induction evs as [|e evs IH]; intros s Hc Hl Hq He; simpl; [reflexivity|].
  simpl in He. apply andb_true_iff in He. destruct He as [He1 He2].
  rewrite IH.
  - apply quiet_no_creation; assumption.
  - apply created_monotone; exact Hc.
  - eapply reach_live; [apply step_wf_moves; exact Hc|exact Hl].
  - apply quiet_preserved; assumption.
  - exact He2.
Qed.

(* ------------------------------------------------ results are still recorded *)
Theorem result_recorded sp s aid res :
  aid < length (acts s) -> is_completed (a_state (get_act s aid)) = false ->
  snd (do_result sp s aid res) = Ok.
Proof.
  intros Hl Hc. unfold do_result. cbv zeta.
  assert (E : Nat.leb (length (acts s)) aid = false) by (apply Nat.leb_gt; exact Hl).
  rewrite E, Hc.
  destruct (complete_task _ _ _ _ _) as [t1 fl]. destruct fl; reflexivity.
Qed.

(* ------------------------------------------------ internal errors *)
(* The only non-declared failures of the model's entry points: a result for an action that is
   already completed (second delivery), or a message naming an execution that does not exist. *)
Theorem internal_only_on_stale_message sp s e :
  snd (step sp s e) = Internal ->
  exists i, (e = EFire i \/ e = EDup i) /\
    match i with
    | IResult aid _ => length (acts s) <= aid \/ is_completed (a_state (get_act s aid)) = true
    | IStartTask tid _ _ _ => length (tasks s) <= tid
    | _ => False
    end.
Proof.
  destruct e as [|i|n| | |x|tid reset|tid|i|]; simpl.
  - destruct (wf_created s); [discriminate|].
    destruct (dispatch _ _ _ _) as [t1 fl]; destruct fl; [|discriminate].
    destruct (check_and_complete _); discriminate.
  - destruct (remove_first (item_eqb i) (pend s)) as [[it rest]|] eqn:Er; [|discriminate].
    assert (Hit : item_eqb i it = true).
    { clear -Er. revert it rest Er. induction (pend s) as [|y l IH]; intros it rest Er; simpl in Er; [discriminate|].
      destruct (item_eqb i y) eqn:E.
      - inversion Er; subst. exact E.
      - destruct (remove_first (item_eqb i) l) as [[z r']|]; [|discriminate].
        inversion Er; subst. eapply IH. reflexivity. }
    destruct it as [tid f r x|aid|aid res|ops|tid].
    + destruct i as [tid' f' r' x'|?|? ?|?|?]; simpl in Hit; try discriminate.
      apply andb_true_iff in Hit. destruct Hit as [Hit _]. apply andb_true_iff in Hit. destruct Hit as [Hit _].
      apply andb_true_iff in Hit. destruct Hit as [Hit _]. apply Nat.eqb_eq in Hit. subst tid'.
      unfold do_start_task. cbv zeta. simpl.
      destruct (Nat.leb (length (tasks s)) tid) eqn:El.
      * intros _. exists (IStartTask tid f' r' x'). split; [left; reflexivity|]. apply Nat.leb_le. exact El.
      * destruct f; [destruct (is_idle _); discriminate|].
        destruct (negb _ && negb _); [discriminate|]. destruct (negb _); [discriminate|].
        destruct (state_eqb _ SUCCESS); discriminate.
    + discriminate.
    + destruct i as [?|?|aid' res'|?|?]; simpl in Hit; try discriminate.
      apply andb_true_iff in Hit. destruct Hit as [Hit _]. apply Nat.eqb_eq in Hit. subst aid'.
      unfold do_result. cbv zeta. simpl.
      destruct (Nat.leb (length (acts s)) aid) eqn:El.
      * intros _. exists (IResult aid res'). split; [left; reflexivity|]. left. apply Nat.leb_le. exact El.
      * destruct (is_completed (a_state (get_act (set_pend s rest) aid))) eqn:Ec.
        -- intros _. exists (IResult aid res'). split; [left; reflexivity|]. right. exact Ec.
        -- destruct (complete_task _ _ _ _ _) as [t1 fl]. destruct fl; discriminate.
    + discriminate.
    + unfold do_refresh. cbv zeta. destruct (_ || _); [discriminate|].
      destruct (is_completed _); [discriminate|]. unfold refresh_body.
      destruct (state_eqb _ RUNNING); [discriminate|]. destruct (state_eqb _ ERROR); [|discriminate].
      destruct (complete_task _ _ _ _ _) as [t1 fl]. destruct fl; discriminate.
  - destruct (remove_nth_ptq n (pend s)) as [[ops rest]|]; discriminate.
  - destruct (wf_created s); simpl; [|discriminate]. destruct (pause_workflow s); discriminate.
  - destruct (wf_created s); simpl; [|discriminate].
    destruct (is_paused_or_idle _); simpl; [|discriminate].
    destruct (wf_set_state s RUNNING); [|discriminate].
    match goal with |- context [fold_right ?f ?a ?l] => destruct (fold_right f a l) end; [|discriminate].
    destruct (continue_workflow _ _ _) as [t1 fl]. destruct fl; discriminate.
  - destruct (wf_created s); simpl; [|discriminate]. destruct (stop_workflow s x); discriminate.
  - destruct (wf_created s); simpl; [|discriminate]. destruct (Nat.leb _ _); [discriminate|].
    destruct (state_eqb _ PAUSED); [discriminate|]. destruct (wf_set_state s RUNNING); [|discriminate].
    cbv zeta. destruct (continue_workflow _ _ _) as [t1 fl]. destruct fl; discriminate.
  - destruct (wf_created s); simpl; [|discriminate]. destruct (Nat.leb _ _); [discriminate|].
    destruct (state_eqb _ PAUSED); [discriminate|]. destruct (wf_set_state s RUNNING); [|discriminate].
    cbv zeta. destruct (continue_workflow _ _ _) as [t1 fl]. destruct fl; discriminate.
  - destruct i as [tid f r x|aid|aid res|ops|tid]; try discriminate.
    + unfold do_start_task. cbv zeta.
      destruct (Nat.leb (length (tasks s)) tid) eqn:El.
      * intros _. exists (IStartTask tid f r x). split; [right; reflexivity|]. apply Nat.leb_le. exact El.
      * destruct f; [destruct (is_idle _); discriminate|].
        destruct (negb _ && negb _); [discriminate|]. destruct (negb _); [discriminate|].
        destruct (state_eqb _ SUCCESS); discriminate.
    + unfold do_result. cbv zeta.
      destruct (Nat.leb (length (acts s)) aid) eqn:El.
      * intros _. exists (IResult aid res). split; [right; reflexivity|]. left. apply Nat.leb_le. exact El.
      * destruct (is_completed (a_state (get_act s aid))) eqn:Ec.
        -- intros _. exists (IResult aid res). split; [right; reflexivity|]. right. exact Ec.
        -- destruct (complete_task _ _ _ _ _) as [t1 fl]. destruct fl; discriminate.
  - discriminate.
Qed.

(* ------------------------------------------------ rerun / skip refusals (C12) *)
Theorem rerun_refused_when_paused sp s tid reset :
  wf_created s = true -> wf_state s = PAUSED -> step sp s (ERerun tid reset) = (s, Ok) \/
                                                step sp s (ERerun tid reset) = (s, NotEnabled).
Proof.
  intros Hc Hp. simpl. rewrite Hc. simpl. destruct (Nat.leb _ _); [right; reflexivity|].
  rewrite Hp. left. reflexivity.
Qed.

Theorem rerun_refused_on_success_workflow sp s tid reset :
  wf_created s = true -> wf_state s = SUCCESS -> tid < length (tasks s) ->
  step sp s (ERerun tid reset) = (s, Declared).
Proof.
  intros Hc Hs Hl. simpl. rewrite Hc. simpl.
  assert (E : Nat.leb (length (tasks s)) tid = false) by (apply Nat.leb_gt; exact Hl).
  rewrite E, Hs. simpl. unfold wf_set_state. rewrite Hs. reflexivity.
Qed.

(* a rerun start message for a task that has SUCCEEDED is refused with a declared error and
   changes nothing (the engine raises "Rerunning succeeded tasks is not supported") *)
Theorem start_existing_refused_on_success_task sp s tid reset :
  tid < length (tasks s) -> t_state (get_task s tid) = SUCCESS ->
  do_start_task sp s tid false true reset = (s, Declared).
Proof.
  intros Hl Hs. unfold do_start_task. cbv zeta.
  assert (E : Nat.leb (length (tasks s)) tid = false) by (apply Nat.leb_gt; exact Hl).
  rewrite E, Hs. reflexivity.
Qed.

(* a resume-issued start request (not a rerun) for a task that has started meanwhile is ignored:
   nothing changes, only a workflow completion check is registered *)
Theorem stale_resume_start_ignored sp s tid reset :
  tid < length (tasks s) -> is_idle (t_state (get_task s tid)) = false ->
  do_start_task sp s tid false false reset = (add_pend s (IPtq [OCheck]), Ok).
Proof.
  intros Hl Hs. unfold do_start_task. cbv zeta.
  assert (E : Nat.leb (length (tasks s)) tid = false) by (apply Nat.leb_gt; exact Hl).
  rewrite E, Hs. reflexivity.
Qed.

(* skip: the routes of a SKIPPED task are its on-skip clause, or on-success when on-skip yields none *)
Theorem skipped_task_routes sp r :
  t_state r = SKIPPED ->
  find_next_tasks sp r =
  match eval_clause (ts_skip (get_ts sp (t_name r))) OnSkip with
  | None => None
  | Some [] => match eval_clause (ts_succ (get_ts sp (t_name r))) OnSuccess with
               | Some l => Some l | None => None end
  | Some l => Some l
  end.
Proof.
  intros Hs. unfold find_next_tasks. rewrite Hs. simpl.
  destruct (eval_clause (ts_skip _) OnSkip) as [[|p l]|]; simpl; [| |reflexivity].
  - destruct (eval_clause (ts_succ _) OnSuccess) as [l|]; simpl; [|reflexivity].
    rewrite app_nil_r. reflexivity.
  - rewrite app_nil_r. reflexivity.
Qed.

(* ------------------------------------------------ impossible joins fail (C01 / C04) *)
Theorem join_error_means_unreachable sp s name :
  join_logical sp s name = ERROR ->
  let inds := map (fun m => induced_state sp s m name) (inbound sp name) in
  match ts_join (get_ts sp name) with
  | JAll => 0 < count_ind IndError inds
  | JOne => length inds - 1 < count_ind IndError inds
  | JNum k => length inds - k < count_ind IndError inds
  | JNone => False
  end.
Proof.
  unfold join_logical. destruct (inbound sp name) as [|m ins] eqn:Ei; [discriminate|].
  cbv zeta. set (inds := map (fun m0 => induced_state sp s m0 name) (m :: ins)).
  destruct (ts_join (get_ts sp name)); [discriminate| | |].
  - destruct (Nat.eqb _ _); [discriminate|].
    destruct (Nat.ltb 0 (count_ind IndError inds)) eqn:E; [|discriminate]. intros _. apply Nat.ltb_lt. exact E.
  - destruct (Nat.leb 1 _); [discriminate|].
    destruct (Nat.ltb (length inds - 1) (count_ind IndError inds)) eqn:E; [|discriminate].
    intros _. apply Nat.ltb_lt. exact E.
  - destruct (Nat.leb k _); [discriminate|].
    destruct (Nat.ltb (length inds - k) (count_ind IndError inds)) eqn:E; [|discriminate].
    intros _. apply Nat.ltb_lt. exact E.
Qed.

(* ------------------------------------------------ list.sort model: a permutation (C02) *)
Section SortPerm.
Context {A : Type} (lt : A -> A -> bool) (d : A).

Lemma insert_at_perm (pre : list A) k x : Permutation (x :: pre) (insert_at pre k x).
Proof.
  unfold insert_at. rewrite <- (firstn_skipn k pre) at 1.
  apply Permutation_middle.
Qed.

Lemma binsort_perm rest : forall pre, Permutation (pre ++ rest) (binsort lt d pre rest).
Proof.
  induction rest as [|x r IH]; intros pre; cbn [binsort].
  - rewrite app_nil_r. apply Permutation_refl.
  - eapply Permutation_trans; [|apply IH].
    eapply Permutation_trans; [apply Permutation_sym, Permutation_middle|].
    change (x :: pre ++ r) with ((x :: pre) ++ r).
    apply Permutation_app_tail. apply insert_at_perm.
Qed.

Theorem py_sort_perm l : Permutation l (py_sort lt d l).
Proof.
  unfold py_sort. destruct l as [|x [|y r]]; try apply Permutation_refl.
  set (n := 2 + run_len lt (lt y x) y r).
  eapply Permutation_trans; [|apply binsort_perm].
  rewrite <- (firstn_skipn n (x :: y :: r)) at 1.
  apply Permutation_app_tail.
  destruct (lt y x); [apply Permutation_rev|apply Permutation_refl].
Qed.
End SortPerm.

(* ------------------------------------------------ duplicate start_task (C06) *)
(* a redelivered first-run start request for a task that has already started creates no task
   and no action execution and changes no row; it can only register one more (de-duplicated)
   refresh scheduling for downstream joins *)
Theorem duplicate_first_start_inert sp s tid rerun reset :
  is_idle (t_state (get_task s tid)) = false ->
  let s' := fst (do_start_task sp s tid true rerun reset) in
  tasks s' = tasks s /\ acts s' = acts s /\ wf_state s' = wf_state s /\ backlog s' = backlog s.
Proof.
  intros Hi. unfold do_start_task. cbv zeta.
  destruct (Nat.leb _ _); [repeat split; reflexivity|].
  rewrite Hi. simpl.
  unfold commit, check_affected. simpl.
  destruct (negb (is_completed (t_state (get_task s tid)))); simpl; [repeat split; reflexivity|].
  destruct (is_completed (wf_state s)); simpl; [repeat split; reflexivity|].
  destruct (map OSchedRefresh (affected sp s (t_name (get_task s tid)))); simpl; repeat split; reflexivity.
Qed.
