(* Proofs about Model/TenantCache.v (property C15): a store shared by several projects, keyed by something
   unique across projects, never serves a project the content of another project - for all sequences of
   creates, updates, deletes (+ re-creates under a fresh id) and uses by any projects. *)
From Coq Require Import List Bool Arith Lia String.
Require Import Mistral.Model.TenantCache.
Import ListNotations.

Definition slot_ok (kind : key_kind) (hist : list (nat * nat)) (e : key * slot) : Prop :=
  match kind with
  | KeyId => In (fst (fst e), fst (fst (snd e))) hist
  | KeyNameProject => snd (fst e) = fst (fst (snd e))
  | _ => True
  end.

Definition inv (kind : key_kind) (s : tstate) : Prop :=
  (forall r, In r (s_db s) -> t_author r = t_owner r /\ In (t_id r, t_owner r) (s_hist s)) /\
  (forall i p q, In (i, p) (s_hist s) -> In (i, q) (s_hist s) -> p = q) /\
  Forall (slot_ok kind (s_hist s)) (s_cache s).

Lemma inv_empty : forall kind, inv kind empty_state.
Proof. intros kind. repeat split; cbn; try contradiction; constructor. Qed.

Lemma slot_ok_mono : forall kind h h' e,
  (forall x, In x h -> In x h') -> slot_ok kind h e -> slot_ok kind h' e.
Proof. intros kind h h' e Hsub H. destruct kind; cbn in *; auto. Qed.

Lemma resolve_own : forall p n d r, resolve p n d = Some r -> In r d /\ t_owner r = p.
Proof.
  intros p n d r H. unfold resolve in H. apply find_some in H. destruct H as [Hin Ho].
  unfold own in Ho. apply andb_true_iff in Ho. destruct Ho as [Ho _]. apply Nat.eqb_eq in Ho. tauto.
Qed.

Lemma cache_lookup_in : forall k c sl, cache_lookup k c = Some sl -> exists k', In (k', sl) c /\ key_eqb k' k = true.
Proof.
  intros k c sl H. unfold cache_lookup in H.
  destruct (find (fun e => key_eqb (fst e) k) c) as [[k' sl']|] eqn:E; [|discriminate].
  injection H as H. subst sl'. apply find_some in E. destruct E as [Hin Hk]. exists k'. split; assumption.
Qed.

Lemma key_eqb_eq : forall a b, key_eqb a b = true -> a = b.
Proof.
  intros [a1 a2] [b1 b2] H. unfold key_eqb in H. cbn in H. apply andb_true_iff in H. destruct H as [H1 H2].
  apply Nat.eqb_eq in H1, H2. subst. reflexivity.
Qed.

(* using one's own resource through the store *)
Lemma use_own : forall kind s r res c',
  key_cross_unique kind = true -> inv kind s -> In r (s_db s) ->
  use_resource kind r (s_cache s) = (res, c') ->
  fst res = t_owner r /\ Forall (slot_ok kind (s_hist s)) c'.
Proof.
  intros kind s r res c' Hk [Hdb [Hfun Hc]] Hr Hu. destruct (Hdb r Hr) as [Hauth Hhist].
  unfold use_resource in Hu.
  assert (Hreload : fst (t_author r, t_data r) = t_owner r /\
                    Forall (slot_ok kind (s_hist s)) ((key_of kind r, (t_author r, t_data r, t_ver r)) :: s_cache s)).
  { split; [exact Hauth|]. constructor; [|exact Hc].
    destruct kind; cbn in *; try discriminate; [rewrite Hauth; exact Hhist|symmetry; exact Hauth]. }
  destruct (cache_lookup (key_of kind r) (s_cache s)) as [[[a d] v]|] eqn:E.
  - destruct (v <? t_ver r).
    + injection Hu as H1 H2. subst. exact Hreload.
    + injection Hu as H1 H2. subst. split; [|exact Hc]. cbn [fst].
      apply cache_lookup_in in E. destruct E as [k' [Hin Hkk]]. apply key_eqb_eq in Hkk. subst k'.
      rewrite Forall_forall in Hc. specialize (Hc _ Hin).
      destruct kind; cbn in *; try discriminate.
      * exact (Hfun _ _ _ Hc Hhist).
      * symmetry. exact Hc.
  - injection Hu as H1 H2. subst. exact Hreload.
Qed.

Lemma step_inv : forall kind s o,
  key_cross_unique kind = true -> inv kind s ->
  inv kind (snd (tstep kind s o)) /\
  (forall p n a d, o = TUse p n -> fst (tstep kind s o) = Some (a, d) -> a = p).
Proof.
  intros kind s o Hk Hinv. pose proof Hinv as [Hdb [Hfun Hc]]. destruct o as [p n c i|p n c|p n|p n]; cbn [tstep].
  - (* create *)
    split; [|intros; discriminate].
    destruct (existsb (fun h => fst h =? i) (s_hist s) || existsb (own p n) (s_db s)) eqn:E; [exact Hinv|].
    apply orb_false_iff in E. destruct E as [Ei _].
    assert (Hfresh : forall q, ~ In (i, q) (s_hist s)).
    { intros q Hq. assert (existsb (fun h => fst h =? i) (s_hist s) = true) as X
        by (apply existsb_exists; exists (i, q); split; [exact Hq|apply Nat.eqb_refl]).
      rewrite X in Ei. discriminate. }
    cbn [snd]. repeat split; cbn [s_db s_hist s_cache].
    + apply in_app_or in H. destruct H as [H|[H|[]]]; [apply Hdb; exact H|subst r; reflexivity].
    + apply in_app_or in H. destruct H as [H|[H|[]]]; [right; apply Hdb; exact H|subst r; left; reflexivity].
    + intros j a b [Ha|Ha] [Hb|Hb].
      * congruence.
      * injection Ha as H1 H2. subst. exfalso. exact (Hfresh _ Hb).
      * injection Hb as H1 H2. subst. exfalso. exact (Hfresh _ Ha).
      * exact (Hfun _ _ _ Ha Hb).
    + eapply Forall_impl; [|exact Hc]. intros e He. eapply slot_ok_mono; [|exact He]. intros x Hx. right. exact Hx.
  - (* update *)
    split; [|intros; discriminate]. cbn [snd]. repeat split; cbn [s_db s_hist s_cache]; try assumption;
      apply in_map_iff in H; destruct H as [r0 [Hr0 Hin]]; destruct (own p n r0) eqn:Eo; subst r;
      try (apply Hdb; exact Hin); cbn [t_author t_owner t_id].
    + unfold own in Eo. apply andb_true_iff in Eo. destruct Eo as [Eo _]. apply Nat.eqb_eq in Eo. symmetry. exact Eo.
    + apply Hdb. exact Hin.
  - (* delete *)
    split; [|intros; discriminate]. cbn [snd]. repeat split; cbn [s_db s_hist s_cache]; try assumption;
      apply filter_In in H; destruct H as [H _]; apply Hdb; exact H.
  - (* use *)
    destruct (resolve p n (s_db s)) as [r|] eqn:Er; [|split; [exact Hinv|intros; discriminate]].
    apply resolve_own in Er. destruct Er as [Hr Ho].
    destruct (use_resource kind r (s_cache s)) as [res c'] eqn:Eu.
    destruct (use_own kind s r res c' Hk Hinv Hr Eu) as [Hres Hc']. cbn [fst snd]. split.
    + repeat split; cbn [s_db s_hist s_cache]; try assumption; apply Hdb; assumption.
    + intros p' n' a d Ho' Hr'. injection Ho' as H1 H2. subst p' n'. injection Hr' as Hr'. subst res. cbn [fst] in Hres.
      congruence.
Qed.

(* the position of an op and of its result coincide *)
Theorem shared_store_isolated : forall kind ops s,
  key_cross_unique kind = true -> inv kind s ->
  forall k p n a d, nth_error ops k = Some (TUse p n) ->
                    nth_error (fst (trun kind ops s)) k = Some (Some (a, d)) -> a = p.
Proof.
  intros kind ops. induction ops as [|o t IH]; intros s Hk Hinv k p n a d Ho Hr; [destruct k; discriminate|].
  cbn [trun] in Hr. destruct (step_inv kind s o Hk Hinv) as [Hinv1 Hres].
  destruct (tstep kind s o) as [r s1] eqn:E. destruct (trun kind t s1) as [rs s2] eqn:E2. cbn [fst snd] in *.
  destruct k as [|k]; cbn [nth_error] in *.
  - injection Ho as Ho. injection Hr as Hr. subst. eapply Hres; reflexivity.
  - apply (IH s1 Hk Hinv1 k p n a d Ho). rewrite E2. exact Hr.
Qed.

Theorem shared_store_isolated_from_empty : forall kind ops k p n a d,
  key_cross_unique kind = true ->
  nth_error ops k = Some (TUse p n) ->
  nth_error (fst (trun kind ops empty_state)) k = Some (Some (a, d)) -> a = p.
Proof. intros. eapply shared_store_isolated; eauto. apply inv_empty. Qed.

(* a key made of the name only: two projects, same name, the second one is served the first one's content *)
Definition collide_ops : list top := [TCreate 1 7 100 1; TCreate 2 7 200 2; TUse 1 7; TUse 2 7].

Lemma name_key_leaks : forall kind, key_cross_unique kind = false ->
  nth_error (fst (trun kind collide_ops empty_state)) 3 = Some (Some (1, 100)).
Proof. intros kind H. destruct kind; try discriminate; reflexivity. Qed.

(* a filtered multimap only hands out own or public entries *)
Lemma multi_lookup_own_or_public : forall p entries e,
  In e (multi_lookup p entries) -> In e entries /\ (fst (fst e) = p \/ snd (fst e) = true).
Proof.
  intros p entries e H. unfold multi_lookup in H. apply filter_In in H. destruct H as [H1 H2].
  split; [exact H1|]. apply orb_true_iff in H2. destruct H2 as [H2|H2]; [left; apply Nat.eqb_eq; exact H2|right; exact H2].
Qed.
