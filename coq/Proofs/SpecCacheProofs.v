(* Proofs about Model/SpecCache.v (property C14): coherence of the specification cache with
   the stored definitions, for every sequence of create / update / workbook upsert / clock
   tick / eviction / lookup.  Two sufficient conditions on the key component:
     - it contains a field that identifies the stored content exactly (the checksum, when
       BOTH services fill it): unconditional coherence;
     - it contains updated_at: coherence for sequences that never update a row twice within
       one second - and a counterexample without that restriction. *)
From Coq Require Import List Arith Bool Lia.
Require Import Mistral.Model.SpecCache.
Import ListNotations.

(* ---- association / list facts ---- *)

Lemma find_row_In n rows r : find_row n rows = Some r -> In r rows.
Proof.
  induction rows as [|x rows IH]; simpl; [discriminate|].
  destruct (Nat.eqb (r_name x) n); [intros H; injection H as ->; auto|auto].
Qed.

Lemma replace_row_In n f rows r' :
  In r' (replace_row n f rows) -> In r' rows \/ exists r, find_row n rows = Some r /\ r' = f r.
Proof.
  induction rows as [|x rows IH]; simpl; [tauto|].
  destruct (Nat.eqb (r_name x) n) eqn:E.
  - intros [<-|H]; [right; eauto|auto].
  - intros [<-|H]; [auto|]. destruct (IH H) as [H1|H1]; auto.
Qed.

Lemma remove_nth_In {A} i (l : list A) x : In x (remove_nth i l) -> In x l.
Proof.
  revert i. induction l as [|y l IH]; intros i; simpl; [destruct i; auto|].
  destruct i; [auto|]. intros [<-|H]; [auto|right; eapply IH; eauto].
Qed.

Lemma key_eqb_eq a b : key_eqb a b = true -> a = b.
Proof.
  revert b. induction a as [|x a IH]; intros [|y b]; simpl; try discriminate; [reflexivity|].
  intros H. apply andb_true_iff in H. destruct H as [H1 H2]. rewrite (IH b H2).
  destruct x, y; try discriminate; [apply Nat.eqb_eq in H1; subst|]; reflexivity.
Qed.

Lemma cache_get_In id k es s :
  cache_get id k es = Some s -> In (id, k, s) es.
Proof.
  induction es as [|[[i k'] s'] es IH]; simpl; [discriminate|].
  destruct (Nat.eqb i id && key_eqb k' k) eqn:E.
  - intros H. injection H as ->. apply andb_true_iff in E. destruct E as [E1 E2].
    apply Nat.eqb_eq in E1. apply key_eqb_eq in E2. subst. auto.
  - auto.
Qed.

Lemma map_eq_In {A B} (f g : A -> B) l x : map f l = map g l -> In x l -> f x = g x.
Proof.
  induction l as [|y l IH]; simpl; [tauto|]. intros H [<-|Hx]; injection H; auto.
Qed.

Lemma key_field c r v f : key c r = key c v -> In f (key_fields c) -> field_val r f = field_val v f.
Proof. intros H Hin. exact (map_eq_In (field_val r) (field_val v) _ f H Hin). Qed.

Lemma has_field_In f l : has_field f l = true -> In f l.
Proof.
  unfold has_field. rewrite existsb_exists. intros [g [Hg E]]. destruct f, g; try discriminate; exact Hg.
Qed.

(* a lookup answers with the stored spec: what a step may observe *)
Definition obs_ok (o : option (nat * nat)) : Prop :=
  match o with Some (s, stored) => s = stored | None => True end.

Lemma coherent_cons x obs : fst x = snd x -> coherent obs = true -> coherent (x :: obs) = true.
Proof. intros H Ho. unfold coherent in *. simpl. rewrite H, Nat.eqb_refl, Ho. reflexivity. Qed.

(* generic induction: an invariant kept by every (admissible) step, under which lookups are right *)
Section Induction.
  Variable c : cfg.
  Variable Inv : state -> Prop.
  Variable adm : state -> prim -> bool.
  Hypothesis step_ok : forall st o, Inv st -> adm st o = true ->
    Inv (fst (step c st o)) /\ obs_ok (snd (step c st o)).

  Fixpoint all_adm (st : state) (os : list prim) : bool :=
    match os with [] => true | o :: rest => adm st o && all_adm (fst (step c st o)) rest end.

  Lemma exec_coherent os : forall st, Inv st -> all_adm st os = true -> coherent (exec c st os) = true.
  Proof.
    induction os as [|o os IH]; intros st Hi Ha; [reflexivity|].
    cbn [all_adm] in Ha. apply andb_true_iff in Ha. destruct Ha as [Ha1 Ha2].
    destruct (step_ok st o Hi Ha1) as [Hi' Ho]. cbn [exec].
    destruct (step c st o) as [st' obs]. cbn [fst snd] in *.
    destruct obs as [[s stored]|]; [|apply IH; assumption].
    apply coherent_cons; [exact Ho|apply IH; assumption].
  Qed.
End Induction.

(* ------------------------------------------------------------------------- *)
(* 1. a key field that identifies the content exactly                         *)

Lemma sets_sum_both c p : exact_field c FChecksum = true -> sets_sum c p = true.
Proof. simpl. intros H. apply andb_true_iff in H. destruct p; simpl; tauto. Qed.

Lemma updated_exact_gen c f p now content r :
  exact_field c f = true -> field_val (updated c p now content r) f = Some content.
Proof.
  destruct f; intros H; try discriminate H; [|reflexivity].
  simpl. rewrite (sets_sum_both c p H). reflexivity.
Qed.

Lemma created_exact_gen c f p id n content :
  exact_field c f = true -> field_val (created c p id n content) f = Some content.
Proof.
  destruct f; intros H; try discriminate H; [|reflexivity].
  simpl. rewrite (sets_sum_both c p H). reflexivity.
Qed.

Section Exact.
  Variable c : cfg.
  Variable f : field.
  Hypothesis f_in : In f (key_fields c).
  Hypothesis f_exact : exact_field c f = true.

  Definition Inv1 (st : state) : Prop :=
    (forall r, In r (store st) -> field_val r f = Some (r_spec r)) /\
    (forall i k s, In (i, k, s) (cache st) -> exists v, k = key c v /\ field_val v f = Some s).

  Lemma updated_exact p now content r : field_val (updated c p now content r) f = Some content.
  Proof. exact (updated_exact_gen c f p now content r f_exact). Qed.

  Lemma created_exact p id n content : field_val (created c p id n content) f = Some content.
  Proof. exact (created_exact_gen c f p id n content f_exact). Qed.

  Lemma inv1_create p n content st : Inv1 st -> Inv1 (do_create c p n content st).
  Proof.
    intros [Hr Hc]. split; [|exact Hc]. cbn [do_create store]. intros r Hin.
    apply in_app_or in Hin. destruct Hin as [Hin|[<-|[]]]; [auto|].
    rewrite created_exact. reflexivity.
  Qed.

  Lemma inv1_update p n content st : Inv1 st -> Inv1 (do_update c p n content st).
  Proof.
    intros [Hr Hc]. split; [|exact Hc]. cbn [do_update store]. intros r Hin.
    apply replace_row_In in Hin. destruct Hin as [Hin|[r0 [_ ->]]]; [auto|].
    rewrite updated_exact. reflexivity.
  Qed.

  Lemma step1 st o : Inv1 st -> Inv1 (fst (step c st o)) /\ obs_ok (snd (step c st o)).
  Proof.
    intros Hi. destruct o as [p n content|p n content|p n content|d| |i|n]; cbn [step fst snd obs_ok].
    - split; [|exact I]. destruct (find_row n (store st)); [exact Hi|apply inv1_create; exact Hi].
    - split; [|exact I]. destruct (find_row n (store st)); [apply inv1_update; exact Hi|exact Hi].
    - split; [|exact I]. destruct (find_row n (store st)); [apply inv1_update|apply inv1_create]; exact Hi.
    - split; [exact Hi|exact I].
    - split; [|exact I]. destruct Hi as [Hr Hc]. split; [exact Hr|]. intros i k s [].
    - split; [|exact I]. destruct Hi as [Hr Hc]. split; [exact Hr|]. cbn [cache]. intros j k s Hin.
      apply remove_nth_In in Hin. eauto.
    - destruct (find_row n (store st)) as [r|] eqn:Ef; [|split; [exact Hi|exact I]].
      pose proof (find_row_In _ _ _ Ef) as Hin. destruct Hi as [Hr Hc].
      destruct (cache_get (r_id r) (key c r) (cache st)) as [s|] eqn:Eg; cbn [fst snd obs_ok].
      + split; [split; assumption|].
        destruct (Hc _ _ _ (cache_get_In _ _ _ _ Eg)) as [v [Hk Hv]].
        pose proof (key_field c r v f Hk f_in) as Hf. rewrite (Hr r Hin), Hv in Hf. congruence.
      + split; [|reflexivity]. split; [exact Hr|]. cbn [cache]. intros i k s [H|H]; [|eauto].
        injection H as <- <- <-. exists r. split; [reflexivity|auto].
  Qed.
End Exact.

Theorem coherent_exact c os : exact_cfg c = true -> coherent (exec c init os) = true.
Proof.
  unfold exact_cfg. rewrite existsb_exists. intros [f [Hin Hex]].
  apply (exec_coherent c (Inv1 c f) (fun _ _ => true)).
  - intros st o Hi _. exact (step1 c f Hin Hex st o Hi).
  - split; [intros r []|intros i k s []].
  - clear. generalize init. induction os as [|o os IH]; intros st; [reflexivity|]. simpl. apply IH.
Qed.

(* ------------------------------------------------------------------------- *)
(* 2. a key that contains updated_at: coherent when updates are spaced          *)

Definition le_opt (a b : option nat) : Prop :=
  match a, b with None, _ => True | Some _, None => False | Some x, Some y => x <= y end.
Definition lt_opt (a b : option nat) : Prop :=
  match a, b with None, Some _ => True | Some x, Some y => x < y | _, None => False end.

Lemma lt_le_trans a b c : lt_opt a b -> le_opt b c -> lt_opt a c.
Proof. destruct a, b, c; simpl; try tauto; lia. Qed.
Lemma le_lt_trans a b c : le_opt a b -> lt_opt b c -> lt_opt a c.
Proof. destruct a, b, c; simpl; try tauto; lia. Qed.
Lemma lt_le a b : lt_opt a b -> le_opt a b.
Proof. destruct a, b; simpl; try tauto; lia. Qed.
Lemma le_refl_opt a : le_opt a a.
Proof. destruct a; simpl; auto. Qed.

Lemma replace_row_ids n f rows : (forall r, r_id (f r) = r_id r) ->
  map r_id (replace_row n f rows) = map r_id rows.
Proof.
  intros Hf. induction rows as [|x rows IH]; simpl; [reflexivity|].
  destruct (Nat.eqb (r_name x) n); simpl; [rewrite Hf; reflexivity|rewrite IH; reflexivity].
Qed.

Lemma nodup_snoc {A} (l : list A) x : NoDup l -> ~ In x l -> NoDup (l ++ [x]).
Proof.
  induction l as [|y l IH]; simpl; intros Hnd Hn; [repeat constructor; auto|].
  inversion Hnd as [|z l' Hy Hnd']; subst. constructor.
  - intros Hin. apply in_app_or in Hin. destruct Hin as [Hin|[<-|[]]]; [auto|]. apply Hn. auto.
  - apply IH; [exact Hnd'|]. intros Hin. apply Hn. auto.
Qed.

Lemma nodup_ids_eq rows r1 r2 :
  NoDup (map r_id rows) -> In r1 rows -> In r2 rows -> r_id r1 = r_id r2 -> r1 = r2.
Proof.
  induction rows as [|x rows IH]; simpl; [tauto|]. intros Hnd H1 H2 Hid.
  inversion Hnd as [|y l Hnin Hnd']; subst.
  destruct H1 as [<-|H1], H2 as [<-|H2]; auto.
  - exfalso. apply Hnin. rewrite Hid. apply in_map. exact H2.
  - exfalso. apply Hnin. rewrite <- Hid. apply in_map. exact H1.
Qed.

Section Spaced.
  Variable c : cfg.
  Hypothesis upd_in : In FUpdatedAt (key_fields c).

  Definition Inv2 (st : state) : Prop :=
    NoDup (map r_id (store st)) /\
    (forall r, In r (store st) -> le_opt (r_upd r) (Some (clock st)) /\ r_id r < next_id st) /\
    (forall i k s, In (i, k, s) (cache st) ->
       i < next_id st /\
       exists v, k = key c v /\
         forall r, In r (store st) -> r_id r = i ->
           lt_opt (r_upd v) (r_upd r) \/ (r_upd v = r_upd r /\ r_spec r = s)).

  Lemma inv2_create p n content st : Inv2 st -> Inv2 (do_create c p n content st).
  Proof.
    intros [Hnd [Hr Hc]]. split; [|split]; cbn [do_create store cache clock next_id].
    - rewrite map_app. simpl. apply nodup_snoc; [exact Hnd|].
      intros Hx. apply in_map_iff in Hx. destruct Hx as [r [Hid Hin]].
      destruct (Hr r Hin) as [_ Hlt]. lia.
    - intros r Hin. apply in_app_or in Hin. destruct Hin as [Hin|[<-|[]]].
      + destruct (Hr r Hin). split; [assumption|lia].
      + simpl. split; [exact I|lia].
    - intros i k s Hin. destruct (Hc i k s Hin) as [Hlt [v [Hk Hv]]]. split; [lia|].
      exists v. split; [exact Hk|]. intros r Hr' Hid. apply in_app_or in Hr'.
      destruct Hr' as [Hr'|[<-|[]]]; [auto|]. simpl in Hid. lia.
  Qed.

  Lemma inv2_update p n content st :
    Inv2 st -> spaced_step st (PUpsert p n content) = true -> Inv2 (do_update c p n content st).
  Proof.
    intros [Hnd [Hr Hc]] Hsp. cbn [spaced_step] in Hsp.
    split; [|split]; cbn [do_update store cache clock next_id].
    - rewrite replace_row_ids; [exact Hnd|reflexivity].
    - intros r Hin. apply replace_row_In in Hin. destruct Hin as [Hin|[r0 [Hf ->]]]; [auto|].
      simpl. split; [lia|]. exact (proj2 (Hr r0 (find_row_In _ _ _ Hf))).
    - intros i k s Hin. destruct (Hc i k s Hin) as [Hlt [v [Hk Hv]]]. split; [exact Hlt|].
      exists v. split; [exact Hk|]. intros r Hr' Hid. apply replace_row_In in Hr'.
      destruct Hr' as [Hr'|[r0 [Hf ->]]]; [auto|].
      left. cbn [updated r_upd r_id] in *. rewrite Hf in Hsp.
      pose proof (find_row_In _ _ _ Hf) as Hin0. destruct (Hr r0 Hin0) as [Hle _].
      assert (Hlt0 : lt_opt (r_upd r0) (Some (clock st))).
      { destruct (r_upd r0) as [t|]; simpl in *; [|exact I].
        apply negb_true_iff in Hsp. apply Nat.eqb_neq in Hsp. lia. }
      destruct (Hv r0 Hin0 Hid) as [H|[H _]].
      + exact (lt_le_trans _ _ _ H (lt_le _ _ Hlt0)).
      + rewrite H. exact Hlt0.
  Qed.

  Lemma step2 st o : Inv2 st -> spaced_step st o = true ->
    Inv2 (fst (step c st o)) /\ obs_ok (snd (step c st o)).
  Proof.
    intros Hi Hsp. destruct o as [p n content|p n content|p n content|d| |i|n]; cbn [step fst snd obs_ok].
    - split; [|exact I]. destruct (find_row n (store st)); [exact Hi|apply inv2_create; exact Hi].
    - split; [|exact I]. destruct (find_row n (store st)) eqn:E; [|exact Hi].
      apply (inv2_update p); [exact Hi|exact Hsp].
    - split; [|exact I]. destruct (find_row n (store st)) eqn:E; [apply inv2_update; assumption|apply inv2_create; exact Hi].
    - split; [|exact I]. destruct Hi as [Hnd [Hr Hc]]. split; [exact Hnd|split]; cbn [store cache clock next_id].
      + intros r Hin. destruct (Hr r Hin) as [H1 H2]. split; [|exact H2].
        destruct (r_upd r); simpl in *; [lia|exact I].
      + exact Hc.
    - split; [|exact I]. destruct Hi as [Hnd [Hr Hc]]. split; [exact Hnd|split; [exact Hr|]]. intros i k s [].
    - split; [|exact I]. destruct Hi as [Hnd [Hr Hc]]. split; [exact Hnd|split; [exact Hr|]].
      cbn [cache store next_id]. intros j k s Hin. apply remove_nth_In in Hin. eauto.
    - destruct (find_row n (store st)) as [r|] eqn:Ef; [|split; [exact Hi|exact I]].
      pose proof (find_row_In _ _ _ Ef) as Hin. destruct Hi as [Hnd [Hr Hc]].
      destruct (cache_get (r_id r) (key c r) (cache st)) as [s|] eqn:Eg; cbn [fst snd obs_ok].
      + split; [split; [|split]; assumption|].
        destruct (Hc _ _ _ (cache_get_In _ _ _ _ Eg)) as [_ [v [Hk Hv]]].
        pose proof (key_field c r v FUpdatedAt Hk upd_in) as Hf. simpl in Hf.
        destruct (Hv r Hin eq_refl) as [Hlt|[_ Hs]]; [|symmetry; exact Hs].
        rewrite Hf in Hlt. destruct (r_upd v); simpl in Hlt; [lia|tauto].
      + split; [|reflexivity]. split; [exact Hnd|split; [exact Hr|]].
        cbn [cache store next_id]. intros i k s [H|H]; [|eauto].
        injection H as <- <- <-. split; [exact (proj2 (Hr r Hin))|].
        exists r. split; [reflexivity|]. intros r' Hr' Hid. right.
        rewrite (nodup_ids_eq _ r' r Hnd Hr' Hin Hid). split; reflexivity.
  Qed.
End Spaced.

Lemma all_adm_spaced c os : forall st, all_adm c spaced_step st os = spaced c st os.
Proof. induction os as [|o os IH]; intros st; [reflexivity|]. simpl. rewrite IH. reflexivity. Qed.

Theorem coherent_spaced c os :
  has_field FUpdatedAt (key_fields c) = true -> spaced c init os = true ->
  coherent (exec c init os) = true.
Proof.
  intros Hf Hsp. apply has_field_In in Hf.
  apply (exec_coherent c (Inv2 c) spaced_step).
  - intros st o Hi Ha. exact (step2 c Hf st o Hi Ha).
  - split; [constructor|split; [intros r []|intros i k s []]].
  - rewrite all_adm_spaced. exact Hsp.
Qed.

(* ------------------------------------------------------------------------- *)
(* 3. counterexamples                                                           *)

(* key = updated_at only (the code before the fix): two updates of a workbook within one
   second with a start in between - the second start gets the spec of the first update *)
Definition cfg_updated_at : cfg := mkCfg [FUpdatedAt] true false.
Definition same_second : list op :=
  [OWorkbook [(0, 1)]; OWorkbook [(0, 2)]; OStart 0; OWorkbook [(0, 3)]; OStart 0; OEvictAll; OStart 0].

Theorem refuted_same_second :
  exec_ops cfg_updated_at same_second = [(2, 2); (2, 3); (3, 3)].
Proof. vm_compute. reflexivity. Qed.

(* key = checksum while the workbook service does not fill it: any update after a start *)
Definition cfg_checksum_only : cfg := mkCfg [FChecksum] true false.
Definition update_after_start : list op :=
  [OWorkbook [(0, 1)]; OStart 0; OTick 5; OWorkbook [(0, 2)]; OStart 0; OEvictAll; OStart 0].

Theorem refuted_checksum_not_filled :
  exec_ops cfg_checksum_only update_after_start = [(1, 1); (1, 2); (2, 2)].
Proof. vm_compute. reflexivity. Qed.

(* the operations of the services *)
Theorem coherent_exact_ops c os : exact_cfg c = true -> coherent (exec_ops c os) = true.
Proof. intros H. apply coherent_exact. exact H. Qed.

(* ------------------------------------------------------------------------- *)
(* the configuration generated from the source (Gen/SpecCache.v)                *)
Require Import Mistral.Gen.SpecCache.

Lemma gen_sites_agree :
  forallb (fun s => key_eqb (map (fun f => Some (match f with FUpdatedAt => 0 | FChecksum => 1 | FContent => 2 end)) (snd s))
                            (map (fun f => Some (match f with FUpdatedAt => 0 | FChecksum => 1 | FContent => 2 end)) (key_fields gen_cfg)))
          gen_sites = true /\ List.length gen_sites = 4.
Proof. vm_compute. auto. Qed.

(* the generated key component contains the checksum and both services fill it *)
Theorem gen_coherent os : coherent (exec gen_cfg init os) = true.
Proof. apply coherent_exact. vm_compute. reflexivity. Qed.

Theorem gen_coherent_ops os : coherent (exec_ops gen_cfg os) = true.
Proof. apply gen_coherent. Qed.

Theorem refuted_same_second_and_fixed :
  exec_ops cfg_updated_at same_second = [(2, 2); (2, 3); (3, 3)] /\
  exec_ops gen_cfg same_second = [(2, 2); (3, 3); (3, 3)].
Proof. vm_compute. auto. Qed.
