(* Proofs about Model/Join.v: what _possible_route decides, what the logical state of a join means in terms
   of counted inbound rows, and why it is stable under further progress of the run. *)
From Coq Require Import List Arith Bool Lia Relations.
Require Import Mistral.Gen.States Mistral.Model.Join.
Import ListNotations.

(* ------------------------------------------------------------------ basics *)

Lemma memn_In : forall x l, memn x l = true <-> In x l.
Proof.
  intros x l. unfold memn. rewrite existsb_exists. split.
  - intros [y [Hin Heq]]. apply Nat.eqb_eq in Heq. subst. exact Hin.
  - intros Hin. exists x. split; [exact Hin | apply Nat.eqb_refl].
Qed.

Lemma memn_false : forall x l, memn x l = false <-> ~ In x l.
Proof.
  intros x l. rewrite <- memn_In. destruct (memn x l); split; intro H.
  - discriminate.
  - exfalso. apply H. reflexivity.
  - intro H'. discriminate.
  - reflexivity.
Qed.

(* ------------------------------------------------------------------ the declarative notions *)

Section Decl.
Variable sp : list task.

(* A task without an execution can still get one. *)
Inductive possible (rows : list row) : nat -> Prop :=
| P_start : forall t, inbound_names sp t = [] -> possible rows t
| P_active : forall t s r, In s (inbound_names sp t) -> lookup rows s = Some r ->
    is_completed (rstate r) = false -> possible rows t
| P_routed : forall t s r, In s (inbound_names sp t) -> lookup rows s = Some r ->
    is_completed (rstate r) = true -> In t (next_or_nil r) -> possible rows t
| P_chain : forall t s, In s (inbound_names sp t) -> lookup rows s = None ->
    possible rows s -> possible rows t.

(* what one inbound task s contributes to the route search of t *)
Definition witness (rows : list row) (t s : nat) : Prop :=
  (exists r, lookup rows s = Some r /\ is_completed (rstate r) = false) \/
  (exists r, lookup rows s = Some r /\ is_completed (rstate r) = true /\ In t (next_or_nil r)) \/
  (lookup rows s = None /\ possible rows s).

Lemma possible_inv : forall rows t,
  possible rows t <-> inbound_names sp t = [] \/ exists s, In s (inbound_names sp t) /\ witness rows t s.
Proof.
  intros rows t. split.
  - intros H. inversion H; subst.
    + left. assumption.
    + right. exists s. split; [assumption|]. left. eauto.
    + right. exists s. split; [assumption|]. right. left. eauto.
    + right. exists s. split; [assumption|]. right. right. auto.
  - intros [H | [s [Hin [[r [Hl Hc]] | [[r [Hl [Hc Hn]]] | [Hl Hp]]]]]].
    + apply P_start; assumption.
    + eapply P_active; eauto.
    + eapply P_routed; eauto.
    + eapply P_chain; eauto.
Qed.

(* inbound task s has completed and routed to the join j *)
Definition routed (rows : list row) (j s : nat) : Prop :=
  exists r, lookup rows s = Some r /\ is_completed (rstate r) = true /\ In j (next_or_nil r).

(* inbound task s can never route to the join j any more *)
Definition dead (rows : list row) (j s : nat) : Prop :=
  (exists r, lookup rows s = Some r /\ is_completed (rstate r) = true /\ ~ In j (next_or_nil r)) \/
  (lookup rows s = None /\ ~ possible rows s).

Lemma routed_not_dead : forall rows j s, routed rows j s -> ~ dead rows j s.
Proof.
  intros rows j s [r [Hl [Hc Hn]]] [[r' [Hl' [Hc' Hn']]] | [Hl' _]].
  - rewrite Hl in Hl'. inversion Hl'; subst. contradiction.
  - rewrite Hl in Hl'. discriminate.
Qed.

End Decl.

(* counting the members of a list that satisfy a (not necessarily decidable) predicate *)
Inductive countP (P : nat -> Prop) : list nat -> nat -> Prop :=
| c_nil : countP P [] 0
| c_yes : forall s l n, P s -> countP P l n -> countP P (s :: l) (S n)
| c_no : forall s l n, ~ P s -> countP P l n -> countP P (s :: l) n.

Lemma countP_fun : forall P l n m, countP P l n -> countP P l m -> n = m.
Proof.
  intros P l. induction l as [|s l IH]; intros n m Hn Hm; inversion Hn; inversion Hm; subst;
    try reflexivity; try contradiction.
  - f_equal. eapply IH; eassumption.
  - eapply IH; eassumption.
Qed.

Lemma countP_le_length : forall P l n, countP P l n -> n <= length l.
Proof. intros P l n H. induction H; simpl; lia. Qed.

Lemma countP_mono : forall (P Q : nat -> Prop) l n m,
  (forall s, In s l -> P s -> Q s) -> countP P l n -> countP Q l m -> n <= m.
Proof.
  intros P Q l. induction l as [|s l IH]; intros n m Himp Hn Hm; inversion Hn; inversion Hm; subst; try lia.
  - assert (n0 <= n1) by (eapply IH; eauto; intros; apply Himp; simpl; auto). lia.
  - exfalso. match goal with H : ~ Q s |- _ => apply H end. apply Himp; simpl; auto.
  - assert (n <= n1) by (eapply IH; eauto; intros; apply Himp; simpl; auto). lia.
  - eapply IH; eauto. intros; apply Himp; simpl; auto.
Qed.

Lemma countP_disjoint : forall (P Q : nat -> Prop) l n m,
  (forall s, In s l -> P s -> ~ Q s) -> countP P l n -> countP Q l m -> n + m <= length l.
Proof.
  intros P Q l. induction l as [|s l IH]; intros n m Hd Hn Hm; inversion Hn; inversion Hm; subst; simpl; try lia.
  - exfalso. eapply Hd; simpl; eauto.
  - assert (n0 + m <= length l) by (eapply IH; eauto; intros; apply Hd; simpl; auto). lia.
  - assert (n + n1 <= length l) by (eapply IH; eauto; intros; apply Hd; simpl; auto). lia.
  - assert (n + m <= length l) by (eapply IH; eauto; intros; apply Hd; simpl; auto). lia.
Qed.

(* ------------------------------------------------------------------ _possible_route *)

Section Route.
Variable sp : list task.
Variable rows : list row.

Lemma pr_loop_spec : forall (rec : nat -> nat -> res (bool * nat)) t ins,
  (forall s dd bb d2, In s ins -> rec s dd = Ok (bb, d2) -> (bb = true <-> possible sp rows s)) ->
  forall depth b d, pr_loop rec rows t ins depth = Ok (b, d) ->
  (b = true <-> exists s, In s ins /\ witness sp rows t s).
Proof.
  intros rec t ins. induction ins as [|s tl IH]; intros Hrec depth b d Hrun.
  - simpl in Hrun. inversion Hrun; subst. split; [discriminate|]. intros [s [[] _]].
  - simpl in Hrun.
    assert (Htl : forall s0 dd bb d2, In s0 tl -> rec s0 dd = Ok (bb, d2) -> (bb = true <-> possible sp rows s0))
      by (intros; eapply Hrec; simpl; eauto).
    destruct (lookup rows s) as [r|] eqn:Hl.
    + destruct (is_completed (rstate r)) eqn:Hc; simpl in Hrun.
      * destruct (rnext r) as [l|] eqn:Hn; [|discriminate].
        destruct (memn t l) eqn:Hm.
        -- inversion Hrun; subst. split; [|reflexivity]. intros _. exists s. split; [simpl; auto|].
           right. left. exists r. repeat split; auto. unfold next_or_nil. rewrite Hn. apply memn_In. exact Hm.
        -- specialize (IH Htl _ _ _ Hrun). rewrite IH. split.
           ++ intros [s0 [Hin Hw]]. exists s0. split; [simpl; auto | exact Hw].
           ++ intros [s0 [[Heq | Hin] Hw]]; [|exists s0; auto]. subst s0. exfalso.
              destruct Hw as [[r' [Hl' Hc']] | [[r' [Hl' [Hc' Hn']]] | [Hl' _]]]; rewrite Hl in Hl'; try discriminate.
              ** inversion Hl'; subst. rewrite Hc in Hc'. discriminate.
              ** inversion Hl'; subst. unfold next_or_nil in Hn'. rewrite Hn in Hn'.
                 apply memn_false in Hm. contradiction.
      * inversion Hrun; subst. split; [|reflexivity]. intros _. exists s. split; [simpl; auto|].
        left. exists r. auto.
    + destruct (rec s (S depth)) as [[[|] d'] | | ] eqn:Hr; try discriminate.
      * inversion Hrun; subst. split; [|reflexivity]. intros _. exists s. split; [simpl; auto|].
        right. right. split; [exact Hl|]. eapply Hrec; simpl; eauto.
      * specialize (IH Htl _ _ _ Hrun). rewrite IH. split.
        -- intros [s0 [Hin Hw]]. exists s0. split; [simpl; auto | exact Hw].
        -- intros [s0 [[Heq | Hin] Hw]]; [|exists s0; auto]. subst s0. exfalso.
           destruct Hw as [[r' [Hl' _]] | [[r' [Hl' _]] | [_ Hp]]]; try (rewrite Hl in Hl'; discriminate).
           assert (false = true) by (eapply Hrec; simpl; eauto). discriminate.
Qed.

Lemma possible_route_S : forall f t depth,
  possible_route (S f) sp rows t depth =
  match inbound_names sp t with
  | [] => Ok (true, depth)
  | _ :: _ => pr_loop (possible_route f sp rows) rows t (inbound_names sp t) depth
  end.
Proof. intros. simpl. destruct (inbound_names sp t); reflexivity. Qed.

(* Whenever the search returns, it returns exactly "a route is still possible". *)
Theorem possible_route_exact : forall fuel t depth b d,
  possible_route fuel sp rows t depth = Ok (b, d) -> (b = true <-> possible sp rows t).
Proof.
  induction fuel as [|f IH]; intros t depth b d Hrun; [discriminate|].
  rewrite possible_route_S in Hrun. rewrite possible_inv.
  destruct (inbound_names sp t) as [|s0 tl] eqn:Hin.
  - inversion Hrun; subst. split; auto.
  - rewrite <- Hin in *.
    pose proof (pr_loop_spec (possible_route f sp rows) t (inbound_names sp t)
                  (fun s dd bb d2 _ H => IH s dd bb d2 H) depth b d Hrun) as Hs.
    rewrite Hs. split.
    + intros H. right. exact H.
    + intros [H | H]; [rewrite Hin in H; discriminate | exact H].
Qed.

Lemma pr_loop_mono : forall (rec rec' : nat -> nat -> res (bool * nat)) t ins,
  (forall s dd x, rec s dd = Ok x -> rec' s dd = Ok x) ->
  forall depth x, pr_loop rec rows t ins depth = Ok x -> pr_loop rec' rows t ins depth = Ok x.
Proof.
  intros rec rec' t ins Hle. induction ins as [|s tl IH]; intros depth x Hrun; simpl in *; [exact Hrun|].
  destruct (lookup rows s) as [r|].
  - destruct (negb (is_completed (rstate r))); [exact Hrun|].
    destruct (rnext r); [|discriminate]. destruct (memn t l); [exact Hrun | apply IH; exact Hrun].
  - destruct (rec s (S depth)) as [[[|] d'] | | ] eqn:Hr; try discriminate.
    + rewrite (Hle _ _ _ Hr). exact Hrun.
    + rewrite (Hle _ _ _ Hr). apply IH. exact Hrun.
Qed.

(* more fuel never changes an answer *)
Theorem possible_route_fuel_mono : forall fuel m t depth x,
  possible_route fuel sp rows t depth = Ok x -> possible_route (fuel + m) sp rows t depth = Ok x.
Proof.
  induction fuel as [|f IH]; intros m t depth x Hrun; [discriminate|].
  change (S f + m) with (S (f + m)). rewrite possible_route_S in *.
  destruct (inbound_names sp t) as [|s0 tl]; [exact Hrun|].
  eapply pr_loop_mono; [|exact Hrun]. intros s dd y Hy. apply IH. exact Hy.
Qed.

Lemma pr_loop_fuel : forall (rec : nat -> nat -> res (bool * nat)) t ins,
  (forall s dd, In s ins -> rec s dd <> OutOfFuel) ->
  forall depth, pr_loop rec rows t ins depth <> OutOfFuel.
Proof.
  intros rec t ins. induction ins as [|s tl IH]; intros Hrec depth; simpl; [discriminate|].
  assert (Htl : forall s0 dd, In s0 tl -> rec s0 dd <> OutOfFuel) by (intros; apply Hrec; simpl; auto).
  destruct (lookup rows s) as [r|].
  - destruct (negb (is_completed (rstate r))); [discriminate|].
    destruct (rnext r); [|discriminate]. destruct (memn t l); [discriminate | apply IH; exact Htl].
  - destruct (rec s (S depth)) as [[[|] d'] | | ] eqn:Hr; try discriminate.
    + apply IH; exact Htl.
    + exfalso. eapply Hrec; [|exact Hr]. simpl; auto.
Qed.

(* On a definition whose transitions admit a ranking (no cycles) the search needs at most
   rank+1 nested calls: it never runs out of stack. *)
Theorem possible_route_acyclic : forall rank : nat -> nat,
  (forall t s, In s (inbound_names sp t) -> rank s < rank t) ->
  forall fuel t depth, rank t < fuel -> possible_route fuel sp rows t depth <> OutOfFuel.
Proof.
  intros rank Hrank. induction fuel as [|f IH]; intros t depth Hlt; [lia|].
  rewrite possible_route_S. destruct (inbound_names sp t) as [|s0 tl] eqn:Hin; [discriminate|].
  rewrite <- Hin. apply pr_loop_fuel. intros s dd Hs. apply IH.
  specialize (Hrank t s Hs). lia.
Qed.

End Route.

(* ------------------------------------------------------------------ logical state of a join *)

Section Logical.
Variable sp : list task.
Variable rows : list row.

Lemma induced_class : forall fuel j s x d,
  induced fuel sp rows j s = Ok (x, d) ->
  (x = IRun <-> routed rows j s) /\ (x = IErr <-> dead sp rows j s).
Proof.
  intros fuel j s x d H. unfold induced in H. unfold routed, dead.
  destruct (lookup rows s) as [r|] eqn:Hl.
  - destruct (is_completed (rstate r)) eqn:Hc; simpl in H.
    + destruct (memn j (next_or_nil r)) eqn:Hm; inversion H; subst.
      * apply memn_In in Hm. split; split.
        -- intros _. exists r. auto.
        -- reflexivity.
        -- discriminate.
        -- intros [[r' [Hl' [_ Hn]]] | [Hl' _]]; [|discriminate]. inversion Hl'; subst. contradiction.
      * apply memn_false in Hm. split; split.
        -- discriminate.
        -- intros [r' [Hl' [_ Hn]]]. inversion Hl'; subst. contradiction.
        -- intros _. left. exists r. auto.
        -- reflexivity.
    + inversion H; subst. split; split.
      * discriminate.
      * intros [r' [Hl' [Hc' _]]]. inversion Hl'; subst. rewrite Hc in Hc'. discriminate.
      * discriminate.
      * intros [[r' [Hl' [Hc' _]]] | [Hl' _]]; [|discriminate]. inversion Hl'; subst. rewrite Hc in Hc'. discriminate.
  - destruct (possible_route fuel sp rows s 1) as [[[|] d'] | | ] eqn:Hp; inversion H; subst.
    + pose proof (possible_route_exact sp rows _ _ _ _ _ Hp) as Hex.
      split; split.
      * discriminate.
      * intros [r [Hl' _]]. discriminate.
      * discriminate.
      * intros [[r [Hl' _]] | [_ Hn]]; [discriminate|]. exfalso. apply Hn. apply Hex. reflexivity.
    + pose proof (possible_route_exact sp rows _ _ _ _ _ Hp) as Hex.
      split; split.
      * discriminate.
      * intros [r [Hl' _]]. discriminate.
      * intros _. right. split; [reflexivity|]. intros Hpos. apply Hex in Hpos. discriminate.
      * reflexivity.
Qed.

Lemma induced_all_counts : forall fuel j ins l,
  induced_all fuel sp rows j ins = Ok l ->
  length l = length ins /\
  countP (routed rows j) ins (count_ind IRun l) /\
  countP (dead sp rows j) ins (count_ind IErr l).
Proof.
  intros fuel j ins. induction ins as [|s tl IH]; intros l H; simpl in H.
  - inversion H; subst. simpl. repeat split; constructor.
  - destruct (induced fuel sp rows j s) as [[x d] | | ] eqn:Hi; try discriminate.
    destruct (induced_all fuel sp rows j tl) as [l' | | ] eqn:Ha; try discriminate.
    inversion H; subst. destruct (IH _ eq_refl) as [Hlen [Hr He]].
    destruct (induced_class _ _ _ _ _ Hi) as [Hrun Herr].
    unfold count_ind in *. simpl.
    split; [lia|]. split.
    + destruct x; simpl.
      * apply c_no; [|exact Hr]. intros Hx. apply Hrun in Hx. discriminate.
      * apply c_no; [|exact Hr]. intros Hx. apply Hrun in Hx. discriminate.
      * apply c_yes; [|exact Hr]. apply Hrun. reflexivity.
    + destruct x; simpl.
      * apply c_no; [|exact He]. intros Hx. apply Herr in Hx. discriminate.
      * apply c_yes; [|exact He]. apply Herr. reflexivity.
      * apply c_no; [|exact He]. intros Hx. apply Herr in Hx. discriminate.
Qed.

(* required number of routed inbound tasks *)
Definition needed (k : jkind) (total : nat) : nat := match k with JAll => total | JNum n => n end.

Lemma decide_spec : forall k l nr nd,
  nr = count_ind IRun l -> nd = count_ind IErr l -> nr + nd <= length l ->
  let st := fst (fst (decide k rows l)) in
  (st = RUNNING <-> needed k (length l) <= nr) /\
  (st = ERROR <-> nr < needed k (length l) /\ length l < nd + needed k (length l)) /\
  (st = WAITING <-> nr < needed k (length l) /\ nd + needed k (length l) <= length l).
Proof.
  intros k l nr nd Hnr Hnd Hle. unfold decide. rewrite <- Hnr, <- Hnd. destruct k as [|n]; simpl.
  - destruct (Nat.eqb_spec (length l) nr) as [He|He]; simpl.
    + repeat split; intros; try discriminate; try lia.
    + destruct (Nat.ltb_spec 0 nd) as [Hd|Hd]; simpl; repeat split; intros; try discriminate; try lia.
  - destruct (Nat.leb_spec n nr) as [He|He]; simpl.
    + repeat split; intros; try discriminate; try lia.
    + destruct (Nat.ltb_spec (length l) (nd + n)) as [Hd|Hd]; simpl; repeat split; intros; try discriminate; try lia.
Qed.

Lemma logical_eq : forall fuel j k,
  logical fuel sp rows j k =
  match inbound_names sp j with
  | [] => Ok (RUNNING, 0, [])
  | _ :: _ => match induced_all fuel sp rows j (inbound_names sp j) with
              | Ok l => Ok (decide k rows l)
              | OutOfFuel => OutOfFuel
              | Crash => Crash
              end
  end.
Proof. intros. unfold logical. destruct (inbound_names sp j); reflexivity. Qed.

(* The logical state of a join, in terms of counted inbound tasks:
   RUNNING iff the required number have completed and routed to it (or it has no inbound task at all),
   ERROR iff fewer have and the tasks that can never route to it any more leave fewer than required,
   WAITING otherwise. *)
Theorem logical_state_sound : forall fuel j k st c tr,
  logical fuel sp rows j k = Ok (st, c, tr) ->
  let ins := inbound_names sp j in
  let need := needed k (length ins) in
  exists nr nd,
    countP (routed rows j) ins nr /\ countP (dead sp rows j) ins nd /\ nr + nd <= length ins /\
    (st = RUNNING <-> ins = [] \/ need <= nr) /\
    (st = ERROR <-> ins <> [] /\ nr < need /\ length ins < nd + need) /\
    (st = WAITING <-> ins <> [] /\ nr < need /\ nd + need <= length ins).
Proof.
  intros fuel j k st c tr H. cbv zeta. rewrite logical_eq in H.
  destruct (inbound_names sp j) as [|s0 tl] eqn:Hins.
  - inversion H; subst. exists 0, 0. simpl. repeat split; try constructor; auto; try discriminate;
      try (intros [Hne _]; exfalso; apply Hne; reflexivity).
  - rewrite <- Hins in *.
    assert (Hne : inbound_names sp j <> []) by (rewrite Hins; discriminate).
    destruct (induced_all fuel sp rows j (inbound_names sp j)) as [l | | ] eqn:Ha; try discriminate.
    assert (Hd : decide k rows l = (st, c, tr)) by (inversion H; reflexivity).
    destruct (induced_all_counts _ _ _ _ Ha) as [Hlen [Hr He]].
    assert (Hsum : count_ind IRun l + count_ind IErr l <= length (inbound_names sp j)).
    { eapply countP_disjoint; [|exact Hr|exact He]. intros s _. apply routed_not_dead. }
    exists (count_ind IRun l), (count_ind IErr l).
    pose proof (decide_spec k l _ _ eq_refl eq_refl) as Hspec.
    rewrite Hlen in Hspec. specialize (Hspec Hsum). rewrite Hd in Hspec. simpl in Hspec.
    destruct Hspec as [H1 [H2 H3]].
    split; [exact Hr|]. split; [exact He|]. split; [exact Hsum|].
    split; [|split].
    + split.
      * intros Hst. right. apply H1. exact Hst.
      * intros [Hnil | Hn]; [contradiction | apply H1; exact Hn].
    + split.
      * intros Hst. split; [exact Hne | apply H2; exact Hst].
      * intros [_ Hx]. apply H2. exact Hx.
    + split.
      * intros Hst. split; [exact Hne | apply H3; exact Hst].
      * intros [_ Hx]. apply H3. exact Hx.
Qed.

Lemma logical_state_three : forall fuel j k st c tr,
  logical fuel sp rows j k = Ok (st, c, tr) -> st = RUNNING \/ st = ERROR \/ st = WAITING.
Proof.
  intros fuel j k st c tr H. unfold logical in H.
  destruct (inbound_names sp j); [inversion H; auto|].
  destruct (induced_all fuel sp rows j (n :: l)) as [l' | | ]; try discriminate.
  inversion H as [Hd]. unfold decide in Hd. destruct k.
  - destruct (length l' =? count_ind IRun l'); [inversion Hd; auto|].
    destruct (0 <? count_ind IErr l'); inversion Hd; auto.
  - destruct (k <=? count_ind IRun l'); [inversion Hd; auto|].
    destruct (length l' <? count_ind IErr l' + k); inversion Hd; auto.
Qed.

End Logical.

(* ------------------------------------------------------------------ progress of a run *)

Section Evolve.
Variable sp : list task.

(* why a task execution may be created: it is a start task, or a completed inbound task routed to it *)
Definition cause (rows : list row) (n : nat) : Prop :=
  inbound_names sp n = [] \/
  exists p r, In p (inbound_names sp n) /\ lookup rows p = Some r /\
              is_completed (rstate r) = true /\ In n (next_or_nil r).

(* One or more engine steps, seen pointwise per task name: completed executions are final (no rerun),
   running ones may change arbitrarily, a new execution (not yet completed) appears only with a cause;
   at most one execution per name (no second instance of a task). *)
Definition evolve1 (rows rows' : list row) : Prop :=
  forall n,
    match lookup rows n with
    | Some r => if is_completed (rstate r) then lookup rows' n = Some r else exists r', lookup rows' n = Some r'
    | None => lookup rows' n = None \/
              exists r', lookup rows' n = Some r' /\ is_completed (rstate r') = false /\ cause rows n
    end.

Definition evolves : list row -> list row -> Prop := clos_refl_trans_1n _ evolve1.

Lemma cause_possible : forall rows n, cause rows n -> possible sp rows n.
Proof.
  intros rows n [H | [p [r [Hin [Hl [Hc Hn]]]]]].
  - apply P_start; exact H.
  - eapply P_routed; eauto.
Qed.

Lemma possible_anti : forall rows rows', evolve1 rows rows' ->
  forall t, possible sp rows' t -> possible sp rows t.
Proof.
  intros rows rows' Hev t Hp. induction Hp as [t Hs | t s r Hin Hl Hc | t s r Hin Hl Hc Hn | t s Hin Hl Hp IH].
  - apply P_start; exact Hs.
  - specialize (Hev s). destruct (lookup rows s) as [r0|] eqn:Hl0.
    + destruct (is_completed (rstate r0)) eqn:Hc0.
      * rewrite Hl in Hev. inversion Hev; subst. rewrite Hc in Hc0. discriminate.
      * eapply P_active; eauto.
    + destruct Hev as [Hnone | [r' [Hl' [_ Hcause]]]]; [rewrite Hl in Hnone; discriminate|].
      eapply P_chain; eauto. apply cause_possible; exact Hcause.
  - specialize (Hev s). destruct (lookup rows s) as [r0|] eqn:Hl0.
    + destruct (is_completed (rstate r0)) eqn:Hc0.
      * rewrite Hl in Hev. inversion Hev; subst. eapply P_routed; eauto.
      * eapply P_active; eauto.
    + destruct Hev as [Hnone | [r' [Hl' [Hc' _]]]]; [rewrite Hl in Hnone; discriminate|].
      rewrite Hl in Hl'. inversion Hl'; subst. rewrite Hc in Hc'. discriminate.
  - specialize (Hev s). destruct (lookup rows s) as [r0|] eqn:Hl0.
    + destruct (is_completed (rstate r0)); [rewrite Hl in Hev; discriminate|].
      destruct Hev as [r' Hl']. rewrite Hl in Hl'. discriminate.
    + eapply P_chain; eauto.
Qed.

Lemma routed_mono1 : forall rows rows' j s, evolve1 rows rows' -> routed rows j s -> routed rows' j s.
Proof.
  intros rows rows' j s Hev [r [Hl [Hc Hn]]]. specialize (Hev s). rewrite Hl, Hc in Hev.
  exists r. auto.
Qed.

Lemma dead_mono1 : forall rows rows' j s, evolve1 rows rows' -> dead sp rows j s -> dead sp rows' j s.
Proof.
  intros rows rows' j s Hev [[r [Hl [Hc Hn]]] | [Hl Hnp]].
  - pose proof (Hev s) as H. rewrite Hl, Hc in H. left. exists r. auto.
  - pose proof (Hev s) as H. rewrite Hl in H. destruct H as [Hnone | [r' [_ [_ Hcause]]]].
    + right. split; [exact Hnone|]. intros Hp. apply Hnp. eapply possible_anti; eauto.
    + exfalso. apply Hnp. apply cause_possible. exact Hcause.
Qed.

Lemma routed_mono : forall rows rows' j s, evolves rows rows' -> routed rows j s -> routed rows' j s.
Proof. intros rows rows' j s H. induction H; intros Hr; [exact Hr|]. apply IHclos_refl_trans_1n. eapply routed_mono1; eauto. Qed.

Lemma dead_mono : forall rows rows' j s, evolves rows rows' -> dead sp rows j s -> dead sp rows' j s.
Proof. intros rows rows' j s H. induction H; intros Hr; [exact Hr|]. apply IHclos_refl_trans_1n. eapply dead_mono1; eauto. Qed.

(* Once RUNNING (resp. ERROR) for a row set, the logical state stays so however the run goes on. *)
Theorem logical_monotone : forall fuel fuel' rows rows' j k st c tr st' c' tr',
  logical fuel sp rows j k = Ok (st, c, tr) ->
  evolves rows rows' ->
  logical fuel' sp rows' j k = Ok (st', c', tr') ->
  (st = RUNNING -> st' = RUNNING) /\ (st = ERROR -> st' = ERROR).
Proof.
  intros fuel fuel' rows rows' j k st c tr st' c' tr' H Hev H'.
  destruct (logical_state_sound sp rows _ _ _ _ _ _ H) as [nr [nd [Hr [Hd [Hsum [HR [HE _]]]]]]].
  destruct (logical_state_sound sp rows' _ _ _ _ _ _ H') as [nr' [nd' [Hr' [Hd' [Hsum' [HR' [HE' _]]]]]]].
  assert (Hnr : nr <= nr') by (eapply countP_mono; [|exact Hr|exact Hr']; intros; eapply routed_mono; eauto).
  assert (Hnd : nd <= nd') by (eapply countP_mono; [|exact Hd|exact Hd']; intros; eapply dead_mono; eauto).
  split; intros Hst.
  - apply HR'. apply HR in Hst. destruct Hst as [Hnil | Hle]; [left; exact Hnil | right; lia].
  - apply HE'. apply HE in Hst. destruct Hst as [Hne [Hlt Hgt]]. repeat split; auto; lia.
Qed.

(* ERROR really means "can no longer be reached": in every continuation of the run fewer than the
   required number of inbound tasks have completed and routed to the join. *)
Theorem logical_error_unreachable : forall fuel rows rows' j k c tr nr',
  logical fuel sp rows j k = Ok (ERROR, c, tr) ->
  evolves rows rows' ->
  countP (routed rows' j) (inbound_names sp j) nr' ->
  nr' < needed k (length (inbound_names sp j)).
Proof.
  intros fuel rows rows' j k c tr nr' H Hev Hr'.
  destruct (logical_state_sound sp rows _ _ _ _ _ _ H) as [nr [nd [Hr [Hd [Hsum [_ [HE _]]]]]]].
  destruct HE as [HE _]. destruct (HE eq_refl) as [Hne [Hlt Hgt]].
  assert (Hdis : nr' + nd <= length (inbound_names sp j)).
  { eapply countP_disjoint; [|exact Hr'|exact Hd]. intros s _ Hrs Hds.
    eapply routed_not_dead; [exact Hrs|]. eapply dead_mono; eauto. }
  lia.
Qed.

End Evolve.

(* ------------------------------------------------------------------ the concrete engine steps are instances of evolve1 *)

Lemma lookup_app : forall a b n,
  lookup (a ++ b) n = match lookup b n with Some y => Some y | None => lookup a n end.
Proof.
  induction a as [|x a IH]; intros b n; simpl.
  - destruct (lookup b n); reflexivity.
  - rewrite IH. destruct (lookup b n); reflexivity.
Qed.

Lemma evolve1_refl_at : forall sp rows n,
  match lookup rows n with
  | Some r => if is_completed (rstate r) then lookup rows n = Some r else exists r', lookup rows n = Some r'
  | None => lookup rows n = None \/
            exists r', lookup rows n = Some r' /\ is_completed (rstate r') = false /\ cause sp rows n
  end.
Proof.
  intros sp rows n. destruct (lookup rows n) as [r|] eqn:Hl.
  - destruct (is_completed (rstate r)); eauto.
  - left. reflexivity.
Qed.

(* creating the (first) execution of a task that some completed inbound task routed to *)
Lemma evolve1_create : forall sp rows r,
  lookup rows (rname r) = None -> is_completed (rstate r) = false -> cause sp rows (rname r) ->
  evolve1 sp rows (rows ++ [r]).
Proof.
  intros sp rows r Hnone Hc Hcause n. rewrite lookup_app. simpl.
  destruct (Nat.eqb_spec (rname r) n) as [He|He].
  - subst n. rewrite Hnone. right. exists r. auto.
  - apply evolve1_refl_at.
Qed.

(* any change of a not yet completed execution (progress, completion with any next_tasks) *)
Lemma evolve1_update : forall sp rows1 r r' rows2,
  rname r' = rname r -> is_completed (rstate r) = false ->
  evolve1 sp (rows1 ++ r :: rows2) (rows1 ++ r' :: rows2).
Proof.
  intros sp rows1 r r' rows2 Hname Hc n.
  replace (rows1 ++ r :: rows2) with ((rows1 ++ [r]) ++ rows2) by (rewrite <- app_assoc; reflexivity).
  replace (rows1 ++ r' :: rows2) with ((rows1 ++ [r']) ++ rows2) by (rewrite <- app_assoc; reflexivity).
  rewrite !lookup_app. destruct (lookup rows2 n) as [y|] eqn:Hy.
  - destruct (is_completed (rstate y)); eauto.
  - simpl. rewrite Hname. destruct (Nat.eqb_spec (rname r) n) as [He|He].
    + rewrite Hc. eauto.
    + destruct (lookup rows1 n) as [z|] eqn:Hz.
      * destruct (is_completed (rstate z)); eauto.
      * left. reflexivity.
Qed.

(* ------------------------------------------------------------------ the unbounded recursion on a cycle *)

(* t0 -> j;  t2 -> t3 (on-success), t2 -> t5 (on-error);  t3 -> j, t3 -> t1 (on-error);  t1 -> t3;  j = t4 joins all.
   t0 succeeded and routed to j; t2 FAILED and routed to t5: t3 (and t1) can never start. *)
Definition cyc_sp : list task :=
  [mkTask 0 None [4]; mkTask 1 None [3]; mkTask 2 None [3; 5]; mkTask 5 None [];
   mkTask 3 None [4; 1]; mkTask 4 (Some JAll) []].
Definition cyc_rows : list row :=
  [mkRow 0 0 SUCCESS (Some [4]); mkRow 1 2 ERROR (Some [5]); mkRow 2 5 SUCCESS (Some []); mkRow 3 4 WAITING None].

Lemma cyc_diverges : forall fuel d,
  possible_route fuel cyc_sp cyc_rows 3 d = OutOfFuel /\ possible_route fuel cyc_sp cyc_rows 1 d = OutOfFuel.
Proof.
  induction fuel as [|f IH]; intros d; [split; reflexivity|].
  split.
  - rewrite possible_route_S. change (inbound_names cyc_sp 3) with [1; 2].
    cbn [pr_loop]. change (lookup cyc_rows 1) with (@None row). cbv iota.
    rewrite (proj2 (IH (S d))). reflexivity.
  - rewrite possible_route_S. change (inbound_names cyc_sp 1) with [3].
    cbn [pr_loop]. change (lookup cyc_rows 3) with (@None row). cbv iota.
    rewrite (proj1 (IH (S d))). reflexivity.
Qed.

Lemma cyc_impossible : forall t, possible cyc_sp cyc_rows t -> t <> 3 /\ t <> 1.
Proof.
  intros t H. induction H as [t Hs | t s r Hin Hl Hc | t s r Hin Hl Hc Hn | t s Hin Hl Hp IH].
  - split; intros He; subst t; discriminate.
  - split; intros He; subst t.
    + change (inbound_names cyc_sp 3) with [1; 2] in Hin. destruct Hin as [He | [He | []]]; subst s.
      * discriminate.
      * inversion Hl; subst r. discriminate.
    + change (inbound_names cyc_sp 1) with [3] in Hin. destruct Hin as [He | []]; subst s. discriminate.
  - split; intros He; subst t.
    + change (inbound_names cyc_sp 3) with [1; 2] in Hin. destruct Hin as [He | [He | []]]; subst s.
      * discriminate.
      * inversion Hl; subst r. simpl in Hn. destruct Hn as [Hn | []]. discriminate.
    + change (inbound_names cyc_sp 1) with [3] in Hin. destruct Hin as [He | []]; subst s. discriminate.
  - split; intros He; subst t.
    + change (inbound_names cyc_sp 3) with [1; 2] in Hin. destruct Hin as [He | [He | []]]; subst s.
      * destruct IH as [_ IH]. apply IH. reflexivity.
      * discriminate.
    + change (inbound_names cyc_sp 1) with [3] in Hin. destruct Hin as [He | []]; subst s.
      destruct IH as [IH _]. apply IH. reflexivity.
Qed.

(* The faithful model refutes "fails instead of waiting forever" on definitions with a cycle:
   the join needs both inbound tasks, t3 can never route to it in any continuation of the run,
   yet no amount of stack makes the evaluation return ERROR (Python: RecursionError, the join stays WAITING). *)
Theorem join_cycle_never_fails :
  (forall fuel, logical fuel cyc_sp cyc_rows 4 JAll = OutOfFuel) /\
  dead cyc_sp cyc_rows 4 3 /\
  (forall rows' nr, evolves cyc_sp cyc_rows rows' ->
     countP (routed rows' 4) (inbound_names cyc_sp 4) nr -> nr < needed JAll (length (inbound_names cyc_sp 4))).
Proof.
  assert (Hdead : dead cyc_sp cyc_rows 4 3).
  { right. split; [reflexivity|]. intros Hp. apply cyc_impossible in Hp. destruct Hp as [Hp _]. apply Hp. reflexivity. }
  split; [|split].
  - intros fuel. rewrite logical_eq. change (inbound_names cyc_sp 4) with [0; 3]. cbv iota.
    cbn [induced_all]. unfold induced at 1. change (lookup cyc_rows 0) with (Some (mkRow 0 0 SUCCESS (Some [4]))).
    cbv iota. simpl is_completed. simpl negb. cbv iota. simpl memn. cbv iota.
    unfold induced. change (lookup cyc_rows 3) with (@None row). cbv iota.
    rewrite (proj1 (cyc_diverges fuel 1)). reflexivity.
  - exact Hdead.
  - intros rows' nr Hev Hcnt. change (inbound_names cyc_sp 4) with [0; 3] in *. simpl.
    assert (Hd' : dead cyc_sp rows' 4 3) by (eapply dead_mono; eauto).
    inversion Hcnt as [| s l n Hp Hrest | s l n Hp Hrest]; subst;
      inversion Hrest as [| s' l' n' Hp' Hrest' | s' l' n' Hp' Hrest']; subst;
      try (exfalso; eapply routed_not_dead; eassumption);
      inversion Hrest'; subst; lia.
Qed.
