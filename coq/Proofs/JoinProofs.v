(* Proofs about Model/Join.v: what _possible_route decides, what the logical state of a join means in terms
   of counted inbound rows, and why it is stable under further progress of the run. *)
From Coq Require Import List Arith Bool Lia Relations.
Require Import Mistral.Gen.States Mistral.Model.Join.
Import ListNotations.

(* ------------------------------------------------------------------ basics *)

Lemma memn_In : forall x l, memn x l = true <-> In x l.
Proof.
  intros x l. unfold memn. rewrite existsb_exists. split.
  - intros [y [Hin Heq]]. apply Nat.eqb_eq in Heq. subst. exact Hin.
  - intros Hin. exists x. split; [exact Hin | apply Nat.eqb_refl].
Qed.

Lemma memn_false : forall x l, memn x l = false <-> ~ In x l.
Proof.
  intros x l. rewrite <- memn_In. destruct (memn x l); split; intro H.
  - discriminate.
  - exfalso. apply H. reflexivity.
  - intro H'. discriminate.
  - reflexivity.
Qed.

(* ------------------------------------------------------------------ the declarative notions *)

Section Decl.
Variable sp : list task.

(* A task without an execution can still get one. *)
Inductive possible (rows : list row) : nat -> Prop :=
| P_start : forall t, inbound_names sp t = [] -> possible rows t
| P_active : forall t s r, In s (inbound_names sp t) -> lookup rows s = Some r ->
    is_completed (rstate r) = false -> possible rows t
| P_routed : forall t s r, In s (inbound_names sp t) -> lookup rows s = Some r ->
    is_completed (rstate r) = true -> In t (next_or_nil r) -> possible rows t
| P_chain : forall t s, In s (inbound_names sp t) -> lookup rows s = None ->
    possible rows s -> possible rows t.

(* what one inbound task s contributes to the route search of t *)
Definition witness (rows : list row) (t s : nat) : Prop :=
  (exists r, lookup rows s = Some r /\ is_completed (rstate r) = false) \/
  (exists r, lookup rows s = Some r /\ is_completed (rstate r) = true /\ In t (next_or_nil r)) \/
  (lookup rows s = None /\ possible rows s).

Lemma possible_inv : forall rows t,
  possible rows t <-> inbound_names sp t = [] \/ exists s, In s (inbound_names sp t) /\ witness rows t s.
Proof.
  intros rows t. split.
  - intros H. inversion H; subst.
    + left. assumption.
    + right. exists s. split; [assumption|]. left. eauto.
    + right. exists s. split; [assumption|]. right. left. eauto.
    + right. exists s. split; [assumption|]. right. right. auto.
  - intros [H | [s [Hin [[r [Hl Hc]] | [[r [Hl [Hc Hn]]] | [Hl Hp]]]]]].
    + apply P_start; assumption.
    + eapply P_active; eauto.
    + eapply P_routed; eauto.
    + eapply P_chain; eauto.
Qed.

(* inbound task s has completed and routed to the join j *)
Definition routed (rows : list row) (j s : nat) : Prop :=
  exists r, lookup rows s = Some r /\ is_completed (rstate r) = true /\ In j (next_or_nil r).

(* inbound task s can never route to the join j any more *)
Definition dead (rows : list row) (j s : nat) : Prop :=
  (exists r, lookup rows s = Some r /\ is_completed (rstate r) = true /\ ~ In j (next_or_nil r)) \/
  (lookup rows s = None /\ ~ possible rows s).

Lemma routed_not_dead : forall rows j s, routed rows j s -> ~ dead rows j s.
Proof.
  intros rows j s [r [Hl [Hc Hn]]] [[r' [Hl' [Hc' Hn']]] | [Hl' _]].
  - rewrite Hl in Hl'. inversion Hl'; subst. contradiction.
  - rewrite Hl in Hl'. discriminate.
Qed.

End Decl.

(* counting the members of a list that satisfy a (not necessarily decidable) predicate *)
Inductive countP (P : nat -> Prop) : list nat -> nat -> Prop :=
| c_nil : countP P [] 0
| c_yes : forall s l n, P s -> countP P l n -> countP P (s :: l) (S n)
| c_no : forall s l n, ~ P s -> countP P l n -> countP P (s :: l) n.

Lemma countP_fun : forall P l n m, countP P l n -> countP P l m -> n = m.
Proof.
  intros P l. induction l as [|s l IH]; intros n m Hn Hm; inversion Hn; inversion Hm; subst;
    try reflexivity; try contradiction.
  - f_equal. eapply IH; eassumption.
  - eapply IH; eassumption.
Qed.

Lemma countP_le_length : forall P l n, countP P l n -> n <= length l.
Proof. intros P l n H. induction H; simpl; lia. Qed.

Lemma countP_mono : forall (P Q : nat -> Prop) l n m,
  (forall s, In s l -> P s -> Q s) -> countP P l n -> countP Q l m -> n <= m.
Proof.
  intros P Q l. induction l as [|s l IH]; intros n m Himp Hn Hm; inversion Hn; inversion Hm; subst; try lia.
  - assert (n0 <= n1) by (eapply IH; eauto; intros; apply Himp; simpl; auto). lia.
  - exfalso. match goal with H : ~ Q s |- _ => apply H end. apply Himp; simpl; auto.
  - assert (n <= n1) by (eapply IH; eauto; intros; apply Himp; simpl; auto). lia.
  - eapply IH; eauto. intros; apply Himp; simpl; auto.
Qed.

Lemma countP_disjoint : forall (P Q : nat -> Prop) l n m,
  (forall s, In s l -> P s -> ~ Q s) -> countP P l n -> countP Q l m -> n + m <= length l.
Proof.
  intros P Q l. induction l as [|s l IH]; intros n m Hd Hn Hm; inversion Hn; inversion Hm; subst; simpl; try lia.
  - exfalso. eapply Hd; simpl; eauto.
  - assert (n0 + m <= length l) by (eapply IH; eauto; intros; apply Hd; simpl; auto). lia.
  - assert (n + n1 <= length l) by (eapply IH; eauto; intros; apply Hd; simpl; auto). lia.
  - assert (n + m <= length l) by (eapply IH; eauto; intros; apply Hd; simpl; auto). lia.
Qed.

(* ------------------------------------------------------------------ _possible_route *)

Lemma filter_len_le : forall (p q : nat -> bool) L,
  (forall x, In x L -> q x = true -> p x = true) -> length (filter q L) <= length (filter p L).
Proof.
  intros p q L. induction L as [|x L IH]; intros H; simpl; [lia|].
  assert (IH' : length (filter q L) <= length (filter p L)) by (apply IH; intros; apply H; simpl; auto).
  destruct (q x) eqn:Hq.
  - rewrite (H x (or_introl eq_refl) Hq). simpl. lia.
  - destruct (p x); simpl; lia.
Qed.

Lemma filter_len_lt : forall (p q : nat -> bool) L x,
  (forall y, In y L -> q y = true -> p y = true) -> In x L -> p x = true -> q x = false ->
  length (filter q L) < length (filter p L).
Proof.
  intros p q L. induction L as [|y L IH]; intros x H Hin Hp Hq; [contradiction|]. simpl.
  assert (Hle : length (filter q L) <= length (filter p L)) by (apply filter_len_le; intros; apply H; simpl; auto).
  destruct Hin as [He | Hin].
  - subst y. rewrite Hp, Hq. simpl. lia.
  - assert (Hlt : length (filter q L) < length (filter p L)) by (eapply IH; eauto; intros; apply H; simpl; auto).
    destruct (q y) eqn:Hqy.
    + rewrite (H y (or_introl eq_refl) Hqy). simpl. lia.
    + destruct (p y); simpl; lia.
Qed.

Section Route.
Variable sp : list task.
Variable rows : list row.

(* u was examined and found without any way to start, given that the tasks in V do not start *)
Definition blocked (V : list nat) (u : nat) : Prop :=
  inbound_names sp u <> [] /\
  forall s, In s (inbound_names sp u) ->
    (exists r, lookup rows s = Some r /\ is_completed (rstate r) = true /\ ~ In u (next_or_nil r)) \/
    (lookup rows s = None /\ In s V).

Lemma blocked_mono : forall V V' u, incl V V' -> blocked V u -> blocked V' u.
Proof.
  intros V V' u Hi [Hne H]. split; [exact Hne|]. intros s Hs.
  destruct (H s Hs) as [Hr | [Hl Hin]]; [left; exact Hr | right; split; [exact Hl | apply Hi; exact Hin]].
Qed.

(* a set of tasks each blocked by completed tasks and by the set itself contains no startable task *)
Lemma blocked_closed : forall V, (forall u, In u V -> blocked V u) ->
  forall u, possible sp rows u -> ~ In u V.
Proof.
  intros V HV u Hp. induction Hp as [t Hs | t s r Hin Hl Hc | t s r Hin Hl Hc Hn | t s Hin Hl Hp IH]; intros HinV.
  - destruct (HV t HinV) as [Hne _]. contradiction.
  - destruct (HV t HinV) as [_ H]. destruct (H s Hin) as [[r' [Hl' [Hc' _]]] | [Hl' _]]; rewrite Hl in Hl'.
    + inversion Hl'; subst. rewrite Hc in Hc'. discriminate.
    + discriminate.
  - destruct (HV t HinV) as [_ H]. destruct (H s Hin) as [[r' [Hl' [_ Hn']]] | [Hl' _]]; rewrite Hl in Hl'.
    + inversion Hl'; subst. contradiction.
    + discriminate.
  - destruct (HV t HinV) as [_ H]. destruct (H s Hin) as [[r' [Hl' _]] | [_ HsV]].
    + rewrite Hl in Hl'. discriminate.
    + apply IH. exact HsV.
Qed.

(* what a (recursive) call guarantees *)
Definition call_spec (f : list nat -> nat -> nat -> res (bool * nat * list nat)) : Prop :=
  forall vis t d b d' vis', f vis t d = Ok (b, d', vis') ->
    incl vis vis' /\
    (b = true -> possible sp rows t) /\
    (b = false -> In t vis' /\ forall u, In u vis' -> ~ In u vis -> blocked vis' u).

Lemma pr_loop_spec : forall rec t ins, call_spec rec ->
  forall depth vis b d vis', pr_loop rec rows t ins depth vis = Ok (b, d, vis') ->
  incl vis vis' /\
  (b = true -> exists s, In s ins /\ witness sp rows t s) /\
  (b = false ->
     (forall u, In u vis' -> ~ In u vis -> blocked vis' u) /\
     (forall s, In s ins ->
        (exists r, lookup rows s = Some r /\ is_completed (rstate r) = true /\ ~ In t (next_or_nil r)) \/
        (lookup rows s = None /\ In s vis'))).
Proof.
  intros rec t ins Hrec. induction ins as [|s tl IH]; intros depth vis b d vis' Hrun.
  - simpl in Hrun. inversion Hrun; subst. split; [apply incl_refl|]. split; [discriminate|].
    intros _. split; [intros u Hu Hnu; contradiction | intros s []].
  - simpl in Hrun. destruct (lookup rows s) as [r|] eqn:Hl.
    + destruct (is_completed (rstate r)) eqn:Hc; simpl in Hrun.
      * destruct (memn t (next_or_nil r)) eqn:Hm.
        -- inversion Hrun; subst. split; [apply incl_refl|]. split; [|discriminate].
           intros _. exists s. split; [simpl; auto|]. right. left. exists r. repeat split; auto.
           apply memn_In. exact Hm.
        -- destruct (IH _ _ _ _ _ Hrun) as [Hi [Ht Hf]]. split; [exact Hi|]. split.
           ++ intros Hb. destruct (Ht Hb) as [s0 [Hin Hw]]. exists s0. split; [simpl; auto | exact Hw].
           ++ intros Hb. destruct (Hf Hb) as [Hnew Hall]. split; [exact Hnew|].
              intros s0 [He | Hin]; [|apply Hall; exact Hin]. subst s0. left. exists r.
              repeat split; auto. apply memn_false. exact Hm.
      * inversion Hrun; subst. split; [apply incl_refl|]. split; [|discriminate].
        intros _. exists s. split; [simpl; auto|]. left. exists r. auto.
    + destruct (rec vis s (S depth)) as [[[[|] d1] v1] | | ] eqn:Hr; try discriminate.
      * inversion Hrun; subst. destruct (Hrec _ _ _ _ _ _ Hr) as [Hi [Ht _]].
        split; [exact Hi|]. split; [|discriminate]. intros _. exists s. split; [simpl; auto|].
        right. right. split; [exact Hl | apply Ht; reflexivity].
      * destruct (Hrec _ _ _ _ _ _ Hr) as [Hi1 [_ Hf1]]. destruct (Hf1 eq_refl) as [Hs1 Hnew1].
        destruct (IH _ _ _ _ _ Hrun) as [Hi [Ht Hf]].
        split; [eapply incl_tran; eauto|]. split.
        -- intros Hb. destruct (Ht Hb) as [s0 [Hin Hw]]. exists s0. split; [simpl; auto | exact Hw].
        -- intros Hb. destruct (Hf Hb) as [Hnew Hall]. split.
           ++ intros u Hu Hnu. destruct (in_dec Nat.eq_dec u v1) as [Hv1 | Hv1].
              ** eapply blocked_mono; [exact Hi|]. apply Hnew1; assumption.
              ** apply Hnew; assumption.
           ++ intros s0 [He | Hin]; [|apply Hall; exact Hin]. subst s0. right. split; [exact Hl|].
              apply Hi. exact Hs1.
Qed.

Lemma possible_route_S : forall f vis t depth,
  possible_route (S f) sp rows vis t depth =
  if memn t vis then Ok (false, depth, vis)
  else match inbound_names sp t with
       | [] => Ok (true, depth, t :: vis)
       | _ :: _ => pr_loop (possible_route f sp rows) rows t (inbound_names sp t) depth (t :: vis)
       end.
Proof. intros. simpl. destruct (memn t vis); [reflexivity|]. destruct (inbound_names sp t); reflexivity. Qed.

Lemma possible_route_call_spec : forall fuel, call_spec (possible_route fuel sp rows).
Proof.
  induction fuel as [|f IH]; intros vis t d b d' vis' Hrun; [discriminate|].
  rewrite possible_route_S in Hrun. destruct (memn t vis) eqn:Hv.
  - inversion Hrun; subst. split; [apply incl_refl|]. split; [discriminate|].
    intros _. split; [apply memn_In; exact Hv | intros u Hu Hnu; contradiction].
  - apply memn_false in Hv. destruct (inbound_names sp t) as [|s0 tl] eqn:Hin.
    + inversion Hrun; subst. split; [apply incl_tl, incl_refl|]. split; [|discriminate].
      intros _. apply P_start. exact Hin.
    + rewrite <- Hin in *. destruct (pr_loop_spec _ t _ IH _ _ _ _ _ Hrun) as [Hi [Ht Hf]].
      assert (Hvv : incl vis vis') by (intros x Hx; apply Hi; simpl; auto).
      split; [exact Hvv|]. split.
      * intros Hb. apply possible_inv. right. apply Ht. exact Hb.
      * intros Hb. destruct (Hf Hb) as [Hnew Hall]. split; [apply Hi; simpl; auto|].
        intros u Hu Hnu. destruct (Nat.eq_dec u t) as [He | Hne].
        -- subst u. split; [rewrite Hin; discriminate | exact Hall].
        -- apply Hnew; [exact Hu|]. intros [He | Hx]; [apply Hne; symmetry; exact He | contradiction].
Qed.

(* Whenever the search returns, it returns exactly "a route is still possible" - on every definition,
   with or without cycles, for every row set. *)
Theorem possible_route_exact : forall fuel t depth b d,
  possible_route_top fuel sp rows t depth = Ok (b, d) -> (b = true <-> possible sp rows t).
Proof.
  intros fuel t depth b d H. unfold possible_route_top in H.
  destruct (possible_route fuel sp rows [] t depth) as [[[b' d'] v] | | ] eqn:Hr; try discriminate.
  inversion H; subst. destruct (possible_route_call_spec _ _ _ _ _ _ _ Hr) as [_ [Ht Hf]].
  split; [exact Ht|]. intros Hp. destruct b; [reflexivity|]. exfalso.
  destruct (Hf eq_refl) as [Hin Hnew].
  eapply blocked_closed; [|exact Hp|exact Hin]. intros u Hu. apply Hnew; [exact Hu | intros []].
Qed.

Lemma pr_loop_mono : forall rec rec' t ins,
  (forall v s dd x, rec v s dd = Ok x -> rec' v s dd = Ok x) ->
  forall depth vis x, pr_loop rec rows t ins depth vis = Ok x -> pr_loop rec' rows t ins depth vis = Ok x.
Proof.
  intros rec rec' t ins Hle. induction ins as [|s tl IH]; intros depth vis x Hrun; simpl in *; [exact Hrun|].
  destruct (lookup rows s) as [r|].
  - destruct (negb (is_completed (rstate r))); [exact Hrun|].
    destruct (memn t (next_or_nil r)); [exact Hrun | apply IH; exact Hrun].
  - destruct (rec vis s (S depth)) as [[[[|] d'] v'] | | ] eqn:Hr; try discriminate.
    + rewrite (Hle _ _ _ _ Hr). exact Hrun.
    + rewrite (Hle _ _ _ _ Hr). apply IH. exact Hrun.
Qed.

(* more stack never changes an answer *)
Theorem possible_route_fuel_mono : forall fuel m vis t depth x,
  possible_route fuel sp rows vis t depth = Ok x -> possible_route (fuel + m) sp rows vis t depth = Ok x.
Proof.
  induction fuel as [|f IH]; intros m vis t depth x Hrun; [discriminate|].
  change (S f + m) with (S (f + m)). rewrite possible_route_S in *.
  destruct (memn t vis); [exact Hrun|].
  destruct (inbound_names sp t) as [|s0 tl]; [exact Hrun|].
  eapply pr_loop_mono; [|exact Hrun]. intros v s dd y Hy. apply IH. exact Hy.
Qed.

(* -- termination: the number of tasks not yet examined bounds the recursion depth -- *)

Definition unvisited (vis : list nat) : nat :=
  length (filter (fun u => negb (memn u vis)) (map tname sp)).

Lemma inbound_in_spec : forall t s, In s (inbound_names sp t) -> In s (map tname sp).
Proof.
  intros t s H. unfold inbound_names in H. apply in_map_iff in H. destruct H as [x [He Hx]].
  apply filter_In in Hx. destruct Hx as [Hx _]. apply in_map_iff. exists x. auto.
Qed.

Lemma unvisited_incl : forall v v', incl v v' -> unvisited v' <= unvisited v.
Proof.
  intros v v' Hi. unfold unvisited. apply filter_len_le. intros x _ Hx.
  apply negb_true_iff in Hx. apply negb_true_iff. apply memn_false in Hx. apply memn_false.
  intros H. apply Hx. apply Hi. exact H.
Qed.

Lemma unvisited_cons : forall v t, In t (map tname sp) -> ~ In t v -> unvisited (t :: v) < unvisited v.
Proof.
  intros v t Hin Hnv. unfold unvisited. apply filter_len_lt with (x := t).
  - intros y _ Hy. apply negb_true_iff in Hy. apply negb_true_iff. apply memn_false in Hy. apply memn_false.
    intros H. apply Hy. simpl. auto.
  - exact Hin.
  - apply negb_true_iff. apply memn_false. exact Hnv.
  - apply negb_false_iff. apply memn_In. simpl. auto.
Qed.

Lemma unvisited_le : forall v, unvisited v <= length sp.
Proof.
  intros v. unfold unvisited. rewrite <- (map_length tname sp).
  induction (map tname sp) as [|x L IH]; simpl; [lia|].
  destruct (negb (memn x v)); simpl; lia.
Qed.

Lemma pr_loop_returns : forall rec t ins vis0,
  call_spec rec ->
  (forall v s dd, In s ins -> incl vis0 v -> exists x, rec v s dd = Ok x) ->
  forall depth vis, incl vis0 vis -> exists x, pr_loop rec rows t ins depth vis = Ok x.
Proof.
  intros rec t ins vis0 Hspec. induction ins as [|s tl IH]; intros Hrec depth vis Hi; simpl; [eauto|].
  assert (Htl : forall v s0 dd, In s0 tl -> incl vis0 v -> exists x, rec v s0 dd = Ok x)
    by (intros; apply Hrec; simpl; auto).
  destruct (lookup rows s) as [r|].
  - destruct (negb (is_completed (rstate r))); [eauto|].
    destruct (memn t (next_or_nil r)); [eauto | apply IH; assumption].
  - destruct (Hrec vis s (S depth) (or_introl eq_refl) Hi) as [[[b d1] v1] Hr]. rewrite Hr.
    destruct b; [eauto|]. apply IH; [exact Htl|].
    destruct (Hspec _ _ _ _ _ _ Hr) as [Hi1 _]. eapply incl_tran; eauto.
Qed.

Lemma possible_route_returns_in : forall fuel vis t depth,
  In t (map tname sp) \/ In t vis -> unvisited vis < fuel ->
  exists x, possible_route fuel sp rows vis t depth = Ok x.
Proof.
  induction fuel as [|f IH]; intros vis t depth Ht Hlt; [lia|].
  rewrite possible_route_S. destruct (memn t vis) eqn:Hv; [eauto|].
  apply memn_false in Hv. destruct Ht as [Ht | Ht]; [|contradiction].
  destruct (inbound_names sp t) as [|s0 tl] eqn:Hin; [eauto|]. rewrite <- Hin.
  pose proof (unvisited_cons vis t Ht Hv) as Hdec.
  apply pr_loop_returns with (vis0 := t :: vis); [apply possible_route_call_spec | | apply incl_refl].
  intros v s dd Hs Hi. apply IH.
  - left. eapply inbound_in_spec; eauto.
  - pose proof (unvisited_incl _ _ Hi). lia.
Qed.

(* The search always returns when the interpreter allows two more nested calls than the workflow
   has tasks - on EVERY definition, cycles included. *)
Theorem possible_route_total : forall fuel t depth,
  length sp + 1 < fuel ->
  exists b d, possible_route_top fuel sp rows t depth = Ok (b, d).
Proof.
  intros fuel t depth Hlt. unfold possible_route_top.
  assert (H : exists x, possible_route fuel sp rows [] t depth = Ok x).
  { destruct fuel as [|f]; [lia|]. rewrite possible_route_S. simpl memn. cbv iota.
    destruct (inbound_names sp t) as [|s0 tl] eqn:Hin; [eauto|]. rewrite <- Hin.
    apply pr_loop_returns with (vis0 := [t]); [apply possible_route_call_spec | | apply incl_refl].
    intros v s dd Hs Hi. apply possible_route_returns_in.
    - left. eapply inbound_in_spec; eauto.
    - pose proof (unvisited_le v). lia. }
  destruct H as [[[b d] v] H]. rewrite H. eauto.
Qed.

End Route.

(* ------------------------------------------------------------------ logical state of a join *)

Section Logical.
Variable sp : list task.
Variable rows : list row.

Lemma induced_class : forall fuel j s x d,
  induced fuel sp rows j s = Ok (x, d) ->
  (x = IRun <-> routed rows j s) /\ (x = IErr <-> dead sp rows j s).
Proof.
  intros fuel j s x d H. unfold induced in H. unfold routed, dead.
  destruct (lookup rows s) as [r|] eqn:Hl.
  - destruct (is_completed (rstate r)) eqn:Hc; simpl in H.
    + destruct (memn j (next_or_nil r)) eqn:Hm; inversion H; subst.
      * apply memn_In in Hm. split; split.
        -- intros _. exists r. auto.
        -- reflexivity.
        -- discriminate.
        -- intros [[r' [Hl' [_ Hn]]] | [Hl' _]]; [|discriminate]. inversion Hl'; subst. contradiction.
      * apply memn_false in Hm. split; split.
        -- discriminate.
        -- intros [r' [Hl' [_ Hn]]]. inversion Hl'; subst. contradiction.
        -- intros _. left. exists r. auto.
        -- reflexivity.
    + inversion H; subst. split; split.
      * discriminate.
      * intros [r' [Hl' [Hc' _]]]. inversion Hl'; subst. rewrite Hc in Hc'. discriminate.
      * discriminate.
      * intros [[r' [Hl' [Hc' _]]] | [Hl' _]]; [|discriminate]. inversion Hl'; subst. rewrite Hc in Hc'. discriminate.
  - destruct (possible_route_top fuel sp rows s 1) as [[[|] d'] | | ] eqn:Hp; inversion H; subst.
    + pose proof (possible_route_exact sp rows _ _ _ _ _ Hp) as Hex.
      split; split.
      * discriminate.
      * intros [r [Hl' _]]. discriminate.
      * discriminate.
      * intros [[r [Hl' _]] | [_ Hn]]; [discriminate|]. exfalso. apply Hn. apply Hex. reflexivity.
    + pose proof (possible_route_exact sp rows _ _ _ _ _ Hp) as Hex.
      split; split.
      * discriminate.
      * intros [r [Hl' _]]. discriminate.
      * intros _. right. split; [reflexivity|]. intros Hpos. apply Hex in Hpos. discriminate.
      * reflexivity.
Qed.

Lemma induced_all_counts : forall fuel j ins l,
  induced_all fuel sp rows j ins = Ok l ->
  length l = length ins /\
  countP (routed rows j) ins (count_ind IRun l) /\
  countP (dead sp rows j) ins (count_ind IErr l).
Proof.
  intros fuel j ins. induction ins as [|s tl IH]; intros l H; simpl in H.
  - inversion H; subst. simpl. repeat split; constructor.
  - destruct (induced fuel sp rows j s) as [[x d] | | ] eqn:Hi; try discriminate.
    destruct (induced_all fuel sp rows j tl) as [l' | | ] eqn:Ha; try discriminate.
    inversion H; subst. destruct (IH _ eq_refl) as [Hlen [Hr He]].
    destruct (induced_class _ _ _ _ _ Hi) as [Hrun Herr].
    unfold count_ind in *. simpl.
    split; [lia|]. split.
    + destruct x; simpl.
      * apply c_no; [|exact Hr]. intros Hx. apply Hrun in Hx. discriminate.
      * apply c_no; [|exact Hr]. intros Hx. apply Hrun in Hx. discriminate.
      * apply c_yes; [|exact Hr]. apply Hrun. reflexivity.
    + destruct x; simpl.
      * apply c_no; [|exact He]. intros Hx. apply Herr in Hx. discriminate.
      * apply c_yes; [|exact He]. apply Herr. reflexivity.
      * apply c_no; [|exact He]. intros Hx. apply Herr in Hx. discriminate.
Qed.

(* required number of routed inbound tasks *)
Definition needed (k : jkind) (total : nat) : nat := match k with JAll => total | JNum n => n end.

Lemma decide_spec : forall k l nr nd,
  nr = count_ind IRun l -> nd = count_ind IErr l -> nr + nd <= length l ->
  let st := fst (fst (decide k rows l)) in
  (st = RUNNING <-> needed k (length l) <= nr) /\
  (st = ERROR <-> nr < needed k (length l) /\ length l < nd + needed k (length l)) /\
  (st = WAITING <-> nr < needed k (length l) /\ nd + needed k (length l) <= length l).
Proof.
  intros k l nr nd Hnr Hnd Hle. unfold decide. rewrite <- Hnr, <- Hnd. destruct k as [|n]; simpl.
  - destruct (Nat.eqb_spec (length l) nr) as [He|He]; simpl.
    + repeat split; intros; try discriminate; try lia.
    + destruct (Nat.ltb_spec 0 nd) as [Hd|Hd]; simpl; repeat split; intros; try discriminate; try lia.
  - destruct (Nat.leb_spec n nr) as [He|He]; simpl.
    + repeat split; intros; try discriminate; try lia.
    + destruct (Nat.ltb_spec (length l) (nd + n)) as [Hd|Hd]; simpl; repeat split; intros; try discriminate; try lia.
Qed.

Lemma logical_eq : forall fuel j k,
  logical fuel sp rows j k =
  match inbound_names sp j with
  | [] => Ok (RUNNING, 0, [])
  | _ :: _ => match induced_all fuel sp rows j (inbound_names sp j) with
              | Ok l => Ok (decide k rows l)
              | OutOfFuel => OutOfFuel
              | Crash => Crash
              end
  end.
Proof. intros. unfold logical. destruct (inbound_names sp j); reflexivity. Qed.

(* The logical state of a join, in terms of counted inbound tasks:
   RUNNING iff the required number have completed and routed to it (or it has no inbound task at all),
   ERROR iff fewer have and the tasks that can never route to it any more leave fewer than required,
   WAITING otherwise. *)
Theorem logical_state_sound : forall fuel j k st c tr,
  logical fuel sp rows j k = Ok (st, c, tr) ->
  let ins := inbound_names sp j in
  let need := needed k (length ins) in
  exists nr nd,
    countP (routed rows j) ins nr /\ countP (dead sp rows j) ins nd /\ nr + nd <= length ins /\
    (st = RUNNING <-> ins = [] \/ need <= nr) /\
    (st = ERROR <-> ins <> [] /\ nr < need /\ length ins < nd + need) /\
    (st = WAITING <-> ins <> [] /\ nr < need /\ nd + need <= length ins).
Proof.
  intros fuel j k st c tr H. cbv zeta. rewrite logical_eq in H.
  destruct (inbound_names sp j) as [|s0 tl] eqn:Hins.
  - inversion H; subst. exists 0, 0. simpl. repeat split; try constructor; auto; try discriminate;
      try (intros [Hne _]; exfalso; apply Hne; reflexivity).
  - rewrite <- Hins in *.
    assert (Hne : inbound_names sp j <> []) by (rewrite Hins; discriminate).
    destruct (induced_all fuel sp rows j (inbound_names sp j)) as [l | | ] eqn:Ha; try discriminate.
    assert (Hd : decide k rows l = (st, c, tr)) by (inversion H; reflexivity).
    destruct (induced_all_counts _ _ _ _ Ha) as [Hlen [Hr He]].
    assert (Hsum : count_ind IRun l + count_ind IErr l <= length (inbound_names sp j)).
    { eapply countP_disjoint; [|exact Hr|exact He]. intros s _. apply routed_not_dead. }
    exists (count_ind IRun l), (count_ind IErr l).
    pose proof (decide_spec k l _ _ eq_refl eq_refl) as Hspec.
    rewrite Hlen in Hspec. specialize (Hspec Hsum). rewrite Hd in Hspec. simpl in Hspec.
    destruct Hspec as [H1 [H2 H3]].
    split; [exact Hr|]. split; [exact He|]. split; [exact Hsum|].
    split; [|split].
    + split.
      * intros Hst. right. apply H1. exact Hst.
      * intros [Hnil | Hn]; [contradiction | apply H1; exact Hn].
    + split.
      * intros Hst. split; [exact Hne | apply H2; exact Hst].
      * intros [_ Hx]. apply H2. exact Hx.
    + split.
      * intros Hst. split; [exact Hne | apply H3; exact Hst].
      * intros [_ Hx]. apply H3. exact Hx.
Qed.

Lemma logical_state_three : forall fuel j k st c tr,
  logical fuel sp rows j k = Ok (st, c, tr) -> st = RUNNING \/ st = ERROR \/ st = WAITING.
Proof.
  intros fuel j k st c tr H. unfold logical in H.
  destruct (inbound_names sp j); [inversion H; auto|].
  destruct (induced_all fuel sp rows j (n :: l)) as [l' | | ]; try discriminate.
  inversion H as [Hd]. unfold decide in Hd. destruct k.
  - destruct (length l' =? count_ind IRun l'); [inversion Hd; auto|].
    destruct (0 <? count_ind IErr l'); inversion Hd; auto.
  - destruct (k <=? count_ind IRun l'); [inversion Hd; auto|].
    destruct (length l' <? count_ind IErr l' + k); inversion Hd; auto.
Qed.

End Logical.

(* ------------------------------------------------------------------ progress of a run *)

Section Evolve.
Variable sp : list task.

(* why a task execution may be created: it is a start task, or a completed inbound task routed to it *)
Definition cause (rows : list row) (n : nat) : Prop :=
  inbound_names sp n = [] \/
  exists p r, In p (inbound_names sp n) /\ lookup rows p = Some r /\
              is_completed (rstate r) = true /\ In n (next_or_nil r).

(* One or more engine steps, seen pointwise per task name: completed executions are final (no rerun),
   running ones may change arbitrarily, a new execution (not yet completed) appears only with a cause;
   at most one execution per name (no second instance of a task). *)
Definition evolve1 (rows rows' : list row) : Prop :=
  forall n,
    match lookup rows n with
    | Some r => if is_completed (rstate r) then lookup rows' n = Some r else exists r', lookup rows' n = Some r'
    | None => lookup rows' n = None \/
              exists r', lookup rows' n = Some r' /\ is_completed (rstate r') = false /\ cause rows n
    end.

Definition evolves : list row -> list row -> Prop := clos_refl_trans_1n _ evolve1.

Lemma cause_possible : forall rows n, cause rows n -> possible sp rows n.
Proof.
  intros rows n [H | [p [r [Hin [Hl [Hc Hn]]]]]].
  - apply P_start; exact H.
  - eapply P_routed; eauto.
Qed.

Lemma possible_anti : forall rows rows', evolve1 rows rows' ->
  forall t, possible sp rows' t -> possible sp rows t.
Proof.
  intros rows rows' Hev t Hp. induction Hp as [t Hs | t s r Hin Hl Hc | t s r Hin Hl Hc Hn | t s Hin Hl Hp IH].
  - apply P_start; exact Hs.
  - specialize (Hev s). destruct (lookup rows s) as [r0|] eqn:Hl0.
    + destruct (is_completed (rstate r0)) eqn:Hc0.
      * rewrite Hl in Hev. inversion Hev; subst. rewrite Hc in Hc0. discriminate.
      * eapply P_active; eauto.
    + destruct Hev as [Hnone | [r' [Hl' [_ Hcause]]]]; [rewrite Hl in Hnone; discriminate|].
      eapply P_chain; eauto. apply cause_possible; exact Hcause.
  - specialize (Hev s). destruct (lookup rows s) as [r0|] eqn:Hl0.
    + destruct (is_completed (rstate r0)) eqn:Hc0.
      * rewrite Hl in Hev. inversion Hev; subst. eapply P_routed; eauto.
      * eapply P_active; eauto.
    + destruct Hev as [Hnone | [r' [Hl' [Hc' _]]]]; [rewrite Hl in Hnone; discriminate|].
      rewrite Hl in Hl'. inversion Hl'; subst. rewrite Hc in Hc'. discriminate.
  - specialize (Hev s). destruct (lookup rows s) as [r0|] eqn:Hl0.
    + destruct (is_completed (rstate r0)); [rewrite Hl in Hev; discriminate|].
      destruct Hev as [r' Hl']. rewrite Hl in Hl'. discriminate.
    + eapply P_chain; eauto.
Qed.

Lemma routed_mono1 : forall rows rows' j s, evolve1 rows rows' -> routed rows j s -> routed rows' j s.
Proof.
  intros rows rows' j s Hev [r [Hl [Hc Hn]]]. specialize (Hev s). rewrite Hl, Hc in Hev.
  exists r. auto.
Qed.

Lemma dead_mono1 : forall rows rows' j s, evolve1 rows rows' -> dead sp rows j s -> dead sp rows' j s.
Proof.
  intros rows rows' j s Hev [[r [Hl [Hc Hn]]] | [Hl Hnp]].
  - pose proof (Hev s) as H. rewrite Hl, Hc in H. left. exists r. auto.
  - pose proof (Hev s) as H. rewrite Hl in H. destruct H as [Hnone | [r' [_ [_ Hcause]]]].
    + right. split; [exact Hnone|]. intros Hp. apply Hnp. eapply possible_anti; eauto.
    + exfalso. apply Hnp. apply cause_possible. exact Hcause.
Qed.

Lemma routed_mono : forall rows rows' j s, evolves rows rows' -> routed rows j s -> routed rows' j s.
Proof. intros rows rows' j s H. induction H; intros Hr; [exact Hr|]. apply IHclos_refl_trans_1n. eapply routed_mono1; eauto. Qed.

Lemma dead_mono : forall rows rows' j s, evolves rows rows' -> dead sp rows j s -> dead sp rows' j s.
Proof. intros rows rows' j s H. induction H; intros Hr; [exact Hr|]. apply IHclos_refl_trans_1n. eapply dead_mono1; eauto. Qed.

(* Once RUNNING (resp. ERROR) for a row set, the logical state stays so however the run goes on. *)
Theorem logical_monotone : forall fuel fuel' rows rows' j k st c tr st' c' tr',
  logical fuel sp rows j k = Ok (st, c, tr) ->
  evolves rows rows' ->
  logical fuel' sp rows' j k = Ok (st', c', tr') ->
  (st = RUNNING -> st' = RUNNING) /\ (st = ERROR -> st' = ERROR).
Proof.
  intros fuel fuel' rows rows' j k st c tr st' c' tr' H Hev H'.
  destruct (logical_state_sound sp rows _ _ _ _ _ _ H) as [nr [nd [Hr [Hd [Hsum [HR [HE _]]]]]]].
  destruct (logical_state_sound sp rows' _ _ _ _ _ _ H') as [nr' [nd' [Hr' [Hd' [Hsum' [HR' [HE' _]]]]]]].
  assert (Hnr : nr <= nr') by (eapply countP_mono; [|exact Hr|exact Hr']; intros; eapply routed_mono; eauto).
  assert (Hnd : nd <= nd') by (eapply countP_mono; [|exact Hd|exact Hd']; intros; eapply dead_mono; eauto).
  split; intros Hst.
  - apply HR'. apply HR in Hst. destruct Hst as [Hnil | Hle]; [left; exact Hnil | right; lia].
  - apply HE'. apply HE in Hst. destruct Hst as [Hne [Hlt Hgt]]. repeat split; auto; lia.
Qed.

(* ERROR really means "can no longer be reached": in every continuation of the run fewer than the
   required number of inbound tasks have completed and routed to the join. *)
Theorem logical_error_unreachable : forall fuel rows rows' j k c tr nr',
  logical fuel sp rows j k = Ok (ERROR, c, tr) ->
  evolves rows rows' ->
  countP (routed rows' j) (inbound_names sp j) nr' ->
  nr' < needed k (length (inbound_names sp j)).
Proof.
  intros fuel rows rows' j k c tr nr' H Hev Hr'.
  destruct (logical_state_sound sp rows _ _ _ _ _ _ H) as [nr [nd [Hr [Hd [Hsum [_ [HE _]]]]]]].
  destruct HE as [HE _]. destruct (HE eq_refl) as [Hne [Hlt Hgt]].
  assert (Hdis : nr' + nd <= length (inbound_names sp j)).
  { eapply countP_disjoint; [|exact Hr'|exact Hd]. intros s _ Hrs Hds.
    eapply routed_not_dead; [exact Hrs|]. eapply dead_mono; eauto. }
  lia.
Qed.

End Evolve.

(* ------------------------------------------------------------------ the concrete engine steps are instances of evolve1 *)

Lemma lookup_app : forall a b n,
  lookup (a ++ b) n = match lookup b n with Some y => Some y | None => lookup a n end.
Proof.
  induction a as [|x a IH]; intros b n; simpl.
  - destruct (lookup b n); reflexivity.
  - rewrite IH. destruct (lookup b n); reflexivity.
Qed.

Lemma evolve1_refl_at : forall sp rows n,
  match lookup rows n with
  | Some r => if is_completed (rstate r) then lookup rows n = Some r else exists r', lookup rows n = Some r'
  | None => lookup rows n = None \/
            exists r', lookup rows n = Some r' /\ is_completed (rstate r') = false /\ cause sp rows n
  end.
Proof.
  intros sp rows n. destruct (lookup rows n) as [r|] eqn:Hl.
  - destruct (is_completed (rstate r)); eauto.
  - left. reflexivity.
Qed.

(* creating the (first) execution of a task that some completed inbound task routed to *)
Lemma evolve1_create : forall sp rows r,
  lookup rows (rname r) = None -> is_completed (rstate r) = false -> cause sp rows (rname r) ->
  evolve1 sp rows (rows ++ [r]).
Proof.
  intros sp rows r Hnone Hc Hcause n. rewrite lookup_app. simpl.
  destruct (Nat.eqb_spec (rname r) n) as [He|He].
  - subst n. rewrite Hnone. right. exists r. auto.
  - apply evolve1_refl_at.
Qed.

(* any change of a not yet completed execution (progress, completion with any next_tasks) *)
Lemma evolve1_update : forall sp rows1 r r' rows2,
  rname r' = rname r -> is_completed (rstate r) = false ->
  evolve1 sp (rows1 ++ r :: rows2) (rows1 ++ r' :: rows2).
Proof.
  intros sp rows1 r r' rows2 Hname Hc n.
  replace (rows1 ++ r :: rows2) with ((rows1 ++ [r]) ++ rows2) by (rewrite <- app_assoc; reflexivity).
  replace (rows1 ++ r' :: rows2) with ((rows1 ++ [r']) ++ rows2) by (rewrite <- app_assoc; reflexivity).
  rewrite !lookup_app. destruct (lookup rows2 n) as [y|] eqn:Hy.
  - destruct (is_completed (rstate y)); eauto.
  - simpl. rewrite Hname. destruct (Nat.eqb_spec (rname r) n) as [He|He].
    + rewrite Hc. eauto.
    + destruct (lookup rows1 n) as [z|] eqn:Hz.
      * destruct (is_completed (rstate z)); eauto.
      * left. reflexivity.
Qed.

(* ------------------------------------------------------------------ the evaluation always returns *)

Lemma induced_total : forall sp rows fuel j s,
  length sp + 1 < fuel -> exists x, induced fuel sp rows j s = Ok x.
Proof.
  intros sp rows fuel j s Hlt. unfold induced. destruct (lookup rows s) as [r|].
  - destruct (negb (is_completed (rstate r))); [eauto|]. destruct (memn j (next_or_nil r)); eauto.
  - destruct (possible_route_total sp rows fuel s 1 Hlt) as [b [d H]]. rewrite H. destruct b; eauto.
Qed.

Lemma induced_all_total : forall sp rows fuel j ins,
  length sp + 1 < fuel -> exists l, induced_all fuel sp rows j ins = Ok l.
Proof.
  intros sp rows fuel j ins Hlt. induction ins as [|s tl [l IH]]; simpl; [eauto|].
  destruct (induced_total sp rows fuel j s Hlt) as [x Hx]. rewrite Hx, IH. eauto.
Qed.

(* No definition (cycles included) and no row set makes the evaluation of a join raise, as long as the
   interpreter allows two more nested calls than the workflow has tasks. *)
Theorem logical_total : forall sp rows fuel j k,
  length sp + 1 < fuel -> exists st c tr, logical fuel sp rows j k = Ok (st, c, tr).
Proof.
  intros sp rows fuel j k Hlt. rewrite logical_eq. destruct (inbound_names sp j) as [|s0 tl] eqn:Hin; [eauto|].
  rewrite <- Hin. destruct (induced_all_total sp rows fuel j (inbound_names sp j) Hlt) as [l Hl]. rewrite Hl.
  destruct (decide k rows l) as [[st c] tr]. eauto.
Qed.

(* the definition with a cycle on which the search used to recurse without bound (fixed in the source):
   t0 -> j;  t2 -> t3 (on-success), t2 -> t5 (on-error);  t3 -> j, t3 -> t1 (on-error);  t1 -> t3;  j = t4 joins all.
   t0 succeeded and routed to j; t2 FAILED and routed to t5: t3 (and t1) can never start. *)
Definition cyc_sp : list task :=
  [mkTask 0 None [4]; mkTask 1 None [3]; mkTask 2 None [3; 5]; mkTask 5 None [];
   mkTask 3 None [4; 1]; mkTask 4 (Some JAll) []].
Definition cyc_rows : list row :=
  [mkRow 0 0 SUCCESS (Some [4]); mkRow 1 2 ERROR (Some [5]); mkRow 2 5 SUCCESS (Some []); mkRow 3 4 WAITING None].
