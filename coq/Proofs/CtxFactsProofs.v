(* The syntactic facts extracted from the data-flow sources (Gen/CtxFacts.v, regenerated on
   every run by translate/tr_ctxfacts.py) are exactly the forms Model/Ctx.v and
   Model/Publish.v mirror:
     view_*                      -> publish_view, output_view, vars_view, next_view, expr_view, target_view, timeout_view
     merge_compare(_then)        -> merge_val (strictly greater right version replaces the left value)
     merge_versions_assignments  -> merge_vers (maximum, missing keys added)
     in_context_copy / _bump     -> with_versions / bump (deep copy, +1 per published leaf path)
     published_leaf_test/_prefix/_leaf_appends/_dict_appends -> pub_paths_v / join_path (dict nodes bump their own path)
     publish_merge_assignments / _discarded_calls -> merge_part (the merged copy is assigned; None takes the other side)
     evaluate_recursively_first  -> eval is a function of an immutable clause
     upstream_pops / _merges     -> eval_upstream (last row is the base, merge in list order)
     outbound_replace_return     -> outbound (update_dict of the copied context with published) *)
From Coq Require Import List String.
Require Import Mistral.Gen.CtxFacts.
Import ListNotations.
Open Scope string_scope.

Definition source_facts_statement : Prop :=
  view_publish_variables = ["get_current_task_dict(task_ex)"; "task_ex.in_context"; "get_workflow_environment_dict(wf_ex)"; "wf_ex.context"; "wf_ex.input"] /\
  view_workflow_output = ["ctx"; "get_workflow_environment_dict(wf_ex)"; "wf_ex.context"; "wf_ex.input"] /\
  view_workflow_vars = ["get_workflow_environment_dict(wf_ex)"; "wf_ex.context"; "wf_ex.input"] /\
  view_find_next_tasks = ["get_current_task_dict(task_ex)"; "ctx"; "get_workflow_environment_dict(self.wf_ex)"; "self.wf_ex.context"; "self.wf_ex.input"] /\
  view_expression_context = ["get_current_task_dict(self.task_ex)"; "get_workflow_environment_dict(self.wf_ex)"; "ctx or {}"; "self.task_ex.in_context"; "self.wf_ex.context"; "self.wf_ex.input"] /\
  view_get_target = ["input_dict"; "self.ctx"; "get_workflow_environment_dict(self.wf_ex)"; "self.wf_ex.context"; "self.wf_ex.input"] /\
  view_get_timeout = ["self.evaluate(timeout)"] /\    (* the standard task view: view_expression_context *)
  view_getitem_iterates = "self.dicts" /\
  view_dicts_assignments = ["[res]"; "[d for d in dicts if d is not None]"] /\
  merge_compare = "r_ver > l_ver" /\
  merge_compare_then = "ctx_left[k] = v" /\
  merge_versions_assignments = ["ver_left[key] = max(ver_left[key], ver_right[key])"; "ver_left[key] = ver_right[key]"] /\
  in_context_copy = ["in_context = copy.deepcopy(dict(in_context))"] /\
  in_context_bump = ["in_context[VERSIONS_KEY][updated] += 1"] /\
  published_leaf_test = "not isinstance(published[key], dict)" /\
  published_prefix = "new_prefix = key if not prefix else prefix + '.' + key" /\
  published_leaf_appends = ["new_prefix"] /\
  published_dict_appends = ["md5(new_prefix)"; "new_prefix"; "recurse(published[key], new_prefix)"] /\
  publish_merge_assignments =
    ["self._branch = utils.merge_dicts(copy.deepcopy(self._branch), spec_to_merge.get_branch())";
     "self._global = utils.merge_dicts(copy.deepcopy(self._global), spec_to_merge.get_global())";
     "self._atomic = utils.merge_dicts(copy.deepcopy(self._atomic), spec_to_merge.get_atomic())"] /\
  publish_merge_discarded_calls = [] /\
  evaluate_recursively_first = "data = copy.deepcopy(data)" /\
  upstream_pops = ["upstream_task_execs.pop()"] /\
  upstream_merges = ["ctx_versioning.merge_context_by_version(ctx, evaluate_task_outbound_context(t_ex))"] /\
  outbound_replace_return = ["utils.update_dict(in_context, getattr(task_ex, 'published', {}))"].

Lemma source_facts : source_facts_statement.
Proof. unfold source_facts_statement. repeat split; reflexivity. Qed.
