(* Proofs about Model/Rest.v (property C16).
   Part 1: meaning of effect lists - for ALL effect lists, environments, bodies and databases
           (induction on the list), and for all sequences of requests (induction on the sequence).
   Part 2: the generated table Gen/ApiTable.v satisfies the boolean checks (vm_compute over the
           finite table, lifted to `forall m, In m methods -> ...` with forallb_forall).
   Part 3: the decision functions of the state-changing requests, for all request texts. *)
From Coq Require Import List Bool String Ascii PeanoNat Lia.
Require Import Mistral.Gen.States Mistral.Model.Rest Mistral.Gen.ApiTable.
Import ListNotations.
Open Scope string_scope.

(* ------------------------------------------------------------------ *)
(* Part 1                                                              *)

Section Run.
Context {DB : Type}.

(* status codes a guard of the list may answer with *)
Fixpoint guard_codes (effs : list effect) : list nat :=
  match effs with
  | [] => []
  | Guard c :: t | PreGuard _ c :: t => c :: guard_codes t
  | Data _ _ :: _ => []
  | _ :: t => guard_codes t
  end.

(* an applicable, denied enforcement stands before the first data access *)
Fixpoint blocked (effs : list effect) (e : env) : bool :=
  match effs with
  | [] => false
  | Enforce r :: t => deny e r || blocked t e
  | CondEnforce r c :: t => (holds e c && deny e r) || blocked t e
  | Data _ _ :: _ => false
  | _ :: t => blocked t e
  end.

Definition refusal (effs : list effect) (st : nat) : Prop := st = 403 \/ In st (guard_codes effs).

(* The main lemma: when blocked, the body is never run: the database is returned
   unchanged, the status is a refusal, and the result does not depend on the body. *)
Lemma run_blocked : forall effs e i (body : DB -> nat * DB) db,
  blocked effs e = true ->
  snd (run effs e i body db) = db /\
  refusal effs (fst (run effs e i body db)) /\
  forall body', run effs e i body' db = run effs e i body db.
Proof.
  induction effs as [|x t IH]; intros e i body db Hb; simpl in Hb; [discriminate|].
  destruct x; simpl.
  - (* Log *) destruct (IH e (S i) body db Hb) as (A & B & C). split; [exact A|]. split; [|exact C].
    destruct B as [B|B]; [left; exact B | right; exact B].
  - (* Pure *) destruct (IH e (S i) body db Hb) as (A & B & C). split; [exact A|]. split; [|exact C].
    destruct B as [B|B]; [left; exact B | right; exact B].
  - (* PreGuard *) destruct (fires e i).
    + simpl. split; [reflexivity|]. split; [right; simpl; left; reflexivity | reflexivity].
    + destruct (IH e (S i) body db Hb) as (A & B & C). split; [exact A|]. split; [|exact C].
      destruct B as [B|B]; [left; exact B | right; simpl; right; exact B].
  - (* Guard *) destruct (fires e i).
    + simpl. split; [reflexivity|]. split; [right; simpl; left; reflexivity | reflexivity].
    + destruct (IH e (S i) body db Hb) as (A & B & C). split; [exact A|]. split; [|exact C].
      destruct B as [B|B]; [left; exact B | right; simpl; right; exact B].
  - (* Enforce *) destruct (deny e r) eqn:D.
    + simpl. split; [reflexivity|]. split; [left; reflexivity | reflexivity].
    + simpl in Hb. destruct (IH e (S i) body db Hb) as (A & B & C). split; [exact A|]. split; [|exact C].
      destruct B as [B|B]; [left; exact B | right; exact B].
  - (* CondEnforce *) destruct (holds e c && deny e r) eqn:D.
    + simpl. split; [reflexivity|]. split; [left; reflexivity | reflexivity].
    + simpl in Hb. destruct (IH e (S i) body db Hb) as (A & B & C). split; [exact A|]. split; [|exact C].
      destruct B as [B|B]; [left; exact B | right; exact B].
  - (* CtxClear *) destruct (IH e (S i) body db Hb) as (A & B & C). split; [exact A|]. split; [|exact C].
    destruct B as [B|B]; [left; exact B | right; exact B].
  - (* Data *) discriminate.
Qed.

Lemma first_enforce_blocked : forall effs e r,
  first_enforce effs = Some r -> deny e r = true -> blocked effs e = true.
Proof.
  induction effs as [|x t IH]; intros e r H D; simpl in H; [discriminate|].
  destruct x; try discriminate; simpl.
  - apply (IH e r H D).
  - apply (IH e r H D).
  - apply (IH e r H D).
  - injection H as <-. rewrite D. reflexivity.
Qed.

Lemma strict_first_is_first : forall effs r,
  strict_first_enforce effs = Some r -> first_enforce effs = Some r.
Proof.
  induction effs as [|x t IH]; intros r H; simpl in H; [discriminate|].
  destruct x; try discriminate; simpl; auto.
Qed.

(* nothing but logging / request-only computation before the policy check: exactly 403 *)
Lemma strict_first_enforce_403 : forall effs e i (body : DB -> nat * DB) db r,
  strict_first_enforce effs = Some r -> deny e r = true ->
  run effs e i body db = (403, db).
Proof.
  induction effs as [|x t IH]; intros e i body db r H D; simpl in H; [discriminate|].
  destruct x; try discriminate; simpl.
  - apply (IH e (S i) body db r H D).
  - apply (IH e (S i) body db r H D).
  - injection H as <-. rewrite D. reflexivity.
Qed.

Lemma cond_blocked : forall effs e r c,
  cond_before_data r c effs = true -> holds e c = true -> deny e r = true -> blocked effs e = true.
Proof.
  induction effs as [|x t IH]; intros e r c H Hc D; simpl in H; [discriminate|].
  destruct x; simpl; try (apply (IH e r c H Hc D)); try discriminate.
  - (* Enforce *) rewrite (IH e r c H Hc D). apply orb_true_r.
  - (* CondEnforce *)
    apply orb_true_iff in H. destruct H as [H|H].
    + apply andb_true_iff in H. destruct H as [Hr Hcc].
      apply String.eqb_eq in Hr. subst r0.
      assert (c0 = c) as -> by (destruct c, c0; simpl in Hcc; congruence).
      rewrite Hc, D. reflexivity.
    + rewrite (IH e r c H Hc D). apply orb_true_r.
Qed.

Lemma conds_in_before : forall effs r c,
  In (r, c) (conds_before_data effs) -> cond_before_data r c effs = true.
Proof.
  induction effs as [|x t IH]; intros r c H; simpl in H; [contradiction|].
  destruct x; simpl; try (apply IH; exact H); try contradiction.
  destruct H as [H|H].
  - injection H as <- <-. rewrite String.eqb_refl. destruct c0; reflexivity.
  - rewrite (IH r c H). apply orb_true_r.
Qed.

(* a caller allowed everything and tripping no guard reaches the body *)
Lemma run_allowed : forall effs e i (body : DB -> nat * DB) db,
  (forall r, deny e r = false) -> (forall k, fires e k = false) ->
  run effs e i body db = body db.
Proof.
  induction effs as [|x t IH]; intros e i body db Hd Hf; simpl; [reflexivity|].
  destruct x; try (apply IH; assumption); try reflexivity.
  - rewrite Hf. apply IH; assumption.
  - rewrite Hf. apply IH; assumption.
  - rewrite Hd. apply IH; assumption.
  - rewrite Hd, andb_false_r. apply IH; assumption.
Qed.

(* any sequence of requests, each blocked: the database at the end is the one at the start *)
Definition request := (list effect * env * (DB -> nat * DB))%type.

Definition serve (db : DB) (q : request) : DB :=
  let '(effs, e, body) := q in snd (run effs e 0 body db).

Lemma blocked_sequence : forall (reqs : list request) db,
  Forall (fun q => let '(effs, e, _) := q in blocked effs e = true) reqs ->
  fold_left serve reqs db = db.
Proof.
  induction reqs as [|q t IH]; intros db H; [reflexivity|].
  inversion H as [|q' t' Hq Ht]; subst. simpl.
  destruct q as [[effs e] body]. simpl.
  destruct (run_blocked effs e 0 body db Hq) as (A & _ & _). rewrite A. apply IH. exact Ht.
Qed.

End Run.

(* ------------------------------------------------------------------ *)
(* Part 2: the generated table                                          *)

Definition guarded_row_ok (m : method) : bool :=
  unguarded m || (enforce_first_ok rules m && all_projects_ok rules m && publicize_ok rules m
                  && conds_documented rules m).

Lemma table_rows_ok : forallb guarded_row_ok methods = true.
Proof. vm_compute. reflexivity. Qed.

Lemma table_row : forall m, In m methods -> unguarded m = false ->
  enforce_first_ok rules m = true /\ all_projects_ok rules m = true /\
  publicize_ok rules m = true /\ conds_documented rules m = true.
Proof.
  intros m Hin Hu.
  pose proof (proj1 (forallb_forall guarded_row_ok methods) table_rows_ok m Hin) as H.
  unfold guarded_row_ok in H. rewrite Hu in H. simpl in H.
  repeat (apply andb_true_iff in H; destruct H as [H ?]). auto.
Qed.

Definition str_mem (s : string) (l : list string) : bool := existsb (String.eqb s) l.

Lemma str_mem_In : forall s l, str_mem s l = true <-> In s l.
Proof.
  intros s l. unfold str_mem. rewrite existsb_exists. split.
  - intros (x & Hx & E). apply String.eqb_eq in E. subst. exact Hx.
  - intros H. exists s. split; [exact H | apply String.eqb_refl].
Qed.

Definition same_set (a b : list string) : bool :=
  forallb (fun x => str_mem x b) a && forallb (fun x => str_mem x a) b.

Lemma same_set_spec : forall a b, same_set a b = true -> forall x, In x a <-> In x b.
Proof.
  intros a b H x. apply andb_true_iff in H. destruct H as [H1 H2].
  rewrite forallb_forall in H1, H2. split; intro Hx.
  - apply str_mem_In. apply H1. exact Hx.
  - apply str_mem_In. apply H2. exact Hx.
Qed.

Lemma unguarded_set : same_set (map method_id (filter unguarded methods)) unguarded_allowlist = true.
Proof. vm_compute. reflexivity. Qed.

Lemma unguarded_listed : forall id,
  In id (map method_id (filter unguarded methods)) <-> In id unguarded_allowlist.
Proof. exact (same_set_spec _ _ unguarded_set). Qed.

Lemma preguarded_set :
  same_set (map method_id (filter (fun m => has_preguard (m_effects m)) methods)) preguarded_allowlist = true.
Proof. vm_compute. reflexivity. Qed.

Lemma preguarded_listed : forall id,
  In id (map method_id (filter (fun m => has_preguard (m_effects m)) methods)) <-> In id preguarded_allowlist.
Proof. exact (same_set_spec _ _ preguarded_set). Qed.

(* a method outside the allow-list is guarded *)
Lemma not_listed_guarded : forall m, In m methods -> ~ In (method_id m) unguarded_allowlist ->
  unguarded m = false.
Proof.
  intros m Hin Hn. destruct (unguarded m) eqn:U; [|reflexivity].
  exfalso. apply Hn. apply (proj1 (unguarded_listed (method_id m))).
  apply (in_map method_id). apply filter_In. split; assumption.
Qed.

Lemma enforce_first_all : forall m, In m methods -> ~ In (method_id m) unguarded_allowlist ->
  exists r, first_enforce (m_effects m) = Some r /\ documented rules m r = true /\
            rule_action r = method_action (m_name m) /\ m_late m = [].
Proof.
  intros m Hin Hn.
  destruct (table_row m Hin (not_listed_guarded m Hin Hn)) as (H & _).
  unfold enforce_first_ok in H. destruct (first_enforce (m_effects m)) as [r|]; [|discriminate].
  exists r. apply andb_true_iff in H. destruct H as [H H3]. apply andb_true_iff in H. destruct H as [H1 H2].
  split; [reflexivity|]. split; [exact H1|]. split; [apply String.eqb_eq; exact H2|].
  destruct (m_late m); [reflexivity | discriminate].
Qed.

(* no preguard before the policy check: the first enforce is strictly first *)
Fixpoint preguard_before_enforce (effs : list effect) : bool :=
  match effs with
  | PreGuard _ _ :: _ => true
  | Log :: t | Pure :: t => preguard_before_enforce t
  | _ => false
  end.

Lemma first_strict : forall effs r,
  first_enforce effs = Some r -> preguard_before_enforce effs = false -> strict_first_enforce effs = Some r.
Proof.
  induction effs as [|x t IH]; intros r H P; simpl in *; [discriminate|].
  destruct x; try discriminate; auto.
Qed.

Lemma preguard_before_has : forall effs, preguard_before_enforce effs = true -> has_preguard effs = true.
Proof.
  induction effs as [|x t IH]; intro H; simpl in *; [discriminate|].
  destruct x; try discriminate; simpl; auto.
Qed.

Lemma denied_no_effect_table : forall (DB : Type) m (e : env) (body : DB -> nat * DB) db,
  In m methods -> ~ In (method_id m) unguarded_allowlist ->
  exists r, first_enforce (m_effects m) = Some r /\ documented rules m r = true /\
   (deny e r = true ->
      snd (handle m e body db) = db /\
      (forall body', handle m e body' db = handle m e body db) /\
      (~ In (method_id m) preguarded_allowlist -> fst (handle m e body db) = 403)).
Proof.
  intros DB m e body db Hin Hn.
  destruct (enforce_first_all m Hin Hn) as (r & Hf & Hd & _ & _).
  exists r. split; [exact Hf|]. split; [exact Hd|]. intro D.
  unfold handle.
  destruct (run_blocked (m_effects m) e 0 body db (first_enforce_blocked _ _ _ Hf D)) as (A & _ & C).
  split; [exact A|]. split; [exact C|].
  intro Hp.
  assert (preguard_before_enforce (m_effects m) = false) as P.
  { destruct (preguard_before_enforce (m_effects m)) eqn:P; [|reflexivity].
    exfalso. apply Hp. apply (proj1 (preguarded_listed (method_id m))).
    apply (in_map method_id). apply filter_In.
    split; [exact Hin | apply preguard_before_has; exact P]. }
  rewrite (strict_first_enforce_403 (m_effects m) e 0 body db r (first_strict _ _ Hf P) D). reflexivity.
Qed.

(* listing across projects *)
Lemma all_projects_table : forall (DB : Type) m (e : env) (body : DB -> nat * DB) db,
  In m methods -> m_all_projects m = true ->
  exists r, first_enforce (m_effects m) = Some r /\
   ( rule_kind rules r = Some AdminOnly \/
     exists c, let ap := rule_resource r ++ ":list:all_projects" in
       is_all_projects_cond c = true /\ rule_kind rules ap = Some AdminOnly /\
       cond_before_data ap c (m_effects m) = true /\
       (holds e c = true -> deny e ap = true ->
          snd (handle m e body db) = db /\ forall body', handle m e body' db = handle m e body db) ).
Proof.
  intros DB m e body db Hin Hap.
  assert (unguarded m = false) as Hu.
  { destruct (unguarded m) eqn:U; [|reflexivity]. exfalso.
    assert (In (method_id m) unguarded_allowlist) as L
      by (apply (proj1 (unguarded_listed (method_id m))); apply (in_map method_id);
          apply filter_In; split; assumption).
    assert (forallb (fun m => negb (m_all_projects m && str_mem (method_id m) unguarded_allowlist)) methods = true) as F
      by (vm_compute; reflexivity).
    rewrite forallb_forall in F. specialize (F m Hin). rewrite Hap in F.
    apply str_mem_In in L. rewrite L in F. discriminate. }
  destruct (table_row m Hin Hu) as (_ & H & _ & _).
  unfold all_projects_ok in H. rewrite Hap in H. simpl in H.
  destruct (first_enforce (m_effects m)) as [r|] eqn:Hf; [|discriminate].
  exists r. split; [reflexivity|].
  apply orb_true_iff in H. destruct H as [H|H].
  - right. apply andb_true_iff in H. destruct H as [H K].
    apply existsb_exists in H. destruct H as ([r' c] & Hin' & H). simpl in H.
    apply andb_true_iff in H. destruct H as [E Hc]. apply String.eqb_eq in E. subst r'.
    exists c. cbv zeta. split; [exact Hc|]. split.
    { destruct (rule_kind rules (rule_resource r ++ ":list:all_projects")) as [[]|]; try discriminate; reflexivity. }
    pose proof (conds_in_before _ _ _ Hin') as CB. split; [exact CB|].
    intros Hh D. unfold handle.
    destruct (run_blocked (m_effects m) e 0 body db (cond_blocked _ _ _ _ CB Hh D)) as (A & _ & C).
    split; [exact A | exact C].
  - left. destruct (rule_kind rules r) as [[]|]; try discriminate; reflexivity.
Qed.

(* making a resource public *)
Lemma publicize_table : forall (DB : Type) m (e : env) (body : DB -> nat * DB) db,
  In m methods -> ~ In (method_id m) unguarded_allowlist ->
  m_takes_scope m = true -> (m_verb m = POST \/ m_verb m = PUT) ->
  exists r, first_enforce (m_effects m) = Some r /\
    let pr := rule_resource r ++ ":publicize" in
    rule_kind rules pr = Some AdminOnly /\
    cond_before_data pr CScopePublic (m_effects m) = true /\
    (holds e CScopePublic = true -> deny e pr = true ->
       snd (handle m e body db) = db /\ forall body', handle m e body' db = handle m e body db).
Proof.
  intros DB m e body db Hin Hn Hs Hv.
  destruct (table_row m Hin (not_listed_guarded m Hin Hn)) as (_ & _ & H & _).
  unfold publicize_ok in H. rewrite Hs in H.
  assert (verb_eqb (m_verb m) POST || verb_eqb (m_verb m) PUT = true) as V
    by (destruct Hv as [-> | ->]; reflexivity).
  rewrite V in H. simpl in H.
  destruct (first_enforce (m_effects m)) as [r|]; [|discriminate].
  exists r. split; [reflexivity|]. cbv zeta.
  apply andb_true_iff in H. destruct H as [CB K].
  split.
  { destruct (rule_kind rules (rule_resource r ++ ":publicize")) as [[]|]; try discriminate; reflexivity. }
  split; [exact CB|].
  intros Hh D. unfold handle.
  destruct (run_blocked (m_effects m) e 0 body db (cond_blocked _ _ _ _ CB Hh D)) as (A & _ & C).
  split; [exact A | exact C].
Qed.

(* the registry *)
Lemma registry_wellformed : forall r, In r rules -> rule_wellformed r = true.
Proof. apply forallb_forall. vm_compute. reflexivity. Qed.

Lemma registry_implemented : forall r, In r rules -> rule_implemented methods r = true.
Proof. apply forallb_forall. vm_compute. reflexivity. Qed.

Lemma registry_unused : forall n, In n (unused_rules rules methods) <-> In n unused_rules_allowlist.
Proof. apply same_set_spec. vm_compute. reflexivity. Qed.

(* every conditional enforcement of the table names a documented rule *)
Lemma conds_documented_table : forall m r c, In m methods -> ~ In (method_id m) unguarded_allowlist ->
  In (r, c) (conds_before_data (m_effects m)) -> documented rules m r = true.
Proof.
  intros m r c Hin Hn Hc.
  destruct (table_row m Hin (not_listed_guarded m Hin Hn)) as (_ & _ & _ & H).
  unfold conds_documented in H. rewrite forallb_forall in H. apply (H (r, c) Hc).
Qed.

(* ------------------------------------------------------------------ *)
(* Part 3: decision functions                                           *)

Lemma completed_states : forall s,
  is_completed s = true <-> s = SUCCESS \/ s = ERROR \/ s = CANCELLED \/ s = SKIPPED.
Proof.
  intro s. split.
  - destruct s; vm_compute; intro H; try discriminate; auto.
  - intros [-> | [-> | [-> | ->]]]; vm_compute; reflexivity.
Qed.

Lemma parse_state_name : forall s, s <> Invalid -> parse_state (state_name s) = s.
Proof. intros s H. destruct s; reflexivity. Qed.

Lemma parse_state_valid : forall t, parse_state t <> Invalid -> state_name (parse_state t) = t.
Proof.
  intros t. unfold parse_state.
  destruct (find (fun c => state_name c =? t) all_constants) as [c|] eqn:F.
  - intros _. apply find_some in F. destruct F as [_ E]. apply String.eqb_eq in E. exact E.
  - intro H. contradiction.
Qed.

Lemma parse_empty : parse_state "" = Invalid.
Proof. vm_compute. reflexivity. Qed.

(* --- execution PUT --- *)

Lemma exec_put_call : forall present cur st desc env,
  o_call (exec_put present cur st desc env) <> NoCall ->
  present = true /\ desc = false /\ st <> "" /\
  o_upd_desc (exec_put present cur st desc env) = false /\
  o_upd_env (exec_put present cur st desc env) = false /\
  o_status (exec_put present cur st desc env) = 200 /\
  ( (parse_state st = PAUSED /\ o_call (exec_put present cur st desc env) = PauseWf) \/
    (parse_state st = RUNNING /\ o_call (exec_put present cur st desc env) = ResumeWf env) \/
    (is_completed (parse_state st) = true /\ env = false /\
     o_call (exec_put present cur st desc env) = StopWf (parse_state st)) ).
Proof.
  intros present cur st desc env. unfold exec_put.
  destruct present; [|simpl; congruence].
  destruct (String.eqb st "") eqn:E.
  - destruct desc, env, (env_updatable cur); simpl; congruence.
  - assert (st <> "") as Hne by (intro; subst; discriminate).
    destruct desc; [simpl; congruence|].
    destruct env, (parse_state st); cbv; intro H; try congruence;
      (split; [reflexivity|]); (split; [reflexivity|]); (split; [exact Hne|]);
      (split; [reflexivity|]); (split; [reflexivity|]); (split; [reflexivity|]);
      first [ left; split; reflexivity
            | right; left; split; reflexivity
            | right; right; split; [reflexivity | split; reflexivity] ].
Qed.

Lemma exec_put_description_alone : forall present cur st desc env,
  o_upd_desc (exec_put present cur st desc env) = true \/ o_upd_env (exec_put present cur st desc env) = true ->
  st = "" /\ o_call (exec_put present cur st desc env) = NoCall /\ present = true /\
  (env = true -> env_updatable cur = true).
Proof.
  intros present cur st desc env. unfold exec_put.
  destruct present; [|simpl; intros [H|H]; discriminate].
  destruct (String.eqb st "") eqn:E.
  - apply String.eqb_eq in E. subst st.
    destruct desc, env, (env_updatable cur); simpl; intros [H|H]; try discriminate; auto.
  - destruct desc; [simpl; intros [H|H]; discriminate|].
    destruct env, (parse_state st); cbv; intros [H|H]; discriminate.
Qed.

Lemma exec_put_other_state_rejected : forall cur st desc env,
  st <> "" -> parse_state st <> PAUSED -> parse_state st <> RUNNING -> is_completed (parse_state st) = false ->
  exec_put true cur st desc env = reject 400.
Proof.
  intros cur st desc env Hne H1 H2 H3. unfold exec_put.
  destruct (String.eqb st "") eqn:E; [apply String.eqb_eq in E; contradiction|].
  destruct desc, env, (parse_state st); simpl in *; try reflexivity; try congruence;
    try (cbv in H3; discriminate).
Qed.

Lemma exec_put_absent : forall cur st desc env, exec_put false cur st desc env = reject 404.
Proof. reflexivity. Qed.

(* --- execution DELETE --- *)

Lemma exec_delete_guard : forall cv present force cur,
  o_deleted (exec_delete cv present force cur) = true <->
  present = true /\ (forced cv force = true \/ is_completed cur = true).
Proof.
  intros cv present force cur. unfold exec_delete.
  destruct present, (forced cv force), (is_completed cur); simpl; split; intro H; try discriminate; auto;
    destruct H as [? [?|?]]; discriminate.
Qed.

Lemma exec_delete_unfinished : forall cv cur force,
  is_completed cur = false -> forced cv force = false -> exec_delete cv true force cur = reject 403.
Proof. intros cv cur force H F. unfold exec_delete. rewrite H, F. reflexivity. Qed.

(* the property as meant: no deletion of an unfinished execution unless the client meant force.
   It holds for every text the conversion reads as the client means it ... *)
Lemma exec_delete_without_force_conditional : forall cv present force cur,
  forced cv force = intended_force force ->
  is_completed cur = false -> intended_force force = false ->
  o_deleted (exec_delete cv present force cur) = false.
Proof.
  intros cv present force cur Hsame Hc Hi. unfold exec_delete.
  rewrite Hsame, Hi, Hc. destruct present; reflexivity.
Qed.

(* ... hence for every text when the method parses the text itself ... *)
Lemma exec_delete_without_force_parsed : forall present force cur,
  is_completed cur = false -> intended_force force = false ->
  o_deleted (exec_delete ConvStrutils present force cur) = false.
Proof. intros. apply exec_delete_without_force_conditional; auto. Qed.

(* ... and fails for the bool(text) conversion: force=false deletes a RUNNING execution *)
Lemma exec_delete_without_force_refuted : exists force cur,
  intended_force force = false /\ is_completed cur = false /\
  o_deleted (exec_delete ConvPyBool true force cur) = true /\
  o_status (exec_delete ConvPyBool true force cur) = 204.
Proof. exists (Some "false"), RUNNING. vm_compute. repeat split. Qed.

(* for the conversion found in the source: exactly one of the two applies *)
Lemma exec_delete_source : 
  (exec_delete_force_conv = ConvStrutils /\
     forall present force cur, is_completed cur = false -> intended_force force = false ->
       o_deleted (exec_delete exec_delete_force_conv present force cur) = false) \/
  (exec_delete_force_conv = ConvPyBool /\
     exists force cur, intended_force force = false /\ is_completed cur = false /\
       o_deleted (exec_delete exec_delete_force_conv true force cur) = true).
Proof.
  destruct exec_delete_force_conv eqn:E.
  - right. split; [reflexivity|]. destruct exec_delete_without_force_refuted as (f & c & A & B & C & _).
    exists f, c. auto.
  - left. split; [reflexivity|]. apply exec_delete_without_force_parsed.
Qed.

(* --- task PUT --- *)

Lemma task_put_call : forall present name_ok wf_ok st cur reset wi,
  o_call (task_put present name_ok wf_ok st cur reset wi) <> NoCall ->
  present = true /\ name_ok = true /\ wf_ok = true /\ cur = ERROR /\
  (parse_state st = RUNNING \/ parse_state st = SKIPPED) /\
  (parse_state st = RUNNING -> reset <> None /\ (wi = true \/ reset = Some true)) /\
  o_call (task_put present name_ok wf_ok st cur reset wi) =
    Rerun (match reset with Some true => true | _ => false end) (state_eqb (parse_state st) SKIPPED) /\
  o_status (task_put present name_ok wf_ok st cur reset wi) = 200.
Proof.
  intros present name_ok wf_ok st cur reset wi. unfold task_put.
  destruct present, name_ok, wf_ok; simpl; try congruence.
  destruct (parse_state st); simpl; try congruence;
    destruct cur; simpl; try congruence;
    destruct reset as [[]|], wi; simpl; intro H; try congruence;
    repeat split; auto; try congruence; intros; try discriminate; split; auto; congruence.
Qed.

Lemma task_put_not_error : forall present name_ok wf_ok st cur reset wi,
  cur <> ERROR ->
  o_call (task_put present name_ok wf_ok st cur reset wi) = NoCall /\
  (o_status (task_put present name_ok wf_ok st cur reset wi) = 400 \/
   o_status (task_put present name_ok wf_ok st cur reset wi) = 404).
Proof.
  intros present name_ok wf_ok st cur reset wi H. unfold task_put.
  destruct present, name_ok, wf_ok; simpl; auto.
  destruct (parse_state st); simpl; auto; destruct cur; simpl; auto; contradiction.
Qed.

(* --- action execution PUT --- *)

Lemma supported_states : forall s,
  mem s action_supported_states = true <->
  s = SUCCESS \/ s = ERROR \/ s = CANCELLED \/ s = PAUSED \/ s = RUNNING.
Proof.
  intro s. split.
  - destruct s; vm_compute; intro H; try discriminate; auto.
  - intros [-> | [-> | [-> | [-> | ->]]]]; vm_compute; reflexivity.
Qed.

Lemma action_put_call : forall st,
  o_call (action_put action_supported_states st) <> NoCall <->
  mem (parse_state st) action_supported_states = true.
Proof.
  intro st. unfold action_put.
  destruct (parse_state st); vm_compute; split; intro H; congruence.
Qed.

Lemma action_put_unsupported : forall st,
  mem (parse_state st) action_supported_states = false ->
  action_put action_supported_states st = reject 400.
Proof. intros st H. unfold action_put. rewrite H. reflexivity. Qed.

Lemma action_put_kinds : forall st,
  match o_call (action_put action_supported_states st) with
  | ActionComplete k => is_completed (parse_state st) = true /\
        ((parse_state st = SUCCESS /\ k = "data") \/ (parse_state st = ERROR /\ k = "error")
         \/ (parse_state st = CANCELLED /\ k = "cancel"))
  | ActionUpdate s => s = parse_state st /\ (s = PAUSED \/ s = RUNNING)
  | NoCall => o_status (action_put action_supported_states st) = 400
  | _ => False
  end.
Proof.
  intro st. unfold action_put.
  destruct (parse_state st); vm_compute; auto 10.
Qed.

(* --- action execution DELETE --- *)

Lemma action_delete_guard : forall cfg present adhoc cur,
  o_deleted (action_delete cfg present adhoc cur) = true <->
  cfg = true /\ present = true /\ adhoc = true /\ is_completed cur = true.
Proof.
  intros cfg present adhoc cur. unfold action_delete.
  destruct cfg, present, adhoc, (is_completed cur); simpl; split; intro H; try discriminate; auto;
    destruct H as (? & ? & ? & ?); discriminate.
Qed.

(* no decision function writes anything when it refuses *)
Lemma task_put_shape : forall p n w st c r wi,
  task_put p n w st c r wi = reject 404 \/ task_put p n w st c r wi = reject 400 \/
  exists a b, task_put p n w st c r wi = accept (Rerun a b).
Proof.
  intros. unfold task_put.
  repeat match goal with |- context [if ?b then _ else _] => destruct b end; eauto.
Qed.

Lemma exec_put_shape : forall p cu st d e,
  exec_put p cu st d e = reject 404 \/ exec_put p cu st d e = reject 400 \/ exec_put p cu st d e = reject 403 \/
  (exists a b, exec_put p cu st d e = mkOut 200 NoCall a b false) \/
  exists c, exec_put p cu st d e = accept c.
Proof.
  intros. unfold exec_put.
  repeat match goal with |- context [if ?b then _ else _] => destruct b end; eauto 8.
Qed.

Lemma refusals_write_nothing :
  (forall p cu st d e, o_status (exec_put p cu st d e) <> 200 ->
     exec_put p cu st d e = reject (o_status (exec_put p cu st d e))) /\
  (forall cv p f c, o_status (exec_delete cv p f c) <> 204 ->
     exec_delete cv p f c = reject (o_status (exec_delete cv p f c))) /\
  (forall p n w st c r wi, o_status (task_put p n w st c r wi) <> 200 ->
     task_put p n w st c r wi = reject (o_status (task_put p n w st c r wi))).
Proof.
  split; [|split].
  - intros p cu st d e.
    destruct (exec_put_shape p cu st d e) as [E|[E|[E|[(a & b & E)|(c & E)]]]]; rewrite E; simpl; intro H;
      try reflexivity; congruence.
  - intros cv p f c. unfold exec_delete. destruct p, (forced cv f), (is_completed c); simpl; intro H; try reflexivity; congruence.
  - intros p n w st c r wi.
    destruct (task_put_shape p n w st c r wi) as [E|[E|(a & b & E)]]; rewrite E; simpl; intro H;
      try reflexivity; congruence.
Qed.

(* ------------------------------------------------------------------ *)
(* Part 4: the policy decision (every caller, every rule assignment)    *)

Lemma eval_equations : forall f pol c t,
  eval (S f) pol c t CTrue = true /\
  eval (S f) pol c t CFalse = false /\
  (forall a b, eval (S f) pol c t (CAnd a b) = eval f pol c t a && eval f pol c t b) /\
  (forall a b, eval (S f) pol c t (COr a b) = eval f pol c t a || eval f pol c t b) /\
  (forall a, eval (S f) pol c t (CNot a) = negb (eval f pol c t a)) /\
  (forall r, eval (S f) pol c t (CRole r) = existsb (fun x => String.eqb (lower x) (lower r)) (c_roles c)) /\
  (forall n, eval (S f) pol c t (CRule n) =
             match plookup pol n with Some k => eval f pol c t k | None => false end) /\
  (forall k m, eval (S f) pol c t (CCred k m) = String.eqb (match_text t m) (cred_text c k)).
Proof. intros. repeat split. Qed.

(* the decision depends on the caller only through what the expressions read:
   "!" denies every caller, administrators included; "@" allows every caller *)
Lemma bang_denies_everyone : forall pol c t r,
  plookup pol r = Some CFalse -> authorize pol c t r = false.
Proof. intros pol c t r H. unfold authorize. rewrite H. reflexivity. Qed.

Lemma at_allows_everyone : forall pol c t r,
  plookup pol r = Some CTrue -> authorize pol c t r = true.
Proof. intros pol c t r H. unfold authorize. rewrite H. reflexivity. Qed.

Lemma override_lookup : forall pol n k, plookup (override pol n k) n = Some k.
Proof. intros. unfold override. simpl. rewrite String.eqb_refl. reflexivity. Qed.

Lemma override_other : forall pol n k n', n <> n' -> plookup (override pol n k) n' = plookup pol n'.
Proof.
  intros pol n k n' H. unfold override. simpl.
  destruct (String.eqb n n') eqn:E; [apply String.eqb_eq in E; contradiction | reflexivity].
Qed.

(* a role-specific rule denies every caller without that role, whatever is_admin says *)
Lemma role_rule_denies : forall pol c t r role,
  plookup pol r = Some (CRole role) ->
  (forall x, In x (c_roles c) -> lower x <> lower role) ->
  authorize pol c t r = false.
Proof.
  intros pol c t r role H Hn. unfold authorize. rewrite H. unfold policy_fuel.
  change (existsb (fun x => String.eqb (lower x) (lower role)) (c_roles c) = false).
  apply not_true_is_false. intro E. apply existsb_exists in E. destruct E as (x & Hx & E).
  apply String.eqb_eq in E. exact (Hn x Hx E).
Qed.

Lemma is_admin_rule : forall pol c t r,
  plookup pol r = Some (CCred KIsAdmin (MLit "True")) -> authorize pol c t r = c_is_admin c.
Proof.
  intros pol c t r H. unfold authorize. rewrite H. unfold policy_fuel.
  change (String.eqb "True" (if c_is_admin c then "True" else "False") = c_is_admin c).
  destruct (c_is_admin c); reflexivity.
Qed.

(* the table theorems instantiated with the environment a policy and a caller determine *)
Lemma policy_denied_no_effect : forall (DB : Type) m pol c holds fires (body : DB -> nat * DB) db,
  In m methods -> ~ In (method_id m) unguarded_allowlist ->
  exists r, first_enforce (m_effects m) = Some r /\ documented rules m r = true /\
   (enforce_allows pol c r = false ->
      snd (handle m (policy_env pol c holds fires) body db) = db /\
      (forall body', handle m (policy_env pol c holds fires) body' db =
                     handle m (policy_env pol c holds fires) body db) /\
      (~ In (method_id m) preguarded_allowlist ->
       fst (handle m (policy_env pol c holds fires) body db) = 403)).
Proof.
  intros DB m pol c holds fires body db Hin Hn.
  destruct (denied_no_effect_table DB m (policy_env pol c holds fires) body db Hin Hn) as (r & A & B & C).
  exists r. split; [exact A|]. split; [exact B|]. intro D. apply C. simpl. rewrite D. reflexivity.
Qed.

(* no bypass for administrators: the operator's "!" on the rule a method checks refuses an admin too *)
Lemma admin_no_bypass : forall (DB : Type) m pol c holds fires (body : DB -> nat * DB) db,
  In m methods -> ~ In (method_id m) unguarded_allowlist -> c_is_admin c = true ->
  exists r, first_enforce (m_effects m) = Some r /\
    let pol' := override pol r CFalse in
    snd (handle m (policy_env pol' c holds fires) body db) = db /\
    (~ In (method_id m) preguarded_allowlist ->
     fst (handle m (policy_env pol' c holds fires) body db) = 403).
Proof.
  intros DB m pol c holds fires body db Hin Hn _.
  destruct (policy_denied_no_effect DB m (override pol
             (match first_enforce (m_effects m) with Some r => r | None => "" end) CFalse)
             c holds fires body db Hin Hn) as (r & A & _ & C).
  exists r. split; [exact A|]. cbv zeta. rewrite A in C.
  assert (enforce_allows (override pol r CFalse) c r = false) as D
    by (apply bang_denies_everyone; apply override_lookup).
  destruct (C D) as (X & _ & Z). split; assumption.
Qed.

(* conditional rules under a policy: all_projects / publicize need their own rule for every caller *)
Lemma policy_conditional_denied : forall (DB : Type) m pol c holds fires (body : DB -> nat * DB) db r cd,
  In (r, cd) (conds_before_data (m_effects m)) -> holds cd = true -> enforce_allows pol c r = false ->
  snd (handle m (policy_env pol c holds fires) body db) = db /\
  (forall body', handle m (policy_env pol c holds fires) body' db =
                 handle m (policy_env pol c holds fires) body db).
Proof.
  intros DB m pol c holds fires body db r cd Hin Hh D. unfold handle.
  assert (blocked (m_effects m) (policy_env pol c holds fires) = true) as B.
  { apply (cond_blocked _ _ r cd); [apply conds_in_before; exact Hin | exact Hh | simpl; rewrite D; reflexivity]. }
  destruct (run_blocked (m_effects m) (policy_env pol c holds fires) 0 body db B) as (A & _ & C).
  split; [exact A | exact C].
Qed.

(* the registered defaults: kind AdminOnly / AdminOrOwner is what default_policy says *)
Definition kind_matches_default (r : rule) : bool :=
  match r_kind r, plookup default_policy (r_name r) with
  | AdminOnly, Some (CRule n) => String.eqb n "admin_only"
  | AdminOrOwner, Some (CRule n) => String.eqb n "admin_or_owner"
  | BaseRule, Some _ => true
  | _, _ => false
  end.

Lemma defaults_consistent : forall r, In r rules -> kind_matches_default r = true.
Proof. apply forallb_forall. vm_compute. reflexivity. Qed.

Lemma eval_rule : forall f pol c t n,
  eval (S f) pol c t (CRule n) = match plookup pol n with Some k => eval f pol c t k | None => false end.
Proof. reflexivity. Qed.

Lemma eval_cred : forall f pol c t k m,
  eval (S f) pol c t (CCred k m) = String.eqb (match_text t m) (cred_text c k).
Proof. reflexivity. Qed.

Lemma eval_or : forall f pol c t a b,
  eval (S f) pol c t (COr a b) = eval f pol c t a || eval f pol c t b.
Proof. reflexivity. Qed.

Lemma lookup_admin_only : plookup default_policy "admin_only" = Some (CCred KIsAdmin (MLit "True")).
Proof. vm_compute. reflexivity. Qed.

Lemma lookup_admin_or_owner : plookup default_policy "admin_or_owner" =
  Some (COr (CCred KIsAdmin (MLit "True")) (CCred KProject MTargetProject)).
Proof. vm_compute. reflexivity. Qed.

Lemma default_admin_only : forall c t, authorize default_policy c t "admin_only" = c_is_admin c.
Proof. intros. apply is_admin_rule. exact lookup_admin_only. Qed.

Lemma default_admin_or_owner : forall c, enforce_allows default_policy c "admin_or_owner" = true.
Proof.
  intro c. unfold enforce_allows, authorize. rewrite lookup_admin_or_owner.
  unfold policy_fuel. rewrite eval_or, !eval_cred. unfold own_target, match_text, cred_text, t_project.
  rewrite String.eqb_refl. apply orb_true_r.
Qed.

Lemma default_admin_only_rule : forall c t n,
  rule_kind rules n = Some AdminOnly -> authorize default_policy c t n = c_is_admin c.
Proof.
  intros c t n H. unfold rule_kind in H.
  destruct (find_rule rules n) as [r|] eqn:F; [|discriminate]. simpl in H. injection H as K.
  unfold find_rule in F. apply find_some in F. destruct F as [Hin E]. apply String.eqb_eq in E. subst n.
  pose proof (defaults_consistent r Hin) as D. unfold kind_matches_default in D. rewrite K in D.
  destruct (plookup default_policy (r_name r)) as [[]|] eqn:P; try discriminate.
  apply String.eqb_eq in D. subst n.
  unfold authorize. rewrite P. unfold policy_fuel. rewrite eval_rule, lookup_admin_only, eval_cred.
  unfold match_text, cred_text. destruct (c_is_admin c); reflexivity.
Qed.

(* default policy, non-admin caller: cross-project listing and scope=public change nothing *)
Lemma default_policy_all_projects : forall (DB : Type) m c holds fires (body : DB -> nat * DB) db,
  In m methods -> m_all_projects m = true -> c_is_admin c = false ->
  (forall cd, is_all_projects_cond cd = true -> holds cd = true) ->
  snd (handle m (policy_env default_policy c holds fires) body db) = db /\
  (forall body', handle m (policy_env default_policy c holds fires) body' db =
                 handle m (policy_env default_policy c holds fires) body db).
Proof.
  intros DB m c holds fires body db Hin Hap Hna Hh.
  destruct (all_projects_table DB m (policy_env default_policy c holds fires) body db Hin Hap)
    as (r & Hf & [K | (cd & Hc & K & CB & Hyp)]).
  - unfold handle.
    assert (blocked (m_effects m) (policy_env default_policy c holds fires) = true) as B.
    { apply (first_enforce_blocked _ _ r Hf). simpl. unfold enforce_allows.
      rewrite (default_admin_only_rule c _ r K), Hna. reflexivity. }
    destruct (run_blocked (m_effects m) (policy_env default_policy c holds fires) 0 body db B) as (A & _ & C).
    split; [exact A | exact C].
  - cbv zeta in *. apply Hyp.
    + simpl. apply Hh. exact Hc.
    + simpl. unfold enforce_allows. rewrite (default_admin_only_rule c _ _ K), Hna. reflexivity.
Qed.

Lemma default_policy_publicize : forall (DB : Type) m c holds fires (body : DB -> nat * DB) db,
  In m methods -> ~ In (method_id m) unguarded_allowlist ->
  m_takes_scope m = true -> (m_verb m = POST \/ m_verb m = PUT) ->
  c_is_admin c = false -> holds CScopePublic = true ->
  snd (handle m (policy_env default_policy c holds fires) body db) = db /\
  (forall body', handle m (policy_env default_policy c holds fires) body' db =
                 handle m (policy_env default_policy c holds fires) body db).
Proof.
  intros DB m c holds fires body db Hin Hn Hs Hv Hna Hh.
  destruct (publicize_table DB m (policy_env default_policy c holds fires) body db Hin Hn Hs Hv)
    as (r & Hf & K & CB & Hyp). cbv zeta in *. apply Hyp.
  - exact Hh.
  - simpl. unfold enforce_allows. rewrite (default_admin_only_rule c _ _ K), Hna. reflexivity.
Qed.
