(* The completion methods of mistral/engine/workflows.py as the source writes them (early-return
   guards translated on every run into Gen/WfGuards.v) against the model's definitions, and the C03 /
   C11 clause "once a workflow is finished its state and output are not altered": none of the three
   methods reaches set_state - hence the writes of state_info and output, the completion triggers and
   the result sent to the parent that follow it - on a workflow that is already finished. *)
From Coq Require Import List Bool.
Require Import Mistral.Gen.States Mistral.Gen.WfGuards Mistral.Model.Engine.
Import ListNotations.

Definition fail_workflow_src (s : st) : option st :=
  if fail_guard (wf_state s) then Some s else wf_set_state s fail_target.
Definition cancel_workflow_src (s : st) : option st :=
  if cancel_guard (wf_state s) then Some s else wf_set_state s cancel_target.
Definition succeed_workflow_src (s : st) : option st :=
  if succeed_guard (wf_state s) then Some s else wf_set_state s succeed_target.

Lemma fail_as_source s : fail_workflow_src s = fail_workflow s.
Proof. unfold fail_workflow_src, fail_workflow, fail_guard, fail_target. destruct (wf_state s); reflexivity. Qed.

Lemma cancel_as_source s : cancel_workflow_src s = cancel_workflow s.
Proof. unfold cancel_workflow_src, cancel_workflow, cancel_guard, cancel_target. destruct (wf_state s); reflexivity. Qed.

Lemma succeed_as_source s : succeed_workflow_src s = succeed_workflow s.
Proof. unfold succeed_workflow_src, succeed_workflow, succeed_guard, succeed_target. destruct (wf_state s); reflexivity. Qed.

Lemma completion_methods_as_modelled s :
  fail_workflow_src s = fail_workflow s /\ cancel_workflow_src s = cancel_workflow s /\
  succeed_workflow_src s = succeed_workflow s.
Proof. exact (conj (fail_as_source s) (conj (cancel_as_source s) (succeed_as_source s))). Qed.

(* a finished workflow is never completed again: each method returns before set_state (Some s) or is
   refused with the declared error (None); it never writes *)
Theorem finished_never_completed_again s :
  is_completed (wf_state s) = true ->
  fail_workflow_src s = Some s /\ cancel_workflow_src s = Some s /\
  (succeed_workflow_src s = Some s \/ succeed_workflow_src s = None).
Proof.
  intros H. unfold fail_workflow_src, cancel_workflow_src, succeed_workflow_src, fail_guard, cancel_guard, succeed_guard,
    succeed_target, wf_set_state.
  destruct (wf_state s); try discriminate H; cbn; auto.
Qed.

(* the same through the operator entry point of the model *)
Theorem stop_on_finished_changes_nothing s x s1 :
  is_completed (wf_state s) = true -> stop_workflow s x = Some s1 -> s1 = s.
Proof.
  intros H. unfold stop_workflow, succeed_workflow, fail_workflow, cancel_workflow, wf_set_state.
  destruct x; try (intros E; inversion E; reflexivity); rewrite ?H.
  - destruct (wf_state s); try discriminate H; cbn; intros E; inversion E; reflexivity.
  - intros E; inversion E; reflexivity.
  - intros E; inversion E; reflexivity.
Qed.

Example finished_nonvacuous :
  let s := mkSt true SUCCESS [] [] [] [] [] [] in
  is_completed (wf_state s) = true /\ stop_workflow s SUCCESS = Some s /\ stop_workflow s ERROR = Some s.
Proof. vm_compute. repeat split. Qed.
