(* Invariants of Model/ItemsFixed.v (the proposed fix of F4 / F7): the properties that are refuted for
   Model/Items.v hold here for ALL event lists, retry and rerun included. *)
From Coq Require Import List Arith Bool ZArith Lia Permutation Sorted.
Require Import Mistral.Model.Items Mistral.Model.ItemsFixed Mistral.Proofs.ItemsProofs.
Import ListNotations.

Definition AccC (l : list exec) : Prop := Forall (fun e => acc e = true -> e_completed (st e) = true) l.

Definition Quiet (t : task) : Prop :=
  running (execs t) = 0 /\ (forall c, conc t = Some c -> cap t = Some c /\ jobs t = []).

Record XI (t : task) : Prop := {
  x_ni : tst t <> TIdle;
  x_core : Core t;
  x_nd : NoDup (map idx (filter p_started (execs t)));
  x_acc : AccC (execs t);
  x_pos : forall c, conc t = Some c -> 0 < c;
  x_quiet : tst t = TSuccess \/ tst t = TError \/ tst t = TDelayed -> Quiet t;
  x_cov : tst t = TSuccess \/ tst t = TError -> forall i, i < count t -> idx_in acc (execs t) i = true;
  x_del : tst t = TDelayed -> Forall (fun e => acc e = false) (execs t)
}.

(* ---- list lemmas ---- *)

Lemma firstn_NoDup : forall A k (l : list A), NoDup l -> NoDup (firstn k l).
Proof.
  induction k as [|k IH]; intros l H; [constructor|]. destruct l as [|x l]; [constructor|].
  simpl. inversion H; subst. constructor; [|apply IH; assumption].
  intros Hin. apply in_firstn in Hin. contradiction.
Qed.

Lemma take_cap_NoDup : forall c l, NoDup l -> NoDup (take_cap c l).
Proof. intros [k|] l H; simpl; [apply firstn_NoDup|]; exact H. Qed.

Lemma filter_NoDup : forall A (f : A -> bool) l, NoDup l -> NoDup (filter f l).
Proof.
  induction l as [|x l IH]; intros H; [constructor|]. inversion H; subst. simpl.
  destruct (f x); [constructor|]; auto. intros Hin. apply filter_In in Hin. destruct Hin. contradiction.
Qed.

Lemma all_next_fx_spec : forall t i, In i (all_next_fx t) <-> i < count t /\ occupied (execs t) i = false.
Proof.
  intros t i. unfold all_next_fx. rewrite filter_In, in_seq, negb_true_iff. split; intros [H1 H2]; split; auto; lia.
Qed.

Lemma next_fx_in : forall t i, In i (next_indexes_fx t) -> i < count t /\ occupied (execs t) i = false.
Proof. intros t i H. apply all_next_fx_spec. eapply take_cap_incl. exact H. Qed.

Lemma next_fx_NoDup : forall t, NoDup (next_indexes_fx t).
Proof. intros t. apply take_cap_NoDup. apply filter_NoDup. apply seq_NoDup. Qed.

Lemma occupied_iff : forall l i, occupied l i = true <-> In i (map idx (filter p_started l)).
Proof.
  intros l i. unfold occupied. split.
  - intros H. apply idx_in_true in H. destruct H as [e [Hin [Hp Hi]]]. subst i. apply in_map. apply filter_In. auto.
  - intros H. apply in_map_iff in H. destruct H as [e [Hi Hin]]. apply filter_In in Hin. destruct Hin as [Hin Hp].
    eapply idx_in_intro; eauto.
Qed.

Lemma started_new : forall l, filter p_started (map new_exec l) = map new_exec l.
Proof. intros l. apply filter_all. intros e He. apply in_map_iff in He. destruct He as [i [Hi _]]. subst e. reflexivity. Qed.

Lemma AccC_new : forall l, AccC (map new_exec l).
Proof. intros l. apply Forall_forall. intros e He. apply in_map_iff in He. destruct He as [i [Hi _]]. subst e. discriminate. Qed.

Lemma NoDup_app_intro : forall A (l1 l2 : list A),
  NoDup l1 -> NoDup l2 -> (forall x, In x l1 -> ~ In x l2) -> NoDup (l1 ++ l2).
Proof.
  induction l1 as [|x l1 IH]; intros l2 H1 H2 Hd; [exact H2|]. simpl. inversion H1; subst. constructor.
  - intros Hin. apply in_app_or in Hin. destruct Hin as [Hin|Hin]; [contradiction|]. apply (Hd x); [left; reflexivity|exact Hin].
  - apply IH; auto. intros y Hy. apply Hd. right. exact Hy.
Qed.

Lemma running_none : forall l, (forall e, In e l -> e_running (st e) = false) -> running l = 0.
Proof.
  induction l as [|e l IH]; intros H; [reflexivity|]. rewrite running_cons, (H e (or_introl eq_refl)).
  simpl. apply IH. intros y Hy. apply H. right. exact Hy.
Qed.

(* a transformation of executions that keeps indexes and can only take executions out of the started set *)
Lemma NoDup_started_map : forall (f : exec -> exec) l,
  (forall e, idx (f e) = idx e) -> (forall e, p_started (f e) = true -> p_started e = true) ->
  NoDup (map idx (filter p_started l)) -> NoDup (map idx (filter p_started (map f l))).
Proof.
  intros f l Hi Hp. induction l as [|e l IH]; intros H; [constructor|]. simpl in *.
  destruct (p_started (f e)) eqn:E.
  - rewrite (Hp e E) in H. simpl in *. inversion H as [|? ? Hn Hd]; subst. rewrite Hi. constructor; [|apply IH; exact Hd].
    intros Hin. apply Hn. apply in_map_iff in Hin. destruct Hin as [e' [He' Hin']]. apply filter_In in Hin'.
    destruct Hin' as [Hin' Hs']. apply in_map_iff in Hin'. destruct Hin' as [e0 [He0 Hin0]]. subst e'.
    rewrite Hi in He'. rewrite <- He'. apply in_map. apply filter_In. split; [exact Hin0|apply Hp; exact Hs'].
  - apply IH. destruct (p_started e); [simpl in H; inversion H; assumption|exact H].
Qed.

Lemma started_upd : forall l i e e',
  nth_error l i = Some e -> idx e' = idx e -> p_started e = true -> p_started e' = true ->
  map idx (filter p_started (upd l i e')) = map idx (filter p_started l).
Proof.
  induction l as [|y l IH]; intros i e e' Hn Hi Hp Hp'; [destruct i; discriminate|].
  destruct i as [|i]; simpl in *.
  - inversion Hn; subst. rewrite Hp, Hp'. simpl. rewrite Hi. reflexivity.
  - destruct (p_started y); simpl; [f_equal|]; eapply IH; eauto.
Qed.

Lemma AccC_upd : forall l i e', AccC l -> (acc e' = true -> e_completed (st e') = true) -> AccC (upd l i e').
Proof.
  induction l as [|y l IH]; intros i e' H He; [destruct i; constructor|].
  inversion H as [|? ? Hy Hl]; subst. destruct i as [|i]; simpl.
  - constructor; [exact He|exact Hl].
  - constructor; [exact Hy|apply IH; assumption].
Qed.

(* ---- scheduling ---- *)

Lemma next_fx_lt : forall t, Forall (fun i => i < count t) (next_indexes_fx t).
Proof. intros t. apply Forall_forall. intros i Hi. apply next_fx_in in Hi. apply Hi. Qed.

Lemma schedule_body_fx_core : forall t, Core t -> Core (schedule_body_fx t).
Proof.
  intros t [Hp [Hc [HF HC]]]. unfold schedule_body_fx.
  destruct (next_indexes_fx t) as [|x l] eqn:E.
  - apply Core_complete. repeat split; assumption.
  - assert (Hlt : Forall (fun i => i < count t) (x :: l)) by (rewrite <- E; apply next_fx_lt).
    unfold Core. cbn [execs set_cap set_execs prepared count nitems cap conc jobs tst]. repeat split; try assumption.
    + apply Forall_app. split; [exact HF|].
      apply Forall_forall. intros e He. apply in_map_iff in He. destruct He as [i [Hi Hin]]. subst e.
      cbn [idx new_exec]. rewrite Forall_forall in Hlt. apply Hlt. exact Hin.
    + unfold CapOK in *. cbn [execs set_cap set_execs prepared count nitems cap conc jobs tst].
      destruct (conc t) as [c|].
      * destruct HC as [k [Hk Hle]]. rewrite Hk. cbn [dec_cap]. eexists. split; [reflexivity|].
        assert (Hlen : length (x :: l) <= k).
        { rewrite <- E. unfold next_indexes_fx. rewrite Hk. apply length_take_cap_le. }
        rewrite running_app, running_new. lia.
      * rewrite HC. reflexivity.
Qed.

Lemma sched_fx_nonempty : forall t,
  tst t = TRunning -> Core t -> NoDup (map idx (filter p_started (execs t))) -> AccC (execs t) ->
  (forall c, conc t = Some c -> 0 < c) -> next_indexes_fx t <> [] -> XI (schedule_body_fx t).
Proof.
  intros t Ht HC Hnd Hacc Hpos Hne.
  pose proof (schedule_body_fx_core t HC) as HC'.
  pose proof (next_fx_NoDup t) as Hn2. pose proof (next_fx_in t) as Hin2.
  unfold schedule_body_fx in *. destruct (next_indexes_fx t) as [|x l] eqn:E; [contradiction|].
  constructor; cbn [execs set_cap set_execs prepared count nitems cap conc jobs tst].
  - rewrite Ht. discriminate.
  - exact HC'.
  - rewrite filter_app, started_new, map_app, map_idx_new. apply NoDup_app_intro; [exact Hnd|exact Hn2|].
    intros i Hi Hi2. destruct (Hin2 i Hi2) as [_ Ho]. apply occupied_iff in Hi. congruence.
  - apply Forall_app. split; [exact Hacc|apply AccC_new].
  - exact Hpos.
  - rewrite Ht. intros [H|[H|H]]; discriminate.
  - rewrite Ht. intros [H|H]; discriminate.
  - rewrite Ht. intros; discriminate.
Qed.

Lemma take_cap_nil : forall c (l : list nat), take_cap c l = [] -> c <> Some 0 -> l = [].
Proof.
  intros [[|k]|] l H Hc; simpl in H; [exfalso; apply Hc; reflexivity| |exact H].
  destruct l; [reflexivity|discriminate].
Qed.

Lemma sched_fx_quiet : forall t,
  tst t = TRunning -> Core t -> NoDup (map idx (filter p_started (execs t))) -> AccC (execs t) ->
  (forall c, conc t = Some c -> 0 < c) -> Quiet t -> XI (schedule_body_fx t).
Proof.
  intros t Ht HC Hnd Hacc Hpos HQ.
  destruct (next_indexes_fx t) as [|x l] eqn:E; [|apply sched_fx_nonempty; try assumption; rewrite E; discriminate].
  unfold schedule_body_fx. rewrite E. unfold complete. rewrite Ht. cbn [t_completed].
  destruct HQ as [HR HQ2].
  assert (Hcap : cap t <> Some 0).
  { destruct HC as [_ [_ [_ HCap]]]. unfold CapOK in HCap. destruct (conc t) as [c|] eqn:Ec.
    - destruct (HQ2 c eq_refl) as [Hk _]. rewrite Hk. specialize (Hpos c eq_refl). intros H; inversion H; lia.
    - rewrite HCap. discriminate. }
  assert (Hall : all_next_fx t = []) by (apply (take_cap_nil (cap t)); assumption).
  constructor; cbn [execs set_tst prepared count nitems cap conc jobs tst].
  - discriminate.
  - apply Core_set_tst. exact HC.
  - exact Hnd.
  - exact Hacc.
  - exact Hpos.
  - intros _. split; [exact HR|exact HQ2].
  - intros _ i Hi. destruct (occupied (execs t) i) eqn:Eo.
    + unfold occupied in Eo. apply idx_in_true in Eo. destruct Eo as [e [Hin [Hp He]]].
      eapply idx_in_intro; [exact Hin| |exact He].
      unfold p_started in Hp. pose proof (running_zero_all _ HR) as Hz. rewrite Forall_forall in Hz.
      rewrite (Hz e Hin), orb_false_r in Hp. exact Hp.
    + assert (Hi2 : In i (all_next_fx t)) by (apply all_next_fx_spec; auto). rewrite Hall in Hi2. destruct Hi2.
  - intros; discriminate.
Qed.

(* ---- completion ---- *)

Lemma NoDup_sub_filter : forall (p q : exec -> bool) l,
  (forall e, q e = true -> p e = true) ->
  NoDup (map idx (filter p l)) -> NoDup (map idx (filter q l)).
Proof.
  intros p q l Hpq. induction l as [|e l IH]; intros H; [constructor|]. simpl in *.
  destruct (q e) eqn:Eq.
  - rewrite (Hpq e Eq) in H. simpl in *. inversion H as [|? ? Hn Hd]; subst. constructor; [|apply IH; exact Hd].
    intros Hin. apply Hn. apply in_map_iff in Hin. destruct Hin as [e' [He' Hin']]. apply filter_In in Hin'.
    rewrite <- He'. apply in_map. apply filter_In. split; [apply Hin'|apply Hpq; apply Hin'].
  - apply IH. destruct (p e); [simpl in H; inversion H; assumption|exact H].
Qed.

Lemma acc_started : forall e, acc e = true -> p_started e = true.
Proof. intros e H. unfold p_started. rewrite H. reflexivity. Qed.

Lemma pigeon_all : forall l n, NoDup l -> (forall x, In x l -> x < n) -> length l = n -> forall i, i < n -> In i l.
Proof.
  intros l n Hnd Hlt Hlen i Hi.
  assert (Hincl : incl (seq 0 n) l).
  { apply NoDup_length_incl; [exact Hnd|rewrite seq_length; lia|]. intros x Hx. apply in_seq. specialize (Hlt x Hx). lia. }
  apply Hincl. apply in_seq. lia.
Qed.

Lemma complete_cov : forall l n,
  NoDup (map idx (filter p_started l)) -> AccC l -> Forall (fun e => idx e < n) l ->
  (if n =? 0 then 1 else n) = length (filter acc l) ->
  (forall i, i < n -> idx_in acc l i = true) /\ running l = 0.
Proof.
  intros l n Hnd Hacc Hlt Hlen.
  assert (HndA : NoDup (map idx (filter acc l))) by (eapply NoDup_sub_filter; [apply acc_started|exact Hnd]).
  assert (HltA : forall x, In x (map idx (filter acc l)) -> x < n).
  { intros x Hx. apply in_map_iff in Hx. destruct Hx as [e [He Hin]]. apply filter_In in Hin. destruct Hin as [Hin _].
    rewrite Forall_forall in Hlt. subst x. apply Hlt. exact Hin. }
  assert (Hn : length (map idx (filter acc l)) = n).
  { rewrite map_length. destruct (n =? 0) eqn:E0; [|symmetry; exact Hlen].
    apply Nat.eqb_eq in E0. subst n. destruct (filter acc l) as [|a r] eqn:EA; [discriminate|].
    exfalso. specialize (HltA (idx a)). simpl in HltA. specialize (HltA (or_introl eq_refl)). lia. }
  assert (Hcov : forall i, i < n -> idx_in acc l i = true).
  { intros i Hi. pose proof (pigeon_all _ n HndA HltA Hn i Hi) as Hin. apply in_map_iff in Hin.
    destruct Hin as [e [He Hin]]. apply filter_In in Hin. destruct Hin as [Hin Ha]. eapply idx_in_intro; eauto. }
  split; [exact Hcov|]. apply running_none. intros e He. destruct (e_running (st e)) eqn:Er; [|reflexivity]. exfalso.
  rewrite Forall_forall in Hlt. specialize (Hcov (idx e) (Hlt e He)). apply idx_in_true in Hcov.
  destruct Hcov as [e' [Hin' [Ha' Hi']]].
  assert (Hc' : e_completed (st e') = true) by (unfold AccC in Hacc; rewrite Forall_forall in Hacc; apply Hacc; assumption).
  assert (Heq : e' = e).
  { apply (nodup_idx_inj (filter p_started l)); [exact Hnd| | |exact Hi'].
    - apply filter_In. split; [exact Hin'|apply acc_started; exact Ha'].
    - apply filter_In. split; [exact He|]. unfold p_started. rewrite Er. apply orb_true_r. }
  subst e'. rewrite e_completed_running, Er in Hc'. discriminate.
Qed.

Lemma has_more_next_nonempty : forall t k,
  NoDup (map idx (filter p_started (execs t))) -> has_more t = true -> cap t = Some (S k) ->
  next_indexes_fx t <> [].
Proof.
  intros t k Hnd Hm Hk Hnil. unfold next_indexes_fx in Hnil. rewrite Hk in Hnil.
  apply (take_cap_nil (Some (S k))) in Hnil; [|discriminate].
  unfold has_more in Hm. apply Nat.ltb_lt in Hm.
  assert (Hincl : incl (seq 0 (count t)) (map idx (filter p_started (execs t)))).
  { intros i Hi. apply in_seq in Hi. apply occupied_iff. destruct (occupied (execs t) i) eqn:Eo; [reflexivity|].
    assert (Hi2 : In i (all_next_fx t)) by (apply all_next_fx_spec; split; [lia|exact Eo]). rewrite Hnil in Hi2. destruct Hi2. }
  pose proof (NoDup_incl_length (seq_NoDup (count t) 0) Hincl) as Hlen.
  rewrite seq_length, map_length in Hlen. lia.
Qed.

(* ---- Handle ---- *)

Lemma inc_cap_facts : forall t,
  match conc t with
  | None => cap t = None
  | Some c => exists k, cap t = Some k /\ k + running (execs t) + S (length (jobs t)) <= c
  end ->
  let t1 := increase_capacity t in
  execs t1 = execs t /\ tst t1 = tst t /\ conc t1 = conc t /\ jobs t1 = jobs t /\ count t1 = count t /\
  nitems t1 = nitems t /\ prepared t1 = prepared t /\
  match conc t with
  | None => cap t1 = None
  | Some c => exists k, cap t1 = Some (S k) /\ S k + running (execs t) + length (jobs t) <= c
  end.
Proof.
  intros t H. unfold increase_capacity. destruct (conc t) as [c|] eqn:Ec.
  - destruct H as [k [Hk Hle]]. rewrite Hk. assert (Hlt : k <? c = true) by (apply Nat.ltb_lt; lia). rewrite Hlt.
    cbn. rewrite Ec. repeat split; try reflexivity. exists k. split; [reflexivity|lia].
  - rewrite Ec. repeat split; try reflexivity. exact H.
Qed.

Lemma XI_handle : forall t i, XI t -> XI (step_fx t (Handle i)).
Proof.
  intros t i X. cbn [step_fx]. destruct (mem i (jobs t)) eqn:Em; [|exact X].
  apply mem_true_in in Em. pose proof (length_remove_first _ _ Em) as Hlen.
  set (js := remove_first i (jobs t)) in *.
  destruct X as [Xni Xcore Xnd Xacc Xpos Xq Xcov Xdel].
  unfold on_action_complete_fx. cbn [tst set_jobs].
  assert (Hnq : forall c, conc t = Some c -> ~ (tst t = TSuccess \/ tst t = TError \/ tst t = TDelayed)).
  { intros c Hc Hs. destruct (Xq Hs) as [_ HQ]. destruct (HQ c Hc) as [_ Hj]. rewrite Hj in Em. destruct Em. }
  destruct Xcore as [Hp [Hcn [HF HCap]]].
  assert (HCapS : match conc t with
                  | None => cap t = None
                  | Some c => exists k, cap t = Some k /\ k + running (execs t) + S (length js) <= c
                  end).
  { unfold CapOK in HCap. destruct (conc t) as [c|]; [|exact HCap].
    destruct HCap as [k [Hk Hle]]. exists k. split; [exact Hk|lia]. }
  destruct (t_completed (tst t)) eqn:Ecomp.
  - constructor; cbn [execs set_jobs prepared count nitems cap conc jobs tst]; try assumption.
    + unfold Core. cbn [execs set_jobs prepared count nitems cap conc jobs tst]. repeat split; try assumption.
      unfold CapOK in *. cbn [execs set_jobs prepared count nitems cap conc jobs tst].
      destruct (conc t) as [c|]; [|exact HCap]. destruct HCap as [k [Hk Hle]]. exists k. split; [exact Hk|lia].
    + intros Hs. destruct (Xq Hs) as [HR HQ]. split; [exact HR|]. intros c Hc. exfalso. exact (Hnq c Hc Hs).
  - set (t0 := set_jobs js t).
    pose proof (inc_cap_facts t0 HCapS) as Hf. cbn zeta in Hf.
    destruct Hf as [He1 [Ht1 [Hc1 [Hj1 [Hn1 [Hni1 [Hp1 Hcap1]]]]]]].
    set (t1 := increase_capacity t0) in *.
    cbn [execs tst conc jobs count nitems prepared t0 set_jobs] in He1, Ht1, Hc1, Hj1, Hn1, Hni1, Hp1, Hcap1.
    assert (HC1 : Core t1).
    { unfold Core, CapOK. rewrite Hp1, Hn1, Hni1, He1, Hc1, Hj1. repeat split; try assumption.
      destruct (conc t) as [c|]; [|exact Hcap1]. destruct Hcap1 as [k [Hk Hle]]. exists (S k). split; [exact Hk|exact Hle]. }
    destruct (items_completed t1) eqn:Eic.
    + (* completes *)
      unfold complete. rewrite Ht1, Ecomp.
      assert (Hfni : final_state (execs t1) <> TIdle) by apply final_state_not_idle.
      destruct (final_state_cases (execs t1)) as [[Hhc Hfs]|[Hhc Hfs]].
      * constructor; cbn [execs set_tst prepared count nitems cap conc jobs tst]; rewrite ?Hfs.
        -- discriminate.
        -- apply Core_set_tst. exact HC1.
        -- rewrite He1. exact Xnd.
        -- rewrite He1. exact Xacc.
        -- rewrite Hc1. exact Xpos.
        -- intros [H|[H|H]]; discriminate.
        -- intros [H|H]; discriminate.
        -- intros; discriminate.
      * unfold items_completed in Eic. rewrite Hhc in Eic. apply andb_true_iff in Eic. destruct Eic as [Hca Hfu].
        apply Nat.eqb_eq in Hca. rewrite Hn1, He1 in Hca.
        destruct (complete_cov (execs t) (count t) Xnd Xacc HF Hca) as [Hcov HR0].
        constructor; cbn [execs set_tst prepared count nitems cap conc jobs tst].
        -- exact Hfni.
        -- apply Core_set_tst. exact HC1.
        -- rewrite He1. exact Xnd.
        -- rewrite He1. exact Xacc.
        -- rewrite Hc1. exact Xpos.
        -- intros _. unfold Quiet. cbn [execs set_tst prepared count nitems cap conc jobs tst]. rewrite He1, Hc1, Hj1.
           split; [exact HR0|]. intros c Hc. unfold full_capacity in Hfu. rewrite Hc1, Hc in Hfu. rewrite Hc in Hcap1.
           destruct Hcap1 as [k [Hk Hle]]. rewrite Hk in Hfu. apply opt_eqb_some in Hfu. rewrite Hk, Hfu. split; [reflexivity|].
           destruct js; [reflexivity|simpl in Hle; lia].
        -- intros _. rewrite Hn1, He1. exact Hcov.
        -- intros Hd. exfalso. destruct Hfs as [Hfs|Hfs]; rewrite Hfs in Hd; discriminate.
    + destruct (has_more t1 && match conc t1 with Some _ => true | None => false end) eqn:Ebr.
      * (* next batch *)
        apply andb_true_iff in Ebr. destruct Ebr as [Hhm Hcs]. rewrite Hc1 in Hcs.
        destruct (conc t) as [c|] eqn:Ec; [|discriminate].
        assert (Ht : tst t = TRunning).
        { specialize (Hnq c eq_refl). destruct (tst t); try discriminate; try reflexivity; exfalso; auto. }
        unfold schedule_fx. rewrite prepare_prepared by (rewrite Hp1; exact Hp).
        destruct Hcap1 as [k [Hk Hle]].
        apply sched_fx_nonempty.
        -- rewrite Ht1. exact Ht.
        -- exact HC1.
        -- rewrite He1. exact Xnd.
        -- rewrite He1. exact Xacc.
        -- rewrite Hc1. exact Xpos.
        -- apply (has_more_next_nonempty t1 k); [rewrite He1; exact Xnd|exact Hhm|exact Hk].
      * (* nothing changes but the capacity *)
        constructor.
        -- rewrite Ht1. exact Xni.
        -- exact HC1.
        -- rewrite He1. exact Xnd.
        -- rewrite He1. exact Xacc.
        -- rewrite Hc1. exact Xpos.
        -- rewrite Ht1. intros Hs. unfold Quiet. rewrite He1, Hc1. destruct (Xq Hs) as [HR _]. split; [exact HR|].
           intros c Hc. exfalso. exact (Hnq c Hc Hs).
        -- rewrite Ht1. intros Hs. exfalso. destruct Hs as [Hs|Hs]; rewrite Hs in Ecomp; discriminate.
        -- rewrite Ht1, He1. exact Xdel.
Qed.

(* ---- the other events ---- *)

Lemma XI_accept : forall t i o v, XI t -> XI (accept i o v t).
Proof.
  intros t i o v X. pose proof (Core_accept t i o v (x_core t X)) as HC'.
  unfold accept in *. destruct (nth_error (execs t) i) as [e|] eqn:En; [|exact X].
  destruct (e_running (st e)) eqn:Er; [|exact X].
  destruct X as [Xni Xcore Xnd Xacc Xpos Xq Xcov Xdel].
  assert (Hnotq : ~ (tst t = TSuccess \/ tst t = TError \/ tst t = TDelayed)).
  { intros Hs. destruct (Xq Hs) as [HR _]. rewrite (running_zero_none _ _ _ HR En) in Er. discriminate. }
  constructor; cbn [execs set_jobs set_execs prepared count nitems cap conc jobs tst].
  - exact Xni.
  - exact HC'.
  - erewrite started_upd; [exact Xnd|exact En|reflexivity| |reflexivity].
    unfold p_started. rewrite Er. apply orb_true_r.
  - apply AccC_upd; [exact Xacc|]. intros _. cbn [st]. apply outcome_completed.
  - exact Xpos.
  - intros Hs. exfalso. exact (Hnotq Hs).
  - intros Hs. exfalso. apply Hnotq. destruct Hs as [Hs|Hs]; auto.
  - intros Hs. exfalso. apply Hnotq. auto.
Qed.

Definition resetf (flag : bool) (e : exec) : exec :=
  if flag || (acc e && (e_error (st e) || e_cancelled (st e))) then mkExec (idx e) (st e) false (out e) else e.

Lemma reset_is_mapf : forall flag l, reset_actions flag l = map (resetf flag) l.
Proof. reflexivity. Qed.

Lemma resetf_idx : forall f e, idx (resetf f e) = idx e.
Proof. intros f e. unfold resetf. destruct (f || _); reflexivity. Qed.

Lemma resetf_started : forall f e, p_started (resetf f e) = true -> p_started e = true.
Proof.
  intros f e. unfold resetf. destruct (f || _); [|auto]. unfold p_started. cbn [acc st]. intros H.
  simpl in H. rewrite H. apply orb_true_r.
Qed.

Lemma resetf_acc : forall f e, acc (resetf f e) = true -> acc e = true /\ st (resetf f e) = st e.
Proof. intros f e. unfold resetf. destruct (f || _); cbn [acc st]; [discriminate|auto]. Qed.

Lemma AccC_reset : forall f l, AccC l -> AccC (reset_actions f l).
Proof.
  intros f l H. rewrite reset_is_mapf. unfold AccC in *. rewrite Forall_forall in *. intros e' He'.
  apply in_map_iff in He'. destruct He' as [e [He Hin]]. subst e'. intros Ha.
  destruct (resetf_acc f e Ha) as [Ha' Hs]. rewrite Hs. apply H; assumption.
Qed.

Lemma NoDup_reset : forall f l,
  NoDup (map idx (filter p_started l)) -> NoDup (map idx (filter p_started (reset_actions f l))).
Proof. intros f l H. rewrite reset_is_mapf. apply NoDup_started_map; [apply resetf_idx|apply resetf_started|exact H]. Qed.

Lemma XI_start : forall n c, XI (step_fx init (Start n c)).
Proof.
  intros n c. cbn [step_fx tst init execs prepared cap count jobs]. unfold schedule_fx.
  set (t0 := prepare _).
  assert (Ht0 : t0 = mkTask [] n (policy_conc c) true (policy_conc c) n TRunning []) by reflexivity.
  rewrite Ht0. apply sched_fx_quiet; cbn [execs tst conc cap jobs].
  - reflexivity.
  - unfold Core, CapOK. cbn. repeat split; [constructor|].
    destruct (policy_conc c) as [k|]; [exists k; split; [reflexivity|lia]|reflexivity].
  - constructor.
  - constructor.
  - apply policy_conc_pos.
  - split; [reflexivity|]. cbn [conc cap jobs]. intros k Hk. rewrite Hk. split; reflexivity.
Qed.

Lemma XI_retry : forall t, XI t -> XI (step_fx t RetryInvalidate).
Proof.
  intros t X. cbn [step_fx].
  assert (HG : tst t = TSuccess \/ tst t = TError ->
               XI (set_tst TDelayed (set_execs (invalidate (execs t)) t))).
  { intros Hs. destruct X as [Xni Xcore Xnd Xacc Xpos Xq Xcov Xdel].
    assert (Hs3 : tst t = TSuccess \/ tst t = TError \/ tst t = TDelayed) by (destruct Hs; auto).
    destruct (Xq Hs3) as [HR HQ].
    assert (Hstart : filter p_started (invalidate (execs t)) = []).
    { apply filter_none. intros e' He'. unfold invalidate in He'. apply in_map_iff in He'.
      destruct He' as [e [He Hin]]. subst e'. unfold p_started. cbn [acc st].
      pose proof (running_zero_all _ HR) as Hz. rewrite Forall_forall in Hz. apply Hz. exact Hin. }
    constructor; cbn [execs set_tst set_execs prepared count nitems cap conc jobs tst].
    - discriminate.
    - destruct Xcore as [Hp [Hc [HF HCap]]]. unfold Core.
      cbn [execs set_tst set_execs prepared count nitems cap conc jobs tst]. repeat split; try assumption.
      + eapply (Forall_idx_transfer (fun i => i < count t)); [apply idx_invalidate|exact HF].
      + unfold CapOK in *. cbn [execs set_tst set_execs prepared count nitems cap conc jobs tst].
        rewrite running_invalidate. exact HCap.
    - rewrite Hstart. constructor.
    - apply Forall_forall. intros e' He'. unfold invalidate in He'. apply in_map_iff in He'.
      destruct He' as [e [He _]]. subst e'. discriminate.
    - exact Xpos.
    - intros _. unfold Quiet. cbn [execs set_tst set_execs prepared count nitems cap conc jobs tst].
      rewrite running_invalidate. split; [exact HR|exact HQ].
    - intros [H|H]; discriminate.
    - intros _. apply Forall_forall. intros e' He'. unfold invalidate in He'. apply in_map_iff in He'.
      destruct He' as [e [He _]]. subst e'. reflexivity. }
  destruct (tst t) eqn:Et; try exact X; apply HG; auto.
Qed.

Lemma XI_continue : forall t, XI t -> XI (step_fx t Continue).
Proof.
  intros t X. cbn [step_fx]. destruct (tst t) eqn:Et; try exact X.
  destruct X as [Xni Xcore Xnd Xacc Xpos Xq Xcov Xdel].
  destruct (Xq (or_intror (or_intror Et))) as [HR HQ].
  unfold schedule_fx. rewrite prepare_prepared by (apply Xcore).
  apply sched_fx_quiet; cbn [execs set_tst set_execs prepared count nitems cap conc jobs tst].
  - reflexivity.
  - destruct Xcore as [Hp [Hc [HF HCap]]]. unfold Core.
    cbn [execs set_tst set_execs prepared count nitems cap conc jobs tst]. repeat split; try assumption.
    + eapply (Forall_idx_transfer (fun i => i < count t)); [apply idx_reset|exact HF].
    + unfold CapOK in *. cbn [execs set_tst set_execs prepared count nitems cap conc jobs tst].
      rewrite running_reset. exact HCap.
  - apply NoDup_reset. exact Xnd.
  - apply AccC_reset. exact Xacc.
  - exact Xpos.
  - unfold Quiet. cbn [execs set_tst set_execs prepared count nitems cap conc jobs tst]. rewrite running_reset.
    split; [exact HR|exact HQ].
Qed.

Lemma XI_rerun : forall t f, XI t -> XI (step_fx t (Rerun f)).
Proof.
  intros t f X. cbn [step_fx]. destruct (tst t) eqn:Et; try exact X.
  destruct X as [Xni Xcore Xnd Xacc Xpos Xq Xcov Xdel].
  destruct (Xq (or_intror (or_introl Et))) as [HR HQ].
  destruct Xcore as [Hp [Hc [HF HCap]]].
  unfold schedule_fx.
  set (l0 := reset_actions f (execs t)).
  assert (Hprep : prepare (set_execs l0 (set_tst TRunning (cleanup t))) =
                  mkTask l0 (nitems t) (conc t) true (conc t) (nitems t) TRunning (jobs t)) by reflexivity.
  rewrite Hprep. clear Hprep.
  apply sched_fx_quiet; cbn [execs prepared count nitems cap conc jobs tst].
  - reflexivity.
  - unfold Core, CapOK. cbn [execs prepared count nitems cap conc jobs tst]. repeat split.
    + eapply (Forall_idx_transfer (fun i => i < nitems t)); [apply idx_reset|]. rewrite <- Hc. exact HF.
    + unfold l0. rewrite running_reset. destruct (conc t) as [c|] eqn:Ec; [|reflexivity].
      destruct (HQ c eq_refl) as [_ Hj]. exists c. rewrite HR, Hj. split; [reflexivity|simpl; lia].
  - apply NoDup_reset. exact Xnd.
  - apply AccC_reset. exact Xacc.
  - exact Xpos.
  - unfold Quiet. cbn [execs prepared count nitems cap conc jobs tst]. unfold l0. rewrite running_reset.
    split; [exact HR|]. intros c Hcc. split; [exact Hcc|]. destruct (HQ c Hcc) as [_ Hj]. exact Hj.
Qed.

Definition XInv (t : task) : Prop := t = init \/ XI t.

Lemma step_fx_init : forall e, (forall n c, e <> Start n c) -> step_fx init e = init.
Proof.
  intros e H. destruct e; try reflexivity.
  - exfalso. eapply H. reflexivity.
  - simpl. unfold accept. simpl. destruct i; reflexivity.
Qed.

Lemma XInv_step : forall t e, XInv t -> XInv (step_fx t e).
Proof.
  intros t e [Hi|X].
  - subst t. destruct e as [n c|i o v|i| | |f]; try (left; apply step_fx_init; intros; discriminate).
    right. apply XI_start.
  - right. destruct e as [n c|i o v|i| | |f].
    + cbn [step_fx]. destruct (tst t) eqn:Et; try exact X. exfalso. exact (x_ni t X Et).
    + apply XI_accept. exact X.
    + apply XI_handle. exact X.
    + apply XI_retry. exact X.
    + apply XI_continue. exact X.
    + apply XI_rerun. exact X.
Qed.

Lemma XInv_run : forall evs, XInv (run_fx evs).
Proof.
  intros evs. unfold run_fx. assert (H : XInv init) by (left; reflexivity). revert H. generalize init.
  induction evs as [|e evs IH]; intros t H; [exact H|]. simpl. apply IH. apply XInv_step. exact H.
Qed.

(* ------------------------------------------------------------------ *)
(* theorems about the fixed variant: ALL event lists *)

Theorem fx_index_once_always : forall evs, NoDup (map idx (filter p_live (execs (run_fx evs)))).
Proof.
  intros evs. destruct (XInv_run evs) as [Hi|X]; [rewrite Hi; constructor|]. exact (x_nd _ X).
Qed.

Theorem fx_index_lt_count : forall evs e, In e (execs (run_fx evs)) -> idx e < nitems (run_fx evs).
Proof.
  intros evs e Hin. destruct (XInv_run evs) as [Hi|X]; [rewrite Hi in Hin; destruct Hin|].
  destruct (x_core _ X) as [_ [Hc [HF _]]]. rewrite Forall_forall in HF. rewrite <- Hc. apply HF. exact Hin.
Qed.

Theorem fx_running_le_concurrency : forall evs c,
  conc (run_fx evs) = Some c -> running (execs (run_fx evs)) <= c.
Proof.
  intros evs c Hc. destruct (XInv_run evs) as [Hi|X]; [rewrite Hi in Hc; discriminate|].
  destruct (x_core _ X) as [_ [_ [_ HCap]]]. unfold CapOK in HCap. rewrite Hc in HCap.
  destruct HCap as [k [_ Hle]]. lia.
Qed.

(* SUCCESS / ERROR only when every item has exactly one counted execution and nothing is RUNNING *)
Theorem fx_complete_covers_all_items : forall evs,
  tst (run_fx evs) = TSuccess \/ tst (run_fx evs) = TError ->
  running (execs (run_fx evs)) = 0 /\
  (forall i, i < nitems (run_fx evs) -> exists e, In e (execs (run_fx evs)) /\ acc e = true /\ idx e = i) /\
  (forall e1 e2, In e1 (execs (run_fx evs)) -> In e2 (execs (run_fx evs)) ->
     acc e1 = true -> acc e2 = true -> idx e1 = idx e2 -> e1 = e2).
Proof.
  intros evs Hs. destruct (XInv_run evs) as [Hi|X]; [rewrite Hi in Hs; destruct Hs; discriminate|].
  assert (Hs3 : tst (run_fx evs) = TSuccess \/ tst (run_fx evs) = TError \/ tst (run_fx evs) = TDelayed)
    by (destruct Hs; auto).
  destruct (x_quiet _ X Hs3) as [HR _]. split; [exact HR|]. split.
  - intros i Hi. destruct (x_core _ X) as [_ [Hc _]]. rewrite <- Hc in Hi.
    pose proof (x_cov _ X Hs i Hi) as H. apply idx_in_true in H. destruct H as [e [Hin [Ha He]]]. eauto.
  - intros e1 e2 H1 H2 Ha1 Ha2 He.
    apply (nodup_idx_inj (filter p_started (execs (run_fx evs)))); [exact (x_nd _ X)| | |exact He];
      apply filter_In; split; try assumption; apply acc_started; assumption.
Qed.

Definition failed_n (n : nat) (l : list exec) : list nat := filter (fun i => idx_in p_failed l i) (seq 0 n).

Lemma p_failed_acc : forall e, p_failed e = true -> acc e = true.
Proof. intros e H. unfold p_failed in H. apply andb_true_iff in H. apply H. Qed.

Lemma resetf_false_failed : forall e, p_failed e = true -> resetf false e = mkExec (idx e) (st e) false (out e).
Proof. intros e H. unfold resetf, p_failed in *. simpl. rewrite H. reflexivity. Qed.

Lemma resetf_false_ok : forall e, p_failed e = false -> resetf false e = e.
Proof. intros e H. unfold resetf, p_failed in *. simpl. rewrite H. reflexivity. Qed.

(* a partial rerun starts exactly the failed items (first batch, cut at the concurrency limit) - any history *)
Theorem fx_partial_rerun_only_failed : forall evs,
  tst (run_fx evs) = TError ->
  started_by (run_fx evs) (step_fx (run_fx evs) (Rerun false)) =
  take_cap (conc (run_fx evs)) (failed_n (nitems (run_fx evs)) (execs (run_fx evs))).
Proof.
  intros evs Et. set (t := run_fx evs) in *.
  destruct (XInv_run evs) as [Hi|X]; [fold t in Hi; rewrite Hi in Et; discriminate|]. fold t in X.
  destruct (x_quiet _ X (or_intror (or_introl Et))) as [HR _].
  pose proof (x_cov _ X (or_intror Et)) as Hcov. pose proof (x_nd _ X) as Hnd.
  destruct (x_core _ X) as [_ [Hc _]].
  pose proof (running_zero_all _ HR) as Hz. rewrite Forall_forall in Hz.
  cbn [step_fx]. rewrite Et. unfold schedule_fx.
  set (l0 := reset_actions false (execs t)).
  assert (Hprep : prepare (set_execs l0 (set_tst TRunning (cleanup t))) =
                  mkTask l0 (nitems t) (conc t) true (conc t) (nitems t) TRunning (jobs t)) by reflexivity.
  rewrite Hprep. clear Hprep. set (t0 := mkTask _ _ _ _ _ _ _ _).
  assert (Hnext : next_indexes_fx t0 = take_cap (conc t) (failed_n (nitems t) (execs t))).
  { unfold next_indexes_fx, all_next_fx, failed_n. cbn [cap count execs t0]. f_equal.
    apply filter_ext_in. intros i Hi. apply in_seq in Hi. rewrite <- Hc in Hi.
    assert (Hi' : i < count t) by lia.
    pose proof (Hcov i Hi') as Hci. apply idx_in_true in Hci. destruct Hci as [ei [Hini [Hai Hii]]].
    assert (Huniq : forall e2, In e2 (execs t) -> p_started e2 = true -> idx e2 = i -> e2 = ei).
    { intros e2 H2 Hp2 Hi2. apply (nodup_idx_inj (filter p_started (execs t))); [exact Hnd| | |congruence];
        apply filter_In; split; try assumption. apply acc_started. exact Hai. }
    destruct (p_failed ei) eqn:Ef.
    - assert (Hfi : idx_in p_failed (execs t) i = true) by (eapply idx_in_intro; eauto). rewrite Hfi.
      apply negb_true_iff. destruct (occupied l0 i) eqn:Eo; [|reflexivity]. exfalso.
      unfold occupied in Eo. apply idx_in_true in Eo. destruct Eo as [e' [Hin' [Hp' Hi'']]].
      unfold l0 in Hin'. rewrite reset_is_mapf in Hin'. apply in_map_iff in Hin'. destruct Hin' as [e2 [He2 Hin2]].
      subst e'. rewrite resetf_idx in Hi''.
      assert (e2 = ei) by (apply Huniq; [exact Hin2|apply (resetf_started false); exact Hp'|exact Hi'']).
      subst e2. rewrite (resetf_false_failed _ Ef) in Hp'. unfold p_started in Hp'. cbn [acc st] in Hp'.
      rewrite (Hz ei Hini) in Hp'. discriminate.
    - assert (Hfi : idx_in p_failed (execs t) i = false).
      { destruct (idx_in p_failed (execs t) i) eqn:E; [|reflexivity]. exfalso. apply idx_in_true in E.
        destruct E as [e2 [Hin2 [Hp2 Hi2]]].
        assert (e2 = ei) by (apply Huniq; [exact Hin2|apply acc_started; apply p_failed_acc; exact Hp2|exact Hi2]).
        subst e2. congruence. }
      rewrite Hfi. apply negb_false_iff. unfold occupied. eapply (idx_in_intro p_started l0 i (resetf false ei)).
      + unfold l0. rewrite reset_is_mapf. apply in_map. exact Hini.
      + rewrite (resetf_false_ok _ Ef). apply acc_started. exact Hai.
      + rewrite resetf_idx. exact Hii. }
  assert (Hex : execs (schedule_body_fx t0) = l0 ++ map new_exec (take_cap (conc t) (failed_n (nitems t) (execs t)))).
  { unfold schedule_body_fx. rewrite Hnext. destruct (take_cap (conc t) _) as [|x r].
    - unfold complete. simpl. rewrite app_nil_r. reflexivity.
    - reflexivity. }
  unfold started_by. rewrite Hex.
  assert (Hlen : length (execs t) = length l0).
  { unfold l0. rewrite <- (map_length idx (reset_actions false (execs t))), idx_reset, map_length. reflexivity. }
  rewrite Hlen, skipn_app, skipn_all, Nat.sub_diag. simpl. apply map_idx_new.
Qed.

Lemma sorted_map_idx : forall l, StronglySorted idx_le l -> StronglySorted le (map idx l).
Proof.
  induction l as [|x l IH]; intros H; [constructor|]. inversion H as [|? ? Hs Hf]; subst. simpl.
  constructor; [apply IH; exact Hs|]. rewrite Forall_map. exact Hf.
Qed.

Lemma sorted_nat_perm_eq : forall l1 l2 : list nat,
  StronglySorted le l1 -> StronglySorted le l2 -> Permutation l1 l2 -> NoDup l1 -> l1 = l2.
Proof.
  induction l1 as [|a l1 IH]; intros l2 H1 H2 Hp Hn.
  - apply Permutation_nil in Hp. subst. reflexivity.
  - destruct l2 as [|b l2]; [apply Permutation_sym, Permutation_nil in Hp; discriminate|].
    assert (Hab : a = b).
    { assert (Ha : In a (b :: l2)) by (eapply Permutation_in; [exact Hp|left; reflexivity]).
      assert (Hb : In b (a :: l1)) by (eapply Permutation_in; [apply Permutation_sym; exact Hp|left; reflexivity]).
      destruct Ha as [Ha|Ha]; [symmetry; exact Ha|]. destruct Hb as [Hb|Hb]; [exact Hb|].
      inversion H1 as [|? ? _ Hf1]; subst. inversion H2 as [|? ? _ Hf2]; subst.
      rewrite Forall_forall in Hf1, Hf2. specialize (Hf1 b Hb). specialize (Hf2 a Ha). lia. }
    subst b. f_equal. apply IH.
    + inversion H1; assumption.
    + inversion H2; assumption.
    + eapply Permutation_cons_inv. exact Hp.
    + inversion Hn; assumption.
Qed.

Lemma seq_sorted : forall n a, StronglySorted le (seq a n).
Proof.
  induction n as [|n IH]; intros a; [constructor|]. simpl. constructor; [apply IH|].
  apply Forall_forall. intros x Hx. apply in_seq in Hx. lia.
Qed.

(* completed task, any history: the result has n entries and entry i is the counted output of item i *)
Theorem fx_result_in_item_order : forall evs,
  tst (run_fx evs) = TSuccess \/ tst (run_fx evs) = TError ->
  map idx (result_execs (execs (run_fx evs))) = seq 0 (nitems (run_fx evs)) /\
  length (result (execs (run_fx evs))) = nitems (run_fx evs).
Proof.
  intros evs Hs. set (t := run_fx evs) in *.
  destruct (XInv_run evs) as [Hi|X]; [fold t in Hi; rewrite Hi in Hs; destruct Hs; discriminate|]. fold t in X.
  destruct (x_core _ X) as [_ [Hc [HF _]]]. pose proof (x_cov _ X Hs) as Hcov.
  assert (HndA : NoDup (map idx (filter acc (execs t)))).
  { eapply NoDup_sub_filter; [apply acc_started|exact (x_nd _ X)]. }
  assert (Hperm : Permutation (map idx (result_execs (execs t))) (map idx (filter acc (execs t)))).
  { apply Permutation_map. apply result_perm. }
  assert (Hnd : NoDup (map idx (result_execs (execs t)))).
  { eapply Permutation_NoDup; [apply Permutation_sym; exact Hperm|exact HndA]. }
  assert (Heq : map idx (result_execs (execs t)) = seq 0 (nitems t)).
  { apply sorted_nat_perm_eq.
    - apply sorted_map_idx. apply result_sorted.
    - apply seq_sorted.
    - apply NoDup_Permutation; [exact Hnd|apply seq_NoDup|]. intros x. rewrite in_seq. split.
      + intros Hx. apply (Permutation_in _ Hperm) in Hx. apply in_map_iff in Hx. destruct Hx as [e [He Hin]].
        apply filter_In in Hin. rewrite Forall_forall in HF. specialize (HF e (proj1 Hin)). subst x. lia.
      + intros Hx. assert (Hx' : x < count t) by lia. specialize (Hcov x Hx'). apply idx_in_true in Hcov.
        destruct Hcov as [e [Hin [Ha He]]]. apply (Permutation_in _ (Permutation_sym Hperm)).
        subst x. apply in_map. apply filter_In. auto.
    - exact Hnd. }
  split; [exact Heq|]. unfold result. rewrite map_length, <- (map_length idx), Heq, seq_length. reflexivity.
Qed.

(* a retry (and likewise a rerun with reset) starts every item again, first batch cut at the concurrency limit *)
Theorem fx_retry_restarts_all : forall evs,
  tst (run_fx evs) = TDelayed ->
  started_by (run_fx evs) (step_fx (run_fx evs) Continue) =
  take_cap (conc (run_fx evs)) (seq 0 (nitems (run_fx evs))).
Proof.
  intros evs Et. set (t := run_fx evs) in *.
  destruct (XInv_run evs) as [Hi|X]; [fold t in Hi; rewrite Hi in Et; discriminate|]. fold t in X.
  destruct (x_quiet _ X (or_intror (or_intror Et))) as [HR HQ].
  pose proof (x_del _ X Et) as Hdel. destruct (x_core _ X) as [Hp [Hc [_ HCap]]].
  pose proof (running_zero_all _ HR) as Hz. rewrite Forall_forall in Hz, Hdel.
  cbn [step_fx]. rewrite Et. unfold schedule_fx. rewrite prepare_prepared by exact Hp.
  set (l0 := reset_actions false (execs t)).
  set (t0 := set_execs l0 (set_tst TRunning t)).
  assert (Hcapc : cap t = conc t).
  { unfold CapOK in HCap. destruct (conc t) as [c|] eqn:Ec; [apply (HQ c eq_refl)|exact HCap]. }
  assert (Hnext : next_indexes_fx t0 = take_cap (conc t) (seq 0 (nitems t))).
  { unfold next_indexes_fx, all_next_fx. cbn [cap count execs t0 set_execs set_tst]. rewrite Hcapc, Hc. f_equal.
    apply filter_all. intros i _. apply negb_true_iff. unfold occupied. apply idx_in_none. intros e' He'.
    unfold l0 in He'. rewrite reset_is_mapf in He'. apply in_map_iff in He'. destruct He' as [e [He Hin]]. subst e'.
    destruct (p_started (resetf false e)) eqn:E; [|reflexivity]. apply resetf_started in E.
    unfold p_started in E. rewrite (Hdel e Hin), (Hz e Hin) in E. discriminate. }
  assert (Hex : execs (schedule_body_fx t0) = l0 ++ map new_exec (take_cap (conc t) (seq 0 (nitems t)))).
  { unfold schedule_body_fx. rewrite Hnext. destruct (take_cap (conc t) _) as [|x r].
    - unfold complete. destruct (t_completed (tst t0)); simpl; rewrite app_nil_r; reflexivity.
    - reflexivity. }
  unfold started_by. rewrite Hex.
  assert (Hlen : length (execs t) = length l0).
  { unfold l0. rewrite <- (map_length idx (reset_actions false (execs t))), idx_reset, map_length. reflexivity. }
  rewrite Hlen, skipn_app, skipn_all, Nat.sub_diag. simpl. apply map_idx_new.
Qed.

(* ------------------------------------------------------------------ *)
(* liveness of the fixed variant, all event lists: a RUNNING task always has a RUNNING item or an unhandled
   completion, and its capacity counter is exact *)

Record LI (t : task) : Prop := {
  l_eq : tst t = TRunning -> forall c, conc t = Some c ->
         exists k, cap t = Some k /\ k + running (execs t) + length (jobs t) = c;
  l_all : tst t = TRunning -> conc t = None -> forall i, i < count t -> occupied (execs t) i = true;
  l_run : tst t = TRunning ->
          0 < count t /\ (running (execs t) = 0 -> jobs t = [] -> False) /\
          (has_cancelled (execs t) = true -> jobs t <> [])
}.

Lemma occupied_app : forall l1 l2 i, occupied (l1 ++ l2) i = occupied l1 i || occupied l2 i.
Proof. intros. unfold occupied, idx_in. apply existsb_app. Qed.

Lemma occupied_new : forall l i, In i l -> occupied (map new_exec l) i = true.
Proof.
  intros l i H. unfold occupied. eapply (idx_in_intro p_started _ i (new_exec i)); [apply in_map; exact H|reflexivity|reflexivity].
Qed.

(* after a non-empty batch *)
Lemma LI_sched_nonempty : forall t,
  tst t = TRunning -> Core t ->
  (forall c, conc t = Some c -> exists k, cap t = Some k /\ k + running (execs t) + length (jobs t) = c) ->
  (conc t = None -> cap t = None) ->
  has_cancelled (execs t) = false ->
  next_indexes_fx t <> [] -> LI (schedule_body_fx t).
Proof.
  intros t Ht HC Heq Hnone Hhc Hne.
  pose proof (next_fx_in t) as Hin2.
  unfold schedule_body_fx. destruct (next_indexes_fx t) as [|x l] eqn:E; [contradiction|].
  constructor; cbn [execs set_cap set_execs prepared count nitems cap conc jobs tst]; intros _.
  - intros c Hc. destruct (Heq c Hc) as [k [Hk Hsum]]. rewrite Hk. cbn [dec_cap]. eexists. split; [reflexivity|].
    assert (Hlen : length (x :: l) <= k).
    { rewrite <- E. unfold next_indexes_fx. rewrite Hk. apply length_take_cap_le. }
    rewrite running_app, running_new. lia.
  - intros Hc i Hi. rewrite occupied_app. destruct (occupied (execs t) i) eqn:Eo; [reflexivity|]. cbn [orb].
    apply occupied_new. rewrite <- E. unfold next_indexes_fx. rewrite (Hnone Hc). cbn [take_cap].
    apply all_next_fx_spec. auto.
  - split; [|split].
    + destruct (Hin2 x (or_introl eq_refl)) as [Hx _]. lia.
    + rewrite running_app, running_new. simpl. intros; lia.
    + rewrite has_cancelled_app, Hhc, has_cancelled_new. intros; discriminate.
Qed.

Lemma LI_not_running : forall t, tst t <> TRunning -> LI t.
Proof. intros t H. constructor; intros Ht; exfalso; exact (H Ht). Qed.

Lemma sched_fx_tst : forall t, tst t = TRunning ->
  (next_indexes_fx t = [] /\ tst (schedule_body_fx t) = TSuccess) \/
  (next_indexes_fx t <> [] /\ tst (schedule_body_fx t) = TRunning).
Proof.
  intros t Ht. unfold schedule_body_fx. destruct (next_indexes_fx t) eqn:E.
  - left. split; [reflexivity|]. unfold complete. rewrite Ht. reflexivity.
  - right. split; [discriminate|exact Ht].
Qed.

(* scheduling from a quiet state (Start, Continue, Rerun) *)
Lemma LI_sched_quiet : forall t,
  tst t = TRunning -> Core t -> Quiet t -> has_cancelled (execs t) = false -> LI (schedule_body_fx t).
Proof.
  intros t Ht HC [HR HQ] Hhc. destruct (sched_fx_tst t Ht) as [[_ Hs]|[Hne _]].
  - apply LI_not_running. rewrite Hs. discriminate.
  - apply LI_sched_nonempty; try assumption.
    + intros c Hc. destruct (HQ c Hc) as [Hk Hj]. exists c. rewrite HR, Hj. split; [exact Hk|simpl; lia].
    + intros Hc. destruct HC as [_ [_ [_ HCap]]]. unfold CapOK in HCap. rewrite Hc in HCap. exact HCap.
Qed.

Lemma has_cancelled_reset : forall f l, has_cancelled (reset_actions f l) = false.
Proof.
  intros f l. unfold has_cancelled. destruct (existsb _ (reset_actions f l)) eqn:E; [|reflexivity]. exfalso.
  apply existsb_exists in E. destruct E as [e' [Hin He]]. rewrite reset_is_mapf in Hin. apply in_map_iff in Hin.
  destruct Hin as [e [Hee _]]. subst e'. apply andb_true_iff in He. destruct He as [Ha Hc].
  destruct (resetf_acc f e Ha) as [Hae Hst]. rewrite Hst in Hc.
  unfold resetf in Ha. rewrite Hae, Hc in Ha. rewrite orb_true_r, orb_true_r in Ha. cbn [acc] in Ha. discriminate.
Qed.

Lemma occupied_ext : forall l l' i,
  map idx (filter p_started l') = map idx (filter p_started l) -> occupied l' i = occupied l i.
Proof.
  intros l l' i H. destruct (occupied l i) eqn:E.
  - apply occupied_iff. rewrite H. apply occupied_iff. exact E.
  - destruct (occupied l' i) eqn:E'; [|reflexivity]. apply occupied_iff in E'. rewrite H in E'.
    apply occupied_iff in E'. congruence.
Qed.

Lemma LI_accept : forall t i o v, XI t -> LI t -> LI (accept i o v t).
Proof.
  intros t i o v X L. unfold accept. destruct (nth_error (execs t) i) as [e|] eqn:En; [|exact L].
  destruct (e_running (st e)) eqn:Er; [|exact L].
  pose proof (running_upd (execs t) i e (mkExec (idx e) (outcome_state o) true v) En Er (outcome_not_running o)) as Hr.
  destruct L as [Leq Lall Lrun].
  constructor; cbn [execs set_jobs set_execs prepared count nitems cap conc jobs tst]; intros Ht.
  - intros c Hc. destruct (Leq Ht c Hc) as [k [Hk Hsum]]. exists k. split; [exact Hk|]. rewrite app_length. simpl. lia.
  - intros Hc j Hj. rewrite (occupied_ext (execs t)); [exact (Lall Ht Hc j Hj)|].
    eapply started_upd; [exact En|reflexivity| |reflexivity]. unfold p_started. rewrite Er. apply orb_true_r.
  - destruct (Lrun Ht) as [Hc _]. split; [exact Hc|]. split.
    + intros _ Hj. exact (app_one_not_nil _ _ _ Hj).
    + intros _. apply app_one_not_nil.
Qed.

Lemma acc_le_count : forall l n,
  NoDup (map idx (filter p_started l)) -> Forall (fun e => idx e < n) l -> length (filter acc l) <= n.
Proof.
  intros l n Hnd HF.
  assert (HndA : NoDup (map idx (filter acc l))) by (eapply NoDup_sub_filter; [apply acc_started|exact Hnd]).
  assert (Hincl : incl (map idx (filter acc l)) (seq 0 n)).
  { intros x Hx. apply in_map_iff in Hx. destruct Hx as [e [He Hin]]. apply filter_In in Hin.
    rewrite Forall_forall in HF. specialize (HF e (proj1 Hin)). apply in_seq. lia. }
  pose proof (NoDup_incl_length HndA Hincl) as H. rewrite map_length, seq_length in H. exact H.
Qed.

Lemma started_is_acc : forall l, running l = 0 -> filter p_started l = filter acc l.
Proof.
  intros l HR. apply filter_ext_in. intros e He. pose proof (running_zero_all _ HR) as Hz.
  rewrite Forall_forall in Hz. unfold p_started. rewrite (Hz e He). apply orb_false_r.
Qed.

Lemma schedule_body_fx_tst_any : forall t,
  tst (schedule_body_fx t) = tst t \/ tst (schedule_body_fx t) = TSuccess.
Proof.
  intros t. unfold schedule_body_fx. destruct (next_indexes_fx t).
  - unfold complete. destruct (t_completed (tst t)); [left; reflexivity|right; reflexivity].
  - left. reflexivity.
Qed.

Lemma LI_handle : forall t i, XI t -> LI t -> LI (step_fx t (Handle i)).
Proof.
  intros t i X L. cbn [step_fx]. destruct (mem i (jobs t)) eqn:Em; [|exact L].
  apply mem_true_in in Em. pose proof (length_remove_first _ _ Em) as Hlen.
  set (js := remove_first i (jobs t)) in *.
  pose proof (x_ni t X) as Xni'.
  destruct (tst t) eqn:Et;
    try (apply LI_not_running; unfold on_action_complete_fx; cbn [tst set_jobs]; rewrite Et; cbn [t_completed tst set_jobs]; rewrite ?Et; discriminate).
  - exfalso. apply Xni'. reflexivity.
  - (* RUNNING *)
    destruct X as [Xni Xcore Xnd Xacc Xpos Xq Xcov Xdel]. destruct L as [Leq Lall Lrun].
    destruct Xcore as [Hp [Hcn [HF HCap]]]. destruct (Lrun Et) as [Hcnt [_ _]].
    unfold on_action_complete_fx. cbn [tst set_jobs]. rewrite Et. cbn [t_completed].
    assert (HCapS : match conc t with
                    | None => cap t = None
                    | Some c => exists k, cap t = Some k /\ k + running (execs t) + S (length js) <= c
                    end).
    { unfold CapOK in HCap. destruct (conc t) as [c|]; [|exact HCap].
      destruct HCap as [k [Hk Hle]]. exists k. split; [exact Hk|lia]. }
    set (t0 := set_jobs js t).
    pose proof (inc_cap_facts t0 HCapS) as Hf. cbn zeta in Hf.
    destruct Hf as [He1 [Ht1 [Hc1 [Hj1 [Hn1 [Hni1 [Hp1 Hcap1]]]]]]].
    set (t1 := increase_capacity t0) in *.
    cbn [execs tst conc jobs count nitems prepared t0 set_jobs] in He1, Ht1, Hc1, Hj1, Hn1, Hni1, Hp1, Hcap1.
    assert (Heq1 : forall c, conc t = Some c -> exists k, cap t1 = Some k /\ k + running (execs t) + length js = c).
    { intros c Hc. destruct (Leq Et c Hc) as [k [Hk Hsum]]. rewrite Hc in Hcap1. destruct Hcap1 as [k1 [Hk1 _]].
      unfold t1, increase_capacity in Hk1 |- *. cbn [conc cap t0 set_jobs] in Hk1 |- *. rewrite Hc, Hk in Hk1 |- *.
      assert (Hlt : k <? c = true) by (apply Nat.ltb_lt; lia). rewrite Hlt in Hk1 |- *.
      cbn [cap set_cap]. exists (S k). split; [reflexivity|lia]. }
    assert (HC1 : Core t1).
    { unfold Core, CapOK. rewrite Hp1, Hn1, Hni1, He1, Hc1, Hj1. repeat split; try assumption.
      destruct (conc t) as [c|]; [|exact Hcap1]. destruct Hcap1 as [k [Hk Hle]]. exists (S k). split; [exact Hk|exact Hle]. }
    destruct (items_completed t1) eqn:Eic.
    + apply LI_not_running. unfold complete. rewrite Ht1, Et. cbn [t_completed tst set_tst].
      destruct (final_state_cases (execs t1)) as [[_ H]|[_ [H|H]]]; rewrite H; discriminate.
    + assert (Hhc : has_cancelled (execs t) = false).
      { unfold items_completed in Eic. rewrite He1 in Eic. destruct (has_cancelled (execs t)); [discriminate|reflexivity]. }
      destruct (has_more t1 && match conc t1 with Some _ => true | None => false end) eqn:Ebr.
      * apply andb_true_iff in Ebr. destruct Ebr as [Hhm Hcs]. rewrite Hc1 in Hcs.
        destruct (conc t) as [c|] eqn:Ec; [|discriminate].
        unfold schedule_fx. rewrite prepare_prepared by (rewrite Hp1; exact Hp).
        destruct Hcap1 as [k [Hk Hle]].
        apply LI_sched_nonempty.
        -- rewrite Ht1. exact Et.
        -- exact HC1.
        -- rewrite Hc1, He1, Hj1. exact Heq1.
        -- rewrite Hc1. intros; discriminate.
        -- rewrite He1. exact Hhc.
        -- apply (has_more_next_nonempty t1 k); [rewrite He1; exact Xnd|exact Hhm|exact Hk].
      * constructor; rewrite ?Ht1, ?He1, ?Hc1, ?Hj1, ?Hn1; intros _.
        -- exact Heq1.
        -- exact (Lall Et).
        -- split; [exact Hcnt|]. split; [|rewrite Hhc; intros; discriminate].
           intros HR0 Hjs.
           assert (Hle : length (filter acc (execs t)) <= count t) by (apply acc_le_count; assumption).
           unfold items_completed in Eic. rewrite He1, Hhc, Hn1 in Eic.
           assert (Hcount' : (if count t =? 0 then 1 else count t) = count t).
           { destruct (count t =? 0) eqn:E0; [apply Nat.eqb_eq in E0; lia|reflexivity]. }
           rewrite Hcount' in Eic.
           assert (Hfull : full_capacity t1 = true).
           { unfold full_capacity. rewrite Hc1. destruct (conc t) as [c|] eqn:Ec; [|reflexivity].
             destruct (Heq1 c eq_refl) as [k [Hk Hsum]]. rewrite Hk, HR0, Hjs in *. simpl in Hsum.
             assert (k = c) by lia. subst k. simpl. apply Nat.eqb_refl. }
           rewrite Hfull, andb_true_r in Eic. apply Nat.eqb_neq in Eic.
           rewrite Hc1 in Ebr.
           assert (Hge : count t <= length (filter acc (execs t))).
           { destruct (conc t) as [c|] eqn:Ec.
             - rewrite andb_true_r in Ebr. unfold has_more in Ebr. rewrite He1, Hn1 in Ebr.
               apply Nat.ltb_ge in Ebr. rewrite (started_is_acc _ HR0) in Ebr. exact Ebr.
             - assert (Hincl : incl (seq 0 (count t)) (map idx (filter acc (execs t)))).
               { intros j Hj. apply in_seq in Hj. assert (Hj' : j < count t) by lia.
                 pose proof (Lall Et eq_refl j Hj') as Ho. apply occupied_iff in Ho.
                 rewrite (started_is_acc _ HR0) in Ho. exact Ho. }
               pose proof (NoDup_incl_length (seq_NoDup (count t) 0) Hincl) as H.
               rewrite seq_length, map_length in H. exact H. }
           lia.
  - (* RUNNING_DELAYED: the task does not become RUNNING through a Handle *)
    apply LI_not_running. unfold on_action_complete_fx. cbn [tst set_jobs]. rewrite Et. cbn [t_completed].
    set (t1 := increase_capacity (set_jobs js t)).
    assert (Ht1 : tst t1 = TDelayed).
    { unfold t1, increase_capacity. cbn [conc cap set_jobs]. destruct (conc t); [|exact Et].
      destruct (cap t); [|exact Et]. destruct (_ <? _); exact Et. }
    destruct (items_completed t1).
    + unfold complete. rewrite Ht1. cbn [t_completed tst set_tst].
      destruct (final_state_cases (execs t1)) as [[_ H]|[_ [H|H]]]; rewrite H; discriminate.
    + destruct (has_more t1 && _).
      * unfold schedule_fx. destruct (schedule_body_fx_tst_any (prepare t1)) as [H|H]; rewrite H; [rewrite tst_prepare, Ht1|]; discriminate.
      * rewrite Ht1. discriminate.
Qed.

Lemma LI_start : forall n c, LI (step_fx init (Start n c)).
Proof.
  intros n c. cbn [step_fx tst init execs prepared cap count jobs]. unfold schedule_fx.
  set (t0 := prepare _).
  assert (Ht0 : t0 = mkTask [] n (policy_conc c) true (policy_conc c) n TRunning []) by reflexivity.
  rewrite Ht0. apply LI_sched_quiet; cbn [execs tst conc cap jobs].
  - reflexivity.
  - unfold Core, CapOK. cbn. repeat split; [constructor|].
    destruct (policy_conc c) as [k|]; [exists k; split; [reflexivity|lia]|reflexivity].
  - split; [reflexivity|]. cbn [conc cap jobs]. intros k Hk. rewrite Hk. split; reflexivity.
  - reflexivity.
Qed.

Lemma LI_continue : forall t, XI t -> LI t -> LI (step_fx t Continue).
Proof.
  intros t X L. cbn [step_fx]. destruct (tst t) eqn:Et; try exact L.
  destruct X as [Xni Xcore Xnd Xacc Xpos Xq Xcov Xdel].
  destruct (Xq (or_intror (or_intror Et))) as [HR HQ].
  unfold schedule_fx. rewrite prepare_prepared by (apply Xcore).
  apply LI_sched_quiet; cbn [execs set_tst set_execs prepared count nitems cap conc jobs tst].
  - reflexivity.
  - destruct Xcore as [Hp [Hc [HF HCap]]]. unfold Core.
    cbn [execs set_tst set_execs prepared count nitems cap conc jobs tst]. repeat split; try assumption.
    + eapply (Forall_idx_transfer (fun i => i < count t)); [apply idx_reset|exact HF].
    + unfold CapOK in *. cbn [execs set_tst set_execs prepared count nitems cap conc jobs tst].
      rewrite running_reset. exact HCap.
  - unfold Quiet. cbn [execs set_tst set_execs prepared count nitems cap conc jobs tst]. rewrite running_reset.
    split; [exact HR|exact HQ].
  - apply has_cancelled_reset.
Qed.

Lemma LI_rerun : forall t f, XI t -> LI t -> LI (step_fx t (Rerun f)).
Proof.
  intros t f X L. cbn [step_fx]. destruct (tst t) eqn:Et; try exact L.
  destruct X as [Xni Xcore Xnd Xacc Xpos Xq Xcov Xdel].
  destruct (Xq (or_intror (or_introl Et))) as [HR HQ].
  destruct Xcore as [Hp [Hc [HF HCap]]].
  unfold schedule_fx.
  set (l0 := reset_actions f (execs t)).
  assert (Hprep : prepare (set_execs l0 (set_tst TRunning (cleanup t))) =
                  mkTask l0 (nitems t) (conc t) true (conc t) (nitems t) TRunning (jobs t)) by reflexivity.
  rewrite Hprep. clear Hprep.
  apply LI_sched_quiet; cbn [execs prepared count nitems cap conc jobs tst].
  - reflexivity.
  - unfold Core, CapOK. cbn [execs prepared count nitems cap conc jobs tst]. repeat split.
    + eapply (Forall_idx_transfer (fun i => i < nitems t)); [apply idx_reset|]. rewrite <- Hc. exact HF.
    + unfold l0. rewrite running_reset. destruct (conc t) as [c|] eqn:Ec; [|reflexivity].
      destruct (HQ c eq_refl) as [_ Hj]. exists c. rewrite HR, Hj. split; [reflexivity|simpl; lia].
  - unfold Quiet. cbn [execs prepared count nitems cap conc jobs tst]. unfold l0. rewrite running_reset.
    split; [exact HR|]. intros c Hcc. split; [exact Hcc|]. destruct (HQ c Hcc) as [_ Hj]. exact Hj.
  - apply has_cancelled_reset.
Qed.

Lemma LI_retry : forall t, LI t -> LI (step_fx t RetryInvalidate).
Proof.
  intros t L. cbn [step_fx]. destruct (tst t) eqn:Et; try exact L; apply LI_not_running; discriminate.
Qed.

Lemma XLI_fold : forall evs t, (t = init \/ (XI t /\ LI t)) ->
  fold_left step_fx evs t = init \/ (XI (fold_left step_fx evs t) /\ LI (fold_left step_fx evs t)).
Proof.
  induction evs as [|e evs IH]; intros t H; [exact H|]. simpl. apply IH.
  destruct H as [Hi|[X L]].
  - subst t. destruct e as [n c|i o v|i| | |f]; try (left; apply step_fx_init; intros; discriminate).
    right. split; [apply XI_start|apply LI_start].
  - right. split.
    + destruct e as [n c|i o v|i| | |f].
      * cbn [step_fx]. destruct (tst t) eqn:Et; try exact X. exfalso. exact (x_ni t X Et).
      * apply XI_accept; assumption.
      * apply XI_handle; assumption.
      * apply XI_retry; assumption.
      * apply XI_continue; assumption.
      * apply XI_rerun; assumption.
    + destruct e as [n c|i o v|i| | |f].
      * cbn [step_fx]. destruct (tst t) eqn:Et; try exact L. exfalso. exact (x_ni t X Et).
      * apply LI_accept; assumption.
      * apply LI_handle; assumption.
      * apply LI_retry; assumption.
      * apply LI_continue; assumption.
      * apply LI_rerun; assumption.
Qed.

Lemma XLI_run : forall evs, run_fx evs = init \/ (XI (run_fx evs) /\ LI (run_fx evs)).
Proof. intros evs. apply XLI_fold. left. reflexivity. Qed.

(* the fixed task cannot hang, whatever the history of retries and reruns *)
Theorem fx_no_stuck : forall evs, tst (run_fx evs) = TRunning ->
  0 < running (execs (run_fx evs)) \/ jobs (run_fx evs) <> [].
Proof.
  intros evs Ht. destruct (XLI_run evs) as [Hi|[_ L]]; [rewrite Hi in Ht; discriminate|].
  destruct (l_run _ L Ht) as [_ [Hns _]].
  destruct (running (execs (run_fx evs))) as [|r]; [|left; lia].
  right. intros Hj. exact (Hns eq_refl Hj).
Qed.

Theorem fx_capacity_exact : forall evs c, tst (run_fx evs) = TRunning -> conc (run_fx evs) = Some c ->
  exists k, cap (run_fx evs) = Some k /\ k + running (execs (run_fx evs)) + length (jobs (run_fx evs)) = c.
Proof.
  intros evs c Ht Hc. destruct (XLI_run evs) as [Hi|[_ L]]; [rewrite Hi in Ht; discriminate|].
  exact (l_eq _ L Ht c Hc).
Qed.
