(* Property C08: (1) regression - the witnesses that refuted finality / the verdict / the timeout clause before
   the guards of _continue_task / _complete_task and the abandoning of the timed-out attempt are clean now;
   (2) what the faithful model still REFUTES: a job of an older delay that finds the task DELAYED again (by a
   newer delay scheduled after the timer failed the task) still acts.  Every witness is a timed run (no job fires
   before its execute_at).  The same event lists are replayed on the real code by harness/suites/C08.py (CORPUS). *)
From Coq Require Import List NArith ZArith Bool.
Require Import Mistral.Gen.States Mistral.Model.Policy Mistral.Proofs.PolicyBound.
Import ListNotations.
Open Scope N_scope.

Definition some_int (z : Z) : option pval := Some (PInt z).

(* ---- (1) regression ---- *)

(* retry 1/5, timeout 3: the timer fails the task during the retry delay; the continue job is now ignored *)
Definition w1_cfg : cfg := mkCfg None None None None (Some (mkRCfg (PInt 1) (PInt 5) false false)) (some_int 3) None.
Definition w1_evs : list event :=
  [EStart; ETick 1; EAct 0 ERROR false false; ETick 2; EFire 0; ETick 3; EFire 0; ETick 1; EAct 1 ERROR false false].

Theorem stale_continue_job_ignored :
  cfg_ok w1_cfg = true /\ s_early (run w1_cfg w1_evs) = false /\
  s_state (run w1_cfg w1_evs) = ERROR /\ s_info (run w1_cfg w1_evs) = ITimeout /\
  length (s_acts (run w1_cfg w1_evs)) = 1%nat /\ length (s_disp (run w1_cfg w1_evs)) = 1%nat /\ s_jobs (run w1_cfg w1_evs) = [].
Proof. vm_compute. repeat split. Qed.

(* retry 2/3, wait-after 10, timeout 5: the wait-after job of attempt 1 is ignored while attempt 2 runs *)
Definition w2_cfg : cfg := mkCfg None None (some_int 10) None (Some (mkRCfg (PInt 2) (PInt 3) false false)) (some_int 5) None.
Definition w2_evs : list event :=
  [EStart; ETick 1; EAct 0 SUCCESS false false; ETick 4; EFire 0; ETick 3; EFire 1; ETick 3; EFire 0].

Theorem stale_wait_after_job_ignored :
  cfg_ok w2_cfg = true /\ s_early (run w2_cfg w2_evs) = false /\
  s_state (run w2_cfg w2_evs) = RUNNING /\ length (s_acts (run w2_cfg w2_evs)) = 2%nat /\
  s_disp (run w2_cfg w2_evs) = [] /\ s_jobs (run w2_cfg w2_evs) = [].
Proof. vm_compute. repeat split. Qed.

(* wait-after 2, timeout 5: the attempt running when the timer expires is abandoned, its late result is ignored,
   the task ends ERROR with the timeout message after the wait-after delay *)
Definition w3_cfg : cfg := mkCfg None None (some_int 2) None None (some_int 5) None.
Definition w3_evs : list event := [EStart; ETick 5; EFire 0; ETick 1; EAct 0 SUCCESS false false; ETick 1; EFire 0].

Theorem late_result_of_timed_out_attempt_ignored :
  cfg_ok w3_cfg = true /\ s_early (run w3_cfg w3_evs) = false /\
  s_state (run w3_cfg w3_evs) = ERROR /\ s_info (run w3_cfg w3_evs) = ITimeout /\
  map a_state (s_acts (run w3_cfg w3_evs)) = [ERROR] /\ s_disp (run w3_cfg w3_evs) = [(7, ERROR)].
Proof. vm_compute. repeat split. Qed.

(* ---- (2) still refuted ---- *)

(* wait-after 5, retry 2/10, timeout 2: attempt 1 succeeds at 1 (wait-after job at 6), the timer fails the task at 2,
   the retry policy delays it again (continue job at 12); the wait-after job still finds the task DELAYED and completes
   it with the pre-timeout result: the timeout is undone and the scheduled retry never runs *)
Definition r1_cfg : cfg := mkCfg None None (some_int 5) None (Some (mkRCfg (PInt 2) (PInt 10) false false)) (some_int 2) None.

Theorem timeout_undone_by_stale_wait_after_job :
  exists c evs1 evs2 j jb, cfg_ok c = true /\
    nth_error (s_jobs (run c evs1)) j = Some jb /\ j_kind jb = JTimeout /\ j_at jb <= s_now (run c evs1) /\
    is_completed (s_state (run c evs1)) = false /\
    s_early (run c (evs1 ++ EFire j :: evs2)) = false /\
    s_state (run c (evs1 ++ EFire j :: evs2)) = SUCCESS /\ s_jobs (run c (evs1 ++ EFire j :: evs2)) = [] /\
    length (s_acts (run c (evs1 ++ EFire j :: evs2))) = 1%nat.
Proof.
  exists r1_cfg, [EStart; ETick 1; EAct 0 SUCCESS false false; ETick 1], [ETick 4; EFire 0%nat; ETick 6; EFire 0%nat], 0%nat.
  eexists. vm_compute. repeat split. intros H; discriminate H.
Qed.

(* wait-before 5, wait-after 4, timeout 3: the timer fails the task before it started (ERROR postponed by wait-after);
   the wait-before job still finds the task DELAYED, starts the action, its success ends the task SUCCESS *)
Definition r2_cfg : cfg := mkCfg None (some_int 5) (some_int 4) None None (some_int 3) None.

Theorem timeout_undone_by_stale_wait_before_job :
  exists c evs1 evs2 j jb, cfg_ok c = true /\
    nth_error (s_jobs (run c evs1)) j = Some jb /\ j_kind jb = JTimeout /\ j_at jb <= s_now (run c evs1) /\
    is_completed (s_state (run c evs1)) = false /\
    s_early (run c (evs1 ++ EFire j :: evs2)) = false /\
    s_state (run c (evs1 ++ EFire j :: evs2)) = SUCCESS /\ s_jobs (run c (evs1 ++ EFire j :: evs2)) = [].
Proof.
  exists r2_cfg, [EStart; ETick 3], [ETick 2; EFire 0%nat; ETick 1; EAct 0 SUCCESS false false; ETick 1; EFire 0%nat], 1%nat.
  eexists. vm_compute. repeat split. intros H; discriminate H.
Qed.

(* retry 2/5, timeout 3: attempt 1 fails at 1 (continue job A at 6), the timer fails the task at 3 and the retry policy
   delays it again (retry_no 2, continue job B at 8); A still finds the task DELAYED and starts attempt 2 at 6, B is
   ignored: one retry is consumed without an attempt - the task stops after 2 of the 3 attempts it may make although no
   attempt succeeded and no break-on / continue-on stops it *)
Definition r3_cfg : cfg := mkCfg None None None None (Some (mkRCfg (PInt 2) (PInt 5) false false)) (some_int 3) None.
Definition r3_evs : list event :=
  [EStart; ETick 1; EAct 0 ERROR false false; ETick 2; EFire 0; ETick 3; EFire 0; ETick 2; EFire 0; EAct 1 ERROR false false].

Theorem stale_retry_job_consumes_a_retry :
  exists c evs, cfg_ok c = true /\ s_early (run c evs) = false /\
    is_completed (s_state (run c evs)) = true /\ s_jobs (run c evs) = [] /\
    map h_res (s_hist (run c evs)) = [ERROR; ERROR] /\
    N.of_nat (length (s_acts (run c evs))) < n_cnt (norm c) + 1 /\ n_hb (norm c) = false /\ n_hc (norm c) = false.
Proof. exists r3_cfg, r3_evs. vm_compute. repeat split. Qed.
