(* Property C08: what the faithful model REFUTES once a timeout policy is combined with retry,
   wait-before or wait-after (every witness is a timed run: no job fires before its execute_at).
   The same event lists are replayed on the real code by harness/suites/C08.py (CORPUS). *)
From Coq Require Import List NArith ZArith Bool.
Require Import Mistral.Gen.States Mistral.Model.Policy Mistral.Proofs.PolicyBound.
Import ListNotations.
Open Scope N_scope.

Definition some_int (z : Z) : option pval := Some (PInt z).

(* retry count 1 delay 5, timeout 3: the timer fails the task during the retry delay (ERROR, follow-ups
   dispatched); the continue job scheduled before that still runs and revives the completed task *)
Definition w1_cfg : cfg := mkCfg None None None None (Some (mkRCfg (PInt 1) (PInt 5) false false)) (some_int 3) None.
Definition w1_evs : list event :=
  [EStart; ETick 1; EAct 0 ERROR false false; ETick 2; EFire 0; ETick 3].

Theorem stale_continue_job_revives_completed_task :
  exists c evs j, cfg_ok c = true /\
    let s := run c evs in
    s_early (step c s (EFire j)) = false /\
    s_state s = ERROR /\ s_info s = ITimeout /\ length (s_disp s) = 1%nat /\
    s_state (step c s (EFire j)) = RUNNING /\
    length (s_acts (step c s (EFire j))) = S (length (s_acts s)).
Proof. exists w1_cfg, w1_evs, 0%nat. vm_compute. repeat split. Qed.

(* ... and its follow-up commands are dispatched a second time *)
Theorem follow_ups_dispatched_twice :
  exists c evs, cfg_ok c = true /\ s_early (run c evs) = false /\ length (s_disp (run c evs)) = 2%nat.
Proof.
  exists w1_cfg, (w1_evs ++ [EFire 0%nat; ETick 1; EAct 1 ERROR false false]). vm_compute. repeat split.
Qed.

(* retry 2/3, wait-after 10, timeout 5: the first attempt succeeds, the timer expires during the wait-after delay,
   the retry policy starts attempt 2, then the stale wait-after job completes the task with the result of attempt 1 *)
Definition w2_cfg : cfg := mkCfg None None (some_int 10) None (Some (mkRCfg (PInt 2) (PInt 3) false false)) (some_int 5) None.
Definition w2_evs : list event :=
  [EStart; ETick 1; EAct 0 SUCCESS false false; ETick 4; EFire 0; ETick 3; EFire 1; ETick 3; EFire 0].

Theorem success_while_last_attempt_running :
  exists c evs, cfg_ok c = true /\ s_early (run c evs) = false /\
    s_state (run c evs) = SUCCESS /\
    exists a, nth_error (s_acts (run c evs)) (pred (length (s_acts (run c evs)))) = Some a /\ a_state a = RUNNING.
Proof. exists w2_cfg, w2_evs. vm_compute. repeat split. eexists. split; reflexivity. Qed.

(* wait-after 2, timeout 5: the timer expires on the running attempt (the task is to become ERROR with the timeout
   message after the wait-after delay); the late result of that attempt then ends the task SUCCESS *)
Definition w3_cfg : cfg := mkCfg None None (some_int 2) None None (some_int 5) None.
Definition w3_evs : list event := [EStart; ETick 5; EFire 0; ETick 1; EAct 0 SUCCESS false false; ETick 1; EFire 0].

Theorem timeout_undone_by_late_result :
  exists c evs1 evs2 j jb, cfg_ok c = true /\
    nth_error (s_jobs (run c evs1)) j = Some jb /\ j_kind jb = JTimeout /\ j_at jb <= s_now (run c evs1) /\
    is_completed (s_state (run c evs1)) = false /\
    s_early (run c (evs1 ++ EFire j :: evs2)) = false /\
    s_state (run c (evs1 ++ EFire j :: evs2)) = SUCCESS /\ s_jobs (run c (evs1 ++ EFire j :: evs2)) = [].
Proof.
  exists w3_cfg, [EStart; ETick 5], [ETick 1; EAct 0 SUCCESS false false; ETick 1; EFire 0%nat], 0%nat.
  eexists. vm_compute. repeat split. intros H; discriminate H.
Qed.

(* wait-before 5, timeout 3 *)
Theorem stale_wait_before_job_revives_task :
  exists c evs, cfg_ok c = true /\ s_early (run c evs) = false /\
    s_state (run c [EStart; ETick 3; EFire 1]) = ERROR /\ s_state (run c evs) = RUNNING.
Proof.
  exists (mkCfg None (some_int 5) None None None (some_int 3) None), [EStart; ETick 3; EFire 1%nat; ETick 2; EFire 0%nat].
  vm_compute. repeat split.
Qed.
