(* C01 / C02, functional clause, PROVED for a class of programs: for every join-free, forward (every
   transition targets a later task: acyclic), command-free program whose guards evaluate (true or false),
   every outcome oracle, uid oracle and delivery schedule, a run with nothing pending has, for every task
   name, exactly the number of task executions the workflow language prescribes (den), with exactly the
   prescribed multiset of final states - so the set of tasks that ran, their final states and the final
   workflow state do not depend on the order in which messages, executor requests and post-commit queues
   are delivered.  The prescription `den` is computed from the definition alone, in task order:
   a start task runs once; a task runs once per firing route of each run of each earlier task, the k-th
   run of a task having the k-th outcome of its oracle.  *)
From Coq Require Import List Bool Arith Lia Permutation.
Require Import Mistral.Gen.States Mistral.Model.PySort Mistral.Model.Engine.
Require Import Mistral.Proofs.StatesProofs Mistral.Proofs.EngineMutual Mistral.Proofs.EngineWf
               Mistral.Proofs.EngineSafety Mistral.Proofs.EngineMore Mistral.Proofs.EngineLive.
Import ListNotations.

(* ------------------------------------------------------------ the class *)
Definition clause_ok (n len : nat) (c : target * guard) : bool :=
  match c with
  | (TTask m, GTrue) | (TTask m, GFalse) => Nat.ltb n m && Nat.ltb m len
  | _ => false
  end.

Definition tspec_ok (n len : nat) (t : tspec) : bool :=
  match ts_join t with JNone => true | _ => false end &&
  forallb (clause_ok n len) (ts_succ t) && forallb (clause_ok n len) (ts_err t) &&
  forallb (clause_ok n len) (ts_compl t) && forallb (clause_ok n len) (ts_skip t).

Definition simple_b (sp : spec) : bool :=
  forallb (fun p => tspec_ok (fst p) (length sp) (snd p)) (combine (seq 0 (length sp)) sp).

Lemma in_combine_seq {A} (d : A) : forall (l : list A) start n, n < length l ->
  In (start + n, nth n l d) (combine (seq start (length l)) l).
Proof.
  induction l as [|a l IH]; intros start n Hn; simpl in Hn; [lia|].
  destruct n as [|n]; simpl.
  - left. rewrite Nat.add_0_r. reflexivity.
  - right. replace (start + S n) with (S start + n) by lia. apply IH. lia.
Qed.

Lemma simple_ts sp n : simple_b sp = true -> tspec_ok n (length sp) (get_ts sp n) = true.
Proof.
  intros H. unfold get_ts. destruct (Nat.lt_ge_cases n (length sp)) as [Hl|Hl].
  - unfold simple_b in H. rewrite forallb_forall in H.
    specialize (H _ (in_combine_seq dummy_tspec sp 0 n Hl)). exact H.
  - rewrite nth_overflow by exact Hl. reflexivity.
Qed.

Lemma simple_nojoin sp : simple_b sp = true -> nojoin sp.
Proof.
  intros H n. unfold is_join. pose proof (simple_ts sp n H) as Ht. unfold tspec_ok in Ht.
  destruct (ts_join (get_ts sp n)); [reflexivity|discriminate..].
Qed.

(* ------------------------------------------------------------ what the language prescribes *)
Definition fired (l : list (target * guard)) : list nat :=
  flat_map (fun c => match c with (TTask m, GTrue) => [m] | _ => [] end) l.

(* an ERROR run of task p is handled iff p has an on-error route that fires *)
Definition has_err_route (sp : spec) (p : nat) : bool :=
  match fired (ts_err (get_ts sp p)) with [] => false | _ => true end.

(* the tasks started by a run of task p that ended in state x, in dispatch order *)
Definition routes (sp : spec) (p : nat) (x : state) : list nat :=
  let t := get_ts sp p in
  (if state_eqb x ERROR then fired (ts_err t) else []) ++
  (if state_eqb x SUCCESS then fired (ts_succ t) else []) ++
  (if is_completed x && negb (is_cancelled_or_skipped x) then fired (ts_compl t) else []).

Definition outcome (sp : spec) (p k : nat) : outcome := nth k (ts_outs (get_ts sp p)) OOk.
Definition base (sp : spec) (n : nat) : nat := match inbound sp n with [] => 1 | _ => 0 end.

Definition sumf {A} (f : A -> nat) (l : list A) : nat := fold_right (fun x a => f x + a) 0 l.

(* runs of task n caused by the runs of the tasks < n, given their numbers of runs *)
Definition contrib (sp : spec) (cnts : list nat) (n : nat) : nat :=
  sumf (fun p => sumf (fun k => count_occ Nat.eq_dec (routes sp p (state_of_outcome (outcome sp p k))) n)
                      (seq 0 (nth p cnts 0)))
       (seq 0 n).

Fixpoint den_upto (sp : spec) (k : nat) : list nat :=
  match k with
  | O => []
  | S k' => let c := den_upto sp k' in c ++ [base sp k' + contrib sp c k']
  end.

(* den sp = for every task, the number of times it runs *)
Definition den (sp : spec) : list nat := den_upto sp (length sp).

(* ------------------------------------------------------------ clauses of the class *)
Lemma eval_clause_ok n len l e : forallb (clause_ok n len) l = true ->
  eval_clause l e = Some (map (fun m => (TTask m, e)) (fired l)).
Proof.
  induction l as [|[tg g] l IH]; intros H; [reflexivity|]. simpl in H. apply andb_true_iff in H. destruct H as [H1 H2].
  simpl. rewrite (IH H2). destruct tg; try discriminate H1. destruct g; try discriminate H1; reflexivity.
Qed.

Lemma fired_range n len l m : forallb (clause_ok n len) l = true -> In m (fired l) -> n < m < len.
Proof.
  induction l as [|[tg g] l IH]; intros H Hin; [destruct Hin|]. simpl in H. apply andb_true_iff in H. destruct H as [H1 H2].
  simpl in Hin. apply in_app_or in Hin. destruct Hin as [Hin|Hin]; [|apply IH; assumption].
  destruct tg; try discriminate H1. destruct g; try discriminate H1; simpl in Hin; try (destruct Hin; fail).
  destruct Hin as [<-|[]]. apply andb_true_iff in H1. destruct H1 as [A B]. apply Nat.ltb_lt in A, B. lia.
Qed.

Definition is_runs (l : list cmd) : bool :=
  forallb (fun c => match c with CRunTask _ _ false _ => true | _ => false end) l.
Definition names (l : list cmd) : list nat := map cmd_key l.

Section Class.
Variable sp : spec.
Hypothesis Hs : simple_b sp = true.

Lemma routes_range p x m : In m (routes sp p x) -> p < m < length sp.
Proof.
  pose proof (simple_ts sp p Hs) as Ht. unfold tspec_ok in Ht.
  repeat (apply andb_true_iff in Ht; destruct Ht as [Ht ?]).
  unfold routes. intros Hin. apply in_app_or in Hin. destruct Hin as [Hin|Hin].
  - destruct (state_eqb x ERROR); [eapply fired_range; [exact H1|exact Hin]|destruct Hin].
  - apply in_app_or in Hin. destruct Hin as [Hin|Hin].
    + destruct (state_eqb x SUCCESS); [eapply fired_range; [exact H2|exact Hin]|destruct Hin].
    + destruct (_ && _); [eapply fired_range; [exact H0|exact Hin]|destruct Hin].
Qed.

(* Task.complete computes exactly the prescribed routes (for the three outcomes of an action) *)
Lemma find_next_simple r : t_state r = SUCCESS \/ t_state r = ERROR \/ t_state r = CANCELLED ->
  exists nx, find_next_tasks sp r = Some nx /\
    (t_state r = ERROR -> existsb (fun p => evkind_eqb (snd p) OnError) nx = has_err_route sp (t_name r)) /\
    forall tid, is_runs (map (to_cmd sp tid) nx) = true /\ names (map (to_cmd sp tid) nx) = routes sp (t_name r) (t_state r) /\
    map fst (next_names nx) = routes sp (t_name r) (t_state r).
Proof.
  intros Hx. pose proof (simple_ts sp (t_name r) Hs) as Ht. unfold tspec_ok in Ht.
  repeat (apply andb_true_iff in Ht; destruct Ht as [Ht ?]).
  unfold find_next_tasks, routes. set (t := get_ts sp (t_name r)) in *.
  assert (Hmap : forall l e tid, is_runs (map (to_cmd sp tid) (map (fun m => (TTask m, e)) l)) = true /\
                  names (map (to_cmd sp tid) (map (fun m => (TTask m, e)) l)) = l /\
                  map fst (next_names (map (fun m => (TTask m, e)) l)) = l).
  { intros l e tid.
    assert (Hc : forall m, to_cmd sp tid (TTask m, e) = CRunTask m e false (Some tid)).
    { intros m. unfold to_cmd. cbn [fst snd]. rewrite (simple_nojoin sp Hs m). reflexivity. }
    induction l as [|m l IH]; [repeat split|]. destruct IH as [I1 [I2 I3]].
    cbn [map]. rewrite Hc. unfold is_runs, names in *. cbn [map forallb cmd_key]. rewrite I1, I2.
    split; [reflexivity|]. split; [reflexivity|]. unfold next_names in *. cbn [flat_map fst snd app map]. rewrite I3. reflexivity. }
  destruct Hx as [Hx|[Hx|Hx]]; rewrite Hx; cbn [state_eqb is_completed mem existsb orb andb negb is_cancelled_or_skipped is_cancelled is_skipped].
  - (* SUCCESS *)
    cbn [obind]. rewrite (eval_clause_ok _ _ _ OnSuccess H2). cbn [obind]. rewrite (eval_clause_ok _ _ _ OnComplete H0). cbn [obind].
    eexists. split; [reflexivity|]. split; [intros E; discriminate E|]. intros tid. cbn [app].
    destruct (Hmap (fired (ts_succ t)) OnSuccess tid) as [A1 [A2 A3]]. destruct (Hmap (fired (ts_compl t)) OnComplete tid) as [B1 [B2 B3]].
    unfold is_runs, names in *. rewrite !map_app, forallb_app, A1, B1, A2, B2. unfold next_names in *. rewrite flat_map_app, map_app, A3, B3.
    repeat split.
  - (* ERROR *)
    cbn [obind]. rewrite (eval_clause_ok _ _ _ OnError H1). cbn [obind]. rewrite (eval_clause_ok _ _ _ OnComplete H0). cbn [obind].
    eexists. split; [reflexivity|]. split.
    { intros _. cbn [app]. rewrite existsb_app. unfold has_err_route. fold t.
      assert (E2 : existsb (fun p : target * evkind => evkind_eqb (snd p) OnError) (map (fun m => (TTask m, OnComplete)) (fired (ts_compl t))) = false).
      { induction (fired (ts_compl t)) as [|m l IHl]; [reflexivity|]. simpl. exact IHl. }
      rewrite E2, orb_false_r. destruct (fired (ts_err t)); reflexivity. }
    intros tid. cbn [app].
    destruct (Hmap (fired (ts_err t)) OnError tid) as [A1 [A2 A3]]. destruct (Hmap (fired (ts_compl t)) OnComplete tid) as [B1 [B2 B3]].
    unfold is_runs, names in *. rewrite !map_app, forallb_app, A1, B1, A2, B2. unfold next_names in *. rewrite flat_map_app, map_app, A3, B3.
    repeat split.
  - (* CANCELLED *)
    cbn [obind]. eexists. split; [reflexivity|]. split; [intros E; discriminate E|]. intros tid. repeat split.
Qed.
End Class.

(* ------------------------------------------------------------ generic list helpers *)
Lemma sumf_app {A} (f : A -> nat) l l' : sumf f (l ++ l') = sumf f l + sumf f l'.
Proof. induction l as [|a l IH]; simpl; [reflexivity|]. rewrite IH. lia. Qed.

Lemma sumf_ext {A} (f g : A -> nat) l : (forall x, In x l -> f x = g x) -> sumf f l = sumf g l.
Proof. induction l as [|a l IH]; intros H; simpl; [reflexivity|]. rewrite (H a (or_introl eq_refl)), IH; [reflexivity|]. intros x Hx. apply H. right. exact Hx. Qed.

Lemma sumf_zero {A} (f : A -> nat) l : (forall x, In x l -> f x = 0) -> sumf f l = 0.
Proof. induction l as [|a l IH]; intros H; simpl; [reflexivity|]. rewrite (H a (or_introl eq_refl)), IH; [reflexivity|]. intros x Hx. apply H. right. exact Hx. Qed.

Lemma sumf_perm {A} (f : A -> nat) l l' : Permutation l l' -> sumf f l = sumf f l'.
Proof. induction 1; simpl; lia. Qed.

Lemma sumf_map {A B} (g : A -> B) (f : B -> nat) l : sumf f (map g l) = sumf (fun x => f (g x)) l.
Proof. induction l as [|a l IH]; simpl; [reflexivity|]. rewrite IH. reflexivity. Qed.

Lemma sumf_add {A} (f g : A -> nat) l : sumf (fun x => f x + g x) l = sumf f l + sumf g l.
Proof. induction l as [|a l IH]; simpl; [reflexivity|]. rewrite IH. lia. Qed.

Lemma sumf_set_nth {A} (f : A -> nat) : forall l k x y, nth_error l k = Some x ->
  sumf f (set_nth k y l) + f x = sumf f l + f y.
Proof.
  induction l as [|a l IH]; intros k x y H; [destruct k; discriminate|].
  destruct k as [|k]; simpl in *.
  - injection H as ->. lia.
  - specialize (IH k x y H). lia.
Qed.

Lemma count_occ_sumf (l : list nat) n : count_occ Nat.eq_dec l n = sumf (fun m => if Nat.eqb m n then 1 else 0) l.
Proof.
  induction l as [|a l IH]; simpl; [reflexivity|]. destruct (Nat.eq_dec a n) as [->|Hne].
  - rewrite Nat.eqb_refl, IH. reflexivity.
  - apply Nat.eqb_neq in Hne. rewrite Hne, IH. reflexivity.
Qed.

Lemma count_occ_perm (l l' : list nat) n : Permutation l l' -> count_occ Nat.eq_dec l n = count_occ Nat.eq_dec l' n.
Proof. intros H. rewrite !count_occ_sumf. apply sumf_perm, H. Qed.

Lemma forallb_perm {A} (f : A -> bool) l l' : Permutation l l' -> forallb f l = forallb f l'.
Proof.
  induction 1; simpl; auto.
  - rewrite IHPermutation. reflexivity.
  - destruct (f x), (f y); reflexivity.
  - congruence.
Qed.

Lemma remove_first_split f : forall l it rest, remove_first f l = Some (it, rest) ->
  exists pre post, l = pre ++ it :: post /\ rest = pre ++ post.
Proof.
  induction l as [|i l IH]; intros it rest H; simpl in H; [discriminate|].
  destruct (f i).
  - injection H as <- <-. exists [], l. split; reflexivity.
  - destruct (remove_first f l) as [[y r']|] eqn:E; [|discriminate]. injection H as <- <-.
    destruct (IH _ _ eq_refl) as [pre [post [E1 E2]]]. exists (i :: pre), post. rewrite E1, E2. split; reflexivity.
Qed.

Lemma remove_nth_ptq_split : forall l n ops rest, remove_nth_ptq n l = Some (ops, rest) ->
  exists pre post, l = pre ++ IPtq ops :: post /\ rest = pre ++ post.
Proof.
  induction l as [|i l IH]; intros n ops rest H; simpl in H; [discriminate|].
  assert (Hgen : forall n', match remove_nth_ptq n' l with Some (o, r') => Some (o, i :: r') | None => None end = Some (ops, rest) ->
            exists pre post, i :: l = pre ++ IPtq ops :: post /\ rest = pre ++ post).
  { intros n' Hn. destruct (remove_nth_ptq n' l) as [[o r']|] eqn:E; [|discriminate]. injection Hn as <- <-.
    destruct (IH _ _ _ E) as [pre [post [E1 E2]]]. exists (i :: pre), post. rewrite E1, E2. split; reflexivity. }
  destruct i; try (apply (Hgen n); exact H).
  destruct n as [|k]; [|apply (Hgen k); exact H].
  injection H as <- <-. exists [], l. split; reflexivity.
Qed.

(* ------------------------------------------------------------ a dispatch that only starts tasks *)
Section Spawn.
Variable sp : spec.

Fixpoint spawn (t : tx) (cmds : list cmd) : tx :=
  match cmds with
  | [] => t
  | CRunTask name _ _ trig :: rest => spawn (run_task_cmd sp t name false trig) rest
  | _ :: rest => spawn t rest
  end.

Lemma loop_spawn : forall cmds t, is_runs cmds = true -> wf_state (fst t) = RUNNING ->
  loop sp t cmds = (spawn t cmds, FOk).
Proof.
  induction cmds as [|c rest IH]; intros t Hr Hw; [reflexivity|].
  simpl in Hr. apply andb_true_iff in Hr. destruct Hr as [Hc Hr].
  destruct c as [name e waiting trig| | | |]; try discriminate Hc. destruct waiting; [discriminate|].
  cbn [loop spawn]. rewrite Hw. change (is_completed RUNNING) with false. change (state_eqb RUNNING PAUSED) with false. cbv iota.
  apply IH; [exact Hr|exact Hw].
Qed.

Definition is_start_op (o : op) : bool := match o with OStartTask _ true false false => true | _ => false end.

Lemma spawn_spec : forall cmds t, is_runs cmds = true ->
  exists rows more,
    tasks (fst (spawn t cmds)) = tasks (fst t) ++ rows /\ map t_name rows = names cmds /\
    Forall (fun r => t_state r = IDLE /\ t_processed r = false) rows /\
    snd (spawn t cmds) = snd t ++ more /\ forallb is_start_op more = true /\
    acts (fst (spawn t cmds)) = acts (fst t) /\ pend (fst (spawn t cmds)) = pend (fst t) /\
    wf_state (fst (spawn t cmds)) = wf_state (fst t) /\ backlog (fst (spawn t cmds)) = backlog (fst t) /\
    calls (fst (spawn t cmds)) = calls (fst t) /\ wf_created (fst (spawn t cmds)) = wf_created (fst t).
Proof.
  induction cmds as [|c rest IH]; intros t Hr.
  - exists [], []. rewrite !app_nil_r. repeat split; auto.
  - simpl in Hr. apply andb_true_iff in Hr. destruct Hr as [Hc Hr].
    destruct c as [name e waiting trig| | | |]; try discriminate Hc. destruct waiting; [discriminate|].
    cbn [spawn].
    set (row := mkTrow name IDLE false [] false false false (next_uid (fst t)) (trig_list trig)).
    change (run_task_cmd sp t name false trig)
      with (add_task (fst t) row, snd t ++ [OStartTask (length (tasks (fst t))) true false false]).
    destruct (IH (add_task (fst t) row, snd t ++ [OStartTask (length (tasks (fst t))) true false false]) Hr)
      as [rows [more [T [N [I [O [P [A [Pe [W [B [C Cr]]]]]]]]]]]].
    cbn [fst snd add_task tasks acts pend wf_state backlog calls wf_created] in T, O, A, Pe, W, B, C, Cr.
    exists (row :: rows), (OStartTask (length (tasks (fst t))) true false false :: more).
    split; [rewrite T, <- app_assoc; reflexivity|].
    split; [unfold names in *; cbn [map cmd_key t_name row]; rewrite N; reflexivity|].
    split; [constructor; [split; reflexivity|exact I]|].
    split; [rewrite O, <- app_assoc; reflexivity|].
    split; [cbn; exact P|]. repeat split; assumption.
Qed.
End Spawn.

Lemma split_at_state_runs l : is_runs l = true -> forall pre, split_at_state l pre = None.
Proof.
  induction l as [|c r IH]; intros Hr pre; [reflexivity|]. simpl in Hr. apply andb_true_iff in Hr. destruct Hr as [Hc Hr].
  destruct c; try discriminate Hc. simpl. apply IH. exact Hr.
Qed.

Lemma rearrange_runs l : is_runs l = true -> Permutation l (rearrange l) /\ is_runs (rearrange l) = true.
Proof.
  intros Hr. assert (Hf : filter (fun c => match c with CNoop => false | _ => true end) l = l).
  { induction l as [|c r IH]; [reflexivity|]. simpl in Hr. apply andb_true_iff in Hr. destruct Hr as [Hc Hr].
    destruct c; try discriminate Hc. simpl. rewrite (IH Hr). reflexivity. }
  unfold rearrange. rewrite Hf, (split_at_state_runs l Hr []).
  pose proof (sort_cmds_perm l) as Hp. split; [exact Hp|]. unfold is_runs in *. rewrite <- (forallb_perm _ _ _ Hp). exact Hr.
Qed.

(* ------------------------------------------------------------ the dispatch of resume: starts tasks and
   re-issues the start requests of the tasks that are still IDLE *)
Definition is_runs2 (l : list cmd) : bool :=
  forallb (fun c => match c with CRunTask _ _ false _ => true | CRunExisting _ true false => true | _ => false end) l.
Definition names2 (l : list cmd) : list nat := flat_map (fun c => match c with CRunTask n _ _ _ => [n] | _ => [] end) l.
Definition is_start_op2 (o : op) : bool :=
  match o with OStartTask _ true false false | OStartTask _ false false true => true | _ => false end.

Lemma names2_runs l : is_runs l = true -> names2 l = names l.
Proof.
  induction l as [|c l IH]; intros H; [reflexivity|]. simpl in H. apply andb_true_iff in H. destruct H as [Hc H].
  destruct c; try discriminate Hc. unfold names2, names in *. simpl. rewrite (IH H). reflexivity.
Qed.

Section Spawn2.
Variable sp : spec.

Fixpoint spawn2 (t : tx) (cmds : list cmd) : tx :=
  match cmds with
  | [] => t
  | CRunTask name _ _ trig :: rest => spawn2 (run_task_cmd sp t name false trig) rest
  | CRunExisting tid _ _ :: rest => spawn2 (fst t, snd t ++ [OStartTask tid false false true]) rest
  | _ :: rest => spawn2 t rest
  end.

Lemma loop_spawn2 : forall cmds t, is_runs2 cmds = true -> wf_state (fst t) = RUNNING ->
  loop sp t cmds = (spawn2 t cmds, FOk).
Proof.
  induction cmds as [|c rest IH]; intros t Hr Hw; [reflexivity|].
  simpl in Hr. apply andb_true_iff in Hr. destruct Hr as [Hc Hr].
  destruct c as [name e waiting trig|tid reset rerun| | |]; try discriminate Hc.
  - destruct waiting; [discriminate|].
    cbn [loop spawn2]. rewrite Hw. change (is_completed RUNNING) with false. change (state_eqb RUNNING PAUSED) with false. cbv iota.
    apply IH; [exact Hr|exact Hw].
  - destruct reset; [|discriminate]. destruct rerun; [discriminate|].
    cbn [loop spawn2]. rewrite Hw. change (is_completed RUNNING) with false. change (state_eqb RUNNING PAUSED) with false. cbv iota.
    assert (Et : run_existing_cmd t tid true false = (fst t, snd t ++ [OStartTask tid false false true])).
    { unfold run_existing_cmd. rewrite andb_false_r. reflexivity. }
    rewrite Et. apply IH; [exact Hr|exact Hw].
Qed.

Lemma spawn2_spec : forall cmds t, is_runs2 cmds = true ->
  exists rows more,
    tasks (fst (spawn2 t cmds)) = tasks (fst t) ++ rows /\ map t_name rows = names2 cmds /\
    Forall (fun r => t_state r = IDLE /\ t_processed r = false) rows /\
    snd (spawn2 t cmds) = snd t ++ more /\ forallb is_start_op2 more = true /\
    acts (fst (spawn2 t cmds)) = acts (fst t) /\ pend (fst (spawn2 t cmds)) = pend (fst t) /\
    wf_state (fst (spawn2 t cmds)) = wf_state (fst t) /\ backlog (fst (spawn2 t cmds)) = backlog (fst t) /\
    calls (fst (spawn2 t cmds)) = calls (fst t) /\ wf_created (fst (spawn2 t cmds)) = wf_created (fst t).
Proof.
  induction cmds as [|c rest IH]; intros t Hr.
  - exists [], []. rewrite !app_nil_r. repeat split; auto.
  - simpl in Hr. apply andb_true_iff in Hr. destruct Hr as [Hc Hr].
    destruct c as [name e waiting trig|tid reset rerun| | |]; try discriminate Hc.
    + destruct waiting; [discriminate|]. cbn [spawn2].
      set (row := mkTrow name IDLE false [] false false false (next_uid (fst t)) (trig_list trig)).
      change (run_task_cmd sp t name false trig)
        with (add_task (fst t) row, snd t ++ [OStartTask (length (tasks (fst t))) true false false]).
      destruct (IH (add_task (fst t) row, snd t ++ [OStartTask (length (tasks (fst t))) true false false]) Hr)
        as [rows [more [T [N [I [O [P [A [Pe [W [B [C Cr]]]]]]]]]]]].
      cbn [fst snd add_task tasks acts pend wf_state backlog calls wf_created] in T, O, A, Pe, W, B, C, Cr.
      exists (row :: rows), (OStartTask (length (tasks (fst t))) true false false :: more).
      split; [rewrite T, <- app_assoc; reflexivity|].
      split; [unfold names2 in *; cbn [map flat_map app t_name row]; rewrite N; reflexivity|].
      split; [constructor; [split; reflexivity|exact I]|].
      split; [rewrite O, <- app_assoc; reflexivity|].
      split; [cbn; exact P|]. repeat split; assumption.
    + cbn [spawn2].
      destruct (IH (fst t, snd t ++ [OStartTask tid false false true]) Hr)
        as [rows [more [T [N [I [O [P [A [Pe [W [B [C Cr]]]]]]]]]]]].
      cbn [fst snd] in T, O, A, Pe, W, B, C, Cr.
      exists rows, (OStartTask tid false false true :: more).
      split; [exact T|]. split; [unfold names2 in *; cbn [flat_map app]; exact N|]. split; [exact I|].
      split; [rewrite O, <- app_assoc; reflexivity|].
      split; [cbn; exact P|]. repeat split; assumption.
Qed.
End Spawn2.

Lemma rearrange_runs2 l : is_runs2 l = true -> Permutation l (rearrange l) /\ is_runs2 (rearrange l) = true.
Proof.
  intros Hr. assert (Hf : filter (fun c => match c with CNoop => false | _ => true end) l = l).
  { induction l as [|c r IH]; [reflexivity|]. simpl in Hr. apply andb_true_iff in Hr. destruct Hr as [Hc Hr].
    destruct c; try discriminate Hc; simpl; rewrite (IH Hr); reflexivity. }
  assert (Hsp : forall pre, split_at_state l pre = None).
  { clear Hf. induction l as [|c r IH]; intros pre; [reflexivity|]. simpl in Hr. apply andb_true_iff in Hr. destruct Hr as [Hc Hr].
    destruct c; try discriminate Hc; simpl; apply IH; exact Hr. }
  unfold rearrange. rewrite Hf, (Hsp []).
  pose proof (sort_cmds_perm l) as Hp. split; [exact Hp|]. unfold is_runs2 in *. rewrite <- (forallb_perm _ _ _ Hp). exact Hr.
Qed.

Lemma is_runs2_okcs l : is_runs2 l = true -> okcs l.
Proof.
  intros H. apply Forall_forall. intros c Hc. unfold is_runs2 in H. rewrite forallb_forall in H. specialize (H c Hc).
  destruct c as [? ? w ?|? a b| | |]; try discriminate H.
  - destruct w; [discriminate|reflexivity].
  - destruct a; [|discriminate]. destruct b; [discriminate|reflexivity].
Qed.

Lemma names2_perm l l' : Permutation l l' -> Permutation (names2 l) (names2 l').
Proof.
  induction 1; simpl.
  - apply Permutation_refl.
  - unfold names2 in *. simpl. apply Permutation_app_head. exact IHPermutation.
  - unfold names2. simpl. rewrite !app_assoc. apply Permutation_app_tail. apply Permutation_app_comm.
  - eapply perm_trans; eassumption.
Qed.

(* ================================================================= the accounting invariant *)
(* the messages of these runs: the original start request and the one re-issued by resume (no reruns) *)
Definition dflag (f r x : bool) : bool := (f && negb r && negb x) || (negb f && negb r && x).
Definition dop (o : op) : bool :=
  match o with OStartTask _ f r x => dflag f r x | ORunAction _ | OCheck => true | _ => false end.
Definition ditem (i : item) : bool :=
  match i with
  | IStartTask _ f r x => dflag f r x
  | IExec _ | IResult _ _ => true
  | IPtq q => forallb dop q
  | _ => false
  end.

Definition op_act (aid : nat) (o : op) : nat :=
  match o with ORunAction a => if Nat.eqb a aid then 1 else 0 | _ => 0 end.
Definition item_act (aid : nat) (i : item) : nat :=
  match i with
  | IExec a | IResult a _ => if Nat.eqb a aid then 1 else 0
  | IPtq q => sumf (op_act aid) q
  | _ => 0
  end.
(* messages / operations that still stand for action execution aid *)
Definition n_act (s : st) (ops : list op) (aid : nat) : nat := sumf (item_act aid) (pend s) + sumf (op_act aid) ops.

Definition acts_of (s : st) (tid : nat) : nat := sumf (fun a => if Nat.eqb (a_task a) tid then 1 else 0) (acts s).
Definition rows_named (s : st) (n : nat) : nat := sumf (fun r => if Nat.eqb (t_name r) n then 1 else 0) (tasks s).
Definition name_of_act (s : st) (aid : nat) : nat := t_name (get_task s (a_task (get_act s aid))).

(* the final states already decided for task name p: results on their way + completed task executions *)
Definition res_of (s : st) (p : nat) (i : item) : list state :=
  match i with
  | IResult a r => if Nat.eqb (name_of_act s a) p then [state_of_outcome r] else []
  | _ => []
  end.
Definition pending_results (s : st) (p : nat) : list state := flat_map (res_of s p) (pend s).
Definition final_states (s : st) (p : nat) : list state :=
  flat_map (fun r => if Nat.eqb (t_name r) p && is_completed (t_state r) then [t_state r] else []) (tasks s).
Definition prescribed_states (sp : spec) (p k : nat) : list state :=
  map (fun j => state_of_outcome (outcome sp p j)) (seq 0 k).

(* the routes of a completed task execution have been dispatched once it is `processed` (at once when the
   workflow is RUNNING, at the next resume when it completed while the workflow was PAUSED) *)
Definition expanded (sp : spec) (r : trow) (n : nat) : nat :=
  if is_completed (t_state r) && t_processed r then count_occ Nat.eq_dec (routes sp (t_name r) (t_state r)) n else 0.

(* Workflow.check_and_complete's decision once every task execution is completed *)
Definition verdict_of (l : list trow) : state :=
  if existsb (fun r => state_eqb (t_state r) CANCELLED) l then CANCELLED
  else if negb (existsb (fun r => state_eqb (t_state r) ERROR && negb (t_err_handled r)) l) then SUCCESS
  else ERROR.

Record D (sp : spec) (pz : bool) (s : st) (ops : list op) : Prop := {
  D_created : wf_created s = true;
  D_wf : wf_state s = RUNNING \/ (pz = true /\ wf_state s = PAUSED) \/ is_completed (wf_state s) = true;
  D_live : live_wf_state (wf_state s) = true;
  D_bl : backlog s = [];
  D_done : is_completed (wf_state s) = true ->
           forall tid r, nth_error (tasks s) tid = Some r -> is_completed (t_state r) = true;
  D_states : forall tid r, nth_error (tasks s) tid = Some r ->
             (t_state r = IDLE \/ t_state r = RUNNING \/ t_state r = SUCCESS \/ t_state r = ERROR \/ t_state r = CANCELLED) /\
             t_name r < length sp;
  D_act0 : forall tid r, nth_error (tasks s) tid = Some r -> t_state r = IDLE ->
           forall k b, nth_error (acts s) k = Some b -> a_task b <> tid;
  D_act1 : forall k1 k2 a1 a2, nth_error (acts s) k1 = Some a1 -> nth_error (acts s) k2 = Some a2 ->
           a_task a1 = a_task a2 -> k1 = k2;
  D_act : forall aid a, nth_error (acts s) aid = Some a ->
          a_task a < length (tasks s) /\
          (is_completed (a_state a) = false -> t_state (get_task s (a_task a)) = RUNNING) /\
          (is_completed (a_state a) = true -> t_state (get_task s (a_task a)) = a_state a);
  D_tok : forall aid a, nth_error (acts s) aid = Some a -> n_act s ops aid = if is_completed (a_state a) then 0 else 1;
  D_tok0 : forall aid, length (acts s) <= aid -> n_act s ops aid = 0;
  D_create : forall n, n < length sp -> rows_named s n = base sp n + sumf (fun r => expanded sp r n) (tasks s);
  D_out : forall p, Permutation (pending_results s p ++ final_states s p) (prescribed_states sp p (nth_call s p));
  D_items : forallb ditem (pend s) = true;
  D_ops : forallb dop ops = true;
  D_eh : forall tid r, nth_error (tasks s) tid = Some r -> t_state r = ERROR -> t_err_handled r = has_err_route sp (t_name r);
  D_verdict : is_completed (wf_state s) = true -> wf_state s = verdict_of (tasks s);
  D_proc : wf_state s <> PAUSED -> forall tid r, nth_error (tasks s) tid = Some r ->
           is_completed (t_state r) = true -> t_processed r = true;
  D_np : forall tid r, nth_error (tasks s) tid = Some r -> is_completed (t_state r) = false -> t_processed r = false
}.

(* before the start *)
Definition DInv (sp : spec) (pz : bool) (s : st) : Prop :=
  (wf_created s = false /\ pend s = [] /\ tasks s = [] /\ acts s = [] /\ calls s = []) \/ D sp pz s [].

Lemma res_of_frame s s' p i : tasks s' = tasks s -> acts s' = acts s -> res_of s' p i = res_of s p i.
Proof. intros Ht Ha. destruct i; try reflexivity. unfold res_of, name_of_act, get_task, get_act. rewrite Ht, Ha. reflexivity. Qed.

Lemma pending_results_frame s s' p : tasks s' = tasks s -> acts s' = acts s ->
  pending_results s' p = flat_map (res_of s p) (pend s').
Proof.
  intros Ht Ha. unfold pending_results. apply flat_map_ext. intros i. apply res_of_frame; assumption.
Qed.

Lemma filter_nil_all {A} (f : A -> bool) l : length (filter f l) = 0 -> forall x, In x l -> f x = false.
Proof.
  induction l as [|a l IH]; intros H x Hx; [destruct Hx|]. simpl in H. destruct (f a) eqn:E; [simpl in H; lia|].
  destruct Hx as [<-|Hx]; [exact E|apply IH; assumption].
Qed.

(* a completion check that completes a RUNNING workflow found every task execution completed *)
Lemma cac_done s s1 : check_and_complete s = Some s1 -> wf_state s = RUNNING -> is_completed (wf_state s1) = true ->
  forall tid r, nth_error (tasks s) tid = Some r -> is_completed (t_state r) = true.
Proof.
  unfold check_and_complete. intros H Hw Hc tid r Hn. rewrite Hw in H.
  change (is_completed RUNNING) with false in H. change (is_paused_or_completed RUNNING) with false in H. cbv iota in H.
  destruct (Nat.ltb 0 (incomplete_count s)) eqn:E.
  - injection H as <-. rewrite Hw in Hc. discriminate.
  - apply Nat.ltb_ge in E. unfold incomplete_count in E.
    assert (Hz : length (filter (fun r => negb (is_completed (t_state r))) (tasks s)) = 0) by lia.
    pose proof (filter_nil_all _ _ Hz r (nth_error_In _ _ Hn)) as Hf. apply negb_false_iff in Hf. exact Hf.
Qed.

Lemma cac_not_paused s s1 : check_and_complete s = Some s1 -> wf_state s = RUNNING ->
  wf_state s1 = RUNNING \/ is_completed (wf_state s1) = true.
Proof.
  unfold check_and_complete. intros H Hw. rewrite Hw in H.
  change (is_completed RUNNING) with false in H. change (is_paused_or_completed RUNNING) with false in H. cbv iota in H.
  destruct (Nat.ltb 0 (incomplete_count s)); [injection H as <-; left; exact Hw|].
  destruct (any_cancels s).
  - unfold cancel_workflow in H. rewrite Hw in H. change (is_completed RUNNING) with false in H. cbv iota in H.
    apply wf_set_state_inv in H. subst s1. right. reflexivity.
  - destruct (all_errors_handled s).
    + unfold succeed_workflow in H. rewrite Hw in H. change (state_eqb RUNNING SUCCESS) with false in H. cbv iota in H.
      apply wf_set_state_inv in H. subst s1. right. reflexivity.
    + unfold fail_workflow in H. rewrite Hw in H. change (is_completed RUNNING) with false in H. cbv iota in H.
      apply wf_set_state_inv in H. subst s1. right. reflexivity.
Qed.

Lemma cac_verdict s s1 : check_and_complete s = Some s1 -> wf_state s = RUNNING -> is_completed (wf_state s1) = true ->
  wf_state s1 = verdict_of (tasks s).
Proof.
  unfold check_and_complete. intros H Hw Hc. rewrite Hw in H.
  change (is_completed RUNNING) with false in H. change (is_paused_or_completed RUNNING) with false in H. cbv iota in H.
  destruct (Nat.ltb 0 (incomplete_count s)); [injection H as <-; rewrite Hw in Hc; discriminate|].
  unfold verdict_of. unfold any_cancels, all_errors_handled in H.
  destruct (existsb (fun r => state_eqb (t_state r) CANCELLED) (tasks s)).
  - unfold cancel_workflow in H. rewrite Hw in H. change (is_completed RUNNING) with false in H. cbv iota in H.
    apply wf_set_state_inv in H. subst s1. reflexivity.
  - destruct (negb (existsb _ (tasks s))).
    + unfold succeed_workflow in H. rewrite Hw in H. change (state_eqb RUNNING SUCCESS) with false in H. cbv iota in H.
      apply wf_set_state_inv in H. subst s1. reflexivity.
    + unfold fail_workflow in H. rewrite Hw in H. change (is_completed RUNNING) with false in H. cbv iota in H.
      apply wf_set_state_inv in H. subst s1. reflexivity.
Qed.

Section Tx.
Variable sp : spec.
Variable pz : bool.

Lemma commit_D s ops : D sp pz s ops -> D sp pz (commit (s, ops)) [].
Proof.
  intros [H1 H2 H3 H4 H5 H6 H7a H7 H8 H9 H10 H11 H12 H13 H14 H15 H16 H17 H18]. unfold commit. cbn [fst snd].
  destruct ops as [|o l] eqn:Eo; [constructor; assumption|]. rewrite <- Eo in *. clear Eo o l.
  constructor; cbn [add_pend wf_created wf_state backlog tasks acts pend calls]; try assumption.
  - intros aid a Ha. rewrite <- (H9 aid a Ha). unfold n_act. cbn [add_pend pend]. rewrite sumf_app. simpl. lia.
  - intros aid Ha. rewrite <- (H10 aid Ha). unfold n_act. cbn [add_pend pend]. rewrite sumf_app. simpl. lia.
  - intros p. specialize (H12 p). unfold nth_call in *. cbn [add_pend calls].
    rewrite (pending_results_frame s (add_pend s (IPtq ops)) p eq_refl eq_refl). cbn [add_pend pend]. rewrite flat_map_app. cbn [flat_map res_of].
    rewrite !app_nil_r. exact H12.
  - rewrite forallb_app, H13. simpl. rewrite H14. reflexivity.
  - reflexivity.
Qed.

Lemma hdr_D s s1 ops : D sp pz s ops -> hdr_only s s1 -> live_wf_state (wf_state s1) = true ->
  (wf_state s1 = RUNNING \/ (pz = true /\ wf_state s1 = PAUSED) \/ is_completed (wf_state s1) = true) ->
  (is_completed (wf_state s1) = true -> forall tid r, nth_error (tasks s) tid = Some r -> is_completed (t_state r) = true) ->
  (is_completed (wf_state s1) = true -> wf_state s1 = verdict_of (tasks s)) ->
  (wf_state s1 <> PAUSED -> wf_state s <> PAUSED) ->
  D sp pz s1 ops.
Proof.
  intros [H1 H2 H3 H4 H5 H6 H7a H7 H8 H9 H10 H11 H12 H13 H14 H15 H16 H17 H18] Hh Hl Hw Hd Hv Hnp.
  assert (Hf : tasks s1 = tasks s /\ acts s1 = acts s /\ pend s1 = pend s /\ backlog s1 = backlog s /\
               wf_created s1 = wf_created s /\ calls s1 = calls s) by (destruct Hh as [->|[y ->]]; repeat split; reflexivity).
  destruct Hf as [F1 [F2 [F3 [F4 [F5 F6]]]]].
  constructor; try assumption; unfold acts_of, n_act, rows_named, nth_call, final_states in *;
    rewrite ?(pending_results_frame s s1 _ F1 F2); rewrite ?F1, ?F2, ?F3, ?F4, ?F5, ?F6; try assumption.
  - intros aid a Ha. destruct (H8 aid a Ha) as [A [B C]]. unfold get_task in *. rewrite F1. repeat split; assumption.
  - intros p. rewrite (pending_results_frame s s1 p F1 F2), F3. apply H12.
  - intros Hq. apply H17, Hnp, Hq.
Qed.

Lemma run_op_D s o ops : D sp pz s (o :: ops) -> D sp pz (run_ops sp s [o]) ops.
Proof.
  intros HD. pose proof HD as [H1 H2 H3 H4 H5 H6 H7a H7 H8 H9 H10 H11 H12 H13 H14 H15 H16 H17 H18].
  simpl in H14. apply andb_true_iff in H14. destruct H14 as [Ho H14]. cbn [run_ops].
  destruct o as [tid f r x|aid| |tid]; simpl in Ho; try discriminate.
  - constructor; cbn [add_pend wf_created wf_state backlog tasks acts pend calls]; try assumption.
    + intros aid a Ha. rewrite <- (H9 aid a Ha). unfold n_act. cbn [add_pend pend]. rewrite sumf_app. simpl. lia.
    + intros aid Ha. rewrite <- (H10 aid Ha). unfold n_act. cbn [add_pend pend]. rewrite sumf_app. simpl. lia.
    + intros p. specialize (H12 p). unfold nth_call in *. cbn [add_pend calls].
      rewrite (pending_results_frame s (add_pend s (IStartTask tid f r x)) p eq_refl eq_refl). cbn [add_pend pend]. rewrite flat_map_app. cbn [flat_map res_of].
      rewrite !app_nil_r. exact H12.
    + rewrite forallb_app, H13. simpl. rewrite Ho. reflexivity.
  - constructor; cbn [add_pend wf_created wf_state backlog tasks acts pend calls]; try assumption.
    + intros aid' a Ha. rewrite <- (H9 aid' a Ha). unfold n_act. cbn [add_pend pend]. rewrite sumf_app. simpl. lia.
    + intros aid' Ha. rewrite <- (H10 aid' Ha). unfold n_act. cbn [add_pend pend]. rewrite sumf_app. simpl. lia.
    + intros p. specialize (H12 p). unfold nth_call in *. cbn [add_pend calls].
      rewrite (pending_results_frame s (add_pend s (IExec aid)) p eq_refl eq_refl). cbn [add_pend pend]. rewrite flat_map_app. cbn [flat_map res_of].
      rewrite !app_nil_r. exact H12.
    + rewrite forallb_app, H13. reflexivity.
  - destruct (cac_spec s H3) as [s1 [E1 [Hh [Hl1 [Hr1 Hq1]]]]]. rewrite E1.
    assert (HD' : D sp pz s ops).
    { constructor; assumption. }
    apply (hdr_D s s1 ops HD' Hh Hl1).
    + destruct H2 as [Hw|[[Hz Hpa]|Hc]].
      * destruct (cac_not_paused s s1 E1 Hw) as [Q|Q]; [left; exact Q|right; right; exact Q].
      * right. left. split; [exact Hz|]. rewrite (Hq1 ltac:(intros E; rewrite E in Hpa; discriminate)). exact Hpa.
      * right. right. rewrite (Hq1 ltac:(intros E; rewrite E in Hc; discriminate)). exact Hc.
    + intros Hc1. destruct H2 as [Hw|[[Hz Hpa]|Hc]]; [eapply cac_done; eassumption| |apply H5, Hc].
      rewrite (Hq1 ltac:(intros E; rewrite E in Hpa; discriminate)) in Hc1. rewrite Hpa in Hc1. discriminate.
    + intros Hc1. destruct H2 as [Hw|[[Hz Hpa]|Hc]]; [eapply cac_verdict; eassumption| |].
      * rewrite (Hq1 ltac:(intros E; rewrite E in Hpa; discriminate)) in Hc1. rewrite Hpa in Hc1. discriminate.
      * rewrite (Hq1 ltac:(intros E; rewrite E in Hc; discriminate)). apply H16, Hc.
    + intros Hnp Hpa. apply Hnp. rewrite (Hq1 ltac:(intros E; rewrite E in Hpa; discriminate)). exact Hpa.
Qed.

Lemma run_ops_D : forall ops s, D sp pz s ops -> D sp pz (run_ops sp s ops) [].
Proof.
  induction ops as [|o ops IH]; intros s H; [exact H|].
  rewrite run_ops_cons. apply IH. apply run_op_D. exact H.
Qed.

Lemma take_ptq_D s ops pre post : pend s = pre ++ IPtq ops :: post -> D sp pz s [] -> D sp pz (set_pend s (pre ++ post)) ops.
Proof.
  intros Hp [H1 H2 H3 H4 H5 H6 H7a H7 H8 H9 H10 H11 H12 H13 H14 H15 H16 H17 H18].
  assert (Hn : forall aid, n_act (set_pend s (pre ++ post)) ops aid = n_act s [] aid).
  { intros aid. unfold n_act. cbn [set_pend pend]. rewrite Hp, !sumf_app. simpl. lia. }
  constructor; cbn [set_pend wf_created wf_state backlog tasks acts pend calls]; try assumption.
  - intros aid a Ha. rewrite Hn. apply H9, Ha.
  - intros aid Ha. rewrite Hn. apply H10, Ha.
  - intros p. specialize (H12 p). unfold nth_call in *. cbn [set_pend calls].
    rewrite (pending_results_frame s (set_pend s (pre ++ post)) p eq_refl eq_refl). cbn [set_pend pend].
    unfold pending_results in H12. rewrite Hp, flat_map_app in H12. cbn [flat_map res_of] in H12. rewrite flat_map_app. exact H12.
  - rewrite Hp, !forallb_app in H13. simpl in H13. rewrite forallb_app.
    apply andb_true_iff in H13. destruct H13 as [A B]. apply andb_true_iff in B. destruct B as [_ B]. rewrite A, B. reflexivity.
  - rewrite Hp, forallb_app in H13. simpl in H13. apply andb_true_iff in H13. destruct H13 as [_ B].
    apply andb_true_iff in B. apply B.
Qed.
End Tx.

(* ================================================================= the events *)
Lemma sumf_in_le {A} (f : A -> nat) l x : In x l -> f x <= sumf f l.
Proof. induction l as [|a l IH]; intros H; [destruct H|]. simpl. destruct H as [<-|H]; [lia|]. specialize (IH H). lia. Qed.

Lemma flat_map_set_nth_same {A B} (f : A -> list B) : forall l k x y, nth_error l k = Some x -> f y = f x ->
  flat_map f (set_nth k y l) = flat_map f l.
Proof.
  induction l as [|a l IH]; intros k x y H E; [destruct k; discriminate|].
  destruct k as [|k]; simpl in *.
  - injection H as ->. rewrite E. reflexivity.
  - rewrite (IH k x y H E). reflexivity.
Qed.

Lemma flat_map_ext_in {A B} (f g : A -> list B) l : (forall x, In x l -> f x = g x) -> flat_map f l = flat_map g l.
Proof. induction l as [|a l IH]; intros H; simpl; [reflexivity|]. rewrite (H a (or_introl eq_refl)), IH; [reflexivity|]. intros x Hx. apply H. right. exact Hx. Qed.

Lemma flat_map_nil_all {A B} (f : A -> list B) l : (forall x, In x l -> f x = []) -> flat_map f l = [].
Proof. induction l as [|a l IH]; intros H; simpl; [reflexivity|]. rewrite (H a (or_introl eq_refl)), IH; [reflexivity|]. intros x Hx. apply H. right. exact Hx. Qed.

Lemma nth_set_nth_other {A} (d : A) : forall l n k x, k <> n -> nth k (set_nth n x l) d = nth k l d.
Proof.
  induction l as [|y l IH]; intros n k x Hk; [destruct n; reflexivity|].
  destruct n as [|n]; destruct k as [|k]; simpl; try reflexivity; [contradiction|]. apply IH. lia.
Qed.

Section Events.
Variable sp : spec.
Variable pz : bool.
Hypothesis Hs : simple_b sp = true.

(* results on their way refer to existing action executions *)
Lemma D_result_valid s ops aid r : D sp pz s ops -> In (IResult aid r) (pend s) -> aid < length (acts s).
Proof.
  intros HD Hin. destruct (Nat.lt_ge_cases aid (length (acts s))) as [H|H]; [exact H|exfalso].
  pose proof (D_tok0 _ _ _ _ HD aid H) as H0. unfold n_act in H0.
  pose proof (sumf_in_le (item_act aid) (pend s) _ Hin) as Hle. cbn [item_act] in Hle. rewrite Nat.eqb_refl in Hle. lia.
Qed.

Lemma drop_item_D s it pre post : pend s = pre ++ it :: post ->
  (forall aid, item_act aid it = 0) -> (forall p, res_of s p it = []) ->
  D sp pz s [] -> D sp pz (set_pend s (pre ++ post)) [].
Proof.
  intros Hp Hz Hr [H1 H2 H3 H4 H5 H6 H7a H7 H8 H9 H10 H11 H12 H13 H14 H15 H16 H17 H18].
  assert (Hn : forall aid, n_act (set_pend s (pre ++ post)) [] aid = n_act s [] aid).
  { intros aid. unfold n_act. cbn [set_pend pend]. rewrite Hp, !sumf_app. simpl. rewrite Hz. lia. }
  constructor; cbn [set_pend wf_created wf_state backlog tasks acts pend calls]; try assumption.
  - intros aid a Ha. rewrite Hn. apply H9, Ha.
  - intros aid Ha. rewrite Hn. apply H10, Ha.
  - intros p. specialize (H12 p). unfold nth_call in *. cbn [set_pend calls].
    rewrite (pending_results_frame s (set_pend s (pre ++ post)) p eq_refl eq_refl). cbn [set_pend pend].
    unfold pending_results in H12. rewrite Hp, flat_map_app in H12. cbn [flat_map] in H12. rewrite Hr in H12.
    rewrite flat_map_app. exact H12.
  - rewrite Hp, !forallb_app in H13. simpl in H13. rewrite forallb_app.
    apply andb_true_iff in H13. destruct H13 as [A B]. apply andb_true_iff in B. destruct B as [_ B]. rewrite A, B. reflexivity.
Qed.

(* start_task for an IDLE task *)
Lemma start_new_D s tid r : D sp pz s [] -> nth_error (tasks s) tid = Some r -> t_state r = IDLE ->
  D sp pz (commit (check_affected sp (schedule_action (task_set_state s tid RUNNING, []) tid) tid)) [].
Proof.
  intros HD Hn Hi. pose proof HD as [H1 H2 H3 H4 H5 H6 H7a H7 H8 H9 H10 H11 H12 H13 H14 H15 H16 H17 H18].
  rewrite nojoin_check_affected by (apply simple_nojoin; exact Hs).
  assert (Hlt : tid < length (tasks s)) by (apply nth_error_Some; congruence).
  unfold schedule_action, task_set_state. cbn [fst snd app].
  unfold get_task. rewrite (nth_error_nth' _ _ dummy_trow _ Hn).
  set (r' := t_set_state r RUNNING). set (a := mkArow tid RUNNING false).
  cbn [upd_task acts]. set (aid := length (acts s)).
  match goal with |- D sp pz (commit (?s2, ?o)) [] => change (D sp pz (commit (s2, o)) []); apply commit_D end.
  assert (Hnot : forall k b, nth_error (acts s) k = Some b -> a_task b <> tid) by (apply (H7a tid r Hn Hi)).
  assert (Hwf : is_completed (wf_state s) = false).
  { destruct (is_completed (wf_state s)) eqn:E; [|reflexivity]. specialize (H5 eq_refl tid r Hn). rewrite Hi in H5. discriminate. }
  assert (Hrow : forall k, nth_error (set_nth tid r' (tasks s)) k = if Nat.eqb k tid then Some r' else nth_error (tasks s) k).
  { intros k. destruct (Nat.eqb k tid) eqn:E.
    - apply Nat.eqb_eq in E. subst k. apply nth_error_set_nth_same. exact Hlt.
    - apply Nat.eqb_neq in E. apply nth_error_set_nth_other. exact E. }
  assert (Hna : forall k, n_act (add_act (upd_task s tid r') a) [ORunAction aid] k = n_act s [] k + (if Nat.eqb aid k then 1 else 0)).
  { intros k. unfold n_act. cbn [add_act upd_task pend]. simpl. lia. }
  constructor; cbn [add_act upd_task wf_created wf_state backlog tasks acts pend calls]; rewrite ?set_nth_length; try assumption.
  - intros Hc. rewrite Hc in Hwf. discriminate.
  - intros k x Hk. rewrite Hrow in Hk. destruct (Nat.eqb k tid) eqn:E.
    + injection Hk as <-. split; [right; left; reflexivity|]. apply (H6 tid r Hn).
    + apply (H6 k x Hk).
  - intros k x Hk Hxi k' b Hk'. rewrite Hrow in Hk. destruct (Nat.eqb k tid) eqn:E.
    + injection Hk as <-. discriminate Hxi.
    + destruct (Nat.lt_ge_cases k' (length (acts s))) as [Hl|Hl].
      * rewrite nth_error_app1 in Hk' by exact Hl. apply (H7a k x Hk Hxi k' b Hk').
      * rewrite nth_error_app2 in Hk' by exact Hl. destruct (k' - length (acts s)) as [|m]; simpl in Hk'; [|destruct m; discriminate].
        injection Hk' as <-. cbn [a_task a]. apply Nat.eqb_neq in E. congruence.
  - intros k1 k2 a1 a2 Hk1 Hk2 Ht.
    assert (Hcase : forall k b, nth_error (acts s ++ [a]) k = Some b ->
              (k < length (acts s) /\ nth_error (acts s) k = Some b) \/ (k = length (acts s) /\ b = a)).
    { intros k b Hk. destruct (Nat.lt_ge_cases k (length (acts s))) as [Hl|Hl].
      - left. split; [exact Hl|]. rewrite nth_error_app1 in Hk by exact Hl. exact Hk.
      - right. rewrite nth_error_app2 in Hk by exact Hl. destruct (k - length (acts s)) as [|m] eqn:Ek; simpl in Hk; [|destruct m; discriminate].
        injection Hk as <-. split; [lia|reflexivity]. }
    destruct (Hcase k1 a1 Hk1) as [[L1 O1]|[L1 ->]]; destruct (Hcase k2 a2 Hk2) as [[L2 O2]|[L2 ->]].
    + apply (H7 k1 k2 a1 a2 O1 O2 Ht).
    + exfalso. apply (Hnot k1 a1 O1). rewrite Ht. reflexivity.
    + exfalso. apply (Hnot k2 a2 O2). rewrite <- Ht. reflexivity.
    + lia.
  - intros k b Hk. destruct (Nat.lt_ge_cases k (length (acts s))) as [Hl|Hl].
    + rewrite nth_error_app1 in Hk by exact Hl. destruct (H8 k b Hk) as [A [B C]].
      split; [exact A|]. unfold get_task in *. cbn [add_act upd_task tasks] in *.
      rewrite (nth_set_nth_other _ _ _ _ _ (Hnot k b Hk)). split; assumption.
    + rewrite nth_error_app2 in Hk by exact Hl. destruct (k - length (acts s)) as [|m]; simpl in Hk; [|destruct m; discriminate].
      injection Hk as <-. cbn [a_task a_state a]. split; [exact Hlt|]. unfold get_task. cbn [add_act upd_task tasks].
      rewrite (nth_error_nth' _ _ dummy_trow _ (nth_error_set_nth_same _ _ _ Hlt)). split; [reflexivity|discriminate].
  - intros k b Hk. rewrite Hna.
    destruct (Nat.lt_ge_cases k (length (acts s))) as [Hl|Hl].
    + rewrite nth_error_app1 in Hk by exact Hl. rewrite (H9 k b Hk).
      assert (E : Nat.eqb aid k = false) by (apply Nat.eqb_neq; unfold aid; lia). rewrite E. lia.
    + rewrite nth_error_app2 in Hk by exact Hl. destruct (k - length (acts s)) as [|m] eqn:Ek; simpl in Hk; [|destruct m; discriminate].
      injection Hk as <-. assert (k = aid) by (unfold aid; lia). subst k. rewrite Nat.eqb_refl.
      rewrite (H10 aid ltac:(unfold aid; lia)). reflexivity.
  - intros k Hk. rewrite app_length in Hk. simpl in Hk. rewrite Hna. rewrite (H10 k ltac:(lia)).
    assert (E : Nat.eqb aid k = false) by (apply Nat.eqb_neq; unfold aid; lia). rewrite E. reflexivity.
  - intros n Hnn. specialize (H11 n Hnn). unfold rows_named in *. cbn [add_act upd_task tasks].
    pose proof (sumf_set_nth (fun x => if Nat.eqb (t_name x) n then 1 else 0) (tasks s) tid r r' Hn) as E1.
    pose proof (sumf_set_nth (fun x => expanded sp x n) (tasks s) tid r r' Hn) as E2.
    cbv beta in E1, E2. cbn [r' t_set_state t_state t_name] in E1.
    assert (Er0 : expanded sp r n = 0) by (unfold expanded; rewrite Hi; reflexivity).
    assert (Er1 : expanded sp r' n = 0) by reflexivity. lia.
  - intros p. specialize (H12 p). unfold nth_call in *. cbn [add_act upd_task calls].
    assert (Ef : final_states (add_act (upd_task s tid r') a) p = final_states s p).
    { unfold final_states. cbn [add_act upd_task tasks]. apply (flat_map_set_nth_same _ _ _ r r' Hn).
      cbn [r' t_set_state t_state t_name]. rewrite Hi. cbn. rewrite !andb_false_r. reflexivity. }
    assert (Ep : pending_results (add_act (upd_task s tid r') a) p = pending_results s p).
    { unfold pending_results. cbn [add_act upd_task pend]. apply flat_map_ext_in. intros i Hin. destruct i; try reflexivity.
      pose proof (D_result_valid s [] aid0 r0 HD Hin) as Hv.
      assert (Hname : name_of_act (add_act (upd_task s tid r') a) aid0 = name_of_act s aid0).
      { unfold name_of_act, get_act, get_task. cbn [add_act upd_task acts tasks]. rewrite (app_nth1 _ _ _ Hv).
        destruct (nth_error (acts s) aid0) as [b|] eqn:Eb; [|apply nth_error_None in Eb; lia].
        rewrite (nth_error_nth' _ _ dummy_arow _ Eb). rewrite (nth_set_nth_other _ _ _ _ _ (Hnot aid0 b Eb)). reflexivity. }
      unfold res_of. rewrite Hname. reflexivity. }
    rewrite Ef, Ep. exact H12.
  - intros k y Hk Hy. rewrite Hrow in Hk. destruct (Nat.eqb k tid) eqn:E.
    + injection Hk as <-. discriminate Hy.
    + apply (H15 k y Hk Hy).
  - intros Hc. rewrite Hc in Hwf. discriminate.
  - intros Hq k y Hk Hy. rewrite Hrow in Hk. destruct (Nat.eqb k tid) eqn:E.
    + injection Hk as <-. discriminate Hy.
    + apply (H17 Hq k y Hk Hy).
  - intros k y Hk Hy. rewrite Hrow in Hk. destruct (Nat.eqb k tid) eqn:E.
    + injection Hk as <-. cbn [r' t_set_state t_processed]. apply (H18 tid r Hn). rewrite Hi. reflexivity.
    + apply (H18 k y Hk Hy).
Qed.

Lemma nth_bump : forall l n p, nth p (bump l n) 0 = nth p l 0 + (if Nat.eqb p n then 1 else 0).
Proof.
  induction l as [|x l IH]; intros n p.
  - revert p. induction n as [|n IHn]; intros p; simpl.
    + destruct p as [|p]; simpl; [reflexivity|]. destruct p; reflexivity.
    + destruct p as [|p]; simpl; [reflexivity|]. rewrite IHn. destruct p; reflexivity.
  - destruct n as [|n]; destruct p as [|p]; simpl; try lia. apply IH.
Qed.

Lemma prescribed_S p k : prescribed_states sp p (S k) = prescribed_states sp p k ++ [state_of_outcome (outcome sp p k)].
Proof. unfold prescribed_states. rewrite seq_S, map_app. reflexivity. Qed.

(* the executor runs an action: the attempt number of its task name fixes the outcome *)
Lemma exec_D s aid pre post : pend s = pre ++ IExec aid :: post -> D sp pz s [] ->
  let s0 := set_pend s (pre ++ post) in
  let name := t_name (get_task s0 (a_task (get_act s0 aid))) in
  let res := nth (nth_call s0 name) (ts_outs (get_ts sp name)) OOk in
  D sp pz (add_pend (set_calls s0 (bump (calls s0) name)) (IResult aid res)) [].
Proof.
  intros Hp HD s0 name res. pose proof HD as [H1 H2 H3 H4 H5 H6 H7a H7 H8 H9 H10 H11 H12 H13 H14 H15 H16 H17 H18].
  assert (Ename : name = name_of_act s aid) by reflexivity.
  assert (Eres : res = outcome sp name (nth_call s name)) by reflexivity.
  clearbody name res.
  set (s' := add_pend (set_calls s0 (bump (calls s0) name)) (IResult aid res)).
  assert (Hn : forall k, n_act s' [] k = n_act s [] k).
  { intros k. unfold n_act, s', s0. cbn [add_pend set_calls set_pend pend]. rewrite Hp, !sumf_app. simpl. lia. }
  constructor; cbn [s' s0 add_pend set_calls set_pend wf_created wf_state backlog tasks acts pend calls]; try assumption.
  - intros k a Ha. rewrite Hn. apply H9, Ha.
  - intros k Ha. rewrite Hn. apply H10, Ha.
  - intros p. specialize (H12 p).
    assert (Ec : nth_call s' p = nth_call s p + (if Nat.eqb p name then 1 else 0)).
    { unfold nth_call, s', s0. cbn [add_pend set_calls set_pend calls]. apply nth_bump. }
    assert (Ef : final_states s' p = final_states s p) by reflexivity.
    assert (Epd : pending_results s' p = flat_map (res_of s p) (pre ++ post) ++ res_of s p (IResult aid res)).
    { rewrite (pending_results_frame s s' p eq_refl eq_refl). unfold s', s0. cbn [add_pend set_calls set_pend pend].
      rewrite flat_map_app. cbn [flat_map]. rewrite app_nil_r. reflexivity. }
    assert (Eold : pending_results s p = flat_map (res_of s p) (pre ++ post)).
    { unfold pending_results. rewrite Hp, !flat_map_app. cbn [flat_map res_of]. reflexivity. }
    fold s'. rewrite Ec, Ef, Epd, <- Eold. cbn [res_of]. rewrite <- Ename.
    destruct (Nat.eqb name p) eqn:E.
    + apply Nat.eqb_eq in E. subst p. rewrite Nat.eqb_refl. rewrite Nat.add_1_r, prescribed_S, <- Eres.
      eapply perm_trans; [|apply Permutation_cons_append].
      rewrite <- app_assoc. eapply perm_trans; [apply Permutation_sym, Permutation_middle|]. apply perm_skip. exact H12.
    + rewrite Nat.eqb_sym, E. rewrite Nat.add_0_r, app_nil_r. exact H12.
  - rewrite Hp, !forallb_app in H13. simpl in H13. rewrite !forallb_app.
    apply andb_true_iff in H13. destruct H13 as [A B]. rewrite A, B. reflexivity.
Qed.

(* Task.complete of a RUNNING task in a RUNNING workflow without backlog: the task gets its final state
   and the prescribed routes are dispatched, each starting one new task execution *)
Lemma upd_task_thrice s tid a b c : upd_task (upd_task (upd_task s tid a) tid b) tid c = upd_task s tid c.
Proof.
  assert (Htw : forall {A} n (u v : A) l, set_nth n v (set_nth n u l) = set_nth n v l).
  { intros A n u v l. revert n. induction l as [|y l IH]; intros n; [destruct n; reflexivity|].
    destruct n as [|n]; simpl; [reflexivity|]. rewrite IH. reflexivity. }
  unfold upd_task. cbn. rewrite !Htw. reflexivity.
Qed.

Lemma is_runs_okcs l : is_runs l = true -> okcs l.
Proof.
  intros H. apply Forall_forall. intros c Hc. unfold is_runs in H. rewrite forallb_forall in H. specialize (H c Hc).
  destruct c as [? ? w ?| | | |]; try discriminate H. destruct w; [discriminate|reflexivity].
Qed.

Lemma complete_pre_simple s ops tid x r :
  nth_error (tasks s) tid = Some r -> t_state r = RUNNING -> wf_state s = RUNNING ->
  (x = SUCCESS \/ x = ERROR \/ x = CANCELLED) ->
  exists r3 cmds ops',
    t_name r3 = t_name r /\ t_state r3 = x /\ t_processed r3 = true /\ (x = ERROR -> t_err_handled r3 = has_err_route sp (t_name r)) /\
    is_runs cmds = true /\ names cmds = routes sp (t_name r) x /\ length cmds <= spec_size sp /\
    (ops' = ops \/ ops' = ops ++ [OCheck]) /\
    complete_pre sp (s, ops) tid x = PreCmds (upd_task s tid r3, ops') cmds.
Proof.
  intros Hn Hst Hw Hx.
  assert (Hlt : tid < length (tasks s)) by (apply nth_error_Some; congruence).
  assert (E0 : get_task s tid = r) by (unfold get_task; apply nth_error_nth'; exact Hn).
  assert (E1 : get_task (task_set_state s tid x) tid = t_set_state r x).
  { unfold get_task, task_set_state. cbn [upd_task tasks]. rewrite E0. apply nth_error_nth'. apply nth_error_set_nth_same. exact Hlt. }
  assert (Hsk : is_skipped x = false) by (destruct Hx as [->|[->| ->]]; reflexivity).
  destruct (find_next_simple sp Hs (t_set_state r x)) as [nx [Hfn [Heh Hnx]]].
  { cbn [t_set_state t_state]. exact Hx. }
  cbn [t_set_state t_name t_state] in Hnx, Heh.
  unfold complete_pre. cbn [fst snd]. rewrite E0, Hst, Hsk. cbn [is_completed mem existsb state_eqb orb andb negb].
  rewrite E1. change (wf_state (task_set_state s tid x)) with (wf_state s). rewrite Hw.
  cbn [state_eqb orb]. rewrite Hfn. cbv zeta.
  change (wf_state (upd_task (task_set_state s tid x) tid _)) with (wf_state s). rewrite Hw.
  change (is_paused RUNNING) with false. cbv iota.
  unfold task_set_state. rewrite upd_task_thrice.
  destruct (Hnx tid) as [N1 [N2 N3]].
  eexists. exists (map (to_cmd sp tid) nx). eexists.
  split; [|split; [|split; [|split; [|split; [exact N1|split; [exact N2|split; [|split; [|reflexivity]]]]]]]].
  - reflexivity.
  - reflexivity.
  - reflexivity.
  - intros Ex. cbn [t_set_processed t_err_handled]. rewrite Ex. cbn [state_eqb]. apply Heh. exact Ex.
  - rewrite map_length. eapply find_next_len. exact Hfn.
  - destruct (negb _); [right|left]; reflexivity.
Qed.

Lemma complete_simple f s ops tid x r :
  spec_size sp + 3 < f ->
  nth_error (tasks s) tid = Some r -> t_state r = RUNNING -> wf_state s = RUNNING -> backlog s = [] ->
  (x = SUCCESS \/ x = ERROR \/ x = CANCELLED) ->
  exists r3 cmds ops',
    t_name r3 = t_name r /\ t_state r3 = x /\ t_processed r3 = true /\ (x = ERROR -> t_err_handled r3 = has_err_route sp (t_name r)) /\
    is_runs cmds = true /\ Permutation (names cmds) (routes sp (t_name r) x) /\
    (ops' = ops \/ ops' = ops ++ [OCheck]) /\
    complete_task sp f (s, ops) tid x = (spawn sp (upd_task s tid r3, ops') cmds, FOk).
Proof.
  intros Hf Hn Hst Hw Hb Hx.
  destruct (complete_pre_simple s ops tid x r Hn Hst Hw Hx) as [r3 [cmds [ops' [A1 [A2 [Apr [Aeh [A3 [A4 [A5 [A6 A7]]]]]]]]]]].
  destruct (rearrange_runs cmds A3) as [Hperm Hruns].
  exists r3, (rearrange cmds), ops'. split; [exact A1|]. split; [exact A2|]. split; [exact Apr|]. split; [exact Aeh|]. split; [exact Hruns|].
  split; [rewrite <- A4; unfold names; apply Permutation_sym, Permutation_map; exact Hperm|]. split; [exact A6|].
  rewrite complete_task_eq. destruct f as [|f]; [lia|]. rewrite A7.
  rewrite dispatch_eq. destruct f as [|f]; [lia|]. cbv zeta. cbn [fst upd_task backlog]. rewrite Hb.
  pose proof (rearrange_length cmds) as Hl.
  rewrite process_cmds_loop by (try (apply is_runs_okcs; exact Hruns); lia).
  apply loop_spawn; [exact Hruns|exact Hw].
Qed.

Lemma flat_map_set_nth_perm {A B} (f : A -> list B) : forall l k x y, nth_error l k = Some x -> f x = [] ->
  Permutation (flat_map f (set_nth k y l)) (f y ++ flat_map f l).
Proof.
  induction l as [|a l IH]; intros k x y H E; [destruct k; discriminate|].
  destruct k as [|k]; simpl in *.
  - injection H as ->. rewrite E. simpl. apply Permutation_refl.
  - specialize (IH k x y H E). eapply perm_trans; [apply Permutation_app_head; exact IH|].
    rewrite !app_assoc. apply Permutation_app_tail. apply Permutation_app_comm.
Qed.

Lemma nth_error_set_nth_cases {A} (l : list A) n x k y : nth_error (set_nth n x l) k = Some y ->
  (k = n /\ y = x /\ n < length l) \/ (k <> n /\ nth_error l k = Some y).
Proof.
  intros H. destruct (Nat.eq_dec k n) as [->|Hne].
  - left. split; [reflexivity|]. split; [apply nth_error_set_nth_eq in H; exact H|].
    assert (n < length (set_nth n x l)) by (apply nth_error_Some; congruence). rewrite set_nth_length in *. assumption.
  - right. split; [exact Hne|]. rewrite nth_error_set_nth_other in H by exact Hne. exact H.
Qed.

Lemma start_ops_no_act k more : forallb is_start_op more = true -> sumf (op_act k) more = 0.
Proof.
  intros H. apply sumf_zero. intros o Ho. rewrite forallb_forall in H. specialize (H o Ho). destruct o; try discriminate H. reflexivity.
Qed.

Lemma start_ops_plain more : forallb is_start_op more = true -> forallb dop more = true.
Proof.
  intros H. rewrite forallb_forall in *. intros o Ho. specialize (H o Ho). destruct o as [t f r x| | |]; try discriminate H.
  destruct f, r, x; try discriminate H. reflexivity.
Qed.

Lemma rows_named_count (rows : list trow) n :
  sumf (fun r => if Nat.eqb (t_name r) n then 1 else 0) rows = count_occ Nat.eq_dec (map t_name rows) n.
Proof. rewrite count_occ_sumf, sumf_map. reflexivity. Qed.

Lemma upd_task_twice s tid a b : upd_task (upd_task s tid a) tid b = upd_task s tid b.
Proof.
  assert (Htw : forall {A} n (u v : A) l, set_nth n v (set_nth n u l) = set_nth n v l).
  { intros A n u v l. revert n. induction l as [|y l IH]; intros n; [destruct n; reflexivity|].
    destruct n as [|n]; simpl; [reflexivity|]. rewrite IH. reflexivity. }
  unfold upd_task. cbn. rewrite Htw. reflexivity.
Qed.

(* Task.complete while the workflow is PAUSED: the task gets its final state, nothing is dispatched and the
   task stays unprocessed (its routes are computed again by resume) *)
Lemma complete_pre_paused s ops tid x r :
  nth_error (tasks s) tid = Some r -> t_state r = RUNNING -> wf_state s = PAUSED ->
  (x = SUCCESS \/ x = ERROR \/ x = CANCELLED) ->
  exists r3, t_name r3 = t_name r /\ t_state r3 = x /\ t_processed r3 = t_processed r /\
    (x = ERROR -> t_err_handled r3 = has_err_route sp (t_name r)) /\
    complete_pre sp (s, ops) tid x = PreIgnored (upd_task s tid r3, ops).
Proof.
  intros Hn Hst Hw Hx.
  assert (Hlt : tid < length (tasks s)) by (apply nth_error_Some; congruence).
  assert (E0 : get_task s tid = r) by (unfold get_task; apply nth_error_nth'; exact Hn).
  assert (E1 : get_task (task_set_state s tid x) tid = t_set_state r x).
  { unfold get_task, task_set_state. cbn [upd_task tasks]. rewrite E0. apply nth_error_nth'. apply nth_error_set_nth_same. exact Hlt. }
  assert (Hsk : is_skipped x = false) by (destruct Hx as [->|[->| ->]]; reflexivity).
  destruct (find_next_simple sp Hs (t_set_state r x)) as [nx [Hfn [Heh Hnx]]].
  { cbn [t_set_state t_state]. exact Hx. }
  cbn [t_set_state t_name t_state] in Heh.
  unfold complete_pre. cbn [fst snd]. rewrite E0, Hst, Hsk. cbn [is_completed mem existsb state_eqb orb andb negb].
  rewrite E1. change (wf_state (task_set_state s tid x)) with (wf_state s). rewrite Hw.
  cbn [state_eqb orb]. rewrite Hfn. cbv zeta.
  change (wf_state (upd_task (task_set_state s tid x) tid _)) with (wf_state s). rewrite Hw.
  change (is_paused PAUSED) with true. cbv iota.
  unfold task_set_state. rewrite upd_task_twice.
  eexists. split; [|split; [|split; [|split; [|reflexivity]]]].
  - reflexivity.
  - reflexivity.
  - reflexivity.
  - intros Ex. cbn [t_err_handled]. rewrite Ex. cbn [state_eqb]. apply Heh. exact Ex.
Qed.

Lemma complete_any f s ops tid x r :
  spec_size sp + 3 < f -> nth_error (tasks s) tid = Some r -> t_state r = RUNNING ->
  (wf_state s = RUNNING \/ wf_state s = PAUSED) -> backlog s = [] -> (x = SUCCESS \/ x = ERROR \/ x = CANCELLED) ->
  exists r3 rows Ops S,
    t_name r3 = t_name r /\ t_state r3 = x /\ (x = ERROR -> t_err_handled r3 = has_err_route sp (t_name r)) /\
    (wf_state s = RUNNING -> t_processed r3 = true /\ Permutation (map t_name rows) (routes sp (t_name r) x)) /\
    (wf_state s = PAUSED -> t_processed r3 = t_processed r /\ rows = []) /\
    Forall (fun y => t_state y = IDLE /\ t_processed y = false) rows /\
    tasks S = set_nth tid r3 (tasks s) ++ rows /\ acts S = acts s /\ pend S = pend s /\ wf_state S = wf_state s /\
    backlog S = backlog s /\ calls S = calls s /\ wf_created S = wf_created s /\
    (forall k, sumf (op_act k) Ops = sumf (op_act k) ops) /\ (forallb dop ops = true -> forallb dop Ops = true) /\
    complete_task sp f (s, ops) tid x = ((S, Ops), FOk).
Proof.
  intros Hf Hn Hst Hw Hb Hx. destruct Hw as [Hw|Hw].
  - destruct (complete_simple f s ops tid x r Hf Hn Hst Hw Hb Hx) as [r3 [cmds [ops' [A1 [A2 [Apr [Aeh [A3 [A4 [A5 A6]]]]]]]]]].
    destruct (spawn_spec sp cmds (upd_task s tid r3, ops') A3) as [rows [more [T [N [I [O [P [Ac [Pe [W [B [C Cr]]]]]]]]]]]].
    destruct (spawn sp (upd_task s tid r3, ops') cmds) as [S Ops] eqn:Esp. cbn [fst snd upd_task tasks acts pend wf_state backlog calls wf_created] in T, O, Ac, Pe, W, B, C, Cr.
    exists r3, rows, Ops, S. split; [exact A1|]. split; [exact A2|]. split; [exact Aeh|].
    split; [intros _; split; [exact Apr|rewrite N; exact A4]|]. split; [intros E; congruence|]. split; [exact I|].
    split; [exact T|]. split; [exact Ac|]. split; [exact Pe|]. split; [exact W|]. split; [exact B|]. split; [exact C|]. split; [exact Cr|].
    split; [|split; [|exact A6]].
    + intros k. rewrite O, sumf_app, (start_ops_no_act k more P). destruct A5 as [->| ->]; [lia|]. rewrite sumf_app. simpl. lia.
    + intros Hd. rewrite O, forallb_app, (start_ops_plain more P). destruct A5 as [->| ->]; [rewrite Hd; reflexivity|].
      rewrite forallb_app, Hd. reflexivity.
  - destruct (complete_pre_paused s ops tid x r Hn Hst Hw Hx) as [r3 [A1 [A2 [Apr [Aeh A6]]]]].
    exists r3, [], ops, (upd_task s tid r3). split; [exact A1|]. split; [exact A2|]. split; [exact Aeh|].
    split; [intros E; congruence|]. split; [intros _; split; [exact Apr|reflexivity]|]. split; [constructor|].
    cbn [upd_task tasks acts pend wf_state backlog calls wf_created]. rewrite app_nil_r.
    repeat split; auto. rewrite complete_task_eq. destruct f as [|f]; [lia|]. rewrite A6. reflexivity.
Qed.

(* an action result is accepted: the task completes and its routes are dispatched *)
Lemma result_D s aid res pre post : pend s = pre ++ IResult aid res :: post -> D sp pz s [] ->
  D sp pz (match do_result sp (set_pend s (pre ++ post)) aid res with (s1, Ok) => s1 | (_, _) => set_pend s (pre ++ post) end) [].
Proof.
  intros Hp HD. pose proof HD as [H1 H2 H3 H4 H5 H6 H7a H7 H8 H9 H10 H11 H12 H13 H14 H15 H16 H17 H18].
  set (s0 := set_pend s (pre ++ post)).
  assert (Hin : In (IResult aid res) (pend s)) by (rewrite Hp; apply in_or_app; right; left; reflexivity).
  pose proof (D_result_valid s [] aid res HD Hin) as Hv.
  destruct (nth_error (acts s) aid) as [a|] eqn:Ea; [|apply nth_error_None in Ea; lia].
  pose proof (sumf_in_le (item_act aid) (pend s) _ Hin) as Hle. cbn [item_act] in Hle. rewrite Nat.eqb_refl in Hle.
  pose proof (H9 aid a Ea) as Htok. unfold n_act in Htok. simpl in Htok.
  destruct (is_completed (a_state a)) eqn:Einc; [lia|].
  destruct (H8 aid a Ea) as [Htid [Hrun _]]. specialize (Hrun Einc).
  set (tid := a_task a) in *.
  destruct (nth_error (tasks s) tid) as [r|] eqn:Er; [|apply nth_error_None in Er; lia].
  assert (Eg : get_task s tid = r) by (unfold get_task; apply nth_error_nth'; exact Er). rewrite Eg in Hrun.
  assert (Hw : wf_state s = RUNNING \/ wf_state s = PAUSED).
  { destruct H2 as [Hw|[[_ Hw]|Hc]]; [left; exact Hw|right; exact Hw|]. specialize (H5 Hc tid r Er). rewrite Hrun in H5. discriminate. }
  assert (Hpz : wf_state s = PAUSED -> pz = true).
  { intros E. destruct H2 as [Hw'|[[Hz _]|Hc]]; [congruence|exact Hz|rewrite E in Hc; discriminate]. }
  set (x := state_of_outcome res).
  assert (Hx : x = SUCCESS \/ x = ERROR \/ x = CANCELLED) by (unfold x; destruct res; auto).
  assert (Hxc : is_completed x = true) by (destruct Hx as [->|[->| ->]]; reflexivity).
  (* unfold do_result *)
  unfold do_result. change (acts s0) with (acts s). assert (El : Nat.leb (length (acts s)) aid = false) by (apply Nat.leb_gt; exact Hv).
  rewrite El. unfold get_act. change (acts s0) with (acts s). rewrite (nth_error_nth' _ _ dummy_arow _ Ea). rewrite Einc. cbv zeta.
  fold tid. fold x. set (a' := mkArow tid x true). set (s1 := upd_act s0 aid a').
  destruct (complete_any (FUEL sp s1) s1 [] tid x r) as [r3 [rows [Ops [S [A1 [A2 [Aeh [Arun [Apau [I [T [Ac [Pe [W [B [C [Cr [Hnoact0 [Hdop A6]]]]]]]]]]]]]]]]]]];
    [unfold FUEL; lia|exact Er|exact Hrun|exact Hw|exact H4|exact Hx|].
  rewrite A6. rewrite nojoin_check_affected by (apply simple_nojoin; exact Hs).
  cbn [s1 s0 upd_task upd_act set_pend tasks acts pend wf_state backlog calls wf_created] in T, Ac, Pe, W, B, C, Cr, Arun, Apau.
  apply commit_D.
  (* facts about the new lists *)
  assert (Hlen : length (set_nth tid r3 (tasks s)) = length (tasks s)) by apply set_nth_length.
  assert (Hrowcase : forall k y, nth_error (tasks S) k = Some y ->
            (k = tid /\ y = r3) \/ (k <> tid /\ nth_error (tasks s) k = Some y) \/ (length (tasks s) <= k /\ In y rows)).
  { intros k y Hk. rewrite T in Hk. destruct (Nat.lt_ge_cases k (length (tasks s))) as [Hl|Hl].
    - rewrite nth_error_app1 in Hk by (rewrite Hlen; exact Hl).
      destruct (nth_error_set_nth_cases _ _ _ _ _ Hk) as [[E1 [E2 _]]|[E1 E2]]; [left; split; assumption|right; left; split; assumption].
    - right. right. split; [exact Hl|]. rewrite nth_error_app2 in Hk by (rewrite Hlen; exact Hl). eapply nth_error_In; exact Hk. }
  assert (Hactcase : forall k b', nth_error (acts S) k = Some b' ->
            (k = aid /\ b' = a') \/ (k <> aid /\ nth_error (acts s) k = Some b' /\ a_task b' <> tid)).
  { intros k b' Hk. rewrite Ac in Hk. destruct (nth_error_set_nth_cases _ _ _ _ _ Hk) as [[E1 [E2 _]]|[E1 E2]]; [left; split; assumption|].
    right. split; [exact E1|]. split; [exact E2|]. intros Et. apply E1. apply (H7 k aid b' a E2 Ea). exact Et. }
  assert (Hget : forall k, k <> tid -> k < length (tasks s) -> get_task S k = get_task s k).
  { intros k Hk Hl. unfold get_task. rewrite T, app_nth1 by (rewrite Hlen; exact Hl). apply nth_set_nth_other. exact Hk. }
  assert (Hget3 : get_task S tid = r3).
  { unfold get_task. rewrite T, app_nth1 by (rewrite Hlen; exact Htid). apply nth_error_nth'. apply nth_error_set_nth_same. exact Htid. }
  assert (Hnoact : forall k, sumf (op_act k) Ops = 0) by (intros k; rewrite Hnoact0; reflexivity).
  assert (Hpend : forall k, sumf (item_act k) (pre ++ post) + (if Nat.eqb aid k then 1 else 0) = sumf (item_act k) (pend s)).
  { intros k. rewrite Hp, !sumf_app. simpl. lia. }
  assert (Hidle : forall y, In y rows -> t_state y = IDLE) by (rewrite Forall_forall in I; intros y Hy; apply (I y Hy)).
  assert (Hunp : forall y, In y rows -> t_processed y = false) by (rewrite Forall_forall in I; intros y Hy; apply (I y Hy)).
  assert (Hrowname : forall y, In y rows -> t_name r < t_name y < length sp).
  { intros y Hy. destruct Hw as [Hw|Hw]; [|destruct (Apau Hw) as [_ E]; subst rows; destruct Hy].
    destruct (Arun Hw) as [_ A4]. apply (routes_range sp Hs (t_name r) x). eapply Permutation_in; [exact A4|]. apply in_map. exact Hy. }
  assert (Hncomp : is_completed (wf_state s) = false) by (destruct Hw as [Hw|Hw]; rewrite Hw; reflexivity).
  constructor.
  - rewrite Cr. exact H1.
  - rewrite W. destruct Hw as [Hw|Hw]; [left; exact Hw|right; left; split; [apply Hpz, Hw|exact Hw]].
  - rewrite W. exact H3.
  - rewrite B. exact H4.
  - rewrite W, Hncomp. discriminate.
  - intros k y Hk. destruct (Hrowcase k y Hk) as [[-> ->]|[[Hne Hold]|[Hge Hy]]].
    + split; [rewrite A2; destruct Hx as [->|[->| ->]]; auto|rewrite A1; apply (H6 tid r Er)].
    + apply (H6 k y Hold).
    + split; [left; apply Hidle, Hy|apply (Hrowname y Hy)].
  - intros k y Hk Hyi k' b' Hk'. destruct (Hrowcase k y Hk) as [[-> ->]|[[Hne Hold]|[Hge Hy]]].
    + rewrite A2 in Hyi. rewrite Hyi in Hxc. discriminate.
    + destruct (Hactcase k' b' Hk') as [[-> ->]|[_ [Hb _]]]; [cbn; congruence|apply (H7a k y Hold Hyi k' b' Hb)].
    + destruct (Hactcase k' b' Hk') as [[-> ->]|[_ [Hb _]]]; [cbn; lia|]. destruct (H8 k' b' Hb) as [Hlt _]. lia.
  - intros k1 k2 b1 b2 Hk1 Hk2 Et.
    destruct (Hactcase k1 b1 Hk1) as [[-> ->]|[N1 [O1 T1]]]; destruct (Hactcase k2 b2 Hk2) as [[-> ->]|[N2 [O2 T2]]].
    + reflexivity.
    + exfalso. apply T2. rewrite <- Et. reflexivity.
    + exfalso. apply T1. rewrite Et. reflexivity.
    + apply (H7 k1 k2 b1 b2 O1 O2 Et).
  - intros k b' Hk. destruct (Hactcase k b' Hk) as [[-> ->]|[Nk [Ok Tk]]].
    + cbn [a' a_task a_state]. rewrite T, app_length, Hlen. split; [lia|]. rewrite Hget3, A2. split; [rewrite Hxc; discriminate|reflexivity].
    + destruct (H8 k b' Ok) as [Q1 [Q2 Q3]]. rewrite T, app_length, Hlen. split; [lia|].
      rewrite (Hget (a_task b') Tk Q1). split; assumption.
  - intros k b' Hk. unfold n_act. rewrite Pe, Hnoact. specialize (Hpend k). destruct (Hactcase k b' Hk) as [[-> ->]|[Nk [Ok Tk]]].
    + rewrite Nat.eqb_refl in Hpend. cbn [a' a_state]. rewrite Hxc. lia.
    + assert (E : Nat.eqb aid k = false) by (apply Nat.eqb_neq; congruence). rewrite E in Hpend.
      pose proof (H9 k b' Ok) as Hold. unfold n_act in Hold. simpl in Hold. lia.
  - intros k Hk. rewrite Ac, set_nth_length in Hk. unfold n_act. rewrite Pe, Hnoact. specialize (Hpend k).
    assert (E : Nat.eqb aid k = false) by (apply Nat.eqb_neq; lia). rewrite E in Hpend.
    pose proof (H10 k Hk) as Hold. unfold n_act in Hold. simpl in Hold. lia.
  - intros n Hn. specialize (H11 n Hn). unfold rows_named in *. rewrite T, !sumf_app.
    pose proof (sumf_set_nth (fun y => if Nat.eqb (t_name y) n then 1 else 0) (tasks s) tid r r3 Er) as E1.
    pose proof (sumf_set_nth (fun y => expanded sp y n) (tasks s) tid r r3 Er) as E2. cbv beta in E1, E2.
    rewrite A1 in E1.
    assert (Er0 : expanded sp r n = 0) by (unfold expanded; rewrite Hrun; reflexivity).
    assert (Erows : sumf (fun y => expanded sp y n) rows = 0).
    { apply sumf_zero. intros y Hy. unfold expanded. rewrite (Hidle y Hy). reflexivity. }
    destruct Hw as [Hw|Hw].
    + destruct (Arun Hw) as [Apr A4].
      assert (Er3 : expanded sp r3 n = count_occ Nat.eq_dec (routes sp (t_name r) x) n) by (unfold expanded; rewrite A2, A1, Hxc, Apr; reflexivity).
      rewrite (rows_named_count rows n), (count_occ_perm _ _ n A4). lia.
    + destruct (Apau Hw) as [Apr E]. subst rows.
      assert (Er3 : expanded sp r3 n = 0).
      { unfold expanded. rewrite Apr, (H18 tid r Er ltac:(rewrite Hrun; reflexivity)), andb_false_r. reflexivity. }
      simpl. lia.
  - intros p. specialize (H12 p). unfold nth_call in *. rewrite C.
    set (X := if Nat.eqb (t_name r) p then [x] else []).
    assert (Eold : pending_results s p = flat_map (res_of s p) pre ++ X ++ flat_map (res_of s p) post).
    { unfold pending_results. rewrite Hp, flat_map_app. cbn [flat_map res_of]. unfold name_of_act, get_act.
      rewrite (nth_error_nth' _ _ dummy_arow _ Ea). fold tid. rewrite Eg. reflexivity. }
    assert (Enew : pending_results S p = flat_map (res_of s p) pre ++ flat_map (res_of s p) post).
    { unfold pending_results. rewrite Pe, <- flat_map_app. apply flat_map_ext_in. intros i Hi. destruct i; try reflexivity.
      assert (Hi' : In (IResult aid0 r0) (pend s)).
      { rewrite Hp. apply in_app_or in Hi. apply in_or_app. destruct Hi as [Hi|Hi]; [left; exact Hi|right; right; exact Hi]. }
      pose proof (D_result_valid s [] aid0 r0 HD Hi') as Hv0.
      destruct (nth_error (acts s) aid0) as [b|] eqn:Eb; [|apply nth_error_None in Eb; lia].
      assert (Hname : name_of_act S aid0 = name_of_act s aid0).
      { unfold name_of_act. assert (Hat : a_task (get_act S aid0) = a_task (get_act s aid0)).
        { unfold get_act. rewrite Ac. rewrite (nth_error_nth' _ _ dummy_arow _ Eb).
          destruct (Nat.eq_dec aid0 aid) as [->|Hne].
          - rewrite (nth_error_nth' _ _ dummy_arow _ (nth_error_set_nth_same _ _ _ Hv)). rewrite Ea in Eb. injection Eb as <-. reflexivity.
          - rewrite nth_set_nth_other by exact Hne. rewrite (nth_error_nth' _ _ dummy_arow _ Eb). reflexivity. }
        rewrite Hat. unfold get_act. rewrite (nth_error_nth' _ _ dummy_arow _ Eb). destruct (H8 aid0 b Eb) as [Q1 _].
        destruct (Nat.eq_dec (a_task b) tid) as [Et|Et].
        - rewrite Et, Hget3, A1, Eg. reflexivity.
        - rewrite (Hget _ Et Q1). reflexivity. }
      unfold res_of. rewrite Hname. reflexivity. }
    assert (Efin : Permutation (final_states S p) (X ++ final_states s p)).
    { unfold final_states. rewrite T, flat_map_app.
      assert (Erows : flat_map (fun y => if Nat.eqb (t_name y) p && is_completed (t_state y) then [t_state y] else []) rows = []).
      { apply flat_map_nil_all. intros y Hy. rewrite (Hidle y Hy). cbn. rewrite andb_false_r. reflexivity. }
      rewrite Erows, app_nil_r.
      eapply perm_trans; [apply (flat_map_set_nth_perm _ _ _ r r3 Er); rewrite Hrun; cbn; rewrite andb_false_r; reflexivity|].
      cbv beta. rewrite A1, A2, Hxc, andb_true_r. apply Permutation_refl. }
    rewrite Enew. eapply perm_trans; [apply Permutation_app_head; exact Efin|].
    eapply perm_trans; [|exact H12]. rewrite Eold. rewrite <- !app_assoc. apply Permutation_app_head.
    rewrite !app_assoc. apply Permutation_app_tail. apply Permutation_app_comm.
  - rewrite Pe. rewrite Hp, !forallb_app in H13. simpl in H13. rewrite forallb_app.
    apply andb_true_iff in H13. destruct H13 as [Q1 Q2]. rewrite Q1, Q2. reflexivity.
  - apply Hdop. reflexivity.
  - intros k y Hk Hye. destruct (Hrowcase k y Hk) as [[-> ->]|[[Hne Hold]|[Hge Hy]]].
    + rewrite A1. apply Aeh. rewrite <- A2. exact Hye.
    + apply (H15 k y Hold Hye).
    + rewrite (Hidle y Hy) in Hye. discriminate.
  - rewrite W, Hncomp. discriminate.
  - rewrite W. intros Hq k y Hk Hyc. destruct (Hrowcase k y Hk) as [[-> ->]|[[Hne Hold]|[Hge Hy]]].
    + destruct Hw as [Hw|Hw]; [apply (Arun Hw)|contradiction].
    + apply (H17 Hq k y Hold Hyc).
    + rewrite (Hidle y Hy) in Hyc. discriminate.
  - intros k y Hk Hyc. destruct (Hrowcase k y Hk) as [[-> ->]|[[Hne Hold]|[Hge Hy]]].
    + rewrite A2, Hxc in Hyc. discriminate.
    + apply (H18 k y Hold Hyc).
    + apply Hunp, Hy.
Qed.

Lemma count_occ_filter (f : nat -> bool) l n :
  count_occ Nat.eq_dec (filter f l) n = if f n then count_occ Nat.eq_dec l n else 0.
Proof.
  induction l as [|a l IH]; simpl; [destruct (f n); reflexivity|].
  destruct (f a) eqn:Ea.
  - simpl. destruct (Nat.eq_dec a n) as [->|Hne].
    + rewrite IH, Ea. reflexivity.
    + rewrite IH. reflexivity.
  - destruct (Nat.eq_dec a n) as [->|Hne].
    + rewrite IH, Ea. reflexivity.
    + exact IH.
Qed.

Lemma count_occ_seq0 len n : count_occ Nat.eq_dec (seq 0 len) n = if Nat.ltb n len then 1 else 0.
Proof.
  destruct (Nat.ltb n len) eqn:E.
  - apply Nat.ltb_lt in E. assert (Hin : In n (seq 0 len)) by (apply in_seq; lia).
    pose proof (proj1 (count_occ_In Nat.eq_dec _ _) Hin) as H1.
    pose proof (proj1 (NoDup_count_occ Nat.eq_dec (seq 0 len)) (seq_NoDup len 0) n) as H2. lia.
  - apply Nat.ltb_ge in E. apply count_occ_not_In. intros Hin. apply in_seq in Hin. lia.
Qed.

Lemma count_start n : n < length sp -> count_occ Nat.eq_dec (start_tasks sp) n = base sp n.
Proof.
  intros Hn. unfold start_tasks, base. rewrite count_occ_filter, count_occ_seq0.
  assert (Nat.ltb n (length sp) = true) by (apply Nat.ltb_lt; exact Hn). rewrite H.
  destruct (inbound sp n); reflexivity.
Qed.

Lemma D_add_check s : D sp pz s [] -> D sp pz s [OCheck].
Proof.
  intros [H1 H2 H3 H4 H5 H6 H7a H7 H8 H9 H10 H11 H12 H13 H14 H15 H16 H17 H18]. constructor; assumption.
Qed.

Lemma start_D s : wf_created s = false -> pend s = [] -> D sp pz (fst (step sp s EStart)) [].
Proof.
  intros Hc Hp. unfold step. rewrite Hc.
  set (s0 := mkSt true RUNNING [] [] [] [] (pend s) (uids s)).
  set (cmds := map (fun n => CRunTask n OnSuccess false None) (start_tasks sp)).
  assert (Hruns : is_runs cmds = true).
  { unfold is_runs, cmds. rewrite forallb_forall. intros c Hc0. apply in_map_iff in Hc0. destruct Hc0 as [n [<- _]]. reflexivity. }
  assert (Hnames : names cmds = start_tasks sp).
  { unfold names, cmds. rewrite map_map. cbn [cmd_key]. apply map_id. }
  assert (Hlen : length cmds <= length sp).
  { unfold cmds, start_tasks. rewrite map_length. etransitivity; [apply filter_length_le|]. rewrite seq_length. lia. }
  destruct (rearrange_runs cmds Hruns) as [Hperm Hruns'].
  pose proof (rearrange_length cmds) as Hrl.
  assert (Ed : dispatch sp (FUEL sp s0) (s0, []) cmds = (spawn sp (s0, []) (rearrange cmds), FOk)).
  { rewrite dispatch_eq. assert (Hf : exists f, FUEL sp s0 = S (S f) /\ length sp < f).
    { unfold FUEL. cbn. exists (4 * (length sp + spec_size sp + 0 + 0) + 14 + 0). split; lia. }
    destruct Hf as [f [-> Hf]]. cbv zeta. cbn [fst s0 backlog].
    rewrite process_cmds_loop by (try (apply is_runs_okcs; exact Hruns'); lia).
    apply loop_spawn; [exact Hruns'|reflexivity]. }
  rewrite Ed.
  destruct (spawn_spec sp (rearrange cmds) (s0, []) Hruns') as [rows [more [T [N [I [O [P [Ac [Pe [W [B [C Cr]]]]]]]]]]]].
  destruct (spawn sp (s0, []) (rearrange cmds)) as [S Ops]. cbn [fst snd s0 tasks acts pend wf_state backlog calls wf_created app] in T, O, Ac, Pe, W, B, C, Cr.
  assert (Hidle : forall y, In y rows -> t_state y = IDLE) by (rewrite Forall_forall in I; intros y Hy; apply (I y Hy)).
  assert (Hunp : forall y, In y rows -> t_processed y = false) by (rewrite Forall_forall in I; intros y Hy; apply (I y Hy)).
  assert (HnamesP : Permutation (map t_name rows) (start_tasks sp)).
  { rewrite N, <- Hnames. unfold names. apply Permutation_sym, Permutation_map. exact Hperm. }
  assert (DS : D sp pz S Ops).
  { constructor.
    - rewrite Cr. reflexivity.
    - left. rewrite W. reflexivity.
    - rewrite W. reflexivity.
    - rewrite B. reflexivity.
    - rewrite W. discriminate.
    - intros k y Hk. rewrite T in Hk. pose proof (nth_error_In _ _ Hk) as Hy. split; [left; apply Hidle, Hy|].
      assert (Hin : In (t_name y) (start_tasks sp)) by (eapply Permutation_in; [exact HnamesP|apply in_map; exact Hy]).
      unfold start_tasks in Hin. apply filter_In in Hin. destruct Hin as [Hin _]. apply in_seq in Hin. lia.
    - intros k y _ _ k' b Hk'. rewrite Ac in Hk'. destruct k'; discriminate.
    - intros k1 k2 a1 a2 Hk1. rewrite Ac in Hk1. destruct k1; discriminate.
    - intros k b Hk. rewrite Ac in Hk. destruct k; discriminate.
    - intros k b Hk. rewrite Ac in Hk. destruct k; discriminate.
    - intros k _. unfold n_act. rewrite Pe, Hp, O, (start_ops_no_act k more P). reflexivity.
    - intros n Hn. unfold rows_named. rewrite T. rewrite (rows_named_count rows n), (count_occ_perm _ _ n HnamesP), (count_start n Hn).
      rewrite (sumf_zero (fun r => expanded sp r n) rows); [lia|]. intros y Hy. unfold expanded. rewrite (Hidle y Hy). reflexivity.
    - intros p. unfold pending_results, final_states, nth_call. rewrite Pe, Hp, T, C. cbn [flat_map app].
      rewrite flat_map_nil_all; [destruct p; apply Permutation_refl|].
      intros y Hy. rewrite (Hidle y Hy). cbn. rewrite andb_false_r. reflexivity.
    - rewrite Pe, Hp. reflexivity.
    - rewrite O. apply start_ops_plain. exact P.
    - intros k y Hk Hye. rewrite T in Hk. rewrite (Hidle y (nth_error_In _ _ Hk)) in Hye. discriminate.
    - rewrite W. discriminate.
    - intros _ k y Hk Hyc. rewrite T in Hk. rewrite (Hidle y (nth_error_In _ _ Hk)) in Hyc. discriminate.
    - intros k y Hk _. rewrite T in Hk. apply Hunp. eapply nth_error_In; exact Hk. }
  destruct (cac_spec S (D_live _ _ _ _ DS)) as [s2 [E2 [Hh [Hl [Hr Hq]]]]]. cbn [fst snd]. rewrite E2. cbn [fst].
  apply commit_D. apply (hdr_D sp pz S s2 Ops DS Hh Hl).
  - destruct (cac_not_paused S s2 E2 ltac:(rewrite W; reflexivity)) as [Q|Q]; [left; exact Q|right; right; exact Q].
  - intros Hc2. eapply cac_done; [exact E2|rewrite W; reflexivity|exact Hc2].
  - intros Hc2. eapply cac_verdict; [exact E2|rewrite W; reflexivity|exact Hc2].
  - intros _. rewrite W. discriminate.
Qed.

(* --- operator pause / resume (pz = true) *)
Lemma pause_D s s1 : pz = true -> D sp pz s [] -> pause_workflow s = Some s1 -> D sp pz s1 [].
Proof.
  intros Hz HD. unfold pause_workflow. destruct (is_paused (wf_state s)); [intros H; injection H as <-; exact HD|].
  intros H. apply wf_set_state_inv in H. subst s1.
  apply (hdr_D sp pz s (set_wf_state s PAUSED) [] HD).
  - right. exists PAUSED. reflexivity.
  - reflexivity.
  - right. left. split; [exact Hz|reflexivity].
  - intros E. discriminate E.
  - intros E. discriminate E.
  - intros E. exfalso. apply E. reflexivity.
Qed.

(* the commands resume computes for the task executions completed while the workflow was PAUSED *)
Lemma more_runs : forall (unproc : list (nat * trow)) more,
  (forall p, In p unproc -> t_state (snd p) = SUCCESS \/ t_state (snd p) = ERROR \/ t_state (snd p) = CANCELLED) ->
  fold_right (fun p acc => match acc, find_next_tasks sp (snd p) with
                           | Some l, Some m => Some (map (to_cmd sp (fst p)) m ++ l)
                           | _, _ => None end) (Some []) unproc = Some more ->
  is_runs more = true /\
  names more = flat_map (fun p => routes sp (t_name (snd p)) (t_state (snd p))) unproc /\
  length more <= length unproc * spec_size sp.
Proof.
  induction unproc as [|p l IH]; intros more Hst H; simpl in H.
  - injection H as <-. repeat split. simpl. lia.
  - destruct (fold_right _ _ l) as [l0|] eqn:E; [|discriminate].
    destruct (find_next_simple sp Hs (snd p) (Hst p (or_introl eq_refl))) as [nx [Hfn [_ Hnx]]].
    rewrite Hfn in H. injection H as <-.
    destruct (IH l0 (fun q Hq => Hst q (or_intror Hq)) eq_refl) as [I1 [I2 I3]].
    destruct (Hnx (fst p)) as [N1 [N2 _]].
    split; [unfold is_runs in *; rewrite forallb_app, N1, I1; reflexivity|].
    split; [unfold names in *; rewrite map_app, N2, I2; reflexivity|].
    rewrite app_length, map_length. apply find_next_len in Hfn. simpl. lia.
Qed.

Definition gproc (r : trow) : trow :=
  if is_completed (t_state r) && negb (t_processed r) then t_set_processed r true else r.

Lemma gproc_facts r : t_state (gproc r) = t_state r /\ t_name (gproc r) = t_name r /\ t_err_handled (gproc r) = t_err_handled r /\
  (is_completed (t_state r) = true -> t_processed (gproc r) = true) /\ (is_completed (t_state r) = false -> gproc r = r).
Proof.
  unfold gproc. destruct (is_completed (t_state r)) eqn:Ec; destruct (t_processed r) eqn:Ep; cbn; repeat split; auto; intros E; discriminate E.
Qed.

Lemma count_occ_flat_map {A} (h : A -> list nat) l n :
  count_occ Nat.eq_dec (flat_map h l) n = sumf (fun p => count_occ Nat.eq_dec (h p) n) l.
Proof. induction l as [|a l IH]; simpl; [reflexivity|]. rewrite count_occ_app, IH. reflexivity. Qed.

Lemma sumf_filter_combine {A} (c : A -> bool) (F : A -> nat) : forall (l2 : list A) (l1 : list nat), length l1 = length l2 ->
  sumf (fun p => F (snd p)) (filter (fun p => c (snd p)) (combine l1 l2)) = sumf (fun r => if c r then F r else 0) l2.
Proof.
  induction l2 as [|a l2 IH]; intros l1 Hl; destruct l1 as [|b l1]; simpl in *; try lia; try reflexivity.
  destruct (c a); simpl; rewrite IH by lia; reflexivity.
Qed.

Lemma is_runs_runs2 l : is_runs l = true -> is_runs2 l = true.
Proof.
  unfold is_runs, is_runs2. intros H. rewrite forallb_forall in *. intros c Hc. specialize (H c Hc).
  destruct c as [? ? w ?| | | |]; try discriminate H. exact H.
Qed.

Lemma start_ops2_no_act k more : forallb is_start_op2 more = true -> sumf (op_act k) more = 0.
Proof.
  intros H. apply sumf_zero. intros o Ho. rewrite forallb_forall in H. specialize (H o Ho). destruct o; try discriminate H. reflexivity.
Qed.

Lemma start_ops2_plain more : forallb is_start_op2 more = true -> forallb dop more = true.
Proof.
  intros H. rewrite forallb_forall in *. intros o Ho. specialize (H o Ho). destruct o as [t f r x| | |]; try discriminate H.
  destruct f, r, x; try discriminate H; reflexivity.
Qed.

(* the state resume leaves behind: completed task executions processed, their routes dispatched *)
Lemma resume_core s S0 Ops rows :
  D sp pz s [] ->
  tasks S0 = map gproc (tasks s) ++ rows -> acts S0 = acts s -> pend S0 = pend s -> wf_state S0 = RUNNING ->
  backlog S0 = [] -> calls S0 = calls s -> wf_created S0 = true ->
  Forall (fun y => t_state y = IDLE /\ t_processed y = false) rows ->
  Permutation (map t_name rows)
    (flat_map (fun p : nat * trow => routes sp (t_name (snd p)) (t_state (snd p)))
       (filter (fun p => is_completed (t_state (snd p)) && negb (t_processed (snd p))) (combine (seq 0 (length (tasks s))) (tasks s)))) ->
  forallb is_start_op2 Ops = true ->
  D sp pz S0 Ops.
Proof.
  intros HD T Ac Pe W B C Cr I Pn Po. pose proof HD as [H1 H2 H3 H4 H5 H6 H7a H7 H8 H9 H10 H11 H12 H13 H14 H15 H16 H17 H18].
  assert (Hidle : forall y, In y rows -> t_state y = IDLE) by (rewrite Forall_forall in I; intros y Hy; apply (I y Hy)).
  assert (Hunp : forall y, In y rows -> t_processed y = false) by (rewrite Forall_forall in I; intros y Hy; apply (I y Hy)).
  assert (Hlen : length (map gproc (tasks s)) = length (tasks s)) by apply map_length.
  assert (Hrowcase : forall k y, nth_error (tasks S0) k = Some y ->
            (exists r, nth_error (tasks s) k = Some r /\ y = gproc r) \/ (length (tasks s) <= k /\ In y rows)).
  { intros k y Hk. rewrite T in Hk. destruct (Nat.lt_ge_cases k (length (tasks s))) as [Hl|Hl].
    - left. rewrite nth_error_app1 in Hk by (rewrite Hlen; exact Hl). rewrite nth_error_map in Hk.
      destruct (nth_error (tasks s) k) as [r|]; [|discriminate]. injection Hk as <-. exists r. split; reflexivity.
    - right. split; [exact Hl|]. rewrite nth_error_app2 in Hk by (rewrite Hlen; exact Hl). eapply nth_error_In; exact Hk. }
  assert (Hget : forall k, k < length (tasks s) -> get_task S0 k = gproc (get_task s k)).
  { intros k Hl. unfold get_task. rewrite T, app_nth1 by (rewrite Hlen; exact Hl).
    rewrite (nth_indep _ dummy_trow (gproc dummy_trow)) by (rewrite Hlen; exact Hl). apply map_nth. }
  assert (Hrowname : forall y, In y rows -> t_name y < length sp).
  { intros y Hy. assert (Hin : In (t_name y) (map t_name rows)) by (apply in_map; exact Hy).
    eapply Permutation_in in Hin; [|exact Pn]. apply in_flat_map in Hin. destruct Hin as [p [_ Hr]].
    apply (routes_range sp Hs _ _ _ Hr). }
  constructor.
  - exact Cr.
  - left. exact W.
  - rewrite W. reflexivity.
  - exact B.
  - rewrite W. discriminate.
  - intros k y Hk. destruct (Hrowcase k y Hk) as [[r [Hr ->]]|[Hge Hy]].
    + destruct (gproc_facts r) as [G1 [G2 _]]. rewrite G1, G2. apply (H6 k r Hr).
    + split; [left; apply Hidle, Hy|apply Hrowname, Hy].
  - intros k y Hk Hyi k' b Hk'. rewrite Ac in Hk'. destruct (Hrowcase k y Hk) as [[r [Hr ->]]|[Hge Hy]].
    + destruct (gproc_facts r) as [G1 _]. rewrite G1 in Hyi. apply (H7a k r Hr Hyi k' b Hk').
    + destruct (H8 k' b Hk') as [Hlt _]. lia.
  - intros k1 k2 a1 a2 Hk1 Hk2. rewrite Ac in Hk1, Hk2. apply (H7 k1 k2 a1 a2 Hk1 Hk2).
  - intros k b Hk. rewrite Ac in Hk. destruct (H8 k b Hk) as [Q1 [Q2 Q3]].
    rewrite T, app_length, Hlen. split; [lia|]. rewrite (Hget _ Q1). destruct (gproc_facts (get_task s (a_task b))) as [G1 _]. rewrite G1.
    split; assumption.
  - intros k b Hk. rewrite Ac in Hk. unfold n_act. rewrite Pe, (start_ops2_no_act k Ops Po). pose proof (H9 k b Hk) as Ho. unfold n_act in Ho. simpl in Ho. lia.
  - intros k Hk. rewrite Ac in Hk. unfold n_act. rewrite Pe, (start_ops2_no_act k Ops Po). pose proof (H10 k Hk) as Ho. unfold n_act in Ho. simpl in Ho. lia.
  - intros n Hn. specialize (H11 n Hn). unfold rows_named in *. rewrite T, !sumf_app, !sumf_map.
    assert (E1 : sumf (fun x => if Nat.eqb (t_name (gproc x)) n then 1 else 0) (tasks s) = sumf (fun r => if Nat.eqb (t_name r) n then 1 else 0) (tasks s)).
    { apply sumf_ext. intros r _. destruct (gproc_facts r) as [_ [G2 _]]. rewrite G2. reflexivity. }
    assert (E2 : sumf (fun x => expanded sp (gproc x) n) (tasks s) =
                 sumf (fun r => expanded sp r n) (tasks s) +
                 sumf (fun r => if is_completed (t_state r) && negb (t_processed r) then count_occ Nat.eq_dec (routes sp (t_name r) (t_state r)) n else 0) (tasks s)).
    { rewrite <- sumf_add. apply sumf_ext. intros r _. unfold expanded. destruct (gproc_facts r) as [G1 [G2 [_ [G4 G5]]]].
      rewrite G1, G2. destruct (is_completed (t_state r)) eqn:Ec.
      - rewrite (G4 eq_refl). destruct (t_processed r); simpl; lia.
      - rewrite (G5 eq_refl). simpl. reflexivity. }
    assert (E3 : sumf (fun y => expanded sp y n) rows = 0).
    { apply sumf_zero. intros y Hy. unfold expanded. rewrite (Hidle y Hy). reflexivity. }
    rewrite E1, E2, E3, (rows_named_count rows n), (count_occ_perm _ _ n Pn), count_occ_flat_map.
    rewrite (sumf_filter_combine (fun r => is_completed (t_state r) && negb (t_processed r))
               (fun r => count_occ Nat.eq_dec (routes sp (t_name r) (t_state r)) n) (tasks s) (seq 0 (length (tasks s))) (seq_length _ _)).
    lia.
  - intros p. specialize (H12 p). unfold nth_call in *. rewrite C.
    assert (Ef : final_states S0 p = final_states s p).
    { unfold final_states. rewrite T, flat_map_app.
      rewrite (flat_map_nil_all _ rows) by (intros y Hy; rewrite (Hidle y Hy); cbn; rewrite andb_false_r; reflexivity).
      rewrite app_nil_r. rewrite flat_map_concat_map, map_map, <- flat_map_concat_map. apply flat_map_ext. intros r.
      destruct (gproc_facts r) as [G1 [G2 _]]. rewrite G1, G2. reflexivity. }
    assert (Ep : pending_results S0 p = pending_results s p).
    { unfold pending_results. rewrite Pe. apply flat_map_ext_in. intros i Hi. destruct i; try reflexivity.
      pose proof (D_result_valid s [] aid r HD Hi) as Hv.
      destruct (nth_error (acts s) aid) as [b|] eqn:Eb; [|apply nth_error_None in Eb; lia].
      assert (Hname : name_of_act S0 aid = name_of_act s aid).
      { unfold name_of_act, get_act. rewrite Ac. rewrite (nth_error_nth' _ _ dummy_arow _ Eb). destruct (H8 aid b Eb) as [Q1 _].
        rewrite (Hget _ Q1). destruct (gproc_facts (get_task s (a_task b))) as [_ [G2 _]]. exact G2. }
      unfold res_of. rewrite Hname. reflexivity. }
    rewrite Ef, Ep. exact H12.
  - rewrite Pe. exact H13.
  - apply start_ops2_plain, Po.
  - intros k y Hk Hye. destruct (Hrowcase k y Hk) as [[r [Hr ->]]|[Hge Hy]].
    + destruct (gproc_facts r) as [G1 [G2 [G3 _]]]. rewrite G1 in Hye. rewrite G3, G2. apply (H15 k r Hr Hye).
    + rewrite (Hidle y Hy) in Hye. discriminate.
  - rewrite W. discriminate.
  - intros _ k y Hk Hyc. destruct (Hrowcase k y Hk) as [[r [Hr ->]]|[Hge Hy]].
    + destruct (gproc_facts r) as [G1 [_ [_ [G4 _]]]]. rewrite G1 in Hyc. apply G4, Hyc.
    + rewrite (Hidle y Hy) in Hyc. discriminate.
  - intros k y Hk Hyc. destruct (Hrowcase k y Hk) as [[r [Hr ->]]|[Hge Hy]].
    + destruct (gproc_facts r) as [G1 [_ [_ [_ G5]]]]. rewrite G1 in Hyc. rewrite (G5 Hyc). apply (H18 k r Hr Hyc).
    + apply Hunp, Hy.
Qed.

Lemma filter_id {A} (f : A -> bool) l : forallb f l = true -> filter f l = l.
Proof. induction l as [|a l IH]; simpl; [reflexivity|]. intros H. apply andb_true_iff in H. destruct H as [-> H]. rewrite (IH H). reflexivity. Qed.

Lemma names2_app l l' : names2 (l ++ l') = names2 l ++ names2 l'.
Proof. unfold names2. apply flat_map_app. Qed.

Lemma cwc_nonempty t cmds :
  filter (fun c => match c with CSetState PAUSED => false | CNoop => false | _ => true end) cmds = cmds -> cmds <> [] ->
  continue_workflow_cmds sp t cmds = dispatch sp (FUEL sp (mark_processed (fst t))) (mark_processed (fst t), snd t) cmds.
Proof. intros Hf Hne. unfold continue_workflow_cmds. rewrite Hf. destruct cmds; [exfalso; auto|reflexivity]. Qed.

Lemma cwc_empty t : backlog (fst t) = [] ->
  continue_workflow_cmds sp t [] = match check_and_complete (mark_processed (fst t)) with
                                   | Some s1 => ((s1, snd t), FOk) | None => ((mark_processed (fst t), snd t), FForce) end.
Proof. intros Hb. unfold continue_workflow_cmds. cbn [filter]. change (backlog (mark_processed (fst t))) with (backlog (fst t)). rewrite Hb. reflexivity. Qed.

Lemma resume_D s : D sp pz s [] -> D sp pz (fst (step sp s EResume)) [].
Proof.
  intros HD. unfold step. rewrite (D_created _ _ _ _ HD). cbn [negb].
  destruct (D_wf _ _ _ _ HD) as [Hw|[[Hz Hw]|Hw]].
  - rewrite Hw. exact HD.
  - rewrite Hw. change (negb (is_paused_or_idle PAUSED)) with false. cbv iota.
    assert (Es1 : wf_set_state s RUNNING = Some (set_wf_state s RUNNING)) by (unfold wf_set_state; rewrite Hw; reflexivity).
    rewrite Es1. set (s1 := set_wf_state s RUNNING). cbv zeta.
    set (idle := flat_map (fun p : nat * trow => if is_idle (t_state (snd p)) then [CRunExisting (fst p) true false] else [])
                          (combine (seq 0 (length (tasks s1))) (tasks s1))).
    set (unproc := filter (fun p : nat * trow => is_completed (t_state (snd p)) && negb (t_processed (snd p)))
                          (combine (seq 0 (length (tasks s1))) (tasks s1))).
    destruct (fold_right _ (Some []) unproc) as [more|] eqn:Emore; [|exact HD].
    assert (Hst : forall p, In p unproc -> t_state (snd p) = SUCCESS \/ t_state (snd p) = ERROR \/ t_state (snd p) = CANCELLED).
    { intros [k r] Hp. apply filter_In in Hp. destruct Hp as [Hp Hc]. cbn [snd] in *. apply andb_true_iff in Hc. destruct Hc as [Hc _].
      apply in_combine_r in Hp. apply In_nth_error in Hp. destruct Hp as [j Hj]. destruct (D_states _ _ _ _ HD j r Hj) as [[Q|[Q|Q]] _].
      - rewrite Q in Hc. discriminate. - rewrite Q in Hc. discriminate. - exact Q. }
    destruct (more_runs unproc more Hst Emore) as [M1 [M2 M3]].
    set (n := length (tasks s)) in *.
    assert (Hcomb : length (combine (seq 0 (length (tasks s1))) (tasks s1)) = n).
    { rewrite combine_length, seq_length. cbn. apply Nat.min_id. }
    assert (Hidle2 : is_runs2 idle = true).
    { unfold is_runs2. rewrite forallb_forall. intros c Hc. apply in_flat_map in Hc. destruct Hc as [p [_ Hc]].
      destruct (is_idle _); [destruct Hc as [<-|[]]; reflexivity|destruct Hc]. }
    assert (Hidle_names : names2 idle = []).
    { unfold names2, idle. generalize (combine (seq 0 (length (tasks s1))) (tasks s1)). induction l as [|p l IH]; [reflexivity|].
      cbn [flat_map]. rewrite flat_map_app, IH, app_nil_r. destruct (is_idle _); reflexivity. }
    assert (Hidle_len : length idle <= n).
    { rewrite <- Hcomb. apply flat_map_le1. intros p. destruct (is_idle _); simpl; lia. }
    assert (Hun_len : length unproc <= n) by (rewrite <- Hcomb; apply filter_length_le).
    set (cm := idle ++ more).
    assert (Hcm2 : is_runs2 cm = true).
    { unfold is_runs2, cm in *. rewrite forallb_app. rewrite Hidle2. apply is_runs_runs2 in M1. unfold is_runs2 in M1. rewrite M1. reflexivity. }
    assert (Hcm_names : names2 cm = flat_map (fun p : nat * trow => routes sp (t_name (snd p)) (t_state (snd p))) unproc).
    { unfold cm. rewrite names2_app, Hidle_names, (names2_runs more M1), M2. reflexivity. }
    assert (Hcm_len : length cm <= n + n * spec_size sp).
    { unfold cm. rewrite app_length. assert (length unproc * spec_size sp <= n * spec_size sp) by (apply Nat.mul_le_mono_r; exact Hun_len). lia. }
    unfold continue_workflow.
    assert (Hfil : filter (fun c => match c with CSetState PAUSED => false | CNoop => false | _ => true end) cm = cm).
    { apply filter_id. unfold is_runs2 in Hcm2. rewrite forallb_forall in *. intros c Hc. specialize (Hcm2 c Hc).
      destruct c; try discriminate Hcm2; reflexivity. }
    set (s' := mark_processed s1).
    assert (Hts' : tasks s' = map gproc (tasks s)) by reflexivity.
    assert (Hbl' : backlog s' = []) by (cbn; apply (D_bl _ _ _ _ HD)).
    assert (Hunproc_eq : unproc = filter (fun p : nat * trow => is_completed (t_state (snd p)) && negb (t_processed (snd p)))
                                    (combine (seq 0 (length (tasks s))) (tasks s))) by reflexivity.
    assert (Hcase : cm = [] \/ cm <> []) by (destruct cm; [left; reflexivity|right; discriminate]).
    fold cm. destruct Hcase as [Ecm|Ecm].
    + rewrite Ecm in *. rewrite cwc_empty by (cbn; apply (D_bl _ _ _ _ HD)). cbn [fst snd]. fold s'.
      assert (DS : D sp pz s' []).
      { apply (resume_core s s' [] []); try reflexivity; try exact HD.
        - rewrite Hts', app_nil_r. reflexivity.
        - exact Hbl'.
        - apply (D_created _ _ _ _ HD).
        - constructor.
        - rewrite <- Hunproc_eq, <- Hcm_names. apply Permutation_refl. }
      destruct (cac_spec s' (D_live _ _ _ _ DS)) as [s2 [E2 [Hh [Hl [Hr Hq]]]]]. rewrite E2. cbn [fst snd].
      assert (D2 : D sp pz s2 []).
      { apply (hdr_D sp pz s' s2 [] DS Hh Hl).
        - destruct (cac_not_paused s' s2 E2 eq_refl) as [Q|Q]; [left; exact Q|right; right; exact Q].
        - intros Hc2. eapply cac_done; [exact E2|reflexivity|exact Hc2].
        - intros Hc2. eapply cac_verdict; [exact E2|reflexivity|exact Hc2].
        - intros _. discriminate. }
      rewrite (no_waiting_refresh s2).
      * apply commit_D. exact D2.
      * intros tid r Hr2. destruct (D_states _ _ _ _ D2 tid r Hr2) as [[Q|[Q|[Q|[Q|Q]]]] _]; rewrite Q; auto.
    + rewrite (cwc_nonempty (s1, []) cm Hfil Ecm). cbn [fst snd]. fold s'.
      destruct (rearrange_runs2 cm Hcm2) as [Hperm Hruns'].
      pose proof (rearrange_length cm) as Hrl.
      assert (Ed : dispatch sp (FUEL sp s') (s', []) cm = (spawn2 sp (s', []) (rearrange cm), FOk)).
      { rewrite dispatch_eq. assert (Hf : exists f, FUEL sp s' = S (S f) /\ length cm < f).
        { unfold FUEL. rewrite Hbl', Hts', map_length. fold n. cbn [length].
          exists (4 * (length sp + spec_size sp + n + 0) + 14 + n * spec_size sp). split; lia. }
        destruct Hf as [f [-> Hf]]. cbv zeta. cbn [fst]. rewrite Hbl'.
        rewrite process_cmds_loop by (try (apply is_runs2_okcs; exact Hruns'); lia).
        apply loop_spawn2; [exact Hruns'|reflexivity]. }
      rewrite Ed.
      destruct (spawn2_spec sp (rearrange cm) (s', []) Hruns') as [rows [Ops [T [N [I [O [P [Ac [Pe [W [B [C Cr]]]]]]]]]]]].
      destruct (spawn2 sp (s', []) (rearrange cm)) as [S0 Ops0]. cbn [fst snd app] in T, O, Ac, Pe, W, B, C, Cr. subst Ops0.
      assert (DS : D sp pz S0 Ops).
      { apply (resume_core s S0 Ops rows HD); try assumption.
        - rewrite B. exact Hbl'.
        - rewrite Cr. apply (D_created _ _ _ _ HD).
        - rewrite N, <- Hunproc_eq, <- Hcm_names. apply Permutation_sym, names2_perm. exact Hperm. }
      cbn [fst snd]. rewrite (no_waiting_refresh S0).
      * apply commit_D. exact DS.
      * intros tid r Hr2. destruct (D_states _ _ _ _ DS tid r Hr2) as [[Q|[Q|[Q|[Q|Q]]]] _]; rewrite Q; auto.
  - destruct (wf_state s); try discriminate Hw; exact HD.
Qed.

(* a start request delivered to any state of the invariant (also a repeated one) *)
Lemma start_task_D s tid f r x : D sp pz s [] -> dflag f r x = true -> D sp pz (fst (do_start_task sp s tid f r x)) [].
Proof.
  intros D0 Hit. unfold do_start_task.
  destruct (Nat.leb (length (tasks s)) tid) eqn:El; [exact D0|]. apply Nat.leb_gt in El.
  destruct (nth_error (tasks s) tid) as [r0|] eqn:En; [|apply nth_error_None in En; lia].
  unfold get_task. rewrite (nth_error_nth' _ _ dummy_trow _ En).
  assert (Hidle_eq : is_idle (t_state r0) = true -> t_state r0 = IDLE)
    by (destruct (t_state r0); intros E; try discriminate E; reflexivity).
  destruct f, r, x; try discriminate Hit; cbn [negb andb].
  - destruct (is_idle (t_state r0)) eqn:Ei; cbn [fst]; [apply (start_new_D _ tid r0 D0 En (Hidle_eq eq_refl))|].
    rewrite nojoin_check_affected by (apply simple_nojoin; exact Hs). exact D0.
  - destruct (is_idle (t_state r0)) eqn:Ei; cbn [negb fst]; [apply (start_new_D _ tid r0 D0 En (Hidle_eq eq_refl))|].
    change (D sp pz (commit (s, [OCheck])) []). apply commit_D, D_add_check, D0.
Qed.

Definition plain4 (e : ev) : bool := match e with EStart | EFire _ | EFirePtq _ | EEvict => true | _ => false end.

Theorem DInv_step s e : plain4 e = true -> DInv sp pz s -> DInv sp pz (fst (step sp s e)).
Proof.
  intros He Hinv. destruct e; try discriminate He.
  - (* EStart *)
    destruct Hinv as [[Hc [Hp _]]|HD]; [right; apply start_D; assumption|].
    unfold step. rewrite (D_created _ _ _ _ HD). right. exact HD.
  - (* EFire *)
    unfold step. destruct (remove_first (item_eqb i) (pend s)) as [[it rest]|] eqn:Er; [|exact Hinv].
    destruct Hinv as [[Hc [Hp _]]|HD]; [rewrite Hp in Er; discriminate|]. right.
    destruct (remove_first_split _ _ _ _ Er) as [pre [post [Hp ->]]].
    pose proof (D_items _ _ _ _ HD) as Hit. rewrite Hp, forallb_app in Hit. apply andb_true_iff in Hit. destruct Hit as [_ Hit].
    simpl in Hit. apply andb_true_iff in Hit. destruct Hit as [Hit _].
    destruct it as [tid f r x|aid|aid res|ops|tid]; simpl in Hit.
    + (* start_task *)
      assert (D0 : D sp pz (set_pend s (pre ++ post)) []) by (eapply drop_item_D; [exact Hp|reflexivity|reflexivity|exact HD]).
      unfold do_start_task. cbn [set_pend tasks].
      destruct (Nat.leb (length (tasks s)) tid) eqn:El; [exact D0|]. apply Nat.leb_gt in El.
      destruct (nth_error (tasks s) tid) as [r0|] eqn:En; [|apply nth_error_None in En; lia].
      unfold get_task. cbn [set_pend tasks]. rewrite (nth_error_nth' _ _ dummy_trow _ En).
      assert (Hidle_eq : is_idle (t_state r0) = true -> t_state r0 = IDLE)
        by (destruct (t_state r0); intros E; try discriminate E; reflexivity).
      destruct f, r, x; try discriminate Hit; cbn [negb andb].
      * destruct (is_idle (t_state r0)) eqn:Ei; cbn [fst]; [apply (start_new_D _ tid r0 D0 En (Hidle_eq eq_refl))|].
        rewrite nojoin_check_affected by (apply simple_nojoin; exact Hs). exact D0.
      * destruct (is_idle (t_state r0)) eqn:Ei; cbn [negb fst]; [apply (start_new_D _ tid r0 D0 En (Hidle_eq eq_refl))|].
        change (D sp pz (commit (set_pend s (pre ++ post), [OCheck])) []). apply commit_D, D_add_check, D0.
    + cbn [fst]. apply (exec_D s aid pre post Hp HD).
    + pose proof (result_D s aid res pre post Hp HD) as H.
      destruct (do_result sp (set_pend s (pre ++ post)) aid res) as [s1 o]. destruct o; exact H.
    + exact HD.
    + discriminate.
  - (* EFirePtq *)
    unfold step. destruct (remove_nth_ptq n (pend s)) as [[ops rest]|] eqn:Er; [|exact Hinv].
    destruct Hinv as [[Hc [Hp _]]|HD]; [rewrite Hp in Er; discriminate|]. right.
    destruct (remove_nth_ptq_split _ _ _ _ Er) as [pre [post [Hp ->]]].
    cbn [fst]. apply run_ops_D. apply take_ptq_D; assumption.
  - exact Hinv.
Qed.

Definition plain6 (e : ev) : bool :=
  match e with EStart | EFire _ | EFirePtq _ | EEvict | EPause | EResume => true | _ => false end.

Theorem DInv_step6 s e : pz = true -> plain6 e = true -> DInv sp pz s -> DInv sp pz (fst (step sp s e)).
Proof.
  intros Hz He Hinv. destruct e; try discriminate He; try (apply DInv_step; [reflexivity|exact Hinv]).
  - (* EPause *)
    unfold step. destruct Hinv as [[Hc H]|HD]; [rewrite Hc; left; split; [exact Hc|exact H]|].
    rewrite (D_created _ _ _ _ HD). cbn [negb]. destruct (pause_workflow s) as [s1|] eqn:E; right; [|exact HD].
    apply (pause_D s s1 Hz HD E).
  - (* EResume *)
    destruct Hinv as [[Hc H]|HD]; [unfold step; rewrite Hc; left; split; [exact Hc|exact H]|].
    right. apply resume_D. exact HD.
Qed.

(* a delivery repeated by the transport: a start request (at any time, in any state), or a result for an
   action execution that has already accepted one (or that does not exist) *)
Definition dup_ok (s : st) (e : ev) : bool :=
  match e with
  | EDup (IStartTask _ f r x) => dflag f r x
  | EDup (IResult aid _) => Nat.leb (length (acts s)) aid || is_completed (a_state (get_act s aid))
  | _ => false
  end.
Definition ev7 (s : st) (e : ev) : bool := plain6 e || dup_ok s e.

Theorem DInv_step7 s e : pz = true -> ev7 s e = true -> DInv sp pz s -> DInv sp pz (fst (step sp s e)).
Proof.
  intros Hz He Hinv. unfold ev7 in He. apply orb_true_iff in He. destruct He as [He|He]; [apply DInv_step6; assumption|].
  destruct e as [| | | | | | | |i|]; try discriminate He. destruct i as [tid f r x|aid|aid res|ops|tid]; try discriminate He.
  - (* a repeated start request *)
    cbn [dup_ok] in He. cbn [step].
    destruct Hinv as [[Hc [Hp [Ht Hr]]]|HD].
    + left. unfold do_start_task. rewrite Ht. cbn [length Nat.leb fst]. exact (conj Hc (conj Hp (conj Ht Hr))).
    + right. apply start_task_D; assumption.
  - (* a repeated result *)
    cbn [dup_ok] in He. cbn [step]. unfold do_result.
    destruct (Nat.leb (length (acts s)) aid) eqn:El; [exact Hinv|]. cbn [orb] in He. rewrite He. exact Hinv.
Qed.
End Events.

(* ================================================================= the theorem *)
Section Final.
Variable sp : spec.
Hypothesis Hs : simple_b sp = true.

Lemma DInv_steps evs : forall s, forallb plain4 evs = true -> DInv sp false s -> DInv sp false (steps sp s evs).
Proof.
  induction evs as [|e evs IH]; intros s He Hi; [exact Hi|].
  simpl in He. apply andb_true_iff in He. destruct He as [He1 He2].
  unfold steps. simpl. apply IH; [exact He2|apply DInv_step; assumption].
Qed.

Lemma DInv_steps6 evs : forall s, forallb plain6 evs = true -> DInv sp true s -> DInv sp true (steps sp s evs).
Proof.
  induction evs as [|e evs IH]; intros s He Hi; [exact Hi|].
  simpl in He. apply andb_true_iff in He. destruct He as [He1 He2].
  unfold steps. simpl. apply IH; [exact He2|apply DInv_step6; [exact Hs|reflexivity|exact He1|exact Hi]].
Qed.

Lemma plain6_live evs : forallb plain6 evs = true -> forallb live_ev evs = true.
Proof.
  intros H. rewrite forallb_forall in *. intros e He. specialize (H e He). destruct e; try discriminate H; reflexivity.
Qed.

Lemma plain4_6 evs : forallb plain4 evs = true -> forallb plain6 evs = true.
Proof.
  intros H. rewrite forallb_forall in *. intros e He. specialize (H e He). destruct e; try discriminate H; reflexivity.
Qed.

(* without operator commands the workflow is never PAUSED *)
Lemma plain4_not_paused u evs : forallb plain4 evs = true -> wf_created (run sp u evs) = true -> wf_state (run sp u evs) <> PAUSED.
Proof.
  intros He Hc.
  assert (HI : DInv sp false (run sp u evs)).
  { rewrite run_steps. apply DInv_steps; [exact He|]. left. repeat split; reflexivity. }
  destruct HI as [[Hc' _]|HD]; [congruence|].
  destruct (D_wf _ _ _ _ HD) as [E|[[E _]|E]]; [rewrite E; discriminate|discriminate E|intros E'; rewrite E' in E; discriminate].
Qed.

(* event lists whose repeated deliveries are repetitions (checked against the state they arrive in) *)
Fixpoint run7 (s : st) (evs : list ev) : bool :=
  match evs with
  | [] => true
  | e :: rest => ev7 s e && run7 (fst (step sp s e)) rest
  end.

Lemma DInv_steps7 evs : forall s, run7 s evs = true -> DInv sp true s -> DInv sp true (steps sp s evs).
Proof.
  induction evs as [|e evs IH]; intros s He Hi; [exact Hi|].
  cbn [run7] in He. apply andb_true_iff in He. destruct He as [He1 He2].
  unfold steps. simpl. apply IH; [exact He2|apply DInv_step7; [exact Hs|reflexivity|exact He1|exact Hi]].
Qed.

Lemma run7_live evs : forall s, run7 s evs = true -> forallb live_ev evs = true.
Proof.
  induction evs as [|e evs IH]; intros s H; [reflexivity|]. cbn [run7] in H. apply andb_true_iff in H. destruct H as [H1 H2].
  cbn [forallb]. rewrite (IH _ H2), andb_true_r. unfold ev7 in H1. apply orb_true_iff in H1. destruct H1 as [H1|H1].
  - destruct e; try discriminate H1; reflexivity.
  - destruct e as [| | | | | | | |i|]; try discriminate H1. destruct i as [tid f r x|aid|aid res|ops|tid]; try discriminate H1.
    + cbn [dup_ok] in H1. cbn [live_ev plain_item]. unfold sflag. unfold dflag in H1. destruct f, r, x; try discriminate H1; reflexivity.
    + reflexivity.
Qed.

Lemma plain6_run7 evs : forall s, forallb plain6 evs = true -> run7 s evs = true.
Proof.
  induction evs as [|e evs IH]; intros s H; [reflexivity|]. cbn [forallb] in H. apply andb_true_iff in H. destruct H as [H1 H2].
  cbn [run7]. unfold ev7. rewrite H1. cbn [orb andb]. apply IH. exact H2.
Qed.

(* final states of the task executions of task p *)
Definition states_named (s : st) (p : nat) : list state :=
  map t_state (filter (fun r => Nat.eqb (t_name r) p) (tasks s)).

Definition G (p : nat) (x : state) (n : nat) : nat := count_occ Nat.eq_dec (routes sp p x) n.

Lemma sumf_pick (c h : nat -> nat) m len : m < len ->
  sumf (fun p => (if Nat.eqb p m then c p else 0) + h p) (seq 0 len) = c m + sumf h (seq 0 len).
Proof.
  intros Hm. rewrite sumf_add. f_equal.
  replace len with (m + S (len - m - 1)) by lia. rewrite seq_app, sumf_app.
  change (seq (0 + m) (S (len - m - 1))) with (m :: seq (S m) (len - m - 1)).
  assert (Hcons : forall (f : nat -> nat) a l, sumf f (a :: l) = f a + sumf f l) by reflexivity.
  rewrite Hcons, Nat.eqb_refl.
  rewrite (sumf_zero _ (seq 0 m)); [|intros p Hp; apply in_seq in Hp; assert (E : Nat.eqb p m = false) by (apply Nat.eqb_neq; lia); rewrite E; reflexivity].
  rewrite (sumf_zero _ (seq (S m) _)); [lia|]. intros p Hp. apply in_seq in Hp. assert (E : Nat.eqb p m = false) by (apply Nat.eqb_neq; lia). rewrite E. reflexivity.
Qed.

Lemma regroup (l : list trow) n : (forall r, In r l -> t_name r < length sp) ->
  sumf (fun r => G (t_name r) (t_state r) n) l =
  sumf (fun p => sumf (fun x => G p x n) (map t_state (filter (fun r => Nat.eqb (t_name r) p) l))) (seq 0 (length sp)).
Proof.
  induction l as [|r l IH]; intros Hl.
  - simpl. symmetry. apply sumf_zero. intros; reflexivity.
  - simpl. rewrite IH by (intros y Hy; apply Hl; right; exact Hy).
    rewrite <- (sumf_pick (fun p => G p (t_state r) n) _ (t_name r) (length sp) (Hl r (or_introl eq_refl))).
    apply sumf_ext. intros p _. rewrite (Nat.eqb_sym p). destruct (Nat.eqb (t_name r) p) eqn:E; simpl; [|reflexivity].
    apply Nat.eqb_eq in E. subst p. reflexivity.
Qed.

Lemma contrib_ext cs cs' n : (forall p, p < n -> nth p cs 0 = nth p cs' 0) -> contrib sp cs n = contrib sp cs' n.
Proof.
  intros H. unfold contrib. apply sumf_ext. intros p Hp. apply in_seq in Hp. rewrite (H p ltac:(lia)). reflexivity.
Qed.

Lemma den_core s :
  D sp true s [] -> (forall tid r, nth_error (tasks s) tid = Some r -> is_completed (t_state r) = true) ->
  pend s = [] -> wf_state s <> PAUSED ->
  forall n, n < length sp ->
    rows_named s n = nth n (den sp) 0 /\
    Permutation (states_named s n) (prescribed_states sp n (nth n (den sp) 0)).
Proof.
  intros HD Hdone Hp Hnpz.
  (* every row completed: final_states = states_named *)
  assert (Hfin : forall p, final_states s p = states_named s p).
  { intros p. unfold final_states, states_named.
    assert (Hg : forall l, (forall r, In r l -> is_completed (t_state r) = true) ->
              flat_map (fun r => if Nat.eqb (t_name r) p && is_completed (t_state r) then [t_state r] else []) l =
              map t_state (filter (fun r => Nat.eqb (t_name r) p) l)).
    { induction l as [|r l IH]; intros Hl; [reflexivity|]. simpl. rewrite (Hl r (or_introl eq_refl)), andb_true_r.
      rewrite IH by (intros y Hy; apply Hl; right; exact Hy). destruct (Nat.eqb (t_name r) p); reflexivity. }
    apply Hg. intros r Hr. apply In_nth_error in Hr. destruct Hr as [k Hk]. apply (Hdone k r Hk). }
  assert (Hlen : forall p, rows_named s p = length (states_named s p)).
  { intros p. unfold rows_named, states_named. rewrite map_length.
    assert (Hg : forall l : list trow, sumf (fun r => if Nat.eqb (t_name r) p then 1 else 0) l = length (filter (fun r => Nat.eqb (t_name r) p) l)).
    { induction l as [|r l IH]; [reflexivity|]. simpl. destruct (Nat.eqb (t_name r) p); simpl; rewrite IH; reflexivity. }
    apply Hg. }
  assert (Hout : forall p, Permutation (states_named s p) (prescribed_states sp p (rows_named s p))).
  { intros p. pose proof (D_out _ _ _ _ HD p) as H. unfold pending_results in H. rewrite Hp in H. cbn [flat_map app] in H.
    rewrite Hfin in H. assert (El : nth_call s p = rows_named s p).
    { rewrite Hlen. apply Permutation_length in H. unfold prescribed_states in H. rewrite map_length, seq_length in H. lia. }
    rewrite El in H. exact H. }
  (* the creation law, regrouped by task name *)
  assert (Hnames : forall r, In r (tasks s) -> t_name r < length sp).
  { intros r Hr. apply In_nth_error in Hr. destruct Hr as [k Hk]. apply (D_states _ _ _ _ HD k r Hk). }
  assert (Hlaw : forall n, n < length sp ->
            rows_named s n = base sp n + contrib sp (map (rows_named s) (seq 0 (length sp))) n).
  { intros n Hn. rewrite (D_create _ _ _ _ HD n Hn). f_equal.
    assert (E1 : sumf (fun r => expanded sp r n) (tasks s) = sumf (fun r => G (t_name r) (t_state r) n) (tasks s)).
    { apply sumf_ext. intros r Hr. unfold expanded, G. apply In_nth_error in Hr. destruct Hr as [k Hk]. rewrite (Hdone k r Hk).
      rewrite (D_proc _ _ _ _ HD Hnpz k r Hk (Hdone k r Hk)). reflexivity. }
    rewrite E1, (regroup (tasks s) n Hnames). unfold contrib.
    replace (length sp) with (n + (length sp - n)) at 1 by lia. rewrite seq_app, sumf_app. cbn [Nat.add].
    assert (Ez : sumf (fun p => sumf (fun x => G p x n) (map t_state (filter (fun r => Nat.eqb (t_name r) p) (tasks s))))
                   (seq n (length sp - n)) = 0).
    { apply sumf_zero. intros p Hpn. apply in_seq in Hpn. apply sumf_zero. intros x _. unfold G.
      apply count_occ_not_In. intros Hin. pose proof (routes_range sp Hs p x n Hin). lia. }
    rewrite Ez, Nat.add_0_r. apply sumf_ext. intros p Hpn. apply in_seq in Hpn.
    fold (states_named s p). rewrite (sumf_perm _ _ _ (Hout p)). unfold prescribed_states. rewrite sumf_map.
    assert (En : nth p (map (rows_named s) (seq 0 (length sp))) 0 = rows_named s p).
    { rewrite (nth_indep _ 0 (rows_named s 0)) by (rewrite map_length, seq_length; lia).
      rewrite map_nth, seq_nth by lia. reflexivity. }
    rewrite En. reflexivity. }
  (* den computes the same numbers *)
  assert (Hden : forall k, k <= length sp -> length (den_upto sp k) = k /\ forall m, m < k -> nth m (den_upto sp k) 0 = rows_named s m).
  { induction k as [|k IH]; intros Hk; [split; [reflexivity|intros; lia]|].
    destruct (IH ltac:(lia)) as [L1 L2]. cbn [den_upto]. split; [rewrite app_length, L1; simpl; lia|].
    intros m Hm. destruct (Nat.eq_dec m k) as [->|Hne].
    - rewrite app_nth2 by lia. rewrite L1, Nat.sub_diag. cbn [nth]. rewrite (Hlaw k ltac:(lia)). f_equal.
      apply contrib_ext. intros p Hpk. rewrite (L2 p Hpk).
      rewrite (nth_indep _ 0 (rows_named s 0)) by (rewrite map_length, seq_length; lia).
      rewrite map_nth, seq_nth by lia. reflexivity.
    - rewrite app_nth1 by lia. apply L2. lia. }
  intros n Hn. destruct (Hden (length sp) (le_n _)) as [_ Hd]. unfold den. rewrite (Hd n Hn).
  split; [reflexivity|apply Hout].
Qed.

Theorem den_correct7 u evs :
  run7 (init_with u) evs = true ->
  let s := run sp u evs in
  wf_created s = true -> pend s = [] -> wf_state s <> PAUSED ->
  forall n, n < length sp ->
    rows_named s n = nth n (den sp) 0 /\
    Permutation (states_named s n) (prescribed_states sp n (nth n (den sp) 0)).
Proof.
  intros He s Hc Hp Hnpz.
  assert (HI : DInv sp true s).
  { unfold s. rewrite run_steps. apply DInv_steps7; [exact He|]. left. repeat split; reflexivity. }
  destruct HI as [[Hc' _]|HD]; [congruence|].
  destruct (no_stuck_joinfree sp (simple_nojoin sp Hs) u evs (run7_live evs _ He) Hc Hp) as [Hdone _]. fold s in Hdone.
  apply den_core; assumption.
Qed.

Theorem den_correct6 u evs :
  forallb plain6 evs = true ->
  let s := run sp u evs in
  wf_created s = true -> pend s = [] -> wf_state s <> PAUSED ->
  forall n, n < length sp ->
    rows_named s n = nth n (den sp) 0 /\
    Permutation (states_named s n) (prescribed_states sp n (nth n (den sp) 0)).
Proof. intros He. apply den_correct7. apply plain6_run7. exact He. Qed.

Theorem den_correct u evs :
  forallb plain4 evs = true ->
  let s := run sp u evs in
  wf_created s = true -> pend s = [] ->
  forall n, n < length sp ->
    rows_named s n = nth n (den sp) 0 /\
    Permutation (states_named s n) (prescribed_states sp n (nth n (den sp) 0)).
Proof.
  intros He s Hc Hp. apply (den_correct6 u evs (plain4_6 evs He) Hc Hp). apply plain4_not_paused; assumption.
Qed.

(* the final workflow state prescribed by the definition *)
Definition den_states (p : nat) : list state := prescribed_states sp p (nth p (den sp) 0).
Definition den_verdict : state :=
  if existsb (fun p => existsb (fun x => state_eqb x CANCELLED) (den_states p)) (seq 0 (length sp)) then CANCELLED
  else if existsb (fun p => negb (has_err_route sp p) && existsb (fun x => state_eqb x ERROR) (den_states p)) (seq 0 (length sp))
       then ERROR else SUCCESS.

Lemma existsb_regroup (g : nat -> state -> bool) (l : list trow) : (forall r, In r l -> t_name r < length sp) ->
  existsb (fun r => g (t_name r) (t_state r)) l =
  existsb (fun p => existsb (g p) (map t_state (filter (fun r => Nat.eqb (t_name r) p) l))) (seq 0 (length sp)).
Proof.
  intros Hl. apply Bool.eq_iff_eq_true. rewrite !existsb_exists. split.
  - intros [r [Hr Hg]]. exists (t_name r). split; [apply in_seq; specialize (Hl r Hr); lia|].
    apply existsb_exists. exists (t_state r). split; [|exact Hg]. apply in_map. apply filter_In. split; [exact Hr|apply Nat.eqb_refl].
  - intros [p [_ Hp]]. apply existsb_exists in Hp. destruct Hp as [x [Hx Hg]]. apply in_map_iff in Hx.
    destruct Hx as [r [<- Hr]]. apply filter_In in Hr. destruct Hr as [Hr Hn]. apply Nat.eqb_eq in Hn. subst p.
    exists r. split; assumption.
Qed.

Theorem den_final_state7 u evs :
  run7 (init_with u) evs = true ->
  let s := run sp u evs in
  wf_created s = true -> pend s = [] -> wf_state s <> PAUSED -> wf_state s = den_verdict.
Proof.
  intros He s Hc Hp Hnpz.
  assert (HI : DInv sp true s).
  { unfold s. rewrite run_steps. apply DInv_steps7; [exact He|]. left. repeat split; reflexivity. }
  destruct HI as [[Hc' _]|HD]; [congruence|].
  destruct (no_stuck_joinfree sp (simple_nojoin sp Hs) u evs (run7_live evs _ He) Hc Hp) as [Hdone Hfin]. fold s in Hdone, Hfin.
  assert (Hcomp : is_completed (wf_state s) = true).
  { destruct Hfin as [H|H]; [exact H|]. contradiction. }
  rewrite (D_verdict _ _ _ _ HD Hcomp).
  assert (Hnames : forall r, In r (tasks s) -> t_name r < length sp).
  { intros r Hr. apply In_nth_error in Hr. destruct Hr as [k Hk]. apply (D_states _ _ _ _ HD k r Hk). }
  assert (Hst : forall p, p < length sp -> Permutation (states_named s p) (den_states p)).
  { intros p Hpl. unfold den_states. apply (den_correct7 u evs He Hc Hp Hnpz p Hpl). }
  unfold verdict_of, den_verdict.
  assert (E1 : existsb (fun r => state_eqb (t_state r) CANCELLED) (tasks s) =
               existsb (fun p => existsb (fun x => state_eqb x CANCELLED) (den_states p)) (seq 0 (length sp))).
  { rewrite (existsb_regroup (fun _ x => state_eqb x CANCELLED) (tasks s) Hnames).
    apply Bool.eq_iff_eq_true. rewrite !existsb_exists. split; intros [p [Hpi Hx]]; exists p; (split; [exact Hpi|]);
      apply in_seq in Hpi; fold (states_named s p) in *.
    - rewrite <- (existsb_perm _ _ _ (Hst p ltac:(lia))). exact Hx.
    - rewrite (existsb_perm _ _ _ (Hst p ltac:(lia))). exact Hx. }
  assert (E2 : existsb (fun r => state_eqb (t_state r) ERROR && negb (t_err_handled r)) (tasks s) =
               existsb (fun p => negb (has_err_route sp p) && existsb (fun x => state_eqb x ERROR) (den_states p)) (seq 0 (length sp))).
  { assert (Ea : existsb (fun r => state_eqb (t_state r) ERROR && negb (t_err_handled r)) (tasks s) =
                 existsb (fun r => (fun p x => state_eqb x ERROR && negb (has_err_route sp p)) (t_name r) (t_state r)) (tasks s)).
    { apply Bool.eq_iff_eq_true. rewrite !existsb_exists. split; intros [r [Hr Hx]]; exists r; (split; [exact Hr|]);
        apply andb_true_iff in Hx; destruct Hx as [Hx1 Hx2]; cbv beta; rewrite Hx1; simpl;
        apply In_nth_error in Hr; destruct Hr as [k Hk];
        assert (Hre : t_state r = ERROR) by (destruct (t_state r); try discriminate Hx1; reflexivity);
        rewrite (D_eh _ _ _ _ HD k r Hk Hre) in *; exact Hx2. }
    rewrite Ea, (existsb_regroup (fun p x => state_eqb x ERROR && negb (has_err_route sp p)) (tasks s) Hnames).
    apply Bool.eq_iff_eq_true. rewrite !existsb_exists. split; intros [p [Hpi Hx]]; exists p; (split; [exact Hpi|]);
      apply in_seq in Hpi; fold (states_named s p) in *.
    - apply existsb_exists in Hx. destruct Hx as [x [Hxi Hx]]. apply andb_true_iff in Hx. destruct Hx as [Hx1 Hx2].
      rewrite Hx2. simpl. rewrite <- (existsb_perm _ _ _ (Hst p ltac:(lia))). apply existsb_exists. exists x. split; assumption.
    - apply andb_true_iff in Hx. destruct Hx as [Hx1 Hx2]. rewrite <- (existsb_perm _ _ _ (Hst p ltac:(lia))) in Hx2.
      apply existsb_exists in Hx2. destruct Hx2 as [x [Hxi Hx2]]. apply existsb_exists. exists x. split; [exact Hxi|]. rewrite Hx2, Hx1. reflexivity. }
  rewrite E1, E2. destruct (existsb _ (seq 0 (length sp))); [reflexivity|]. destruct (existsb _ (seq 0 (length sp))); reflexivity.
Qed.
Theorem den_final_state6 u evs :
  forallb plain6 evs = true ->
  let s := run sp u evs in
  wf_created s = true -> pend s = [] -> wf_state s <> PAUSED -> wf_state s = den_verdict.
Proof. intros He. apply den_final_state7. apply plain6_run7. exact He. Qed.

Theorem den_final_state u evs :
  forallb plain4 evs = true ->
  let s := run sp u evs in
  wf_created s = true -> pend s = [] -> wf_state s = den_verdict.
Proof.
  intros He s Hc Hp. apply (den_final_state6 u evs (plain4_6 evs He) Hc Hp). apply plain4_not_paused; assumption.
Qed.
End Final.

(* the tasks that ran and their final states do not depend on the delivery order *)
Theorem schedule_independent sp u1 u2 evs1 evs2 :
  simple_b sp = true -> forallb plain4 evs1 = true -> forallb plain4 evs2 = true ->
  let s1 := run sp u1 evs1 in let s2 := run sp u2 evs2 in
  wf_created s1 = true -> pend s1 = [] -> wf_created s2 = true -> pend s2 = [] ->
  forall n, n < length sp ->
    rows_named s1 n = rows_named s2 n /\ Permutation (states_named s1 n) (states_named s2 n).
Proof.
  intros Hs H1 H2 s1 s2 C1 P1 C2 P2 n Hn.
  destruct (den_correct sp Hs u1 evs1 H1 C1 P1 n Hn) as [A1 B1].
  destruct (den_correct sp Hs u2 evs2 H2 C2 P2 n Hn) as [A2 B2].
  fold s1 in A1, B1. fold s2 in A2, B2. split; [congruence|].
  eapply perm_trans; [exact B1|]. apply Permutation_sym. exact B2.
Qed.

(* a run that was paused and resumed by the operator, any number of times and at any points, ends with
   the task executions, final task states and workflow state of a run that was never paused *)
Theorem pause_resume_same_result sp u1 u2 evs1 evs2 :
  simple_b sp = true -> forallb plain6 evs1 = true -> forallb plain4 evs2 = true ->
  let s1 := run sp u1 evs1 in let s2 := run sp u2 evs2 in
  wf_created s1 = true -> pend s1 = [] -> wf_state s1 <> PAUSED -> wf_created s2 = true -> pend s2 = [] ->
  wf_state s1 = wf_state s2 /\
  forall n, n < length sp ->
    rows_named s1 n = rows_named s2 n /\ Permutation (states_named s1 n) (states_named s2 n).
Proof.
  intros Hs H1 H2 s1 s2 C1 P1 N1 C2 P2. split.
  - unfold s1, s2. rewrite (den_final_state6 sp Hs u1 evs1 H1 C1 P1 N1), (den_final_state sp Hs u2 evs2 H2 C2 P2). reflexivity.
  - intros n Hn.
    destruct (den_correct6 sp Hs u1 evs1 H1 C1 P1 N1 n Hn) as [A1 B1].
    destruct (den_correct sp Hs u2 evs2 H2 C2 P2 n Hn) as [A2 B2].
    fold s1 in A1, B1. fold s2 in A2, B2. split; [congruence|].
    eapply perm_trans; [exact B1|]. apply Permutation_sym. exact B2.
Qed.

(* the same with repeated deliveries: start requests delivered again at any time and results delivered
   again to action executions that already accepted one, mixed with operator pauses and resumes, change
   neither the tasks that run, nor their final states, nor the final workflow state *)
Theorem dup_same_result sp u1 u2 evs1 evs2 :
  simple_b sp = true -> run7 sp (init_with u1) evs1 = true -> forallb plain4 evs2 = true ->
  let s1 := run sp u1 evs1 in let s2 := run sp u2 evs2 in
  wf_created s1 = true -> pend s1 = [] -> wf_state s1 <> PAUSED -> wf_created s2 = true -> pend s2 = [] ->
  wf_state s1 = wf_state s2 /\
  forall n, n < length sp ->
    rows_named s1 n = rows_named s2 n /\ Permutation (states_named s1 n) (states_named s2 n).
Proof.
  intros Hs H1 H2 s1 s2 C1 P1 N1 C2 P2. split.
  - unfold s1, s2. rewrite (den_final_state7 sp Hs u1 evs1 H1 C1 P1 N1), (den_final_state sp Hs u2 evs2 H2 C2 P2). reflexivity.
  - intros n Hn.
    destruct (den_correct7 sp Hs u1 evs1 H1 C1 P1 N1 n Hn) as [A1 B1].
    destruct (den_correct sp Hs u2 evs2 H2 C2 P2 n Hn) as [A2 B2].
    fold s1 in A1, B1. fold s2 in A2, B2. split; [congruence|].
    eapply perm_trans; [exact B1|]. apply Permutation_sym. exact B2.
Qed.

(* ------------------------------------------------------------ non-vacuity *)
(* 0 -> (1 | 2 twice: on-success and on-complete), 1 fails -> on-error 3, 2 (second run fails) -> 3 on-success *)
Definition den_demo : spec :=
  [ mkTspec JNone [(TTask 1, GTrue); (TTask 2, GTrue); (TTask 3, GFalse)] [] [(TTask 2, GTrue)] [] [OOk];
    mkTspec JNone [] [(TTask 3, GTrue)] [] [] [OErr];
    mkTspec JNone [(TTask 3, GTrue)] [] [] [] [OOk; OErr];
    mkTspec JNone [] [] [] [] [OOk; OCancel] ].

Example den_demo_ok :
  let evs := EStart :: drain_evs den_demo (fst (step den_demo init EStart)) 200 in
  let s := run den_demo [] evs in
  simple_b den_demo = true /\ forallb plain4 evs = true /\ wf_created s = true /\ pend s = [] /\
  den den_demo = [1; 1; 2; 2] /\ map (rows_named s) [0; 1; 2; 3] = [1; 1; 2; 2] /\
  states_named s 2 = [SUCCESS; ERROR] /\ wf_state s = CANCELLED /\ den_verdict den_demo = CANCELLED /\ 30 < length evs.
Proof. vm_compute. repeat split. apply Nat.leb_le. reflexivity. Qed.

(* the same definition, paused twice by the operator: right after the start, and again after three
   more deliveries; each time everything deliverable is delivered while PAUSED, then it is resumed *)
Example pause_resume_demo_ok :
  let sA := fst (step den_demo init EStart) in
  let sB := fst (step den_demo sA EPause) in
  let e1 := drain_evs den_demo sB 200 in
  let sC := fst (step den_demo (steps den_demo sB e1) EResume) in
  let e2 := firstn 3 (drain_evs den_demo sC 200) in
  let sD := fst (step den_demo (steps den_demo sC e2) EPause) in
  let e3 := drain_evs den_demo sD 200 in
  let sE := fst (step den_demo (steps den_demo sD e3) EResume) in
  let e4 := drain_evs den_demo sE 200 in
  let evs1 := EStart :: EPause :: e1 ++ EResume :: e2 ++ EPause :: e3 ++ EResume :: e4 in
  let evs2 := EStart :: drain_evs den_demo sA 200 in
  let s1 := run den_demo [] evs1 in let s2 := run den_demo [] evs2 in
  forallb plain6 evs1 = true /\ forallb plain4 evs2 = true /\
  wf_created s1 = true /\ pend s1 = [] /\ wf_state s1 <> PAUSED /\ wf_created s2 = true /\ pend s2 = [] /\
  wf_state (steps den_demo sB e1) = PAUSED /\ 0 < length e1 /\ wf_state (steps den_demo sD e3) = PAUSED /\ 0 < length e3 /\
  wf_state s1 = CANCELLED /\ map (rows_named s1) [0; 1; 2; 3] = [1; 1; 2; 2] /\ evs1 <> evs2.
Proof. vm_compute. repeat split; try discriminate; try (apply Nat.leb_le; reflexivity). Qed.

(* every start request delivered three times (once before the original), every result twice, a pause in between *)
Definition with_dups (evs : list ev) : list ev :=
  flat_map (fun e => match e with
                     | EFire (IStartTask t f r x) => [EDup (IStartTask t f r x); e; EDup (IStartTask t f r x)]
                     | EFire (IResult a o) => [e; EDup (IResult a o)]
                     | _ => [e]
                     end) evs.

Example dup_demo_ok :
  let sA := fst (step den_demo init EStart) in
  let evs2 := EStart :: drain_evs den_demo sA 200 in
  let evs1 := with_dups (firstn 12 evs2) ++ [EPause; EResume] ++ with_dups (skipn 12 evs2) in
  let s1 := run den_demo [] evs1 in let s2 := run den_demo [] evs2 in
  run7 den_demo init evs1 = true /\ forallb plain6 evs1 = false /\ forallb plain4 evs2 = true /\
  wf_created s1 = true /\ pend s1 = [] /\ wf_state s1 <> PAUSED /\ wf_created s2 = true /\ pend s2 = [] /\
  wf_state s1 = CANCELLED /\ map (rows_named s1) [0; 1; 2; 3] = [1; 1; 2; 2] /\ length evs2 + 15 < length evs1.
Proof. vm_compute. repeat split; try discriminate; try (apply Nat.leb_le; reflexivity). Qed.
