(* Proofs about Model/JoinProto.v: with the lock + re-check (under READ COMMITTED), or with the unique
   constraint, ANY interleaving of ANY number of transactions performs the act at most once, and exactly
   once when all of them have finished. *)
From Coq Require Import List Arith Bool Lia.
Require Import Mistral.Model.JoinProto.
Import ListNotations.

Lemma upd_same : forall A (f : nat -> A) i v, upd f i v i = v.
Proof. intros. unfold upd. rewrite Nat.eqb_refl. reflexivity. Qed.

Lemma upd_other : forall A (f : nat -> A) i v j, j <> i -> upd f i v j = f j.
Proof. intros A f i v j H. unfold upd. destruct (Nat.eqb_spec j i); [contradiction | reflexivity]. Qed.

Ltac upd_cases j i :=
  let H := fresh "Hne" in
  unfold upd in *; destruct (Nat.eqb_spec j i) as [H | H]; [subst | idtac].

Definition holds (p : pc) : Prop := p = PRecheck \/ p = PAct \/ exists a, p = PCommit a.
Definition acting (p : pc) : Prop := p = PAct \/ p = PCommit true.

Lemma release_self : forall s i, lock s = Some i -> release s i = None.
Proof. intros s i H. unfold release. rewrite H. rewrite Nat.eqb_refl. reflexivity. Qed.

(* ------------------------------------------------------------------ the lock-based argument *)

Section LockBased.
Variable c : cfg.
Variable bound : nat.
Hypothesis Hlocked : c_locked c = true.
Hypothesis Hrecheck : c_recheck c = true.
Hypothesis Hfresh : c_fresh c = true.

Definition invA (s : sys) : Prop :=
  committed s <= 1 /\
  (forall i, holds (pcs s i) -> lock s = Some i) /\
  (forall i, acting (pcs s i) -> committed s = 0).

Lemma invA_init : invA init.
Proof.
  unfold invA, init, holds, acting; simpl. split; [lia|]. split.
  - intros i [H | [H | [a H]]]; discriminate.
  - intros i [H | H]; discriminate.
Qed.

Lemma invA_step : forall s i, invA s -> invA (step c bound s i).
Proof.
  intros s i Hinv. pose proof Hinv as [Hc [Hh Ha]]. unfold step.
  destruct (pcs s i) eqn:Hpc.
  - (* PCheck *)
    unfold invA; simpl. split; [exact Hc|]. split.
    + intros j Hj. upd_cases j i.
      * destruct (0 <? committed s); destruct Hj as [H | [H | [a H]]]; discriminate.
      * apply Hh; exact Hj.
    + intros j Hj. upd_cases j i.
      * destruct (0 <? committed s); destruct Hj as [H | H]; discriminate.
      * eapply Ha; exact Hj.
  - (* PLock *)
    rewrite Hlocked. destruct (lock s) as [h|] eqn:Hl; [exact Hinv|].
    unfold invA; simpl. split; [exact Hc|]. split.
    + intros j Hj. upd_cases j i; [reflexivity|]. specialize (Hh j Hj). try rewrite Hl in Hh. discriminate.
    + intros j Hj. upd_cases j i.
      * destruct Hj as [H | H]; discriminate.
      * eapply Ha; exact Hj.
  - (* PRecheck *)
    rewrite Hrecheck, Hfresh.
    assert (Hli : lock s = Some i) by (apply Hh; left; exact Hpc).
    unfold invA; simpl. split; [exact Hc|]. split.
    + intros j Hj. upd_cases j i; [exact Hli|]. apply Hh; exact Hj.
    + intros j Hj. upd_cases j i.
      * destruct (Nat.ltb_spec 0 (committed s)) as [Hlt | Hge]; [destruct Hj as [H | H]; discriminate | lia].
      * eapply Ha; exact Hj.
  - (* PAct *)
    assert (Hli : lock s = Some i) by (apply Hh; right; left; exact Hpc).
    assert (Hz : committed s = 0) by (eapply Ha; left; exact Hpc).
    assert (Hgoal : invA (mkSys (committed s) (lock s) (upd (pcs s) i (PCommit true)) (snap s))).
    { unfold invA; simpl. split; [exact Hc|]. split.
      - intros j Hj. upd_cases j i; [exact Hli|]. apply Hh; exact Hj.
      - intros j Hj. upd_cases j i; [exact Hz|]. eapply Ha; exact Hj. }
    destruct (c_unique c); [|exact Hgoal].
    replace (0 <? committed s) with false by (rewrite Hz; reflexivity). destruct (pending_other s i bound); [exact Hinv | exact Hgoal].
  - (* PCommit *)
    assert (Hli : lock s = Some i) by (apply Hh; right; right; eexists; exact Hpc).
    assert (Hnone : forall j, j <> i -> ~ holds (pcs s j)).
    { intros j Hne Hj. specialize (Hh j Hj). rewrite Hli in Hh. inversion Hh. congruence. }
    unfold invA; simpl. split; [|split].
    + destruct acted; [|exact Hc]. assert (committed s = 0) by (eapply Ha; right; exact Hpc). lia.
    + intros j Hj. upd_cases j i.
      * destruct Hj as [H | [H | [a H]]]; discriminate.
      * exfalso. eapply Hnone; eauto.
    + intros j Hj. upd_cases j i.
      * destruct Hj as [H | H]; discriminate.
      * exfalso. apply (Hnone j Hne). destruct Hj as [H | H]; [right; left; exact H | right; right; eexists; exact H].
  - (* PDone *)
    exact Hinv.
Qed.

Lemma invA_run : forall sched, invA (run c bound sched).
Proof.
  intros sched. unfold run. generalize invA_init. generalize init.
  induction sched as [|i tl IH]; intros s Hs; simpl; [exact Hs|].
  apply IH. destruct (i <? bound); [apply invA_step; exact Hs | exact Hs].
Qed.

End LockBased.

(* ------------------------------------------------------------------ the unique-constraint argument *)

Section UniqueBased.
Variable c : cfg.
Variable bound : nat.
Hypothesis Hunique : c_unique c = true.

Definition invB (s : sys) : Prop :=
  committed s <= 1 /\
  (forall i j, pcs s i = PCommit true -> pcs s j = PCommit true -> i = j) /\
  (forall i, pcs s i = PCommit true -> committed s = 0) /\
  (forall j, bound <= j -> pcs s j = PCheck).

Lemma invB_init : invB init.
Proof. unfold invB, init; simpl. repeat split; try lia; intros; discriminate. Qed.

Lemma pending_other_false : forall s i j,
  pending_other s i bound = false -> j < bound -> j <> i -> pcs s j <> PCommit true.
Proof.
  intros s i j H Hlt Hne Hpc. unfold pending_other in H.
  assert (Hex : existsb (fun j0 => negb (j0 =? i) && match pcs s j0 with PCommit true => true | _ => false end) (seq 0 bound) = true).
  { apply existsb_exists. exists j. split; [apply in_seq; lia|]. rewrite Hpc.
    destruct (Nat.eqb_spec j i); [contradiction | reflexivity]. }
  rewrite Hex in H. discriminate.
Qed.

Lemma invB_step : forall s i, i < bound -> invB s -> invB (step c bound s i).
Proof.
  intros s i Hib Hinv. pose proof Hinv as [Hc [Hu [Hz Hout]]]. unfold step.
  assert (Hkeep : forall p, p <> PCommit true ->
            invB (mkSys (committed s) (lock s) (upd (pcs s) i p) (snap s)) /\
            forall l sn, invB (mkSys (committed s) l (upd (pcs s) i p) sn)).
  { intros p Hp.
    assert (H : forall l sn, invB (mkSys (committed s) l (upd (pcs s) i p) sn)).
    { intros l sn. unfold invB; simpl. split; [exact Hc|]. split; [|split].
      - intros a b Ha Hb. upd_cases a i; [contradiction|]. upd_cases b i; [contradiction|]. apply Hu; assumption.
      - intros a Ha. upd_cases a i; [contradiction|]. eapply Hz; exact Ha.
      - intros j Hj. upd_cases j i; [lia|]. apply Hout; exact Hj. }
    split; [apply H | exact H]. }
  destruct (pcs s i) eqn:Hpc.
  - destruct (0 <? committed s); apply Hkeep; discriminate.
  - destruct (c_locked c); [destruct (lock s)|]; try (apply Hkeep; discriminate).
    exact Hinv.
  - destruct (if c_recheck c then if c_fresh c then 0 <? committed s else snap s i else false); apply Hkeep; discriminate.
  - rewrite Hunique. destruct (Nat.ltb_spec 0 (committed s)) as [Hlt | Hge].
    + apply Hkeep; discriminate.
    + destruct (pending_other s i bound) eqn:Hpo; [exact Hinv|].
      unfold invB; simpl. split; [exact Hc|]. split; [|split].
      * intros a b Ha Hb. upd_cases a i; upd_cases b i; try reflexivity.
        -- exfalso. destruct (le_lt_dec bound b) as [Hbb | Hbb].
           ++ rewrite (Hout b Hbb) in Hb. discriminate.
           ++ eapply pending_other_false; eauto.
        -- exfalso. destruct (le_lt_dec bound a) as [Hbb | Hbb].
           ++ rewrite (Hout a Hbb) in Ha. discriminate.
           ++ eapply pending_other_false; eauto.
        -- apply Hu; assumption.
      * intros a Ha. lia.
      * intros j Hj. upd_cases j i; [lia|]. apply Hout; exact Hj.
  - destruct acted.
    + assert (H0 : committed s = 0) by (eapply Hz; exact Hpc).
      unfold invB; simpl. split; [lia|]. split; [|split].
      * intros a b Ha Hb. upd_cases a i; [discriminate|]. upd_cases b i; [discriminate|]. apply Hu; assumption.
      * intros a Ha. upd_cases a i; [discriminate|]. exfalso. apply Hne. apply Hu; assumption.
      * intros j Hj. upd_cases j i; [lia|]. apply Hout; exact Hj.
    + apply Hkeep; discriminate.
  - exact Hinv.
Qed.

Lemma invB_run : forall sched, invB (run c bound sched).
Proof.
  intros sched. unfold run. generalize invB_init. generalize init.
  induction sched as [|i tl IH]; intros s Hs; simpl; [exact Hs|].
  apply IH. destruct (Nat.ltb_spec i bound); [apply invB_step; assumption | exact Hs].
Qed.

End UniqueBased.

(* ------------------------------------------------------------------ the theorems *)

Definition safe (c : cfg) : bool := (c_locked c && c_recheck c && c_fresh c) || c_unique c.

(* at most once: every number of transactions, every interleaving, at every moment *)
Theorem act_at_most_once : forall c bound sched,
  safe c = true -> committed (run c bound sched) <= 1.
Proof.
  intros c bound sched Hs. unfold safe in Hs. apply orb_true_iff in Hs. destruct Hs as [Hs | Hs].
  - apply andb_true_iff in Hs. destruct Hs as [Hs H3]. apply andb_true_iff in Hs. destruct Hs as [H1 H2].
    destruct (invA_run c bound H1 H2 H3 sched) as [H _]. exact H.
  - destruct (invB_run c bound Hs sched) as [H _]. exact H.
Qed.

(* a transaction finishes only when the act has been committed (by itself or by another one) *)
Definition invC (s : sys) : Prop :=
  (forall i, pcs s i = PDone -> 1 <= committed s) /\
  (forall i, pcs s i = PCommit false -> 1 <= committed s) /\
  (forall i, snap s i = true -> 1 <= committed s).

Lemma invC_step : forall c bound s i, invC s -> invC (step c bound s i).
Proof.
  intros c bound s i Hinv. pose proof Hinv as [Hd [Hf Hs]]. unfold step.
  assert (Hkeep : forall p l, p <> PDone -> p <> PCommit false ->
            invC (mkSys (committed s) l (upd (pcs s) i p) (snap s))).
  { intros p l H1 H2. unfold invC; simpl. split; [|split].
    - intros j Hj. upd_cases j i; [contradiction|]. eapply Hd; exact Hj.
    - intros j Hj. upd_cases j i; [contradiction|]. eapply Hf; exact Hj.
    - exact Hs. }
  destruct (pcs s i) eqn:Hpc.
  - destruct (Nat.ltb_spec 0 (committed s)) as [Hlt | Hge]; unfold invC; simpl.
    + split; [|split].
      * intros j Hj. lia.
      * intros j Hj. lia.
      * intros j Hj. lia.
    + split; [|split].
      * intros j Hj. upd_cases j i; [discriminate|]. eapply Hd; exact Hj.
      * intros j Hj. upd_cases j i; [discriminate|]. eapply Hf; exact Hj.
      * intros j Hj. upd_cases j i; [discriminate|]. eapply Hs; exact Hj.
  - destruct (c_locked c); [destruct (lock s)|]; try (apply Hkeep; discriminate). exact Hinv.
  - destruct (c_recheck c); [|apply Hkeep; discriminate].
    destruct (c_fresh c).
    + destruct (Nat.ltb_spec 0 (committed s)) as [Hlt | Hge]; [|apply Hkeep; discriminate].
      unfold invC; simpl. split; [|split]; intros; lia.
    + destruct (snap s i) eqn:Hsn; [|apply Hkeep; discriminate].
      assert (1 <= committed s) by (eapply Hs; exact Hsn).
      unfold invC; simpl. split; [|split]; intros; lia.
  - destruct (c_unique c); [|apply Hkeep; discriminate].
    destruct (0 <? committed s); [apply Hkeep; discriminate|].
    destruct (pending_other s i bound); [exact Hinv | apply Hkeep; discriminate].
  - destruct acted; unfold invC; simpl.
    + split; [|split]; intros; lia.
    + assert (1 <= committed s) by (eapply Hf; exact Hpc). split; [|split]; intros; lia.
  - exact Hinv.
Qed.

Lemma invC_run : forall c bound sched, invC (run c bound sched).
Proof.
  intros c bound sched. unfold run.
  assert (H0 : invC init) by (unfold invC, init; simpl; repeat split; intros; discriminate).
  revert H0. generalize init. induction sched as [|i tl IH]; intros s Hs; simpl; [exact Hs|].
  apply IH. destruct (i <? bound); [apply invC_step; exact Hs | exact Hs].
Qed.

(* exactly once when everybody has finished *)
Theorem act_exactly_once : forall c bound sched,
  safe c = true -> 0 < bound -> all_done (run c bound sched) bound = true ->
  committed (run c bound sched) = 1.
Proof.
  intros c bound sched Hs Hb Hall.
  pose proof (act_at_most_once c bound sched Hs) as Hle.
  destruct (invC_run c bound sched) as [Hd _].
  unfold all_done in Hall. rewrite forallb_forall in Hall.
  assert (H0 : In 0 (seq 0 bound)) by (apply in_seq; lia).
  specialize (Hall 0 H0). destruct (pcs (run c bound sched) 0) eqn:Hpc; try discriminate.
  specialize (Hd 0 Hpc). lia.
Qed.

(* without the guards the race is real *)
Theorem act_twice_without_guards :
  committed (run (mkCfg false false true false) 2 [0; 1; 0; 1; 0; 1; 0; 1; 0; 1]) = 2.
Proof. vm_compute. reflexivity. Qed.

(* the lock and the re-check alone do not help when reads inside a transaction are not fresh
   (REPEATABLE READ): then the unique constraint is what keeps the row single *)
Theorem act_twice_with_stale_recheck :
  committed (run (mkCfg true true false false) 2 [0; 1; 0; 0; 0; 0; 1; 1; 1; 1]) = 2.
Proof. vm_compute. reflexivity. Qed.

(* lock without re-check *)
Theorem act_twice_without_recheck :
  committed (run (mkCfg true false true false) 2 [0; 1; 0; 0; 0; 0; 1; 1; 1; 1]) = 2.
Proof. vm_compute. reflexivity. Qed.
