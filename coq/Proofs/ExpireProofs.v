(* Proofs about Model/Expire.v (property C18).
   Structure:
     1. list lemmas
     2. the cascade: boolean `under` = inductive ancestor relation `Anc` on well-formed
        populations; algebra of cascade_delete (composition, extensionality, roots)
     3. the stable descending sort: permutation, sortedness, commutation with filter
     4. the generic batch loop `deplete` reaches the one-shot result with the given fuel
     5. evaluate = spec_result (exact functional characterisation, batch independent)
     6. the C18 theorems derived from the characterisation *)
From Coq Require Import List ZArith Bool String Arith Lia.
From Coq Require Import ZifyBool.
From Coq Require Import Sorting.Permutation Sorting.Sorted.
Require Import Mistral.Gen.States Mistral.Model.Expire.
Import ListNotations.
Open Scope Z_scope.

(* ------------------------------------------------------------------ 1. lists *)

Lemma filter_filter {A} (f g : A -> bool) l :
  filter f (filter g l) = filter (fun x => g x && f x) l.
Proof.
  induction l as [|a l IH]; simpl; auto.
  destruct (g a) eqn:G; simpl; auto.
  destruct (f a); rewrite IH; auto.
Qed.

Lemma filter_all {A} (f : A -> bool) l :
  (forall x, In x l -> f x = true) -> filter f l = l.
Proof.
  induction l as [|a l IH]; simpl; intros H; auto.
  rewrite (H a (or_introl eq_refl)). f_equal. apply IH. intros; apply H; auto.
Qed.

Lemma filter_nil {A} (f : A -> bool) l :
  filter f l = [] -> forall x, In x l -> f x = false.
Proof.
  induction l as [|a l IH]; simpl; intros H x HI; [contradiction|].
  destruct (f a) eqn:F; [discriminate|].
  destruct HI as [->|HI]; auto.
Qed.

Lemma filter_length_le' {A} (f f' : A -> bool) l :
  (forall y, f' y = true -> f y = true) ->
  (List.length (filter f' l) <= List.length (filter f l))%nat.
Proof.
  intros M. induction l as [|a l IH]; simpl; auto.
  destruct (f' a) eqn:F'; destruct (f a) eqn:F; simpl; try lia.
  apply M in F'. congruence.
Qed.

Lemma filter_length_lt {A} (f f' : A -> bool) l x :
  (forall y, f' y = true -> f y = true) ->
  In x l -> f x = true -> f' x = false ->
  (List.length (filter f' l) < List.length (filter f l))%nat.
Proof.
  intros M. induction l as [|a l IH]; simpl; intros HI Fx F'x; [contradiction|].
  destruct HI as [->|HI].
  - rewrite Fx, F'x. simpl. pose proof (filter_length_le' f f' l M). lia.
  - specialize (IH HI Fx F'x).
    destruct (f' a) eqn:F'; destruct (f a) eqn:F; simpl; try lia.
    apply M in F'. congruence.
Qed.

Lemma filter_length_le_all {A} (f : A -> bool) l :
  (List.length (filter f l) <= List.length l)%nat.
Proof. induction l as [|a l IH]; simpl; auto. destruct (f a); simpl; lia. Qed.

Lemma In_firstn {A} (x : A) n l : In x (firstn n l) -> In x l.
Proof.
  revert l; induction n as [|n IH]; intros [|a l]; simpl; try tauto.
  intros [->|H]; auto.
Qed.

Lemma In_skipn {A} (x : A) n l : In x (skipn n l) -> In x l.
Proof.
  revert l; induction n as [|n IH]; intros [|a l]; simpl; try tauto.
  intros H. right. apply IH; auto.
Qed.

Lemma In_skipn_S {A} (x : A) n l : In x (skipn (S n) l) -> In x (skipn n l).
Proof.
  revert l; induction n as [|n IH]; intros [|a l]; try (simpl; tauto).
  intros H. change (In x (skipn n l)). apply IH. exact H.
Qed.

Lemma skipn_filter_In {A} (f : A -> bool) (x : A) l :
  forall n, In x (skipn n (filter f l)) -> In x (skipn n l).
Proof.
  induction l as [|a l IH]; intros n; simpl.
  - destruct n; simpl; auto.
  - destruct (f a) eqn:F.
    + destruct n as [|n]; simpl.
      * intros [->|H]; auto. right. apply filter_In in H. tauto.
      * apply IH.
    + intros H. apply IH in H. destruct n as [|n]; simpl in *; auto.
      apply In_skipn_S. exact H.
Qed.

Lemma skipn_filter_tail {A} (f : A -> bool) :
  forall n l, (forall x, In x (firstn n l) -> f x = true) ->
  skipn n (filter f l) = filter f (skipn n l).
Proof.
  induction n as [|n IH]; intros [|a l] H; simpl; auto.
  simpl in H. rewrite (H a (or_introl eq_refl)). simpl. apply IH.
  intros; apply H; auto.
Qed.

Lemma NoDup_app_disjoint {A} (l1 l2 : list A) a :
  NoDup (l1 ++ l2) -> In a l1 -> In a l2 -> False.
Proof.
  induction l1 as [|b l1 IH]; simpl; intros ND H1 H2; [contradiction|].
  inversion ND as [|? ? Hn ND']; subst.
  destruct H1 as [->|H1].
  - apply Hn. apply in_or_app; auto.
  - apply IH; auto.
Qed.

Lemma NoDup_map_filter {A B} (g : A -> B) (f : A -> bool) l :
  NoDup (map g l) -> NoDup (map g (filter f l)).
Proof.
  induction l as [|a l IH]; simpl; intros ND; auto.
  inversion ND as [|? ? Hn ND']; subst.
  destruct (f a); simpl; auto.
  constructor; auto.
  intros H. apply Hn. apply in_map_iff in H. destruct H as [y [E HI]].
  apply filter_In in HI. rewrite <- E. apply in_map. tauto.
Qed.

Lemma memn_In n l : memn n l = true <-> In n l.
Proof.
  unfold memn. rewrite existsb_exists. split.
  - intros [x [H1 H2]]. apply Nat.eqb_eq in H2. subst; auto.
  - intros H; exists n; split; auto. apply Nat.eqb_refl.
Qed.

Lemma memn_app n l1 l2 : memn n (l1 ++ l2) = memn n l1 || memn n l2.
Proof. unfold memn. apply existsb_app. Qed.

(* ------------------------------------------------------------ 2. the cascade *)

Definition wf_pop (pop : list row) : Prop :=
  NoDup (map rid pop) /\
  forall x p, In x pop -> rparent x = Some p -> (p < rid x)%nat.

Lemma find_row_some p pop y : find_row p pop = Some y -> In y pop /\ rid y = p.
Proof.
  unfold find_row. intros H. apply find_some in H. destruct H as [H1 H2].
  apply Nat.eqb_eq in H2. auto.
Qed.

Lemma find_row_unique pop y :
  NoDup (map rid pop) -> In y pop -> find_row (rid y) pop = Some y.
Proof.
  induction pop as [|a l IH]; simpl; intros ND HI; [contradiction|].
  inversion ND as [|? ? Hn ND']; subst.
  unfold find_row; simpl. destruct HI as [->|HI].
  - rewrite Nat.eqb_refl. auto.
  - destruct (Nat.eqb (rid a) (rid y)) eqn:E.
    + apply Nat.eqb_eq in E. exfalso. apply Hn. rewrite E. apply in_map; auto.
    + apply IH; auto.
Qed.

Lemma rid_inj pop x y :
  NoDup (map rid pop) -> In x pop -> In y pop -> rid x = rid y -> x = y.
Proof.
  intros ND Hx Hy E.
  pose proof (find_row_unique pop x ND Hx) as Fx.
  pose proof (find_row_unique pop y ND Hy) as Fy.
  rewrite E in Fx. congruence.
Qed.

(* x is one of D or has an ancestor in D, following parent keys inside pop *)
Inductive Anc (pop : list row) (D : list nat) : row -> Prop :=
| Anc_here : forall x, In (rid x) D -> Anc pop D x
| Anc_up : forall x p px, rparent x = Some p -> find_row p pop = Some px ->
                          Anc pop D px -> Anc pop D x.

Lemma under_Anc pop D : forall f x, under f pop D x = true -> Anc pop D x.
Proof.
  induction f as [|f IH]; intros x H; simpl in H.
  - rewrite orb_false_r in H. apply Anc_here, memn_In; auto.
  - apply orb_true_iff in H. destruct H as [H|H]; [apply Anc_here, memn_In; auto|].
    destruct (rparent x) as [p|] eqn:P; try discriminate.
    destruct (find_row p pop) as [px|] eqn:F; try discriminate.
    eapply Anc_up; eauto.
Qed.

Lemma Anc_under pop D :
  wf_pop pop -> forall x, Anc pop D x -> In x pop ->
  forall f, (rid x <= f)%nat -> under f pop D x = true.
Proof.
  intros [ND LT] x A. induction A as [x H | x p px P F A IH]; intros HI f Hf.
  - apply memn_In in H. destruct f; simpl; rewrite H; auto.
  - pose proof (find_row_some _ _ _ F) as [Hpx Hid].
    pose proof (LT x p HI P) as Hlt.
    destruct f as [|f]; [lia|]. simpl. rewrite P, F.
    rewrite IH; auto; [apply orb_true_r | lia].
Qed.

Lemma under_iff pop D x :
  wf_pop pop -> In x pop -> (under (rid x) pop D x = true <-> Anc pop D x).
Proof.
  intros W HI. split.
  - apply under_Anc.
  - intros A. apply Anc_under; auto.
Qed.

Lemma Anc_nil pop x : ~ Anc pop [] x.
Proof. intros A. induction A; auto. Qed.

Lemma Anc_mono pop D D' x : (forall i, In i D -> In i D') -> Anc pop D x -> Anc pop D' x.
Proof.
  intros M A. induction A as [x H | x p px P F A IH].
  - apply Anc_here; auto.
  - eapply Anc_up; eauto.
Qed.

Lemma Anc_app pop D1 D2 x : Anc pop (D1 ++ D2) x <-> Anc pop D1 x \/ Anc pop D2 x.
Proof.
  split.
  - intros A. induction A as [x H | x p px P F A IH].
    + apply in_app_or in H. destruct H; [left|right]; apply Anc_here; auto.
    + destruct IH; [left|right]; eapply Anc_up; eauto.
  - intros [A|A]; eapply Anc_mono; try exact A; intros; apply in_or_app; auto.
Qed.

Lemma Anc_root pop D x : rparent x = None -> Anc pop D x -> In (rid x) D.
Proof. intros P A. destruct A as [x H | x p px P' F A]; auto. congruence. Qed.

Lemma Anc_witness pop D x : Anc pop D x -> exists d, In d D /\ Anc pop [d] x.
Proof.
  intros A. induction A as [x H | x p px P F A IH].
  - exists (rid x). split; auto. apply Anc_here. simpl; auto.
  - destruct IH as [d [Hd Ad]]. exists d. split; auto. eapply Anc_up; eauto.
Qed.

Lemma Anc_child pop D x :
  Anc pop D x -> ~ In (rid x) D ->
  exists p px, rparent x = Some p /\ find_row p pop = Some px /\ Anc pop D px.
Proof.
  intros A N. destruct A as [x H | x p px P F A]; [contradiction|].
  exists p, px. auto.
Qed.

Lemma Anc_trans pop D r x :
  NoDup (map rid pop) -> In r pop -> In x pop ->
  Anc pop [rid r] x -> Anc pop D r -> Anc pop D x.
Proof.
  intros ND Hr Hx A. induction A as [x H | x p px P F A IH]; intros AD.
  - simpl in H. destruct H as [H|[]].
    assert (x = r) by (eapply rid_inj; eauto). subst; auto.
  - pose proof (find_row_some _ _ _ F) as [Hpx _].
    eapply Anc_up; eauto.
Qed.

Lemma cd_In pop D x :
  wf_pop pop -> (In x (cascade_delete pop D) <-> In x pop /\ ~ Anc pop D x).
Proof.
  intros W. unfold cascade_delete. rewrite filter_In.
  split; intros [H1 H2]; split; auto.
  - intro A. apply (under_iff pop D x W H1) in A. rewrite A in H2. discriminate.
  - destruct (under (rid x) pop D x) eqn:E; auto.
    exfalso. apply H2. apply under_iff; auto.
Qed.

Lemma cd_not_In pop D x :
  wf_pop pop -> In x pop -> ~ In x (cascade_delete pop D) -> Anc pop D x.
Proof.
  intros W HI N. destruct (under (rid x) pop D x) eqn:E.
  - apply under_iff in E; auto.
  - exfalso. apply N. unfold cascade_delete. apply filter_In. rewrite E. auto.
Qed.

Lemma wf_cd pop D : wf_pop pop -> wf_pop (cascade_delete pop D).
Proof.
  intros [ND LT]. split.
  - apply NoDup_map_filter; auto.
  - intros x p HI. apply filter_In in HI. destruct HI. eauto.
Qed.

Lemma Anc_cd_1 pop D D2 x :
  wf_pop pop -> Anc (cascade_delete pop D) D2 x -> Anc pop D2 x.
Proof.
  intros W A. induction A as [x H | x p px P F A IH].
  - apply Anc_here; auto.
  - pose proof (find_row_some _ _ _ F) as [Hpx Hid].
    apply cd_In in Hpx; auto. destruct Hpx as [Hpx _].
    eapply Anc_up; eauto. rewrite <- Hid. apply find_row_unique; auto. apply W.
Qed.

Lemma Anc_cd_2 pop D D2 x :
  wf_pop pop -> Anc pop D2 x -> In x (cascade_delete pop D) ->
  Anc (cascade_delete pop D) D2 x.
Proof.
  intros W A. induction A as [x H | x p px P F A IH]; intros HI.
  - apply Anc_here; auto.
  - pose proof (find_row_some _ _ _ F) as [Hpx Hid].
    assert (HI' : In px (cascade_delete pop D)).
    { apply cd_In; auto. split; auto. intros AD.
      apply cd_In in HI; auto. destruct HI as [_ N]. apply N. eapply Anc_up; eauto. }
    eapply Anc_up; eauto.
    rewrite <- Hid. apply find_row_unique; auto. apply (wf_cd pop D W).
Qed.

Lemma cd_cd pop D1 D2 :
  wf_pop pop ->
  cascade_delete (cascade_delete pop D1) D2 = cascade_delete pop (D1 ++ D2).
Proof.
  intros W. unfold cascade_delete at 1. unfold cascade_delete at 2.
  rewrite filter_filter. unfold cascade_delete at 2. apply filter_ext_in.
  intros x HI.
  destruct (under (rid x) pop D1 x) eqn:E1; simpl.
  - symmetry. apply negb_false_iff. apply under_iff; auto.
    apply Anc_app. left. apply under_iff in E1; auto.
  - f_equal. apply eq_true_iff_eq.
    assert (HI1 : In x (cascade_delete pop D1)).
    { unfold cascade_delete. apply filter_In. rewrite E1. auto. }
    rewrite (under_iff (cascade_delete pop D1) D2 x (wf_cd pop D1 W) HI1).
    rewrite (under_iff pop (D1 ++ D2) x W HI).
    rewrite Anc_app. split.
    + intros A. right. eapply Anc_cd_1; eauto.
    + intros [A|A].
      * apply under_iff in A; auto. congruence.
      * apply Anc_cd_2; auto.
Qed.

Lemma cd_ext pop D D' :
  wf_pop pop -> (forall i, In i D <-> In i D') ->
  cascade_delete pop D = cascade_delete pop D'.
Proof.
  intros W E. unfold cascade_delete. apply filter_ext_in. intros x HI.
  f_equal. apply eq_true_iff_eq.
  rewrite (under_iff pop D x W HI), (under_iff pop D' x W HI).
  split; apply Anc_mono; intros i; apply E.
Qed.

Lemma cd_nil pop : wf_pop pop -> cascade_delete pop [] = pop.
Proof.
  intros W. unfold cascade_delete. apply filter_all. intros x HI.
  apply negb_true_iff. destruct (under (rid x) pop [] x) eqn:E; auto.
  apply under_Anc in E. exfalso. eapply Anc_nil; eauto.
Qed.

Lemma delete_all_cd pop :
  wf_pop pop -> forall b D,
  delete_all b (cascade_delete pop D) = cascade_delete pop (D ++ map rid b).
Proof.
  intros W. induction b as [|a b IH]; intros D.
  - simpl. rewrite app_nil_r. auto.
  - unfold delete_all. simpl. rewrite cd_cd; auto.
    unfold delete_all in IH. rewrite IH. rewrite <- app_assoc. auto.
Qed.

Definition notin (D : list nat) (r : row) : bool := negb (memn (rid r) D).

(* a query that only returns rows without a parent sees, after a cascade
   delete, its old result minus the deleted rows *)
Lemma filter_root_cd pop D (g : row -> bool) :
  wf_pop pop -> (forall x, g x = true -> rparent x = None) ->
  filter g (cascade_delete pop D) = filter (notin D) (filter g pop).
Proof.
  intros W R. unfold cascade_delete. rewrite !filter_filter.
  apply filter_ext_in. intros x HI.
  destruct (g x) eqn:G; simpl; [|apply andb_false_r].
  rewrite andb_true_r. unfold notin. f_equal. apply eq_true_iff_eq.
  rewrite (under_iff pop D x W HI), memn_In. split.
  - apply Anc_root; auto.
  - apply Anc_here.
Qed.

(* --------------------------------------------------------------- 3. the sort *)

Definition row_ge (a b : row) : Prop := key_ge (rupd a) (rupd b) = true.

Lemma key_ge_total a b : key_ge a b = false -> key_ge b a = true.
Proof. destruct a, b; simpl; auto; try discriminate. lia. Qed.

Lemma key_ge_trans a b c : key_ge a b = true -> key_ge b c = true -> key_ge a c = true.
Proof. destruct a, b, c; simpl; auto; try discriminate; lia. Qed.

Lemma insert_perm x l : Permutation (insert_desc x l) (x :: l).
Proof.
  induction l as [|y t IH]; simpl; auto.
  destruct (key_ge (rupd x) (rupd y)); auto.
  eapply perm_trans; [apply perm_skip, IH | apply perm_swap].
Qed.

Lemma sort_perm l : Permutation (sort_desc l) l.
Proof.
  induction l as [|x t IH]; simpl; auto.
  eapply perm_trans; [apply insert_perm | apply perm_skip, IH].
Qed.

Lemma insert_sorted x l :
  StronglySorted row_ge l -> StronglySorted row_ge (insert_desc x l).
Proof.
  induction l as [|y t IH]; simpl; intros S.
  - constructor; constructor.
  - inversion S as [|? ? St Fy]; subst.
    destruct (key_ge (rupd x) (rupd y)) eqn:K.
    + constructor; auto. constructor; auto.
      eapply Forall_impl; [|exact Fy]. intros z Hz. unfold row_ge in *.
      eapply key_ge_trans; eauto.
    + constructor; auto.
      eapply Permutation_Forall; [apply Permutation_sym, insert_perm|].
      constructor; auto. unfold row_ge. apply key_ge_total; auto.
Qed.

Lemma sort_sorted l : StronglySorted row_ge (sort_desc l).
Proof. induction l; simpl; [constructor | apply insert_sorted; auto]. Qed.

Lemma insert_head x l : Forall (row_ge x) l -> insert_desc x l = x :: l.
Proof.
  destruct l as [|y t]; simpl; auto. intros F. inversion F as [|? ? H _]; subst.
  unfold row_ge in H. rewrite H. auto.
Qed.

Lemma insert_filter_false (p : row -> bool) x l :
  p x = false -> filter p (insert_desc x l) = filter p l.
Proof.
  intros Px. induction l as [|y t IH]; simpl.
  - rewrite Px; auto.
  - destruct (key_ge (rupd x) (rupd y)); simpl.
    + rewrite Px; auto.
    + rewrite IH; auto.
Qed.

Lemma insert_filter_true (p : row -> bool) x l :
  StronglySorted row_ge l -> p x = true ->
  filter p (insert_desc x l) = insert_desc x (filter p l).
Proof.
  intros S Px. induction l as [|y t IH]; simpl.
  - rewrite Px; auto.
  - inversion S as [|? ? St Fy]; subst. specialize (IH St).
    destruct (key_ge (rupd x) (rupd y)) eqn:K; simpl.
    + rewrite Px. destruct (p y) eqn:Py; simpl.
      * rewrite K. auto.
      * symmetry. apply insert_head.
        apply Forall_forall. intros z Hz. apply filter_In in Hz. destruct Hz as [Hz _].
        rewrite Forall_forall in Fy. specialize (Fy z Hz). unfold row_ge in *.
        eapply key_ge_trans; eauto.
    + destruct (p y) eqn:Py; simpl.
      * rewrite K. rewrite IH. auto.
      * auto.
Qed.

Lemma sort_filter (p : row -> bool) l :
  sort_desc (filter p l) = filter p (sort_desc l).
Proof.
  induction l as [|x t IH]; simpl; auto.
  destruct (p x) eqn:Px; simpl.
  - rewrite IH. symmetry. apply insert_filter_true; auto. apply sort_sorted.
  - rewrite IH. symmetry. apply insert_filter_false; auto.
Qed.

Lemma sorted_app_ge l1 l2 a b :
  StronglySorted row_ge (l1 ++ l2) -> In a l1 -> In b l2 -> row_ge a b.
Proof.
  induction l1 as [|y t IH]; simpl; intros S Ha Hb; [contradiction|].
  inversion S as [|? ? St Fy]; subst.
  destruct Ha as [->|Ha]; auto.
  rewrite Forall_forall in Fy. apply Fy. apply in_or_app; auto.
Qed.

(* ----------------------------------------------------------- 4. the batch loop *)

Lemma truthy_some o z : truthy o = Some z -> o = Some z /\ z <> 0.
Proof.
  unfold truthy. destruct o as [y|]; try discriminate.
  destruct (y =? 0) eqn:E; try discriminate. intros H; inversion H; subst. split; auto. lia.
Qed.

Lemma sql_limit_incl lim l x : In x (sql_limit lim l) -> In x l.
Proof.
  unfold sql_limit. destruct (truthy lim) as [z|]; auto.
  destruct (z <? 0); auto. apply In_firstn.
Qed.

Lemma sql_limit_nil lim l : sql_limit lim l = [] -> l = [].
Proof.
  unfold sql_limit. destruct (truthy lim) as [z|] eqn:T; auto.
  apply truthy_some in T. destruct T as [_ Hz].
  destruct (z <? 0) eqn:N; auto.
  destruct (Z.to_nat z) eqn:E; [lia|].
  destruct l; simpl; auto. discriminate.
Qed.

Lemma sql_limit_of_nil lim : sql_limit lim [] = [].
Proof.
  unfold sql_limit. destruct (truthy lim) as [z|]; auto.
  destruct (z <? 0); auto. apply firstn_nil.
Qed.

Lemma deplete_spec pop V lim fetch :
  wf_pop pop ->
  (forall D, incl D (map rid V) ->
     fetch (cascade_delete pop D) = sql_limit lim (filter (notin D) V)) ->
  forall fuel D, incl D (map rid V) ->
  (List.length (filter (notin D) V) < fuel)%nat ->
  deplete fuel fetch (cascade_delete pop D) = (cascade_delete pop (map rid V), true).
Proof.
  intros W HF. induction fuel as [|fuel IH]; intros D HD HL; [lia|].
  cbn [deplete]. rewrite (HF D HD).
  destruct (sql_limit lim (filter (notin D) V)) as [|x t] eqn:B.
  - apply sql_limit_nil in B. f_equal. apply cd_ext; auto.
    intros i. split; [apply HD|].
    intros HI. apply in_map_iff in HI. destruct HI as [v [E Hv]].
    pose proof (filter_nil _ _ B v Hv) as N. unfold notin in N.
    apply negb_false_iff in N. apply memn_In in N. congruence.
  - assert (HB : forall y, In y (x :: t) -> In y V /\ notin D y = true).
    { intros y Hy. rewrite <- B in Hy. apply sql_limit_incl in Hy.
      apply filter_In in Hy. auto. }
    rewrite delete_all_cd; auto. apply IH.
    + intros i Hi. apply in_app_or in Hi. destruct Hi as [Hi|Hi]; auto.
      apply in_map_iff in Hi. destruct Hi as [y [E Hy]]. subst.
      apply in_map. apply HB; auto.
    + destruct (HB x (or_introl eq_refl)) as [HxV HxD].
      assert (List.length (filter (notin (D ++ map rid (x :: t))) V) <
              List.length (filter (notin D) V))%nat; [|lia].
      apply filter_length_lt with (x := x); auto.
      * intros y. unfold notin. rewrite memn_app. rewrite negb_orb.
        intros H. apply andb_true_iff in H. tauto.
      * unfold notin. apply negb_false_iff. apply memn_In.
        apply in_or_app. right. simpl; auto.
Qed.

Lemma deplete_from_pop pop V lim fetch :
  wf_pop pop ->
  (forall D, incl D (map rid V) ->
     fetch (cascade_delete pop D) = sql_limit lim (filter (notin D) V)) ->
  (List.length V <= List.length pop)%nat ->
  deplete (S (List.length pop)) fetch pop = (cascade_delete pop (map rid V), true).
Proof.
  intros W HF HL.
  rewrite <- (cd_nil pop W) at 2.
  apply deplete_spec with (lim := lim); auto.
  - intros i [].
  - pose proof (filter_length_le_all (notin []) V). lia.
Qed.

(* -------------------------------------------------- 5. evaluate = spec_result *)

Lemma completed_root_inv c x :
  completed_root c x = true ->
  rkind x = KWf /\ rparent x = None /\ mem (rstate x) (desired c) = true.
Proof.
  unfold completed_root. destruct (rkind x); try discriminate.
  destruct (rparent x); try discriminate. auto.
Qed.

Lemma expired_root c exp x : expired c exp x = true -> rparent x = None.
Proof.
  unfold expired. intros H. apply andb_true_iff in H. destruct H as [H _].
  apply completed_root_inv in H. tauto.
Qed.

(* the rows selected by age *)
Definition victims_age (c : config) (exp : Z) (pop : list row) : list row :=
  filter (expired c exp) pop.

(* the rows selected by count, in the population left by the age phase *)
Definition victims_count (c : config) (pop1 : list row) : list row :=
  match truthy (max_finished c) with
  | None => []
  | Some m => skipn (Z.to_nat m) (sort_desc (filter (completed_root c) pop1))
  end.

Definition after_age (c : config) (exp : Z) (pop : list row) : list row :=
  cascade_delete pop (ids (victims_age c exp pop)).

Definition victims (c : config) (exp : Z) (pop : list row) : list row :=
  victims_age c exp pop ++ victims_count c (after_age c exp pop).

(* one-shot specification of an evaluation: no batches, no loop *)
Definition spec_result (c : config) (exp : Z) (pop : list row) : list row :=
  cascade_delete pop (ids (victims c exp pop)).

Lemma phase_age c exp lim pop :
  wf_pop pop ->
  deplete (S (List.length pop)) (expired_q c exp lim) pop = (after_age c exp pop, true).
Proof.
  intros W. unfold after_age, ids.
  apply deplete_from_pop with (lim := lim); auto.
  - intros D _. unfold expired_q, victims_age.
    rewrite filter_root_cd; auto. apply expired_root.
  - apply filter_length_le_all.
Qed.

Lemma sorted_roots_nodup c pop :
  wf_pop pop -> NoDup (map rid (sort_desc (filter (completed_root c) pop))).
Proof.
  intros [ND _].
  eapply Permutation_NoDup.
  - apply Permutation_map. apply Permutation_sym. apply sort_perm.
  - apply NoDup_map_filter; auto.
Qed.

Lemma phase_count c lim pop :
  wf_pop pop ->
  deplete (S (List.length pop)) (superfluous_q c (max_finished c) lim) pop =
  (cascade_delete pop (ids (victims_count c pop)), true).
Proof.
  intros W. unfold ids.
  apply deplete_from_pop with (lim := lim); auto.
  - intros D HD. unfold superfluous_q, victims_count in *.
    destruct (truthy (max_finished c)) as [m|] eqn:T.
    + f_equal.
      rewrite filter_root_cd; auto; [|intros x H; apply completed_root_inv in H; tauto].
      rewrite sort_filter.
      apply skipn_filter_tail.
      intros x Hx. unfold notin. apply negb_true_iff.
      destruct (memn (rid x) D) eqn:M; auto. exfalso.
      apply memn_In in M. apply HD in M.
      set (S := sort_desc (filter (completed_root c) pop)) in *.
      pose proof (sorted_roots_nodup c pop W) as ND. fold S in ND.
      rewrite <- (firstn_skipn (Z.to_nat m) S) in ND. rewrite map_app in ND.
      eapply NoDup_app_disjoint; [exact ND | apply in_map; exact Hx | exact M].
    + simpl. rewrite sql_limit_of_nil. auto.
  - unfold victims_count. destruct (truthy (max_finished c)); simpl; [|lia].
    etransitivity; [|apply (filter_length_le_all (completed_root c) pop)].
    set (R := filter (completed_root c) pop).
    rewrite <- (Permutation_length (sort_perm R)).
    rewrite skipn_length. lia.
Qed.

Lemma wf_after_age c exp pop : wf_pop pop -> wf_pop (after_age c exp pop).
Proof. apply wf_cd. Qed.

Lemma spec_result_two_phase c exp pop :
  wf_pop pop ->
  cascade_delete (after_age c exp pop) (ids (victims_count c (after_age c exp pop))) =
  spec_result c exp pop.
Proof.
  intros W. unfold after_age at 1. rewrite cd_cd; auto.
  unfold spec_result, victims, ids. rewrite map_app. auto.
Qed.

Theorem evaluate_exact now c pop ot :
  wf_pop pop -> older_than c = Some ot ->
  evaluate now c pop = Done (spec_result c (now - 60 * ot) pop).
Proof.
  intros W O. unfold evaluate. rewrite O. cbv zeta.
  rewrite phase_age; auto.
  rewrite phase_count; [|apply wf_after_age; auto].
  simpl. rewrite spec_result_two_phase; auto.
Qed.

Theorem evaluate_unset now c pop : older_than c = None -> evaluate now c pop = Crash pop.
Proof. intros O. unfold evaluate. rewrite O. auto. Qed.

(* -------------------------------------------------------- 6. the C18 theorems *)

(* x is r or one of its sub-executions / tasks / actions, transitively *)
Definition Desc (pop : list row) (r x : row) : Prop := Anc pop [rid r] x.

Definition aged (now : Z) (c : config) (r : row) : Prop :=
  exists ot u, older_than c = Some ot /\ rupd r = Some u /\ u < now - 60 * ot.

(* beyond the configured number of most recent finished root executions *)
Definition beyond (c : config) (pop : list row) (r : row) : Prop :=
  exists m, max_finished c = Some m /\ m <> 0 /\
            In r (skipn (Z.to_nat m) (sort_desc (filter (completed_root c) pop))).

Definition finished_state (s : state) : Prop := s = SUCCESS \/ s = ERROR \/ s = CANCELLED.

Lemma state_eqb_eq a b : state_eqb a b = true -> a = b.
Proof. destruct a, b; simpl; intros H; try discriminate; auto. Qed.

Lemma mem_In s l : mem s l = true -> In s l.
Proof.
  unfold mem. rewrite existsb_exists. intros [y [H1 H2]].
  apply state_eqb_eq in H2. subst; auto.
Qed.

Lemma terminal_states_finished :
  forallb (fun s => existsb (state_eqb s) [SUCCESS; ERROR; CANCELLED]) c_TERMINAL_STATES = true.
Proof. vm_compute. reflexivity. Qed.

Lemma desired_inv c s :
  mem s (desired c) = true -> finished_state s /\ mem s (ignored c) = false.
Proof.
  intros H. apply mem_In in H. unfold desired in H. apply filter_In in H.
  destruct H as [HT HI]. apply negb_true_iff in HI. split; auto.
  pose proof terminal_states_finished as F. rewrite forallb_forall in F.
  specialize (F s HT). apply existsb_exists in F. destruct F as [y [Hy E]].
  apply state_eqb_eq in E. subst y. unfold finished_state.
  simpl in Hy. intuition.
Qed.

Lemma victim_age_facts now c ot pop r :
  older_than c = Some ot -> In r (victims_age c (now - 60 * ot) pop) ->
  In r pop /\ completed_root c r = true /\ aged now c r.
Proof.
  intros O H. unfold victims_age in H. apply filter_In in H. destruct H as [HI E].
  unfold expired in E. apply andb_true_iff in E. destruct E as [CR OL].
  split; auto. split; auto.
  unfold older in OL. destruct (rupd r) as [u|] eqn:U; try discriminate.
  exists ot, u. split; auto. split; auto. lia.
Qed.

Lemma filter_cr_after_age c exp pop :
  wf_pop pop ->
  filter (completed_root c) (after_age c exp pop) =
  filter (notin (ids (victims_age c exp pop))) (filter (completed_root c) pop).
Proof.
  intros W. unfold after_age. apply filter_root_cd; auto.
  intros x H. apply completed_root_inv in H. tauto.
Qed.

Lemma victim_count_facts c exp pop r :
  wf_pop pop -> In r (victims_count c (after_age c exp pop)) ->
  In r pop /\ completed_root c r = true /\ beyond c pop r /\
  ~ In r (victims_age c exp pop).
Proof.
  intros W H. unfold victims_count in H.
  destruct (truthy (max_finished c)) as [m|] eqn:T; [|contradiction].
  apply truthy_some in T. destruct T as [T Hm].
  assert (H0 := H). apply In_skipn in H0.
  apply (Permutation_in _ (sort_perm _)) in H0.
  apply filter_In in H0. destruct H0 as [HA CR].
  unfold after_age in HA. apply cd_In in HA; auto. destruct HA as [HI NA].
  split; auto. split; auto. split.
  - exists m. split; auto. split; auto.
    rewrite filter_cr_after_age in H; auto. rewrite sort_filter in H.
    apply skipn_filter_In in H. auto.
  - intros HV. apply NA. apply Anc_here. unfold ids. apply in_map. auto.
Qed.

Lemma victims_facts now c ot pop r :
  wf_pop pop -> older_than c = Some ot -> In r (victims c (now - 60 * ot) pop) ->
  In r pop /\ completed_root c r = true /\ (aged now c r \/ beyond c pop r).
Proof.
  intros W O H. unfold victims in H. apply in_app_or in H. destruct H as [H|H].
  - pose proof (victim_age_facts now c ot pop r O H). tauto.
  - pose proof (victim_count_facts c _ pop r W H). tauto.
Qed.

(* membership of a root in the victim list is decided by its id *)
Lemma victims_by_id now c ot pop x :
  wf_pop pop -> older_than c = Some ot -> In x pop ->
  In (rid x) (ids (victims c (now - 60 * ot) pop)) -> In x (victims c (now - 60 * ot) pop).
Proof.
  intros W O HI H. unfold ids in H. apply in_map_iff in H. destruct H as [r [E Hr]].
  pose proof (victims_facts now c ot pop r W O Hr) as [Hrp _].
  assert (r = x) by (eapply rid_inj; eauto; apply W). subst; auto.
Qed.

Section Evaluated.
  Variables (now : Z) (c : config) (pop res : list row).
  Hypothesis W : wf_pop pop.
  Hypothesis EV : evaluate now c pop = Done res.

  Lemma ev_ot : exists ot, older_than c = Some ot /\ res = spec_result c (now - 60 * ot) pop.
  Proof.
    destruct (older_than c) as [ot|] eqn:O.
    - exists ot. split; auto. rewrite (evaluate_exact now c pop ot W O) in EV. congruence.
    - rewrite (evaluate_unset now c pop O) in EV. discriminate.
  Qed.

  (* remaining rows are rows of the population, unchanged *)
  Lemma ev_sub x : In x res -> In x pop.
  Proof.
    destruct ev_ot as [ot [O ->]]. unfold spec_result. intros H. apply cd_In in H; tauto.
  Qed.

  (* every deleted row is (a descendant of) a finished, not ignored root workflow
     execution that is older than the age or beyond the count *)
  Lemma ev_only_eligible x :
    In x pop -> ~ In x res ->
    exists r, In r pop /\ Desc pop r x /\
              rkind r = KWf /\ rparent r = None /\
              finished_state (rstate r) /\ mem (rstate r) (ignored c) = false /\
              (aged now c r \/ beyond c pop r).
  Proof.
    destruct ev_ot as [ot [O ->]]. intros HI N.
    apply cd_not_In in N; auto. apply Anc_witness in N. destruct N as [d [Hd A]].
    unfold ids in Hd. apply in_map_iff in Hd. destruct Hd as [r [E Hr]]. subst d.
    pose proof (victims_facts now c ot pop r W O Hr) as [Hrp [CR AB]].
    apply completed_root_inv in CR. destruct CR as [K [P M]].
    apply desired_inv in M. destruct M as [F I].
    exists r. unfold Desc. tauto.
  Qed.

  (* a deleted row without a parent is itself such a root: never a running or
     paused execution, never a parentless task or action row *)
  Lemma ev_never_active x :
    In x pop -> ~ In x res -> rparent x = None ->
    rkind x = KWf /\ finished_state (rstate x) /\ mem (rstate x) (ignored c) = false /\
    (aged now c x \/ beyond c pop x) /\
    rstate x <> RUNNING /\ rstate x <> PAUSED /\ rstate x <> IDLE /\
    rstate x <> WAITING /\ rstate x <> RUNNING_DELAYED.
  Proof.
    intros HI N P.
    destruct (ev_only_eligible x HI N) as [r [Hr [D [K [Pr [F [I AB]]]]]]].
    unfold Desc in D. apply Anc_root in D; auto. simpl in D. destruct D as [D|[]].
    assert (r = x) by (eapply rid_inj; eauto; apply W). subst r.
    repeat split; auto; unfold finished_state in F; intros E; rewrite E in F;
      destruct F as [F|[F|F]]; discriminate.
  Qed.

  (* a sub-execution (or task, or action) is never deleted on its own: its parent row goes too *)
  Lemma ev_no_orphan_delete x p :
    In x pop -> ~ In x res -> rparent x = Some p ->
    exists px, find_row p pop = Some px /\ In px pop /\ ~ In px res.
  Proof.
    destruct ev_ot as [ot [O ->]]. intros HI N P.
    apply cd_not_In in N; auto.
    apply Anc_child in N.
    - destruct N as [p' [px [P' [F A]]]]. rewrite P in P'. inversion P'; subst p'.
      exists px. split; auto. pose proof (find_row_some _ _ _ F) as [Hpx _]. split; auto.
      unfold spec_result. intros HIn. apply cd_In in HIn; auto. tauto.
    - intros Hid. apply (victims_by_id now c ot pop x W O HI) in Hid.
      pose proof (victims_facts now c ot pop x W O Hid) as [_ [CR _]].
      apply completed_root_inv in CR. destruct CR as [_ [P0 _]]. congruence.
  Qed.

  (* the cascade is complete: with a row, all its descendants are deleted *)
  Lemma ev_cascade_complete r x :
    In r pop -> In x pop -> ~ In r res -> Desc pop r x -> ~ In x res.
  Proof.
    destruct ev_ot as [ot [O ->]]. intros Hr Hx N D.
    apply cd_not_In in N; auto. unfold spec_result. intros HIn.
    apply cd_In in HIn; auto. destruct HIn as [_ NA]. apply NA.
    apply (Anc_trans pop _ r x (proj1 W) Hr Hx D N).
  Qed.

  (* exact set of remaining rows *)
  Lemma ev_cascade_exact :
    exists ot, older_than c = Some ot /\
    forall x, In x res <->
      In x pop /\ ~ exists r, In r (victims c (now - 60 * ot) pop) /\ Desc pop r x.
  Proof.
    destruct ev_ot as [ot [O ->]]. exists ot. split; auto. intros x.
    unfold spec_result. rewrite cd_In; auto. split; intros [HI N]; split; auto.
    - intros [r [Hr D]]. apply N. eapply Anc_mono; [|exact D].
      intros i [<-|[]]. unfold ids. apply in_map; auto.
    - intros A. apply N. apply Anc_witness in A. destruct A as [d [Hd A]].
      unfold ids in Hd. apply in_map_iff in Hd. destruct Hd as [r [E Hr]]. subst d.
      exists r. split; auto.
  Qed.

  (* parent and child rows stay or go together: remaining trees are complete *)
  Lemma ev_trees_complete x y :
    In x pop -> In y pop -> rparent y = Some (rid x) -> (In x res <-> In y res).
  Proof.
    destruct ev_ot as [ot [O ->]]. intros Hx Hy P.
    unfold spec_result. rewrite !cd_In; auto.
    set (D := ids (victims c (now - 60 * ot) pop)).
    assert (F : find_row (rid x) pop = Some x) by (apply find_row_unique; auto; apply W).
    assert (E : Anc pop D y <-> Anc pop D x).
    { split.
      - intros A. apply Anc_child in A.
        + destruct A as [p [px [P' [F' A]]]]. rewrite P in P'. inversion P'; subst p.
          rewrite F in F'. inversion F'; subst px. auto.
        + intros Hid. apply (victims_by_id now c ot pop y W O Hy) in Hid.
          pose proof (victims_facts now c ot pop y W O Hid) as [_ [CR _]].
          apply completed_root_inv in CR. destruct CR as [_ [P0 _]]. congruence.
      - intros A. eapply Anc_up; eauto. }
    tauto.
  Qed.

  (* never a newer finished root deleted while an older eligible one is kept *)
  Lemma ev_keep_newest x y ux uy :
    In x pop -> In y pop ->
    completed_root c x = true -> completed_root c y = true ->
    rupd x = Some ux -> rupd y = Some uy ->
    ~ In x res -> In y res -> ux <= uy.
  Proof.
    destruct ev_ot as [ot [O ->]]. intros Hx Hy CX CY UX UY NX KY.
    set (exp := now - 60 * ot) in *.
    pose proof (completed_root_inv c x CX) as [_ [PX _]].
    pose proof (completed_root_inv c y CY) as [_ [PY _]].
    apply cd_not_In in NX; auto. apply Anc_root in NX; auto.
    apply (victims_by_id now c ot pop x W O Hx) in NX. fold exp in NX.
    unfold spec_result in KY. apply cd_In in KY; auto. destruct KY as [_ KY].
    assert (NY : ~ In y (victims c exp pop)).
    { intros H. apply KY. apply Anc_here. unfold ids. apply in_map; auto. }
    unfold victims in NX, NY. apply in_app_or in NX.
    assert (NY1 : ~ In y (victims_age c exp pop)) by (intros H; apply NY, in_or_app; auto).
    assert (NY2 : ~ In y (victims_count c (after_age c exp pop))) by (intros H; apply NY, in_or_app; auto).
    destruct NX as [NX|NX].
    - (* x went by age; y is not older than the limit *)
      unfold victims_age in NX, NY1. apply filter_In in NX. destruct NX as [_ EX].
      unfold expired, older in EX. rewrite CX, UX in EX. simpl in EX.
      assert (EY : expired c exp y = false).
      { destruct (expired c exp y) eqn:E; auto. exfalso. apply NY1. apply filter_In. auto. }
      unfold expired, older in EY. rewrite CY, UY in EY. simpl in EY. lia.
    - (* x went by count; y is among the kept most recent ones *)
      unfold victims_count in NX, NY2.
      destruct (truthy (max_finished c)) as [m|] eqn:T; [|contradiction].
      set (S := sort_desc (filter (completed_root c) (after_age c exp pop))) in *.
      assert (HyS : In y S).
      { unfold S. apply (Permutation_in _ (Permutation_sym (sort_perm _))).
        apply filter_In. split; auto. unfold after_age. apply cd_In; auto. split; auto.
        intros A. apply Anc_root in A; auto. apply NY1.
        unfold ids in A. apply in_map_iff in A. destruct A as [r [E Hr]].
        assert (Hrp : In r pop) by (unfold victims_age in Hr; apply filter_In in Hr; tauto).
        assert (r = y) by (eapply rid_inj; eauto; apply W). subst; auto. }
      rewrite <- (firstn_skipn (Z.to_nat m) S) in HyS. apply in_app_or in HyS.
      destruct HyS as [HyS|HyS]; [|contradiction].
      pose proof (sort_sorted (filter (completed_root c) (after_age c exp pop))) as SS.
      fold S in SS. rewrite <- (firstn_skipn (Z.to_nat m) S) in SS.
      pose proof (sorted_app_ge _ _ y x SS HyS NX) as G.
      unfold row_ge in G. rewrite UX, UY in G. simpl in G. lia.
  Qed.

  (* what is configured is enforced: nothing eligible older than the age remains,
     and at most max_finished finished roots remain *)
  Lemma ev_age_enforced x ot :
    older_than c = Some ot -> In x res -> expired c (now - 60 * ot) x = false.
  Proof.
    destruct ev_ot as [ot' [O ->]]. intros O' HI. rewrite O in O'. inversion O'; subst ot'.
    destruct (expired c (now - 60 * ot) x) eqn:E; auto. exfalso.
    unfold spec_result in HI. apply cd_In in HI; auto. destruct HI as [HI N].
    apply N. apply Anc_here. unfold ids. apply in_map. unfold victims.
    apply in_or_app. left. unfold victims_age. apply filter_In. auto.
  Qed.

  Lemma ev_count_enforced m :
    max_finished c = Some m -> m <> 0 ->
    (List.length (filter (completed_root c) res) <= Z.to_nat m)%nat.
  Proof.
    destruct ev_ot as [ot [O ->]]. intros M Hm.
    set (exp := now - 60 * ot).
    rewrite <- spec_result_two_phase; auto. fold exp.
    set (p1 := after_age c exp pop).
    assert (W1 : wf_pop p1) by (apply wf_after_age; auto).
    rewrite filter_root_cd; auto; [|intros z H; apply completed_root_inv in H; tauto].
    set (R := filter (completed_root c) p1).
    rewrite <- (Permutation_length (sort_perm _)). rewrite sort_filter.
    unfold victims_count. fold R.
    assert (T : truthy (max_finished c) = Some m).
    { rewrite M. unfold truthy. destruct (m =? 0) eqn:E; auto. lia. }
    rewrite T. set (S := sort_desc R).
    rewrite <- (firstn_skipn (Z.to_nat m) S) at 2.
    rewrite filter_app, app_length.
    assert (Z0 : filter (notin (ids (skipn (Z.to_nat m) S))) (skipn (Z.to_nat m) S) = []).
    { destruct (filter (notin (ids (skipn (Z.to_nat m) S))) (skipn (Z.to_nat m) S)) as [|z t] eqn:E; auto.
      exfalso. assert (Hz : In z (z :: t)) by (simpl; auto). rewrite <- E in Hz.
      apply filter_In in Hz. destruct Hz as [Hz1 Hz2]. unfold notin in Hz2.
      apply negb_true_iff in Hz2.
      assert (memn (rid z) (ids (skipn (Z.to_nat m) S)) = true); [|congruence].
      apply memn_In. unfold ids. apply in_map; auto. }
    rewrite Z0. simpl.
    pose proof (filter_length_le_all (notin (ids (skipn (Z.to_nat m) S))) (firstn (Z.to_nat m) S)).
    pose proof (firstn_le_length (Z.to_nat m) S). lia.
  Qed.
End Evaluated.

(* termination: the fuel given to both loops is never exhausted *)
Theorem evaluate_terminates now c pop :
  wf_pop pop -> (exists res, evaluate now c pop = Done res) \/ evaluate now c pop = Crash pop.
Proof.
  intros W. destruct (older_than c) as [ot|] eqn:O.
  - left. eexists. apply evaluate_exact; eauto.
  - right. apply evaluate_unset; auto.
Qed.

(* the batch size does not influence the result *)
Theorem evaluate_batch_independent now c pop b :
  wf_pop pop ->
  evaluate now (mkCfg (older_than c) (max_finished c) b (ignored c)) pop = evaluate now c pop.
Proof.
  intros W. destruct c as [o m b0 ig]. simpl. destruct o as [ot|].
  - rewrite (evaluate_exact now (mkCfg (Some ot) m b0 ig) pop ot W eq_refl).
    rewrite (evaluate_exact now (mkCfg (Some ot) m b ig) pop ot W eq_refl). reflexivity.
  - rewrite !evaluate_unset; auto.
Qed.

(* a disabled policy never evaluates *)
Theorem tick_disabled interval now c pop :
  enabled interval c = false -> tick interval now c pop = Done pop.
Proof. intros E. unfold tick. rewrite E. auto. Qed.
