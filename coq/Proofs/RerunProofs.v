(* Proofs about Model/Rerun.v (property C12, rerun / skip over the execution tree). *)
From Coq Require Import List Bool Arith Lia.
Require Import Mistral.Gen.States Mistral.Model.Rerun.
Import ListNotations.

(* ------------------------------------------------------------------ *)
(* lists                                                                *)

Lemma upd_length {A} n (f : A -> A) l : length (upd n f l) = length l.
Proof. revert n; induction l as [|x r IH]; intros [|n]; simpl; auto. Qed.

Lemma nth_error_upd {A} n (f : A -> A) l m :
  nth_error (upd n f l) m = if n =? m then option_map f (nth_error l m) else nth_error l m.
Proof.
  revert n m; induction l as [|x r IH]; intros n m.
  - destruct n, m; simpl; try reflexivity; destruct (n =? m); reflexivity.
  - destruct n, m; simpl; try reflexivity. apply IH.
Qed.

Lemma nth_error_ext {A} (l l' : list A) : (forall n, nth_error l n = nth_error l' n) -> l = l'.
Proof.
  revert l'; induction l as [|x r IH]; intros [|y r'] H.
  - reflexivity.
  - specialize (H 0); discriminate.
  - specialize (H 0); discriminate.
  - pose proof (H 0) as H0; simpl in H0; inversion H0; subst. f_equal. apply IH. intro n. apply (H (S n)).
Qed.

Lemma nth_error_map_ {A B} (f : A -> B) l n : nth_error (map f l) n = option_map f (nth_error l n).
Proof. revert n; induction l; intros [|n]; simpl; auto. Qed.

Fixpoint memn (x : nat) (l : list nat) : bool :=
  match l with [] => false | y :: r => (y =? x) || memn x r end.

Lemma memn_In x l : memn x l = true <-> In x l.
Proof.
  induction l as [|y r IH]; simpl; [split; [discriminate|tauto]|].
  rewrite orb_true_iff, Nat.eqb_eq, IH. tauto.
Qed.

Lemma memn_false x l : memn x l = false <-> ~ In x l.
Proof. rewrite <- memn_In. destruct (memn x l); split; congruence. Qed.

(* ------------------------------------------------------------------ *)
(* states                                                               *)

Lemma state_eqb_eq a b : state_eqb a b = true -> a = b.
Proof. destruct a, b; simpl; congruence. Qed.

Lemma state_eqb_refl a : a <> Invalid -> state_eqb a a = true.
Proof. destruct a; simpl; congruence. Qed.

(* which workflow states can be put back to RUNNING *)
Lemma can_run_spec s : can_run s = negb (mem s [SUCCESS; SKIPPED]) && is_valid s.
Proof. destruct s; reflexivity. Qed.

Lemma can_run_running : can_run RUNNING = true.
Proof. reflexivity. Qed.

(* ------------------------------------------------------------------ *)
(* row operations are idempotent                                        *)

Lemma wrow_running_idem r : wrow_running (wrow_running r) = wrow_running r.
Proof. reflexivity. Qed.

Lemma trow_running_state r : t_state (trow_running r) = RUNNING.
Proof.
  unfold trow_running. destruct (negb (state_eqb (t_state r) RUNNING) || t_info r) eqn:E; simpl; [reflexivity|].
  apply orb_false_iff in E. destruct E as [E _]. apply negb_false_iff in E. now apply state_eqb_eq.
Qed.

Lemma trow_running_info r : t_info (trow_running r) = false.
Proof.
  unfold trow_running. destruct (negb (state_eqb (t_state r) RUNNING) || t_info r) eqn:E; simpl; [reflexivity|].
  apply orb_false_iff in E. tauto.
Qed.

Lemma trow_running_idem r : trow_running (trow_running r) = trow_running r.
Proof.
  unfold trow_running at 1. rewrite trow_running_state, trow_running_info. reflexivity.
Qed.

Lemma trow_running_wf r : t_wf (trow_running r) = t_wf r.
Proof. unfold trow_running. destruct (_ || _); reflexivity. Qed.

Lemma trow_running_execs r : t_execs (trow_running r) = t_execs r.
Proof. unfold trow_running. destruct (_ || _); reflexivity. Qed.

(* ------------------------------------------------------------------ *)
(* accessors                                                            *)

Definition wrow_of (d : db) (w : nat) := nth_error (wfs d) w.
Definition trow_of (d : db) (t : nat) := nth_error (tasks d) t.
Definition wstate (d : db) (w : nat) := option_map w_state (wrow_of d w).
Definition wacc (d : db) (w : nat) := option_map w_accepted (wrow_of d w).
Definition wptask (d : db) (w : nat) := option_map w_ptask (wrow_of d w).
Definition tstate (d : db) (t : nat) := option_map t_state (trow_of d t).
Definition twf (d : db) (t : nat) := option_map t_wf (trow_of d t).

(* the tree structure (who is whose parent) *)
Definition same_ptrs (d d' : db) : Prop :=
  (forall w, wptask d' w = wptask d w) /\ (forall t, twf d' t = twf d t).

Lemma same_ptrs_refl d : same_ptrs d d.
Proof. split; reflexivity. Qed.

Lemma same_ptrs_trans a b c : same_ptrs a b -> same_ptrs b c -> same_ptrs a c.
Proof. intros [H1 H2] [H3 H4]; split; intro x; [rewrite H3, H1|rewrite H4, H2]; reflexivity. Qed.

Lemma wf_set_running_rows d w d1 :
  wf_set_running d w = Some d1 ->
  tasks d1 = tasks d /\
  (forall w', wrow_of d1 w' = if w =? w' then option_map wrow_running (wrow_of d w') else wrow_of d w') /\
  exists r, wrow_of d w = Some r /\ can_run (w_state r) = true.
Proof.
  unfold wf_set_running, wrow_of. destruct (nth_error (wfs d) w) as [r|] eqn:E; [|discriminate].
  destruct (can_run (w_state r)) eqn:C; [|discriminate]. intro H; inversion H; subst; simpl.
  split; [reflexivity|]. split; [intro w'; apply nth_error_upd|]. eauto.
Qed.

Lemma wf_set_running_none d w :
  wf_set_running d w = None <->
  match wrow_of d w with Some r => can_run (w_state r) = false | None => True end.
Proof.
  unfold wf_set_running, wrow_of. destruct (nth_error (wfs d) w) as [r|]; [|tauto].
  destruct (can_run (w_state r)); split; congruence.
Qed.

Lemma wf_set_running_ptrs d w d1 : wf_set_running d w = Some d1 -> same_ptrs d d1.
Proof.
  intro H. destruct (wf_set_running_rows _ _ _ H) as (Ht & Hw & _). split.
  - intro w'. unfold wptask. rewrite Hw. destruct (w =? w'); [|reflexivity].
    destruct (wrow_of d w'); reflexivity.
  - intro t. unfold twf, trow_of. now rewrite Ht.
Qed.

Lemma task_set_running_rows d t :
  wfs (task_set_running d t) = wfs d /\
  forall t', trow_of (task_set_running d t) t' = if t =? t' then option_map trow_running (trow_of d t') else trow_of d t'.
Proof. split; [reflexivity|]. intro t'. unfold trow_of; simpl. apply nth_error_upd. Qed.

Lemma task_set_running_ptrs d t : same_ptrs d (task_set_running d t).
Proof.
  destruct (task_set_running_rows d t) as (Hw & Ht). split.
  - intro w. unfold wptask, wrow_of. now rewrite Hw.
  - intro t'. unfold twf. rewrite Ht. destruct (t =? t'); [|reflexivity].
    destruct (trow_of d t') as [r|]; simpl; [|reflexivity]. now rewrite trow_running_wf.
Qed.

(* chain only reads the tree structure *)
Lemma chain_ptrs fuel : forall d d' w, same_ptrs d d' -> chain fuel d' w = chain fuel d w.
Proof.
  induction fuel as [|f IH]; intros d d' w HP; [reflexivity|].
  destruct HP as [HPw HPt]. simpl.
  pose proof (HPw w) as Hw. unfold wptask, wrow_of in Hw.
  destruct (nth_error (wfs d') w) as [r'|], (nth_error (wfs d) w) as [r|]; simpl in Hw; try discriminate; [|reflexivity].
  injection Hw as Hpt. rewrite Hpt. destruct (w_ptask r) as [pt|]; [|reflexivity].
  pose proof (HPt pt) as Ht. unfold twf, trow_of in Ht.
  destruct (nth_error (tasks d') pt) as [p'|], (nth_error (tasks d) pt) as [p|]; simpl in Ht; try discriminate; [|reflexivity].
  injection Ht as Hwf. rewrite Hwf. rewrite (IH d d' (t_wf p)); [reflexivity|]. split; assumption.
Qed.

(* ------------------------------------------------------------------ *)
(* closed form of Workflow._recursive_rerun                             *)

Definition rerun_spec (d d' : db) (l : list (nat * option nat)) : Prop :=
  (forall w, wrow_of d' w = if memn w (chain_wfs l) then option_map wrow_running (wrow_of d w) else wrow_of d w) /\
  (forall t, trow_of d' t = if memn t (chain_tasks l) then option_map trow_running (trow_of d t) else trow_of d t).

Lemma option_map_idem {A} (f : A -> A) (H : forall x, f (f x) = f x) o : option_map f (option_map f o) = option_map f o.
Proof. destruct o; simpl; [now rewrite H|reflexivity]. Qed.

Lemma recursive_rerun_closed_form fuel : forall d w d',
  recursive_rerun fuel d w = Some d' ->
  exists l, chain fuel d w = Some l /\ rerun_spec d d' l /\ same_ptrs d d'.
Proof.
  induction fuel as [|f IH]; intros d w d' H; [discriminate|].
  simpl in H. destruct (wf_set_running d w) as [d1|] eqn:E1; [|discriminate].
  destruct (wf_set_running_rows _ _ _ E1) as (Ht1 & Hw1 & (r & Er & _)).
  pose proof (wf_set_running_ptrs _ _ _ E1) as HP1.
  unfold wrow_of in Er. simpl. rewrite Er in *.
  destruct (w_ptask r) as [pt|] eqn:Ept.
  - destruct (nth_error (tasks d) pt) as [ptr|] eqn:Eptr; [|discriminate].
    destruct (recursive_rerun f d1 (t_wf ptr)) as [d2|] eqn:E2; [|discriminate].
    inversion H; subst d'; clear H.
    destruct (IH _ _ _ E2) as (l0 & Hc & (Sw & St) & HP2).
    rewrite (chain_ptrs f d d1 _ HP1) in Hc. rewrite Hc.
    exists ((w, Some pt) :: l0). split; [reflexivity|].
    destruct (task_set_running_rows d2 pt) as (Hw3 & Ht3).
    split; [split|].
    + intro w'. unfold wrow_of at 1. rewrite Hw3. fold (wrow_of d2 w'). rewrite Sw, Hw1. simpl.
      destruct (w =? w') eqn:Eq; simpl.
      * destruct (memn w' (chain_wfs l0)); [apply option_map_idem, wrow_running_idem|reflexivity].
      * reflexivity.
    + intro t. assert (Htd : trow_of d1 t = trow_of d t) by (unfold trow_of; now rewrite Ht1).
      rewrite Ht3, St, Htd. simpl.
      destruct (pt =? t) eqn:Eq; simpl.
      * destruct (memn t (chain_tasks l0)); [apply option_map_idem, trow_running_idem|reflexivity].
      * reflexivity.
    + eapply same_ptrs_trans; [exact HP1|]. eapply same_ptrs_trans; [exact HP2|]. apply task_set_running_ptrs.
  - inversion H; subst d'; clear H. exists [(w, None)]. split; [reflexivity|]. split; [split|exact HP1].
    + intro w'. rewrite Hw1. simpl. rewrite orb_false_r. reflexivity.
    + intro t. simpl. unfold trow_of. now rewrite Ht1.
Qed.

(* acceptance: exactly when every workflow of the chain can go (back) to RUNNING *)
Definition wcan (d : db) (w : nat) : bool :=
  match wrow_of d w with Some r => can_run (w_state r) | None => false end.

Lemma recursive_rerun_accepted fuel : forall d w l,
  chain fuel d w = Some l ->
  (forall w', In w' (chain_wfs l) -> wcan d w' = true) ->
  exists d', recursive_rerun fuel d w = Some d'.
Proof.
  induction fuel as [|f IH]; intros d w l Hc Hall; [discriminate|].
  simpl in Hc. simpl.
  destruct (nth_error (wfs d) w) as [r|] eqn:Er; [|discriminate].
  assert (Hw : wcan d w = true).
  { apply Hall. destruct (w_ptask r) as [pt|]; [|inversion Hc; simpl; auto].
    destruct (nth_error (tasks d) pt); [|discriminate]. destruct (chain f d (t_wf t)); [|discriminate].
    inversion Hc; simpl; auto. }
  unfold wcan, wrow_of in Hw. rewrite Er in Hw.
  unfold wf_set_running at 1. rewrite Er, Hw.
  set (d1 := {| wfs := upd w wrow_running (wfs d); tasks := tasks d |}).
  assert (E1 : wf_set_running d w = Some d1) by (unfold wf_set_running; now rewrite Er, Hw).
  destruct (wf_set_running_rows _ _ _ E1) as (Ht1 & Hw1 & _).
  pose proof (wf_set_running_ptrs _ _ _ E1) as HP1.
  destruct (w_ptask r) as [pt|]; [|eauto].
  destruct (nth_error (tasks d) pt) as [ptr|]; [|discriminate].
  destruct (chain f d (t_wf ptr)) as [l0|] eqn:Hc0; [|discriminate]. inversion Hc; subst l; clear Hc.
  destruct (IH d1 (t_wf ptr) l0) as (d2 & E2).
  - now rewrite (chain_ptrs f d d1 _ HP1).
  - intros w' Hin. unfold wcan. rewrite Hw1. destruct (w =? w') eqn:Eq.
    + apply Nat.eqb_eq in Eq; subst w'. unfold wrow_of. rewrite Er. reflexivity.
    + apply (Hall w'). simpl. auto.
  - rewrite E2. eauto.
Qed.

Lemma recursive_rerun_refused fuel : forall d w l w',
  chain fuel d w = Some l -> In w' (chain_wfs l) -> wcan d w' = false ->
  recursive_rerun fuel d w = None.
Proof.
  intros d w l w' Hc Hin Hno.
  destruct (recursive_rerun fuel d w) as [d'|] eqn:E; [|reflexivity]. exfalso.
  revert d w l d' Hc Hin Hno E. induction fuel as [|f IH]; intros d w l d' Hc Hin Hno E; [discriminate|].
  simpl in Hc, E.
  destruct (wf_set_running d w) as [d1|] eqn:E1; [|discriminate].
  destruct (wf_set_running_rows _ _ _ E1) as (Ht1 & Hw1 & (r & Er & Hcan)).
  pose proof (wf_set_running_ptrs _ _ _ E1) as HP1.
  unfold wrow_of in Er. rewrite Er in *.
  assert (Hne : w' = w -> False).
  { intro; subst w'. unfold wcan, wrow_of in Hno. rewrite Er in Hno. congruence. }
  destruct (w_ptask r) as [pt|].
  - destruct (nth_error (tasks d) pt) as [ptr|]; [|discriminate].
    destruct (chain f d (t_wf ptr)) as [l0|] eqn:Hc0; [|discriminate]. inversion Hc; subst l; clear Hc.
    destruct (recursive_rerun f d1 (t_wf ptr)) as [d2|] eqn:E2; [|discriminate].
    simpl in Hin. destruct Hin as [Hin|Hin]; [auto|].
    eapply (IH d1 (t_wf ptr) l0 d2); eauto.
    + now rewrite (chain_ptrs f d d1 _ HP1).
    + unfold wcan. rewrite Hw1. destruct (w =? w') eqn:Eq; [apply Nat.eqb_eq in Eq; exfalso; auto|exact Hno].
  - inversion Hc; subst l. simpl in Hin. destruct Hin as [Hin|[]]. auto.
Qed.

Lemma propagation_acceptance fuel d w l :
  chain fuel d w = Some l ->
  ((forall w', In w' (chain_wfs l) -> wcan d w' = true) -> exists d', recursive_rerun fuel d w = Some d') /\
  (forall w', In w' (chain_wfs l) -> wcan d w' = false -> recursive_rerun fuel d w = None) /\
  (forall s, can_run s = negb (mem s [SUCCESS; SKIPPED]) && is_valid s).
Proof.
  intro Hc. split; [apply (recursive_rerun_accepted fuel d w l Hc)|].
  split; [intros w' Hin Hno; exact (recursive_rerun_refused fuel d w l w' Hc Hin Hno)|exact can_run_spec].
Qed.

(* ------------------------------------------------------------------ *)
(* corollaries: everything on the chain RUNNING, nothing else touched    *)

Lemma rerun_chain_wfs_running fuel d w d' l :
  recursive_rerun fuel d w = Some d' -> chain fuel d w = Some l ->
  forall w', In w' (chain_wfs l) -> wstate d' w' = Some RUNNING /\ wacc d' w' = Some false.
Proof.
  intros H Hc w' Hin. destruct (recursive_rerun_closed_form _ _ _ _ H) as (l' & Hc' & (Sw & _) & _).
  rewrite Hc in Hc'; inversion Hc'; subst l'.
  assert (Hcan : wcan d w' = true).
  { destruct (wcan d w') eqn:E; [reflexivity|]. rewrite (recursive_rerun_refused _ _ _ _ _ Hc Hin E) in H. discriminate. }
  unfold wstate, wacc. rewrite Sw. apply memn_In in Hin. rewrite Hin.
  unfold wcan in Hcan. destruct (wrow_of d w'); [simpl; auto|discriminate].
Qed.

Lemma chain_tasks_exist fuel : forall d w l t, chain fuel d w = Some l -> In t (chain_tasks l) -> exists r, trow_of d t = Some r.
Proof.
  induction fuel as [|f IH]; intros d w l t Hc Hin; [discriminate|].
  simpl in Hc. destruct (nth_error (wfs d) w) as [r|]; [|discriminate].
  destruct (w_ptask r) as [pt|]; [|inversion Hc; subst; simpl in Hin; tauto].
  destruct (nth_error (tasks d) pt) as [ptr|] eqn:Ep; [|discriminate].
  destruct (chain f d (t_wf ptr)) as [l0|] eqn:Hc0; [|discriminate]. inversion Hc; subst l; clear Hc.
  simpl in Hin. destruct Hin as [Hin|Hin]; [subst; unfold trow_of; eauto|eauto].
Qed.

Lemma rerun_chain_tasks_running fuel d w d' l :
  recursive_rerun fuel d w = Some d' -> chain fuel d w = Some l ->
  forall t, In t (chain_tasks l) -> tstate d' t = Some RUNNING.
Proof.
  intros H Hc t Hin. destruct (recursive_rerun_closed_form _ _ _ _ H) as (l' & Hc' & (_ & St) & _).
  rewrite Hc in Hc'; inversion Hc'; subst l'.
  destruct (chain_tasks_exist _ _ _ _ _ Hc Hin) as (r & Er).
  unfold tstate. rewrite St. apply memn_In in Hin. rewrite Hin, Er. simpl. now rewrite trow_running_state.
Qed.

Lemma rerun_frame fuel d w d' l :
  recursive_rerun fuel d w = Some d' -> chain fuel d w = Some l ->
  (forall w', ~ In w' (chain_wfs l) -> wrow_of d' w' = wrow_of d w') /\
  (forall t, ~ In t (chain_tasks l) -> trow_of d' t = trow_of d t) /\
  (forall t, option_map t_execs (trow_of d' t) = option_map t_execs (trow_of d t)) /\
  same_ptrs d d'.
Proof.
  intros H Hc. destruct (recursive_rerun_closed_form _ _ _ _ H) as (l' & Hc' & (Sw & St) & HP).
  rewrite Hc in Hc'; inversion Hc'; subst l'.
  repeat split; try apply HP.
  - intros w' Hn. rewrite Sw. apply memn_false in Hn. now rewrite Hn.
  - intros t Hn. rewrite St. apply memn_false in Hn. now rewrite Hn.
  - intro t. rewrite St. destruct (memn t (chain_tasks l)); [|reflexivity].
    destruct (trow_of d t); simpl; [now rewrite trow_running_execs|reflexivity].
Qed.

(* the seeded regression in one sentence: an ancestor that is ALREADY RUNNING does not stop the propagation *)
Lemma rerun_through_running_parent fuel d w d' l pt :
  recursive_rerun fuel d w = Some d' -> chain fuel d w = Some l -> In pt (chain_tasks l) ->
  (exists pw, twf d pt = Some pw /\ wstate d pw = Some RUNNING) ->
  tstate d' pt = Some RUNNING.
Proof. intros H Hc Hin _. eapply rerun_chain_tasks_running; eauto. Qed.

(* a second identical request changes nothing (repeated reruns compose) *)
Lemma db_ext d d' : (forall w, wrow_of d' w = wrow_of d w) -> (forall t, trow_of d' t = trow_of d t) -> d' = d.
Proof.
  destruct d as [ws ts], d' as [ws' ts']; unfold wrow_of, trow_of; simpl; intros Hw Ht.
  f_equal; apply nth_error_ext; assumption.
Qed.

Lemma recursive_rerun_idempotent fuel d w d' :
  recursive_rerun fuel d w = Some d' -> recursive_rerun fuel d' w = Some d'.
Proof.
  intro H. destruct (recursive_rerun_closed_form _ _ _ _ H) as (l & Hc & (Sw & St) & HP).
  assert (Hc' : chain fuel d' w = Some l) by (rewrite (chain_ptrs fuel d d' w HP); exact Hc).
  destruct (recursive_rerun_accepted fuel d' w l Hc') as (d'' & H2).
  - intros w' Hin. destruct (rerun_chain_wfs_running _ _ _ _ _ H Hc w' Hin) as (Hs & _).
    unfold wstate in Hs. unfold wcan. destruct (wrow_of d' w') as [r|]; [|discriminate].
    simpl in Hs. inversion Hs as [Hr]. rewrite Hr. reflexivity.
  - rewrite H2. f_equal.
    destruct (recursive_rerun_closed_form _ _ _ _ H2) as (l2 & Hc2 & (Sw2 & St2) & _).
    rewrite Hc' in Hc2; inversion Hc2; subst l2.
    apply db_ext.
    + intro w'. rewrite Sw2, Sw. destruct (memn w' (chain_wfs l)); [apply option_map_idem, wrow_running_idem|reflexivity].
    + intro t. rewrite St2, St. destruct (memn t (chain_tasks l)); [apply option_map_idem, trow_running_idem|reflexivity].
Qed.

(* ------------------------------------------------------------------ *)
(* the whole request: engine.rerun_workflow                              *)

Lemma mark_processed_rows d w :
  wfs (mark_processed d w) = wfs d /\
  forall t, trow_of (mark_processed d w) t = option_map (mark_processed_row w) (trow_of d t).
Proof. split; [reflexivity|]. intro t. unfold trow_of; simpl. apply nth_error_map_. Qed.

Lemma mark_processed_row_keeps w r :
  t_state (mark_processed_row w r) = t_state r /\ t_wf (mark_processed_row w r) = t_wf r /\
  t_execs (mark_processed_row w r) = t_execs r /\ t_info (mark_processed_row w r) = t_info r /\
  (t_wf r <> w -> mark_processed_row w r = r).
Proof.
  unfold mark_processed_row. destruct (t_wf r =? w) eqn:E; simpl.
  - destruct (is_completed (t_state r) && negb (t_processed r)); simpl; repeat split; auto;
      intro Hn; apply Nat.eqb_eq in E; contradiction.
  - repeat split; auto.
Qed.

Inductive accepted_result (d : db) (t : nat) (skip : bool) (d' : db) : Prop :=
| AR (tr : trow) (l : list (nat * option nat)) (d1 : db)
     (Htr : trow_of d t = Some tr)
     (Hchain : chain (fuel_of d) d (t_wf tr) = Some l)
     (Hrr : recursive_rerun (fuel_of d) d (t_wf tr) = Some d1)
     (Hd' : d' = (if skip then skip_task else restart_task) (mark_processed d1 (t_wf tr)) t).

Lemma rerun_workflow_ok d t skip d' b :
  rerun_workflow d t skip = (d', Ok, b) ->
  (exists tr, trow_of d t = Some tr /\ wstate d (t_wf tr) = Some PAUSED /\ d' = d /\ b = false) \/
  (accepted_result d t skip d' /\ b = negb skip).
Proof.
  unfold rerun_workflow, trow_of, wstate, wrow_of.
  destruct (nth_error (tasks d) t) as [tr|] eqn:Et; [|discriminate].
  destruct (nth_error (wfs d) (t_wf tr)) as [wr|] eqn:Ew; [|discriminate].
  destruct (state_eqb (w_state wr) PAUSED) eqn:Ep.
  - intro H; injection H as <- <-. left. exists tr. rewrite Ew. simpl. apply state_eqb_eq in Ep. rewrite Ep. auto.
  - destruct (recursive_rerun (fuel_of d) d (t_wf tr)) as [d1|] eqn:Er; [|discriminate].
    destruct (recursive_rerun_closed_form _ _ _ _ Er) as (l & Hc & _).
    destruct skip; intro H; inversion H; subst; right; (split; [econstructor; eauto|reflexivity]).
Qed.

Lemma tail_rows d1 w t (skip : bool) :
  let d' := (if skip then skip_task else restart_task) (mark_processed d1 w) t in
  wfs d' = wfs d1 /\
  forall t', trow_of d' t' =
    if t =? t' then option_map (fun r => (if skip then trow_skipped else trow_restart) (mark_processed_row w r)) (trow_of d1 t')
    else option_map (mark_processed_row w) (trow_of d1 t').
Proof.
  destruct skip; simpl; (split; [reflexivity|]); intro t'; unfold trow_of; simpl;
    rewrite nth_error_upd, nth_error_map_; destruct (t =? t'); destruct (nth_error (tasks d1) t'); reflexivity.
Qed.

(* THE chain theorem for the whole request *)
Theorem rerun_accepted_chain_running d t skip d' b :
  rerun_workflow d t skip = (d', Ok, b) ->
  forall tr, trow_of d t = Some tr -> wstate d (t_wf tr) <> Some PAUSED ->
  exists l, chain (fuel_of d) d (t_wf tr) = Some l /\
    (forall w, In w (chain_wfs l) -> wstate d' w = Some RUNNING /\ wacc d' w = Some false) /\
    (forall pt, In pt (chain_tasks l) -> pt <> t -> tstate d' pt = Some RUNNING) /\
    (skip = true -> tstate d' t = Some SKIPPED) /\
    (skip = false -> t_state tr = ERROR -> ~ In t (chain_tasks l) -> tstate d' t = Some RUNNING) /\
    same_ptrs d d'.
Proof.
  intros H tr Htr Hnp. destruct (rerun_workflow_ok _ _ _ _ _ H) as [(tr' & Htr' & Hp & _)|(A & _)].
  - rewrite Htr in Htr'; inversion Htr'; subst tr'. contradiction.
  - destruct A as [tr' l d1 Htr' Hc Hrr Hd']. rewrite Htr in Htr'; inversion Htr'; subst tr'. clear Htr'.
    exists l. split; [exact Hc|].
    destruct (tail_rows d1 (t_wf tr) t skip) as (Hw & Ht). rewrite <- Hd' in Hw, Ht.
    destruct (rerun_frame _ _ _ _ _ Hrr Hc) as (_ & Hfr & _ & HP).
    repeat split.
    + destruct (rerun_chain_wfs_running _ _ _ _ _ Hrr Hc w H0) as (Hs & _).
      unfold wstate, wrow_of in *. now rewrite Hw.
    + destruct (rerun_chain_wfs_running _ _ _ _ _ Hrr Hc w H0) as (_ & Ha).
      unfold wacc, wrow_of in *. now rewrite Hw.
    + intros pt Hin Hne. pose proof (rerun_chain_tasks_running _ _ _ _ _ Hrr Hc pt Hin) as Hs.
      unfold tstate in *. rewrite Ht. replace (t =? pt) with false by (symmetry; apply Nat.eqb_neq; auto).
      destruct (trow_of d1 pt) as [r|]; [|discriminate]. simpl in *.
      destruct (mark_processed_row_keeps (t_wf tr) r) as (E & _). now rewrite E.
    + intro Hs; subst skip. unfold tstate. rewrite Ht, Nat.eqb_refl.
      assert (exists r, trow_of d1 t = Some r) as (r & Er).
      { destruct HP as (_ & HPt). specialize (HPt t). unfold twf in HPt. rewrite Htr in HPt.
        destruct (trow_of d1 t); [eauto|discriminate]. }
      rewrite Er. reflexivity.
    + intros Hs Hst Hnin; subst skip. unfold tstate. rewrite Ht, Nat.eqb_refl.
      rewrite (Hfr t Hnin), Htr. simpl.
      destruct (mark_processed_row_keeps (t_wf tr) tr) as (E & _).
      unfold trow_restart. rewrite E, Hst. reflexivity.
    + destruct HP as (HPw & _). intro w. unfold wptask, wrow_of in *. rewrite Hw. apply HPw.
    + destruct HP as (_ & HPt). intro t'. unfold twf. rewrite Ht.
      specialize (HPt t'). unfold twf in HPt. rewrite <- HPt.
      destruct (t =? t'); destruct (trow_of d1 t') as [r|]; simpl; try reflexivity;
        destruct (mark_processed_row_keeps (t_wf tr) r) as (_ & E & _).
      * destruct skip; simpl; [now rewrite E|].
        unfold trow_restart. destruct (state_eqb _ WAITING); [simpl; now rewrite E|].
        destruct (state_eqb _ ERROR); simpl; now rewrite E.
      * now rewrite E.
Qed.

(* nothing outside the chain and the task's own workflow changes *)
Theorem rerun_accepted_frame d t skip d' b :
  rerun_workflow d t skip = (d', Ok, b) ->
  forall tr, trow_of d t = Some tr -> wstate d (t_wf tr) <> Some PAUSED ->
  exists l, chain (fuel_of d) d (t_wf tr) = Some l /\
    (forall w, ~ In w (chain_wfs l) -> wrow_of d' w = wrow_of d w) /\
    (forall t' r, t' <> t -> ~ In t' (chain_tasks l) -> trow_of d t' = Some r -> t_wf r <> t_wf tr -> trow_of d' t' = Some r) /\
    (forall t' r, t' <> t -> ~ In t' (chain_tasks l) -> trow_of d t' = Some r ->
       exists r', trow_of d' t' = Some r' /\ t_state r' = t_state r /\ t_execs r' = t_execs r /\ t_wf r' = t_wf r).
Proof.
  intros H tr Htr Hnp. destruct (rerun_workflow_ok _ _ _ _ _ H) as [(tr' & Htr' & Hp & _)|(A & _)].
  - rewrite Htr in Htr'; inversion Htr'; subst tr'. contradiction.
  - destruct A as [tr' l d1 Htr' Hc Hrr Hd']. rewrite Htr in Htr'; inversion Htr'; subst tr'. clear Htr'.
    exists l. split; [exact Hc|].
    destruct (tail_rows d1 (t_wf tr) t skip) as (Hw & Ht). rewrite <- Hd' in Hw, Ht.
    destruct (rerun_frame _ _ _ _ _ Hrr Hc) as (Hfw & Hft & _ & _).
    repeat split.
    + intros w Hn. unfold wrow_of at 1. rewrite Hw. apply Hfw, Hn.
    + intros t' r Hne Hn Hr Hwf. rewrite Ht. replace (t =? t') with false by (symmetry; apply Nat.eqb_neq; auto).
      rewrite (Hft t' Hn), Hr. simpl. destruct (mark_processed_row_keeps (t_wf tr) r) as (_ & _ & _ & _ & E). now rewrite E.
    + intros t' r Hne Hn Hr. rewrite Ht. replace (t =? t') with false by (symmetry; apply Nat.eqb_neq; auto).
      rewrite (Hft t' Hn), Hr. simpl. eexists; split; [reflexivity|].
      destruct (mark_processed_row_keeps (t_wf tr) r) as (E1 & E2 & E3 & _). auto.
Qed.

(* refusals *)
Theorem rerun_refused_changes_nothing d t skip d' b : rerun_workflow d t skip = (d', Declared, b) -> d' = d /\ b = false.
Proof.
  unfold rerun_workflow. destruct (nth_error (tasks d) t) as [tr|]; [|intro H; inversion H; auto].
  destruct (nth_error (wfs d) (t_wf tr)) as [wr|]; [|intro H; inversion H; auto].
  destruct (state_eqb (w_state wr) PAUSED); [discriminate|].
  destruct (recursive_rerun (fuel_of d) d (t_wf tr)); [destruct skip; discriminate|intro H; inversion H; auto].
Qed.

Theorem rerun_paused_changes_nothing d t skip tr :
  trow_of d t = Some tr -> wstate d (t_wf tr) = Some PAUSED -> rerun_workflow d t skip = (d, Ok, false).
Proof.
  unfold rerun_workflow, trow_of, wstate, wrow_of. intros Ht Hs. rewrite Ht.
  destruct (nth_error (wfs d) (t_wf tr)) as [wr|]; [|discriminate]. simpl in Hs. inversion Hs as [E]. rewrite E. reflexivity.
Qed.

Theorem rerun_refused_when_ancestor_cannot_run d t skip tr l w :
  trow_of d t = Some tr -> wstate d (t_wf tr) <> Some PAUSED ->
  chain (fuel_of d) d (t_wf tr) = Some l -> In w (chain_wfs l) ->
  (wstate d w = Some SUCCESS \/ wstate d w = Some SKIPPED) ->
  rerun_workflow d t skip = (d, Declared, false).
Proof.
  unfold rerun_workflow, trow_of. intros Ht Hnp Hc Hin Hs. rewrite Ht.
  assert (Hno : wcan d w = false).
  { unfold wcan. unfold wstate in Hs. destruct (wrow_of d w) as [r|]; [|reflexivity]. simpl in Hs.
    destruct Hs as [Hs|Hs]; inversion Hs as [E]; rewrite E; reflexivity. }
  rewrite (recursive_rerun_refused _ _ _ _ _ Hc Hin Hno).
  unfold wstate, wrow_of in Hnp.
  destruct (nth_error (wfs d) (t_wf tr)) as [wr|]; [|reflexivity].
  destruct (state_eqb (w_state wr) PAUSED) eqn:E; [|reflexivity].
  apply state_eqb_eq in E. simpl in Hnp. rewrite E in Hnp. congruence.
Qed.

(* the REST guards *)
Theorem api_refuses_unless_error d t ns reset wi tr :
  trow_of d t = Some tr -> t_state tr <> ERROR -> api_put d t ns reset wi = (d, Declared, false).
Proof.
  unfold api_put, trow_of. intros Ht Hs. rewrite Ht.
  destruct (negb (state_eqb ns RUNNING) && negb (state_eqb ns SKIPPED)); [reflexivity|].
  destruct (state_eqb (t_state tr) ERROR) eqn:E; [apply state_eqb_eq in E; contradiction|reflexivity].
Qed.

Theorem api_accepts_error_task d t tr (reset_or_skip : bool) :
  trow_of d t = Some tr -> t_state tr = ERROR ->
  api_put d t (if reset_or_skip then RUNNING else SKIPPED) (Some true) false = rerun_workflow d t (negb reset_or_skip).
Proof.
  unfold api_put, trow_of. intros Ht Hs. rewrite Ht, Hs. destruct reset_or_skip; reflexivity.
Qed.

(* ------------------------------------------------------------------ *)
(* start_task(rerun=True)                                                *)

Theorem start_rerun_refuses_succeeded d t reset items tr :
  trow_of d t = Some tr -> t_state tr = SUCCESS -> start_rerun d t reset items = (d, Declared).
Proof. unfold start_rerun, trow_of. intros Ht Hs. now rewrite Ht, Hs. Qed.

Theorem start_rerun_runs d t reset items tr :
  trow_of d t = Some tr -> t_state tr <> SUCCESS ->
  exists d', start_rerun d t reset items = (d', Ok) /\
    wfs d' = wfs d /\
    (forall t', t' <> t -> trow_of d' t' = trow_of d t') /\
    exists r', trow_of d' t = Some r' /\ t_state r' = RUNNING /\ t_wf r' = t_wf tr /\
               t_execs r' = schedule items (reset_execs reset (t_execs tr)).
Proof.
  unfold start_rerun, trow_of. intros Ht Hs. rewrite Ht.
  destruct (state_eqb (t_state tr) SUCCESS) eqn:E; [apply state_eqb_eq in E; contradiction|].
  eexists; split; [reflexivity|]. simpl. split; [reflexivity|]. split.
  - intros t' Hne. rewrite nth_error_upd. replace (t =? t') with false by (symmetry; apply Nat.eqb_neq; auto). reflexivity.
  - rewrite nth_error_upd, Nat.eqb_refl, Ht. simpl. eexists; split; [reflexivity|]. simpl.
    rewrite trow_running_state, trow_running_wf, trow_running_execs. auto.
Qed.

(* request + delivery of the start request: the task, its workflow, every enclosing workflow and parent task RUNNING *)
Theorem rerun_then_start_all_running d t d1 reset items tr :
  rerun_workflow d t false = (d1, Ok, true) ->
  trow_of d t = Some tr -> wstate d (t_wf tr) <> Some PAUSED -> t_state tr = ERROR ->
  exists l d2, chain (fuel_of d) d (t_wf tr) = Some l /\ start_rerun d1 t reset items = (d2, Ok) /\
    tstate d2 t = Some RUNNING /\
    (forall w, In w (chain_wfs l) -> wstate d2 w = Some RUNNING) /\
    (forall pt, In pt (chain_tasks l) -> tstate d2 pt = Some RUNNING).
Proof.
  intros H Htr Hnp Herr.
  destruct (rerun_accepted_chain_running _ _ _ _ _ H tr Htr Hnp) as (l & Hc & Hw & Hpt & _ & Hrun & HP).
  assert (exists r1, trow_of d1 t = Some r1) as (r1 & Er1).
  { destruct HP as (_ & HPt). specialize (HPt t). unfold twf in HPt. rewrite Htr in HPt. destruct (trow_of d1 t); [eauto|discriminate]. }
  assert (Hr1 : t_state r1 <> SUCCESS).
  { destruct (in_dec Nat.eq_dec t (chain_tasks l)) as [Hin|Hnin].
    - (* (not a tree) t is its own ancestor: it was set RUNNING by the chain, restart leaves RUNNING alone *)
      destruct (rerun_workflow_ok _ _ _ _ _ H) as [(tr' & Htr' & Hp & _)|(A & _)].
      + rewrite Htr in Htr'; inversion Htr'; subst. contradiction.
      + destruct A as [tr' l' d0 Htr' Hc' Hrr Hd']. rewrite Htr in Htr'; inversion Htr'; subst tr'.
        rewrite Hc in Hc'; inversion Hc'; subst l'.
        pose proof (rerun_chain_tasks_running _ _ _ _ _ Hrr Hc t Hin) as Hs.
        destruct (tail_rows d0 (t_wf tr) t false) as (_ & Ht). rewrite <- Hd' in Ht.
        rewrite Ht, Nat.eqb_refl in Er1. unfold tstate in Hs. destruct (trow_of d0 t) as [r0|]; [|discriminate].
        simpl in *. inversion Hs as [Hs0]. inversion Er1; subst r1.
        destruct (mark_processed_row_keeps (t_wf tr) r0) as (E & _).
        unfold trow_restart. rewrite E, Hs0. simpl. rewrite E, Hs0. discriminate.
    - specialize (Hrun eq_refl Herr Hnin). unfold tstate in Hrun. rewrite Er1 in Hrun. simpl in Hrun.
      inversion Hrun as [E]. rewrite E. discriminate. }
  destruct (start_rerun_runs d1 t reset items r1 Er1 Hr1) as (d2 & Hs & Hwf & Hoth & (r' & Er' & Hst & _)).
  exists l, d2. repeat split; auto.
  - unfold tstate. rewrite Er'. simpl. now rewrite Hst.
  - intros w Hin. destruct (Hw w Hin) as (Hs1 & _). unfold wstate, wrow_of in *. now rewrite Hwf.
  - intros pt Hin. destruct (Nat.eq_dec pt t) as [->|Hne].
    + unfold tstate. rewrite Er'. simpl. now rewrite Hst.
    + unfold tstate. rewrite (Hoth pt Hne). apply (Hpt pt Hin Hne).
Qed.

(* ------------------------------------------------------------------ *)
(* with-items: which items are executed again                            *)

Lemma occupied_spec l i :
  occupied l i = true <-> exists a, In a l /\ a_index a = i /\ (a_accepted a = true \/ is_completed (a_state a) = false).
Proof.
  unfold occupied. rewrite existsb_exists. split; intros (a & Hin & H).
  - apply andb_true_iff in H. destruct H as (Hi & H). apply Nat.eqb_eq in Hi. apply orb_true_iff in H.
    exists a. repeat split; auto. destruct H as [H|H]; [auto|right; now apply negb_true_iff].
  - destruct H as (Hi & H). exists a. split; [exact Hin|]. apply andb_true_iff. split; [now apply Nat.eqb_eq|].
    apply orb_true_iff. destruct H as [H|H]; [auto|right; now apply negb_true_iff].
Qed.

Lemma free_indexes_spec count l i : In i (free_indexes count l) <-> i < count /\ occupied l i = false.
Proof.
  unfold free_indexes. rewrite filter_In, in_seq, negb_true_iff. split; intros (H1 & H2); split; auto; lia.
Qed.

Lemma reset_execs_In reset l b :
  In b (reset_execs reset l) <-> exists a, In a l /\ b = (if reset || failed_exec a then unaccept a else a).
Proof. unfold reset_execs. rewrite in_map_iff. split; intros (a & H1 & H2); exists a; auto. Qed.

(* reset off: exactly the items without an accepted, not failed execution (and without one in progress) *)
Theorem rerun_items_noreset_exact count l i :
  In i (rerun_items false count l) <->
  i < count /\ forall a, In a l -> a_index a = i ->
     is_completed (a_state a) = true /\ (a_accepted a = true -> a_state a = ERROR \/ a_state a = CANCELLED).
Proof.
  unfold rerun_items. rewrite free_indexes_spec. split.
  - intros (Hlt & Hocc). split; [exact Hlt|]. intros a Hin Hi.
    assert (Hn : ~ exists b, In b (reset_execs false l) /\ a_index b = i /\ (a_accepted b = true \/ is_completed (a_state b) = false)).
    { intro Hex. apply occupied_spec in Hex. congruence. }
    split.
    + destruct (is_completed (a_state a)) eqn:E; [reflexivity|]. exfalso. apply Hn.
      exists (if false || failed_exec a then unaccept a else a). split; [apply reset_execs_In; eauto|].
      destruct (false || failed_exec a); simpl; auto.
    + intro Hacc. destruct (failed_exec a) eqn:F.
      * unfold failed_exec in F. rewrite Hacc in F. simpl in F. apply orb_true_iff in F.
        destruct F as [F|F]; apply state_eqb_eq in F; auto.
      * exfalso. apply Hn. exists a. split; [apply reset_execs_In; exists a; simpl; now rewrite F|auto].
  - intros (Hlt & H). split; [exact Hlt|]. destruct (occupied (reset_execs false l) i) eqn:E; [|reflexivity]. exfalso.
    apply occupied_spec in E. destruct E as (b & Hin & Hi & Hb). apply reset_execs_In in Hin. destruct Hin as (a & Hin & ->).
    simpl in *. destruct (failed_exec a) eqn:F; simpl in *.
    + destruct (H a Hin Hi) as (Hc & _). destruct Hb as [Hb|Hb]; congruence.
    + destruct (H a Hin Hi) as (Hc & Hf). destruct Hb as [Hb|Hb]; [|congruence].
      unfold failed_exec in F. rewrite Hb in F. simpl in F. apply orb_false_iff in F. destruct F as (F1 & F2).
      destruct (Hf Hb) as [E|E]; rewrite E in *; discriminate.
Qed.

(* reset off keeps every accepted successful execution as it is *)
Theorem reset_off_keeps_successful l a :
  In a l -> a_accepted a = true -> a_state a = SUCCESS -> In a (reset_execs false l).
Proof.
  intros Hin Ha Hs. apply reset_execs_In. exists a. split; [exact Hin|].
  unfold failed_exec. rewrite Ha, Hs. reflexivity.
Qed.

(* reset on: every item whose executions have all completed is executed again *)
Theorem rerun_items_reset_all count l :
  (forall a, In a l -> is_completed (a_state a) = true) -> rerun_items true count l = seq 0 count.
Proof.
  intro Hall. unfold rerun_items, free_indexes.
  assert (H : forall i, occupied (reset_execs true l) i = false).
  { intro i. destruct (occupied (reset_execs true l) i) eqn:E; [|reflexivity]. exfalso.
    apply occupied_spec in E. destruct E as (b & Hin & _ & Hb). apply reset_execs_In in Hin. destruct Hin as (a & Hin & ->).
    simpl in Hb. destruct Hb as [Hb|Hb]; [discriminate|]. rewrite (Hall a Hin) in Hb. discriminate. }
  induction (seq 0 count) as [|x r IH]; simpl; [reflexivity|]. rewrite H. simpl. now rewrite IH.
Qed.

Lemma firstn_In_ {A} (x : A) n l : In x (firstn n l) -> In x l.
Proof. revert n; induction l as [|y r IH]; intros [|n]; simpl; try tauto. intros [H|H]; eauto. Qed.

Lemma firstn_NoDup_ {A} n (l : list A) : NoDup l -> NoDup (firstn n l).
Proof.
  revert n; induction l as [|y r IH]; intros [|n] H; simpl; try constructor.
  - inversion H; subst. intro Hin. apply firstn_In_ in Hin. contradiction.
  - inversion H; subst. now apply IH.
Qed.

(* one batch never exceeds the concurrency and only contains items that need a run; none twice *)
Theorem next_indexes_batch count cap l :
  incl (next_indexes count cap l) (free_indexes count l) /\ NoDup (next_indexes count cap l) /\
  (forall c, cap = Some c -> length (next_indexes count cap l) <= c).
Proof.
  assert (ND : NoDup (free_indexes count l)) by (apply NoDup_filter, seq_NoDup).
  unfold next_indexes. destruct cap as [c|].
  - split; [|split].
    + intros x Hx. eapply firstn_In_; exact Hx.
    + now apply firstn_NoDup_.
    + intros c' E; inversion E; subst. apply firstn_le_length.
  - split; [apply incl_refl|]. split; [exact ND|discriminate].
Qed.

(* a started item is not started again by the next batch *)
Theorem scheduled_item_is_occupied count cap l i :
  In i (next_indexes count cap l) -> occupied (schedule (Some (count, cap)) l) i = true.
Proof.
  intro Hin. apply occupied_spec. exists (new_exec i). split.
  - unfold schedule. apply in_or_app. right. apply in_map_iff. eauto.
  - simpl. auto.
Qed.

(* ------------------------------------------------------------------ *)
(* sequences of requests                                                 *)

Lemma apply_op_cases d o :
  apply_op d o = d \/
  exists tr, trow_of d (op_task o) = Some tr /\ wstate d (t_wf tr) <> Some PAUSED /\
    accepted_result d (op_task o) (match o with OSkip _ => true | ORerun _ => false end) (apply_op d o).
Proof.
  assert (G : forall t skip, fst (fst (rerun_workflow d t skip)) = d \/
            exists tr, trow_of d t = Some tr /\ wstate d (t_wf tr) <> Some PAUSED /\
              accepted_result d t skip (fst (fst (rerun_workflow d t skip)))).
  { intros t skip. destruct (rerun_workflow d t skip) as [[d' oc] b] eqn:E. simpl. destruct oc.
    - destruct (rerun_workflow_ok _ _ _ _ _ E) as [(tr & _ & _ & -> & _)|(A & _)]; [auto|].
      destruct A as [tr l d1 Htr Hc Hrr Hd'].
      destruct (option_map w_state (wrow_of d (t_wf tr))) as [s|] eqn:Es.
      + destruct (state_eqb s PAUSED) eqn:Ep.
        * apply state_eqb_eq in Ep; subst s. left.
          assert (X := rerun_paused_changes_nothing d t skip tr Htr Es). rewrite E in X. now inversion X.
        * right. exists tr. repeat split; auto.
          -- unfold wstate. rewrite Es. intro X; inversion X; subst. discriminate.
          -- econstructor; eauto.
      + right. exists tr. repeat split; auto.
        * unfold wstate. rewrite Es. discriminate.
        * econstructor; eauto.
    - left. now destruct (rerun_refused_changes_nothing _ _ _ _ _ E). }
  destruct o; simpl; apply G.
Qed.

(* requests never take a workflow out of RUNNING, and never change the tree *)
Lemma apply_op_keeps_running d o :
  same_ptrs d (apply_op d o) /\ forall w, wstate d w = Some RUNNING -> wstate (apply_op d o) w = Some RUNNING.
Proof.
  destruct (apply_op_cases d o) as [->|(tr & Htr & Hnp & A)]; [split; [apply same_ptrs_refl|auto]|].
  destruct A as [tr' l d1 Htr' Hc Hrr Hd']. rewrite Htr in Htr'; inversion Htr'; subst tr'.
  set (skip := match o with OSkip _ => true | ORerun _ => false end) in *.
  assert (E : rerun_workflow d (op_task o) skip = (apply_op d o, Ok, negb skip)).
  { unfold rerun_workflow. unfold trow_of in Htr. rewrite Htr.
    unfold wstate, wrow_of in Hnp.
    destruct (recursive_rerun_closed_form _ _ _ _ Hrr) as (_ & _ & _ & _).
    assert (exists wr, nth_error (wfs d) (t_wf tr) = Some wr) as (wr & Ewr).
    { unfold fuel_of in Hc. simpl in Hc. destruct (nth_error (wfs d) (t_wf tr)); [eauto|discriminate]. }
    rewrite Ewr in *. simpl in Hnp.
    destruct (state_eqb (w_state wr) PAUSED) eqn:Ep; [apply state_eqb_eq in Ep; rewrite Ep in Hnp; congruence|].
    rewrite Hrr, Hd'. destruct skip; reflexivity. }
  destruct (rerun_accepted_chain_running _ _ _ _ _ E tr Htr Hnp) as (l' & Hc' & Hw & _ & _ & _ & HP).
  rewrite Hc in Hc'; inversion Hc'; subst l'.
  split; [exact HP|]. intros w Hs.
  destruct (in_dec Nat.eq_dec w (chain_wfs l)) as [Hin|Hnin]; [apply (Hw w Hin)|].
  destruct (rerun_accepted_frame _ _ _ _ _ E tr Htr Hnp) as (l2 & Hc2 & Hfw & _).
  rewrite Hc in Hc2; inversion Hc2; subst l2. unfold wstate. rewrite (Hfw w Hnin). exact Hs.
Qed.

Theorem reruns_compose ops : forall d,
  same_ptrs d (fold_left apply_op ops d) /\
  forall w, wstate d w = Some RUNNING -> wstate (fold_left apply_op ops d) w = Some RUNNING.
Proof.
  induction ops as [|o r IH]; intro d; simpl; [split; [apply same_ptrs_refl|auto]|].
  destruct (apply_op_keeps_running d o) as (HP1 & H1). destruct (IH (apply_op d o)) as (HP2 & H2).
  split; [eapply same_ptrs_trans; eauto|auto].
Qed.

(* after an accepted request, whatever requests follow, its whole chain of workflows stays RUNNING *)
Theorem accepted_chain_stays_running d t skip d' b ops tr :
  rerun_workflow d t skip = (d', Ok, b) -> trow_of d t = Some tr -> wstate d (t_wf tr) <> Some PAUSED ->
  exists l, chain (fuel_of d) d (t_wf tr) = Some l /\
    forall w, In w (chain_wfs l) -> wstate (fold_left apply_op ops d') w = Some RUNNING.
Proof.
  intros H Htr Hnp. destruct (rerun_accepted_chain_running _ _ _ _ _ H tr Htr Hnp) as (l & Hc & Hw & _).
  exists l. split; [exact Hc|]. intros w Hin. apply reruns_compose. apply (Hw w Hin).
Qed.
