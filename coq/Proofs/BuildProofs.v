(* Proofs about Model/Build.v over the schemas generated from the spec classes
   (Gen/Schemas.v): data accepted by a class's JSON schema satisfies the unchecked
   key / type assumptions of that class's constructor ("schema guards build"), hence
   building a workflow list / action list / workbook never ends in an internal error.
   (Before fix 31aaf4b7 this held only under three hypotheses on the document, each
   refuted by a witness; those witnesses are kept as regression facts: they are now
   definition errors.) *)
From Coq Require Import List String ZArith Bool Arith Lia.
Require Import Mistral.Model.Jv Mistral.Model.Schema Mistral.Model.Norm Mistral.Model.Build Mistral.Gen.Schemas.
Require Import Mistral.Proofs.SchemaProofs Mistral.Proofs.NormProofs.
Import ListNotations.
Open Scope string_scope.

Definition alts (s : schema) : list schema := match alts_of s with Some x => x | None => [] end.

Lemma alts_sound' re s v :
  alts_of s <> None -> validate re s v = true -> exists a, In a (alts s) /\ validate re a v = true.
Proof.
  intros Hn Hv. unfold alts. destruct (alts_of s) as [ss|] eqn:E; [|congruence].
  exact (alts_sound re s ss v E Hv).
Qed.

Definition is_some {A} (o : option A) : bool := match o with Some _ => true | None => false end.

(* every value accepted by s has one of the listed types: s declares such a type,
   or every alternative of its oneOf/anyOf does (one level of nesting is enough here) *)
Definition types_direct (ts : list jtype) (s : schema) : bool :=
  existsb (fun t => has_type_kw t s) ts.
Definition types_among (ts : list jtype) (s : schema) : bool :=
  types_direct ts s ||
  (is_some (alts_of s) &&
   forallb (fun a => types_direct ts a || (is_some (alts_of a) && forallb (types_direct ts) (alts a))) (alts s)).

Definition has_some_type (ts : list jtype) (v : jv) : bool := existsb (fun t => has_type t v) ts.

Lemma types_direct_sound re ts s v :
  types_direct ts s = true -> validate re s v = true -> has_some_type ts v = true.
Proof.
  unfold types_direct, has_some_type. rewrite !existsb_exists. intros [t [Hin Ht]] Hv.
  exists t. split; [exact Hin|]. exact (has_type_kw_sound re t s v Ht Hv).
Qed.

Lemma is_some_neq {A} (o : option A) : is_some o = true -> o <> None.
Proof. destruct o; simpl; congruence. Qed.

Lemma types_among_sound re ts s v :
  types_among ts s = true -> validate re s v = true -> has_some_type ts v = true.
Proof.
  unfold types_among. intros H Hv. apply orb_true_iff in H. destruct H as [H|H].
  - exact (types_direct_sound re ts s v H Hv).
  - apply andb_true_iff in H. destruct H as [Hs Hall].
    destruct (alts_sound' re s v (is_some_neq _ Hs) Hv) as [a [Hin Ha]].
    rewrite forallb_forall in Hall. specialize (Hall a Hin).
    apply orb_true_iff in Hall. destruct Hall as [Hd|Hn].
    + exact (types_direct_sound re ts a v Hd Ha).
    + apply andb_true_iff in Hn. destruct Hn as [Hs2 Hall2].
      destruct (alts_sound' re a v (is_some_neq _ Hs2) Ha) as [b [Hinb Hb]].
      rewrite forallb_forall in Hall2.
      exact (types_direct_sound re ts b v (Hall2 b Hinb) Hb).
Qed.

(* the property k of schema S only admits values of the listed types *)
Definition prop_types (S : schema) (k : string) (ts : list jtype) : bool :=
  match prop_of k S with Some sub => types_among ts sub | None => false end.

Lemma prop_types_sound re S k ts kvs x :
  prop_types S k ts = true -> validate re S (JObj kvs) = true -> lookup k kvs = Some x ->
  has_some_type ts x = true.
Proof.
  unfold prop_types. destruct (prop_of k S) as [sub|] eqn:E; [|discriminate].
  intros Ht Hv Hl. exact (types_among_sound re ts sub x Ht (prop_sound re S k sub kvs x E Hv Hl)).
Qed.

Definition requires (S : schema) (k : string) : bool := str_in k (required_of S).

Lemma requires_sound re S k kvs :
  requires S k = true -> validate re S (JObj kvs) = true -> present (lookup k kvs) = true.
Proof.
  unfold requires, str_in. rewrite existsb_exists. intros [k' [Hin Hk]] Hv.
  apply String.eqb_eq in Hk. subst k'.
  pose proof (required_sound re S kvs k Hv Hin). destruct (lookup k kvs); [reflexivity|congruence].
Qed.

(* ------------------------------------------------------------------------- *)
(* per class: the schema guards the constructor                               *)

Section Guards.
  Variable re : nat -> string -> bool.

  (* PublishSpec, TaskDefaultsSpec: self._data.get(...) needs a dict *)
  Lemma guards_publish d : validate re S_PublishSpec d = true -> is_obj d = true.
  Proof.
    intros Hv. assert (H : has_type TObj d = true)
      by (apply (has_type_kw_sound re TObj S_PublishSpec); [reflexivity|exact Hv]).
    destruct d; simpl in *; congruence.
  Qed.

  Lemma guards_defaults d : validate re S_TaskDefaultsSpec d = true -> is_obj d = true.
  Proof.
    intros Hv. assert (H : has_type TObj d = true)
      by (apply (has_type_kw_sound re TObj S_TaskDefaultsSpec); [reflexivity|exact Hv]).
    destruct d; simpl in *; congruence.
  Qed.

  (* RetrySpec: data['delay'] on the transformed data (never a string) *)
  Definition retry_schema_ok : bool :=
    is_some (alts_of S_RetrySpec) &&
    forallb (fun a => has_type_kw TStr a || (has_type_kw TObj a && str_in "delay" (required_of a)))
            (alts S_RetrySpec).

  Lemma guards_retry d :
    validate re S_RetrySpec d = true -> is_str d = false -> retry_ok d = true.
  Proof.
    intros Hv Hns.
    assert (Hok : retry_schema_ok = true) by (vm_compute; reflexivity).
    unfold retry_schema_ok in Hok. apply andb_true_iff in Hok. destruct Hok as [Hs Hall].
    destruct (alts_sound' re _ d (is_some_neq _ Hs) Hv) as [a [Hin Ha]].
    rewrite forallb_forall in Hall. specialize (Hall a Hin).
    apply orb_true_iff in Hall. destruct Hall as [Hstr|Hobj].
    - pose proof (has_type_kw_sound re TStr a d Hstr Ha) as Ht.
      destruct d; simpl in *; congruence.
    - apply andb_true_iff in Hobj. destruct Hobj as [Ho Hreq].
      pose proof (has_type_kw_sound re TObj a d Ho Ha) as Ht.
      destruct d as [| | | | |kvs]; simpl in Ht; try discriminate.
      exact (requires_sound re a "delay" kvs Hreq Ha).
  Qed.

  (* utils.get_dict_from_entries(data.get('input', [])): a list of hashable entries or dicts *)
  Definition input_schema_ok (S : schema) : bool :=
    match prop_of "input" S with
    | Some sub => has_type_kw TArr sub &&
                  match items_of sub with
                  | Some it => types_among [TStr; TObj] it
                  | None => false
                  end
    | None => false
    end.

  Lemma guards_entries S w :
    input_schema_ok S = true -> validate re S (JObj w) = true -> entries_ok (lookup "input" w) = true.
  Proof.
    unfold input_schema_ok. destruct (prop_of "input" S) as [sub|] eqn:Ep; [|discriminate].
    intros Hok Hv. apply andb_true_iff in Hok. destruct Hok as [Harr Hit].
    destruct (items_of sub) as [it|] eqn:Ei; [|discriminate].
    destruct (lookup "input" w) as [x|] eqn:El; [|reflexivity].
    pose proof (prop_sound re S "input" sub w x Ep Hv El) as Hx.
    pose proof (has_type_kw_sound re TArr sub x Harr Hx) as Ht.
    destruct x as [| | | |l|]; simpl in Ht; try discriminate.
    cbn [entries_ok]. apply forallb_forall. intros e He.
    pose proof (items_sound re sub it l e Ei Hx He) as Hev.
    pose proof (types_among_sound re [TStr; TObj] it e Hit Hev) as Hty.
    destruct e; simpl in *; congruence.
  Qed.

  (* WorkflowSpec: the input entries are hashable or dicts; tasks is a dict *)
  Definition wf_schema_ok (S : schema) : bool :=
    requires S "tasks" && input_schema_ok S && prop_types S "tasks" [TObj].

  Lemma guards_wf S w :
    wf_schema_ok S = true -> validate re S (JObj w) = true ->
    entries_ok (lookup "input" w) = true /\ exists ts, lookup "tasks" w = Some (JObj ts).
  Proof.
    unfold wf_schema_ok. intros Hok Hv.
    apply andb_true_iff in Hok. destruct Hok as [Hok Htasks].
    apply andb_true_iff in Hok. destruct Hok as [Hreq Hin].
    split; [exact (guards_entries S w Hin Hv)|].
    pose proof (requires_sound re S "tasks" w Hreq Hv) as Hpres.
    destruct (lookup "tasks" w) as [x|] eqn:El; [|discriminate].
    pose proof (prop_types_sound re S "tasks" [TObj] w x Htasks Hv El) as Hty.
    destruct x as [| | | | |ts]; simpl in Hty; try discriminate.
    exists ts. reflexivity.
  Qed.

  (* TaskSpec: len(name), the command string, with-items *)
  Definition task_schema_ok (S : schema) : bool :=
    requires S "name" && prop_types S "name" [TStr] && prop_types S "action" [TStr] &&
    prop_types S "workflow" [TStr] && prop_types S "with-items" [TStr; TArr].

  Lemma str_of_types x : has_some_type [TStr] x = true -> exists s, x = JStr s.
  Proof. destruct x; simpl; try discriminate. eauto. Qed.

  Lemma guards_task S t :
    task_schema_ok S = true -> validate re S (JObj t) = true ->
    task_pre_ok t = true /\ with_items_ok t = true.
  Proof.
    unfold task_schema_ok. intros Hok Hv.
    apply andb_true_iff in Hok; destruct Hok as [Hok Hwi].
    apply andb_true_iff in Hok; destruct Hok as [Hok Hwf].
    apply andb_true_iff in Hok; destruct Hok as [Hok Hact].
    apply andb_true_iff in Hok; destruct Hok as [Hreq Hname].
    split.
    - unfold task_pre_ok. apply andb_true_iff. split.
      + pose proof (requires_sound re S "name" t Hreq Hv) as Hp.
        destruct (lookup "name" t) as [x|] eqn:El; [|discriminate].
        destruct (str_of_types x (prop_types_sound re S "name" [TStr] t x Hname Hv El)) as [s ->].
        reflexivity.
      + unfold cmd_value.
        assert (Hw : match lookup "workflow" t with
                     | Some c => if truthy c then is_str c else true
                     | None => true end = true).
        { destruct (lookup "workflow" t) as [x|] eqn:El; [|reflexivity].
          destruct (str_of_types x (prop_types_sound re S "workflow" [TStr] t x Hwf Hv El)) as [s ->].
          destruct (truthy (JStr s)); reflexivity. }
        destruct (lookup "action" t) as [a|] eqn:Ea; [|exact Hw].
        destruct (str_of_types a (prop_types_sound re S "action" [TStr] t a Hact Hv Ea)) as [s ->].
        destruct (truthy (JStr s)) eqn:E; [cbn; destruct s; reflexivity|exact Hw].
    - unfold with_items_ok. destruct (lookup "with-items" t) as [x|] eqn:El; [|reflexivity].
      pose proof (prop_types_sound re S "with-items" [TStr; TArr] t x Hwi Hv El) as Hty.
      destruct x; simpl in *; congruence.
  Qed.

  (* ActionSpec *)
  Definition action_schema_ok : bool :=
    has_type_kw TObj S_ActionSpec && requires S_ActionSpec "name" && requires S_ActionSpec "base" &&
    prop_types S_ActionSpec "base" [TStr] && input_schema_ok S_ActionSpec &&
    prop_types S_ActionSpec "base-input" [TObj].

  Lemma guards_action pp d :
    validate re S_ActionSpec d = true ->
    exists a, d = JObj a /\
      (present (lookup "name" a) && present (lookup "base" a) && entries_ok (lookup "input" a)
       && match lookup "base" a with Some b => is_str b | None => false end) = true /\
      merge_ok (lookup "base-input" a) (match action_cmd a with Some c => pp c | None => [] end) = true.
  Proof.
    intros Hv.
    assert (Hok : action_schema_ok = true) by (vm_compute; reflexivity).
    unfold action_schema_ok in Hok.
    apply andb_true_iff in Hok; destruct Hok as [Hok Hbi].
    apply andb_true_iff in Hok; destruct Hok as [Hok Hin].
    apply andb_true_iff in Hok; destruct Hok as [Hok Hbs].
    apply andb_true_iff in Hok; destruct Hok as [Hok Hbase].
    apply andb_true_iff in Hok; destruct Hok as [Hobj Hname].
    pose proof (has_type_kw_sound re TObj _ d Hobj Hv) as Ht.
    destruct d as [| | | | |a]; simpl in Ht; try discriminate.
    exists a. split; [reflexivity|]. split.
    - rewrite (requires_sound re _ "name" a Hname Hv), (requires_sound re _ "base" a Hbase Hv),
        (guards_entries _ a Hin Hv). cbn [andb].
      pose proof (requires_sound re _ "base" a Hbase Hv) as Hp.
      destruct (lookup "base" a) as [b|] eqn:El; [|discriminate].
      destruct (str_of_types b (prop_types_sound re _ "base" [TStr] a b Hbs Hv El)) as [s ->]. reflexivity.
    - unfold merge_ok. destruct (match action_cmd a with Some c => pp c | None => [] end); [reflexivity|].
      destruct (lookup "base-input" a) as [x|] eqn:El; [|reflexivity].
      pose proof (prop_types_sound re _ "base-input" [TObj] a x Hbi Hv El) as Hty.
      destruct x; simpl in *; congruence.
  Qed.

  (* BaseListSpec: v['name'] = k for every member *)
  Definition list_schema_ok (S : schema) : bool :=
    has_type_kw TObj S &&
    match addl_of S with
    | Some (names, sub) => forallb (fun n => String.eqb n "version") names && has_type_kw TObj sub
    | None => false
    end.

  Lemma guards_list S d :
    list_schema_ok S = true -> validate re S d = true ->
    exists kvs, d = JObj kvs /\
      forall k v, In (k, v) kvs -> String.eqb k "version" = false -> is_obj v = true.
  Proof.
    unfold list_schema_ok. intros Hok Hv. apply andb_true_iff in Hok. destruct Hok as [Hobj Haddl].
    pose proof (has_type_kw_sound re TObj S d Hobj Hv) as Ht.
    destruct d as [| | | | |kvs]; simpl in Ht; try discriminate.
    exists kvs. split; [reflexivity|]. intros k v Hkv Hnv.
    destruct (addl_of S) as [[names sub]|] eqn:Ea; [|discriminate].
    apply andb_true_iff in Haddl. destruct Haddl as [Hnames Hsub].
    assert (Hn : str_in k names = false).
    { unfold str_in. destruct (existsb (String.eqb k) names) eqn:E; [|reflexivity].
      apply existsb_exists in E. destruct E as [n [Hn1 Hn2]]. apply String.eqb_eq in Hn2. subst n.
      rewrite forallb_forall in Hnames. rewrite (Hnames k Hn1) in Hnv. discriminate. }
    pose proof (addl_sound re S names sub kvs k v Ea Hv Hkv Hn) as Hvv.
    pose proof (has_type_kw_sound re TObj sub v Hsub Hvv) as Hty.
    destruct v; simpl in *; congruence.
  Qed.

  (* WorkbookSpec: data['name']; the sections are dicts *)
  Definition wb_schema_ok : bool :=
    has_type_kw TObj S_WorkbookSpec && requires S_WorkbookSpec "name" &&
    prop_types S_WorkbookSpec "actions" [TObj] && prop_types S_WorkbookSpec "workflows" [TObj].

  Lemma guards_workbook d :
    validate re S_WorkbookSpec d = true ->
    exists wb, d = JObj wb /\ present (lookup "name" wb) = true /\
      (forall x, nonnull (lookup "actions" wb) = Some x -> is_obj x = true) /\
      (forall x, nonnull (lookup "workflows" wb) = Some x -> is_obj x = true).
  Proof.
    intros Hv.
    assert (Hok : wb_schema_ok = true) by (vm_compute; reflexivity).
    unfold wb_schema_ok in Hok.
    apply andb_true_iff in Hok; destruct Hok as [Hok Hwf].
    apply andb_true_iff in Hok; destruct Hok as [Hok Hact].
    apply andb_true_iff in Hok; destruct Hok as [Hobj Hname].
    pose proof (has_type_kw_sound re TObj _ d Hobj Hv) as Ht.
    destruct d as [| | | | |wb]; simpl in Ht; try discriminate.
    exists wb. split; [reflexivity|]. split; [exact (requires_sound re _ "name" wb Hname Hv)|].
    split; intros x Hx.
    - destruct (lookup "actions" wb) as [y|] eqn:El; [|discriminate].
      pose proof (prop_types_sound re _ "actions" [TObj] wb y Hact Hv El) as Hty.
      destruct y; simpl in *; try discriminate. injection Hx as <-. reflexivity.
    - destruct (lookup "workflows" wb) as [y|] eqn:El; [|discriminate].
      pose proof (prop_types_sound re _ "workflows" [TObj] wb y Hwf Hv El) as Hty.
      destruct y; simpl in *; try discriminate. injection Hx as <-. reflexivity.
  Qed.

End Guards.

(* ------------------------------------------------------------------------- *)
(* OnClauseSpec: prepare_next_clause                                           *)

Lemma lookup_In k kvs x : lookup k kvs = Some x -> In (k, x) kvs.
Proof.
  induction kvs as [|[k' v'] kvs IH]; simpl; [discriminate|].
  destruct (String.eqb k k') eqn:E.
  - intros H. injection H as ->. apply String.eqb_eq in E. subst. auto.
  - auto.
Qed.

Section OnClause.
  Variable re : nat -> string -> bool.
  (* a fact about the regular expression ^\S+$ (the oracle is arbitrary otherwise) *)
  Hypothesis re_next : re pat_nonspace "next" = true.

  Definition item_alt_ok (b : schema) : bool :=
    types_among [TStr] b || (has_type_kw TObj b && min_props_1 b).
  Definition item_schema_ok (it : schema) : bool :=
    is_some (alts_of it) && forallb item_alt_ok (alts it).

  (* an alternative for the value of `next` (or for a non-dict clause): a string, a dict, or a list of good items *)
  Definition next_alt_ok (a : schema) : bool :=
    types_among [TStr] a || has_type_kw TObj a ||
    (has_type_kw TArr a && match items_of a with Some it => item_schema_ok it | None => false end).
  Definition next_schema_ok (s : schema) : bool :=
    is_some (alts_of s) && forallb next_alt_ok (alts s).

  Lemma next_alt_sound a x : next_alt_ok a = true -> validate re a x = true -> next_ok x = true.
  Proof.
    unfold next_alt_ok. intros H Hv.
    apply orb_true_iff in H. destruct H as [H|H]; [apply orb_true_iff in H; destruct H as [H|H]|].
    - pose proof (types_among_sound re [TStr] a x H Hv) as Ht.
      destruct x; simpl in Ht; try discriminate. unfold next_ok. destruct (negb (truthy (JStr s))); reflexivity.
    - pose proof (has_type_kw_sound re TObj a x H Hv) as Ht.
      destruct x; simpl in Ht; try discriminate. unfold next_ok. destruct (negb (truthy (JObj kvs))); reflexivity.
    - apply andb_true_iff in H. destruct H as [Harr Hit].
      pose proof (has_type_kw_sound re TArr a x Harr Hv) as Ht.
      destruct x as [| | | |l|]; simpl in Ht; try discriminate.
      destruct (items_of a) as [it|] eqn:Ei; [|discriminate].
      unfold item_schema_ok in Hit. apply andb_true_iff in Hit. destruct Hit as [Hs Hall].
      unfold next_ok. destruct (negb (truthy (JArr l))); [reflexivity|].
      apply forallb_forall. intros e He.
      pose proof (items_sound re a it l e Ei Hv He) as Hev.
      destruct (alts_sound' re it e (is_some_neq _ Hs) Hev) as [b [Hb Hbv]].
      rewrite forallb_forall in Hall. specialize (Hall b Hb). unfold item_alt_ok in Hall.
      apply orb_true_iff in Hall. destruct Hall as [Hstr|Hobj].
      + pose proof (types_among_sound re [TStr] b e Hstr Hbv) as Hte.
        destruct e; simpl in Hte; try discriminate. reflexivity.
      + apply andb_true_iff in Hobj. destruct Hobj as [Ho Hm].
        pose proof (has_type_kw_sound re TObj b e Ho Hbv) as Hte.
        destruct e as [| | | | |ekvs]; simpl in Hte; try discriminate.
        pose proof (min_props_sound re b ekvs Hm Hbv). destruct ekvs; [congruence|reflexivity].
  Qed.

  Lemma next_schema_sound s x : next_schema_ok s = true -> validate re s x = true -> next_ok x = true.
  Proof.
    unfold next_schema_ok. intros H Hv. apply andb_true_iff in H. destruct H as [Hs Hall].
    destruct (alts_sound' re s x (is_some_neq _ Hs) Hv) as [a [Ha Hav]].
    rewrite forallb_forall in Hall. exact (next_alt_sound a x (Hall a Ha) Hav).
  Qed.

  (* an alternative of the clause schema that accepts a dict: the advanced form (its `next`
     property is a next-value schema) or the one-key task: expression form (a key `next`
     matches ^\S+$ and then holds a string) *)
  Definition dict_alt_ok (a : schema) : bool :=
    match prop_of "next" a with
    | Some nv => next_schema_ok nv
    | None => existsb (fun ps => Nat.eqb (fst ps) pat_nonspace && types_among [TStr] (snd ps)) (patprops_of a)
    end.

  Definition clause_alt_ok (a : schema) : bool :=
    if has_type_kw TObj a then dict_alt_ok a
    else (types_among [TStr] a ||
          (has_type_kw TArr a && match items_of a with Some it => item_schema_ok it | None => false end)).

  Definition clause_schema_ok : bool :=
    is_some (alts_of S_OnClauseSpec) && forallb clause_alt_ok (alts S_OnClauseSpec).

  Lemma nonobj_alt a : has_type_kw TObj a = false -> clause_alt_ok a = true -> next_alt_ok a = true.
  Proof.
    unfold clause_alt_ok, next_alt_ok. intros -> H.
    apply orb_true_iff in H. destruct H as [H|H]; rewrite H; [reflexivity|apply orb_true_r].
  Qed.

  Lemma guards_onclause d :
    validate re S_OnClauseSpec d = true ->
    match d with
    | JObj kvs => next_ok (match lookup "next" kvs with Some x => x | None => JNull end) = true
    | _ => next_ok d = true
    end.
  Proof.
    intros Hv.
    assert (Hok : clause_schema_ok = true) by (vm_compute; reflexivity).
    unfold clause_schema_ok in Hok. apply andb_true_iff in Hok. destruct Hok as [Hs Hall].
    destruct (alts_sound' re _ d (is_some_neq _ Hs) Hv) as [a [Ha Hav]].
    rewrite forallb_forall in Hall. specialize (Hall a Ha).
    destruct (has_type_kw TObj a) eqn:Eo.
    - pose proof (has_type_kw_sound re TObj a d Eo Hav) as Ht.
      destruct d as [| | | | |kvs]; simpl in Ht; try discriminate.
      unfold clause_alt_ok in Hall. rewrite Eo in Hall. unfold dict_alt_ok in Hall.
      destruct (lookup "next" kvs) as [x|] eqn:El; [|reflexivity].
      destruct (prop_of "next" a) as [nv|] eqn:Ep.
      + exact (next_schema_sound nv x Hall (prop_sound re a "next" nv kvs x Ep Hav El)).
      + apply existsb_exists in Hall. destruct Hall as [[p sub] [Hps Hp]]. cbn [fst snd] in Hp.
        apply andb_true_iff in Hp. destruct Hp as [Hp Hstr]. apply Nat.eqb_eq in Hp. subst p.
        pose proof (patprop_sound re a kvs pat_nonspace sub "next" x Hav Hps (lookup_In _ _ _ El) re_next) as Hx.
        pose proof (types_among_sound re [TStr] sub x Hstr Hx) as Htx.
        destruct x; simpl in Htx; try discriminate. unfold next_ok. destruct (negb (truthy (JStr s))); reflexivity.
    - pose proof (next_alt_sound a d (nonobj_alt a Eo Hall) Hav) as Hn.
      assert (Hnobj : is_obj d = false).
      { unfold clause_alt_ok in Hall. rewrite Eo in Hall.
        apply orb_true_iff in Hall. destruct Hall as [H|H].
        - pose proof (types_among_sound re [TStr] a d H Hav) as Ht. destruct d; simpl in *; congruence.
        - apply andb_true_iff in H. destruct H as [H _].
          pose proof (has_type_kw_sound re TArr a d H Hav) as Ht. destruct d; simpl in *; congruence. }
      destruct d; try exact Hn. discriminate Hnobj.
  Qed.
End OnClause.

(* ------------------------------------------------------------------------- *)
(* whole documents: building never ends in an internal error                   *)

Definition nocrash (r : res) : Prop := fst r <> VCrash.

Lemma nocrash_ok : nocrash ok. Proof. unfold nocrash; simpl; congruence. Qed.
Lemma nocrash_dsl : nocrash dsl. Proof. unfold nocrash; simpl; congruence. Qed.

Lemma nocrash_guard b k : b = true -> nocrash (k tt) -> nocrash (guard b k).
Proof. intros -> H. exact H. Qed.

Lemma nocrash_andthen a k : nocrash a -> nocrash (k tt) -> nocrash (andthen a k).
Proof.
  unfold nocrash, andthen. intros Ha Hk. destruct (fst a) eqn:E; simpl; congruence.
Qed.

Lemma nocrash_each {A} (f : A -> res) l : (forall x, In x l -> nocrash (f x)) -> nocrash (each f l).
Proof.
  induction l as [|x l IH]; intros H; cbn [each]; [exact nocrash_ok|].
  apply nocrash_andthen; [apply H; left; reflexivity|]. apply IH. intros y Hy. apply H. right. exact Hy.
Qed.

Section Walk.
  Variable re : nat -> string -> bool.
  Variable pp : string -> obj.
  Hypothesis re_next : re pat_nonspace "next" = true.

  Lemma nocrash_step c d k :
    (validate re (schema_of c) d = true -> nocrash (k tt)) -> nocrash (step re c d k).
  Proof.
    unfold step. intros H. destruct (validate re (schema_of c) d) eqn:E.
    - unfold nocrash. simpl. exact (H eq_refl).
    - unfold nocrash. simpl. congruence.
  Qed.

  Lemma nocrash_publish d : nocrash (walk_publish re d).
  Proof.
    unfold walk_publish. apply nocrash_step. intros Hv.
    apply nocrash_guard; [exact (guards_publish re d Hv)|exact nocrash_ok].
  Qed.

  Lemma nocrash_onclause d : nocrash (walk_onclause re d).
  Proof.
    unfold walk_onclause. apply nocrash_step. intros Hv.
    pose proof (guards_onclause re re_next d Hv) as Hg.
    destruct d as [| | | | |kvs]; try (apply nocrash_guard; [exact Hg|exact nocrash_ok]).
    apply nocrash_andthen.
    - destruct (nonnull (lookup "publish" kvs)); [apply nocrash_publish|exact nocrash_ok].
    - apply nocrash_guard; [exact Hg|exact nocrash_ok].
  Qed.

  Lemma nocrash_retry v : nocrash (walk_retry re pp v).
  Proof.
    unfold walk_retry. apply nocrash_step. intros Hv.
    apply nocrash_guard; [|exact nocrash_ok].
    apply (guards_retry re); [exact Hv|]. destruct v; reflexivity.
  Qed.

  Lemma nocrash_policies src : nocrash (walk_policies re pp src).
  Proof.
    unfold walk_policies. apply nocrash_step. intros _.
    destruct (nonnull (lookup "retry" (group src))); [apply nocrash_retry|exact nocrash_ok].
  Qed.

  Lemma nocrash_clauses kvs : nocrash (walk_clauses re kvs).
  Proof.
    unfold walk_clauses. apply nocrash_each. intros key _.
    destruct (nonnull (lookup key kvs)); [apply nocrash_onclause|exact nocrash_ok].
  Qed.

  Lemma nocrash_defaults d : nocrash (walk_defaults re pp d).
  Proof.
    unfold walk_defaults. apply nocrash_step. intros Hv.
    pose proof (guards_defaults re d Hv) as Ho. destruct d; try discriminate Ho.
    apply nocrash_andthen; [apply nocrash_policies|apply nocrash_clauses].
  Qed.

  Lemma task_schemas_ok :
    task_schema_ok S_DirectWorkflowTaskSpec = true /\ task_schema_ok S_ReverseWorkflowTaskSpec = true /\
    has_type_kw TObj S_DirectWorkflowTaskSpec = true /\ has_type_kw TObj S_ReverseWorkflowTaskSpec = true.
  Proof. vm_compute. auto. Qed.

  Lemma params_allowed_merge i p : params_allowed i p = true -> merge_ok i p = true.
  Proof. unfold params_allowed, merge_ok. destruct p; [reflexivity|]. destruct i as [[| | | | |o]|]; congruence. Qed.

  Lemma nocrash_task direct d : nocrash (walk_task re pp direct d).
  Proof.
    unfold walk_task. apply nocrash_step. intros Hv.
    destruct task_schemas_ok as [HD [HR [HoD HoR]]].
    assert (Hobj : has_type TObj d = true).
    { destruct direct; [exact (has_type_kw_sound re TObj _ d HoD Hv)|exact (has_type_kw_sound re TObj _ d HoR Hv)]. }
    destruct d as [| | | | |t]; simpl in Hobj; try discriminate.
    assert (Hg : task_pre_ok t = true /\ with_items_ok t = true).
    { destruct direct; [exact (guards_task re _ t HD Hv)|exact (guards_task re _ t HR Hv)]. }
    destruct Hg as [Hpre Hwi].
    apply nocrash_guard; [exact Hpre|]. apply nocrash_guard; [exact Hwi|].
    apply nocrash_andthen; [apply nocrash_policies|].
    destruct (params_allowed (lookup "input" t) (task_params pp t)) eqn:Ep; cbn [negb]; [|exact nocrash_dsl].
    apply nocrash_guard; [exact (params_allowed_merge _ _ Ep)|].
    destruct direct; [apply nocrash_clauses|exact nocrash_ok].
  Qed.

  Lemma wf_schemas_ok : wf_schema_ok S_DirectWorkflowSpec = true /\ wf_schema_ok S_ReverseWorkflowSpec = true.
  Proof. vm_compute. auto. Qed.

  Lemma nocrash_wf_body direct w :
    present (lookup "name" w) = true -> nocrash (walk_wf_body re pp direct w).
  Proof.
    intros Hname. unfold walk_wf_body. apply nocrash_step. intros Hv.
    destruct wf_schemas_ok as [HD HR].
    assert (Hg : entries_ok (lookup "input" w) = true /\ exists ts, lookup "tasks" w = Some (JObj ts)).
    { destruct direct; [exact (guards_wf re _ w HD Hv)|exact (guards_wf re _ w HR Hv)]. }
    destruct Hg as [Hent [ts Hts]]. rewrite Hts.
    destruct (is_empty_obj ts || present (lookup "version" ts)); [exact nocrash_dsl|].
    apply nocrash_guard; [rewrite Hname, Hent; reflexivity|].
    apply nocrash_andthen.
    - destruct (nonnull (lookup "task-defaults" w)); [apply nocrash_defaults|exact nocrash_ok].
    - apply nocrash_each. intros [k v] _. unfold walk_task_entry.
      destruct (String.eqb k "version"); [exact nocrash_ok|].
      destruct v as [| | | | |t]; try exact nocrash_dsl. apply nocrash_task.
  Qed.

  Lemma nocrash_wf w : present (lookup "name" w) = true -> nocrash (walk_wf re pp w).
  Proof.
    intros Hname. unfold walk_wf. destruct (dispatch_of w); try exact nocrash_dsl; apply nocrash_wf_body; exact Hname.
  Qed.

  Lemma present_name_inject k m : present (lookup "name" (inject k m)) = true.
  Proof.
    unfold inject. rewrite lookup_set_neq by discriminate. rewrite lookup_set_eq. reflexivity.
  Qed.

  Lemma nocrash_action d : nocrash (walk_action re pp d).
  Proof.
    unfold walk_action. apply nocrash_step. intros Hv.
    destruct (guards_action re pp d Hv) as [a [-> [H1 H2]]].
    apply nocrash_guard; [exact H1|]. apply nocrash_guard; [exact H2|exact nocrash_ok].
  Qed.

  Lemma list_schemas_ok : list_schema_ok S_WorkflowListSpec = true /\ list_schema_ok S_ActionListSpec = true.
  Proof. vm_compute. auto. Qed.

  Lemma nocrash_list c member d :
    list_schema_ok (schema_of c) = true ->
    (forall k m, match d with JObj kvs => In (k, JObj m) kvs | _ => False end -> nocrash (member (inject k m))) ->
    nocrash (walk_list re c member d).
  Proof.
    intros Hs Hm. unfold walk_list. apply nocrash_step. intros Hv.
    destruct (guards_list re _ d Hs Hv) as [kvs [-> Hobj]].
    destruct (Nat.ltb (Datatypes.length kvs) 2); [exact nocrash_dsl|].
    apply nocrash_each. intros [k v] Hkv. cbn [fst snd].
    destruct (String.eqb k "version") eqn:Ek; [exact nocrash_ok|].
    pose proof (Hobj k v Hkv Ek) as Ho. destruct v; try discriminate Ho.
    apply Hm. exact Hkv.
  Qed.

  (* SCHEMA GUARDS BUILD, workflow definitions: for every document (any JSON-like value), any
     regex oracle that knows that "next" has no whitespace and any inline-parameter oracle,
     get_workflow_list_spec_from_yaml does not end in an internal error: it accepts or raises
     a definition error. *)
  Theorem wf_list_no_internal_error d : nocrash (walk_wf_list re pp d).
  Proof.
    unfold walk_wf_list. apply nocrash_list; [exact (proj1 list_schemas_ok)|].
    intros k m _. apply nocrash_wf. apply present_name_inject.
  Qed.

  (* ... action definitions *)
  Theorem action_list_no_internal_error d : nocrash (walk_action_list re pp d).
  Proof.
    unfold walk_action_list. apply nocrash_list; [exact (proj2 list_schemas_ok)|].
    intros k m _. apply nocrash_action.
  Qed.

  (* ... workbooks, for any version-parsing oracle *)
  Variable fl : string -> bool.

  Theorem workbook_no_internal_error d : nocrash (walk_wb re pp fl d).
  Proof.
    unfold walk_wb. destruct (negb (version_ok fl (or_empty d))); [exact nocrash_dsl|].
    apply nocrash_step. intros Hv.
    destruct (guards_workbook re _ Hv) as [wb [Ewb [Hname [Hact Hwf]]]]. rewrite Ewb in *.
    apply nocrash_guard; [exact Hname|].
    apply nocrash_andthen.
    - unfold walk_section. destruct (nonnull (lookup "actions" wb)) as [x|] eqn:Ea; [|exact nocrash_ok].
      pose proof (Hact x eq_refl) as Ho. destruct x as [| | | | |sec]; try discriminate Ho.
      apply nocrash_each. intros [k v] _. cbn [fst snd].
      destruct (String.eqb k "version"); [exact nocrash_ok|].
      destruct v; apply nocrash_action.
    - unfold walk_section. destruct (nonnull (lookup "workflows" wb)) as [x|] eqn:Ea; [|exact nocrash_ok].
      pose proof (Hwf x eq_refl) as Ho. destruct x as [| | | | |sec]; try discriminate Ho.
      apply nocrash_each. intros [k v] _. cbn [fst snd].
      destruct (String.eqb k "version"); [exact nocrash_ok|].
      destruct v as [| | | | |m]; try exact nocrash_dsl.
      apply nocrash_wf. apply present_name_inject.
  Qed.
End Walk.

(* ------------------------------------------------------------------------- *)
(* the documents that ended in an internal error before fix 31aaf4b7 (each is also
   replayed on the real parser by the suite's corpus): now definition errors      *)

Definition re0 : nat -> string -> bool :=
  re_of_table [(pat_nonspace, "next", true); (pat_word, "t1", true); (pat_word, "wf", true);
               (pat_word, "tasks", true); (pat_word, "version", true)].
Definition pp0 : string -> obj :=
  pp_of_table [("std.echo output=1", [("output", JNum 1 1)])].
Definition fl0 : string -> bool := fun _ => false.

Definition noop_task : jv := JObj [("action", JStr "std.noop")].
Definition doc_of (wf : jv) : jv := JObj [("version", JStr "2.0"); ("wf", wf)].

(* a task that is not a dict under a name outside ^\w+$ *)
Definition d4_doc : jv := doc_of (JObj [("tasks", JObj [("my-task", JStr "abc")])]).
(* inline parameters and an expression string as input *)
Definition d5_doc : jv :=
  doc_of (JObj [("tasks", JObj [("t1", JObj [("action", JStr "std.echo output=1"); ("input", JStr "<% $.p %>")])])]).
(* unhashable polymorphic key *)
Definition d3_doc : jv := doc_of (JObj [("type", JArr [JStr "direct"]); ("tasks", JObj [("t1", noop_task)])]).
(* a task called version *)
Definition d11_doc : jv := doc_of (JObj [("tasks", JObj [("version", noop_task); ("t1", noop_task)])]).

Theorem regression_old_witnesses :
  walk_wf_list re0 pp0 d4_doc = (VDsl, [(CWfList, true); (CWfD, true)]) /\
  walk_wf_list re0 pp0 d5_doc = (VDsl, [(CWfList, true); (CWfD, true); (CTaskD, true); (CPolicies, true)]) /\
  walk_wf_list re0 pp0 d3_doc = (VDsl, [(CWfList, true)]) /\
  walk_wf_list re0 pp0 d11_doc = (VDsl, [(CWfList, true); (CWfD, true)]) /\
  walk_wb re0 pp0 fl0 (JNum 5 1) = (VDsl, [(CWb, false)]) /\
  walk_wb re0 pp0 fl0 (JStr "version") = (VDsl, [(CWb, false)]) /\
  fst (walk_wb re0 pp0 fl0 (JObj [("version", JNum 2 1); ("name", JStr "wb")])) = VOk.
Proof. vm_compute. repeat split; reflexivity. Qed.

(* ------------------------------------------------------------------------- *)
(* the per-class statements for the generated schemas                          *)

Lemma guards_task_direct re t :
  validate re S_DirectWorkflowTaskSpec (JObj t) = true -> task_pre_ok t = true /\ with_items_ok t = true.
Proof. apply guards_task. vm_compute. reflexivity. Qed.

Lemma guards_task_reverse re t :
  validate re S_ReverseWorkflowTaskSpec (JObj t) = true -> task_pre_ok t = true /\ with_items_ok t = true.
Proof. apply guards_task. vm_compute. reflexivity. Qed.

Lemma guards_wf_direct re w :
  validate re S_DirectWorkflowSpec (JObj w) = true ->
  entries_ok (lookup "input" w) = true /\ exists ts, lookup "tasks" w = Some (JObj ts).
Proof. apply guards_wf. vm_compute. reflexivity. Qed.

Lemma guards_wf_reverse re w :
  validate re S_ReverseWorkflowSpec (JObj w) = true ->
  entries_ok (lookup "input" w) = true /\ exists ts, lookup "tasks" w = Some (JObj ts).
Proof. apply guards_wf. vm_compute. reflexivity. Qed.

Lemma guards_wf_list re d :
  validate re S_WorkflowListSpec d = true ->
  exists kvs, d = JObj kvs /\ forall k v, In (k, v) kvs -> String.eqb k "version" = false -> is_obj v = true.
Proof. apply guards_list. vm_compute. reflexivity. Qed.

Lemma guards_action_list re d :
  validate re S_ActionListSpec d = true ->
  exists kvs, d = JObj kvs /\ forall k v, In (k, v) kvs -> String.eqb k "version" = false -> is_obj v = true.
Proof. apply guards_list. vm_compute. reflexivity. Qed.

(* a non-trivial accepted document inside the class of the theorems *)
Definition good_doc : jv :=
  doc_of (JObj [("task-defaults", JObj [("retry", JStr "count=2 delay=1")]);
                ("tasks", JObj [("t1", JObj [("action", JStr "std.echo output=1"); ("input", JObj [("a", JNum 2 1)]);
                                             ("on-success", JArr [JStr "t2"])]);
                                ("t2", noop_task)])]).
Definition re1 : nat -> string -> bool :=
  re_of_table [(pat_nonspace, "next", true); (pat_nonspace, "t2", true); (pat_word, "t1", true); (pat_word, "t2", true);
               (pat_word, "a", true); (pat_word, "wf", true)].
Definition pp1 : string -> obj :=
  pp_of_table [("std.echo output=1", [("output", JNum 1 1)]);
               ("count=2 delay=1", [("count", JNum 2 1); ("delay", JNum 1 1)])].

Lemma good_doc_accepted :
  re1 pat_nonspace "next" = true /\
  fst (walk_wf_list re1 pp1 good_doc) = VOk /\ List.length (snd (walk_wf_list re1 pp1 good_doc)) = 10.
Proof. vm_compute. auto. Qed.

(* ------------------------------------------------------------------------- *)
(* the inline-parameter oracle `pp` and the with-items literal are total: every json.loads over
   the text of a string value (Gen/Reparse.v, enumerated from the source) sits in a `try` that
   catches every exception, so an inner literal either parses or is kept / rejected - it never
   escapes as ValueError (more than 4300 digits) or RecursionError (deep nesting) *)
Require Import Mistral.Gen.Reparse.

Lemma reparse_json_guarded :
  forallb (fun s => snd s) json_loads_sites = true /\ List.length json_loads_sites = 2 /\
  List.length reparse_sites = 27.
Proof. vm_compute. auto. Qed.
