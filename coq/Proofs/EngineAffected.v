(* Completeness of find_indirectly_affected_task_executions (Model/Engine.v: affected / affected_walk) with
   respect to the logical state of joins (join_logical, induced_state, possible_route), for EVERY program
   (cycles, any join kinds), every state and every id order:

     when one task execution changes (its state, its routes, any field but name and id), every OTHER join
     that has a task execution and whose logical state (RUNNING / ERROR / WAITING) is different afterwards is
     in the set the engine schedules a refresh for.

   This is the lemma a WAITING join's wake-up rests on: `check_affected` registers a refresh job exactly for
   `affected sp s (name of the completed task)`.  The argument: the logical state of a join J reads the last
   task execution of each inbound task, and - for inbound tasks without one - `possible_route`, which
   recursively reads the last executions of their inbound tasks; so a change of task p's execution can only
   be seen by J along a chain p -> m1 -> ... -> J of outbound edges whose intermediate tasks have no
   execution (chain); the walk follows outbound edges from p and stops only at joins that have one, so it
   reaches every such J (walk invariant + fuel potential).  No proofs elsewhere depend on this file. *)
From Coq Require Import List Bool Arith Lia.
Require Import Mistral.Gen.States Mistral.Model.Engine.
Import ListNotations.

Lemma mem_nat_In x l : mem_nat x l = true <-> In x l.
Proof.
  unfold mem_nat. rewrite existsb_exists. split.
  - intros [y [Hy E]]. apply Nat.eqb_eq in E. subst. exact Hy.
  - intros H. exists x. split; [exact H|apply Nat.eqb_refl].
Qed.

Lemma mem_nat_false x l : mem_nat x l = false <-> ~ In x l.
Proof. rewrite <- mem_nat_In. destruct (mem_nat x l); split; intros H; try congruence; try discriminate; exfalso; apply H; reflexivity. Qed.

Lemma existsb_differs {A} (f g : A -> bool) l : existsb f l <> existsb g l -> exists x, In x l /\ f x <> g x.
Proof.
  induction l as [|a l IH]; simpl; intros H; [congruence|].
  destruct (Bool.bool_dec (f a) (g a)) as [E|E].
  - rewrite E in H. destruct (g a); simpl in H; [congruence|]. destruct (IH H) as [x [Hx Hd]]. exists x. split; [right; exact Hx|exact Hd].
  - exists a. split; [left; reflexivity|exact E].
Qed.

Section Aff.
Variable sp : spec.

Lemma inbound_outbound m n : In m (inbound sp n) -> In n (outbound sp m).
Proof. unfold inbound. intros H. apply filter_In in H. destruct H as [_ H]. apply mem_nat_In. exact H. Qed.

Lemma outbound_out_of_range n : length sp <= n -> outbound sp n = [].
Proof.
  intros H. unfold outbound, get_ts. rewrite nth_overflow by exact H. reflexivity.
Qed.

(* ------------------------------------------------------------ the last execution of a task name *)
Definition tkey (r : trow) : nat * nat := (t_name r, t_uid r).

Lemma find_last_aux_keys : forall l l' name i acc, map tkey l = map tkey l' ->
  find_last_by_name_aux l name i acc = find_last_by_name_aux l' name i acc.
Proof.
  induction l as [|r l IH]; intros l' name i acc H; destruct l' as [|r' l']; try discriminate H; [reflexivity|].
  simpl in H. injection H as Hn Hu Hl. simpl. rewrite Hn, Hu. apply IH. exact Hl.
Qed.

Lemma find_last_keys s s' name : map tkey (tasks s') = map tkey (tasks s) -> find_last_by_name s' name = find_last_by_name s name.
Proof. intros H. unfold find_last_by_name. rewrite (find_last_aux_keys _ _ name 0 None H). reflexivity. Qed.

Lemma find_last_aux_name : forall l name i acc k u,
  find_last_by_name_aux l name i acc = Some (k, u) ->
  acc = Some (k, u) \/ (i <= k /\ k < i + length l /\ t_name (nth (k - i) l dummy_trow) = name).
Proof.
  induction l as [|r l IH]; intros name i acc k u H; simpl in H; [left; exact H|].
  apply IH in H. destruct H as [H|[H1 [H2 H3]]].
  - destruct (Nat.eqb (t_name r) name) eqn:En; [|left; exact H].
    apply Nat.eqb_eq in En.
    assert (Hk : acc = Some (k, u) \/ k = i).
    { destruct acc as [[j v]|].
      - destruct (Nat.leb v (t_uid r)); [injection H as <- <-; right; reflexivity|left; exact H].
      - injection H as <- <-. right. reflexivity. }
    destruct Hk as [Hk|Hk]; [left; exact Hk|]. subst k. right. split; [lia|]. split; [simpl; lia|]. rewrite Nat.sub_diag. exact En.
  - right. split; [lia|]. split; [simpl; lia|]. replace (k - i) with (S (k - S i)) by lia. exact H3.
Qed.

Lemma find_last_name s name k : find_last_by_name s name = Some k -> t_name (get_task s k) = name.
Proof.
  unfold find_last_by_name. destruct (find_last_by_name_aux (tasks s) name 0 None) as [[j u]|] eqn:E; [|discriminate].
  intros H. injection H as <-. apply find_last_aux_name in E. destruct E as [E|[_ [_ E]]]; [discriminate|].
  rewrite Nat.sub_0_r in E. exact E.
Qed.

(* ------------------------------------------------------------ who can see a change of task p's execution *)
(* p reaches n through outbound edges whose intermediate tasks have no task execution *)
Inductive chain (s : st) (p : nat) : nat -> Prop :=
| ch_direct n : In n (outbound sp p) -> chain s p n
| ch_step m n : chain s p m -> find_last_by_name s m = None -> In n (outbound sp m) -> chain s p n.

Section Change.
Variables s s' : st.
Variable tid : nat.
Hypothesis Hkeys : map tkey (tasks s') = map tkey (tasks s).
Hypothesis Hrows : forall k, k <> tid -> get_task s' k = get_task s k.
Let p := t_name (get_task s tid).

Lemma possible_route_change : forall f path name,
  possible_route f sp s' path name <> possible_route f sp s path name -> chain s p name.
Proof.
  induction f as [|f IH]; intros path name H; [exfalso; apply H; reflexivity|].
  cbn [possible_route] in H. destruct (mem_nat name path); [exfalso; apply H; reflexivity|].
  destruct (inbound sp name) as [|i0 ins] eqn:Ei; [exfalso; apply H; reflexivity|]. rewrite <- Ei in H.
  apply existsb_differs in H. destruct H as [m [Hm Hd]].
  rewrite (find_last_keys s s' m Hkeys) in Hd.
  destruct (find_last_by_name s m) as [k|] eqn:Ek.
  - destruct (Nat.eq_dec k tid) as [->|Hne]; [|rewrite (Hrows k Hne) in Hd; exfalso; apply Hd; reflexivity].
    apply ch_direct. apply find_last_name in Ek. unfold p. rewrite Ek. apply inbound_outbound. exact Hm.
  - apply (ch_step s p m name); [apply (IH _ _ Hd)|exact Ek|apply inbound_outbound; exact Hm].
Qed.

Lemma induced_state_change m j : In m (inbound sp j) ->
  induced_state sp s' m j <> induced_state sp s m j -> chain s p j.
Proof.
  intros Hm H. unfold induced_state in H. rewrite (find_last_keys s s' m Hkeys) in H.
  destruct (find_last_by_name s m) as [k|] eqn:Ek.
  - destruct (Nat.eq_dec k tid) as [->|Hne]; [|rewrite (Hrows k Hne) in H; exfalso; apply H; reflexivity].
    apply ch_direct. apply find_last_name in Ek. unfold p. rewrite Ek. apply inbound_outbound. exact Hm.
  - apply (ch_step s p m j); [|exact Ek|apply inbound_outbound; exact Hm].
    apply (possible_route_change (S (length sp)) [] m). intros E. apply H. rewrite E. reflexivity.
Qed.

Lemma join_logical_change j : join_logical sp s' j <> join_logical sp s j -> chain s p j.
Proof.
  intros H. destruct (list_eq_dec (fun a b : induced => ltac:(decide equality) : {a = b} + {a <> b})
                        (map (fun m => induced_state sp s' m j) (inbound sp j)) (map (fun m => induced_state sp s m j) (inbound sp j))) as [E|E].
  - exfalso. apply H. unfold join_logical. rewrite E. reflexivity.
  - assert (Hex : exists m, In m (inbound sp j) /\ induced_state sp s' m j <> induced_state sp s m j).
    { clear H. induction (inbound sp j) as [|a l IH]; [exfalso; apply E; reflexivity|].
      destruct (ltac:(decide equality) : {induced_state sp s' a j = induced_state sp s a j} + {induced_state sp s' a j <> induced_state sp s a j}) as [Ea|Ea].
      - destruct IH as [m [Hm Hd]]; [intros El; apply E; simpl; rewrite Ea, El; reflexivity|]. exists m. split; [right; exact Hm|exact Hd].
      - exists a. split; [left; reflexivity|exact Ea]. }
    destruct Hex as [m [Hm Hd]]. exact (induced_state_change m j Hm Hd).
Qed.
End Change.

(* ------------------------------------------------------------ the walk reaches every such join *)
Section Walk.
Variable s : st.
Variable p : nat.

Definition jrow (n : nat) : option nat := if is_join sp n then find_last_by_name s n else None.

(* everything taken off the work list has been dealt with *)
Definition WInv (work visited acc : list nat) : Prop :=
  (forall n, In n visited -> n = p \/
     match jrow n with
     | Some t => In t acc
     | None => forall x, In x (outbound sp n) -> In x visited \/ In x work
     end) /\
  (forall x, In x (outbound sp p) -> In x visited \/ In x work).

Definition wsum (l visited : list nat) : nat :=
  fold_right (fun n a => (if mem_nat n visited then 0 else length (outbound sp n)) + a) 0 l.
Definition potential (work visited : list nat) : nat := length work + wsum (seq 0 (length sp)) visited.

Lemma wsum_cons l a v : wsum (a :: l) v = (if mem_nat a v then 0 else length (outbound sp a)) + wsum l v.
Proof. reflexivity. Qed.
Lemma mem_nat_cons a n v : mem_nat a (n :: v) = Nat.eqb a n || mem_nat a v.
Proof. reflexivity. Qed.

Lemma wsum_notin l n visited : ~ In n l -> wsum l (n :: visited) = wsum l visited.
Proof.
  induction l as [|a l IH]; intros H; [reflexivity|]. rewrite !wsum_cons, mem_nat_cons, IH by (intros Q; apply H; right; exact Q).
  assert (E : Nat.eqb a n = false) by (apply Nat.eqb_neq; intros ->; apply H; left; reflexivity). rewrite E. reflexivity.
Qed.

Lemma wsum_visit l n visited : NoDup l -> mem_nat n visited = false ->
  wsum l (n :: visited) + (if mem_nat n l then length (outbound sp n) else 0) = wsum l visited.
Proof.
  induction l as [|a l IH]; intros Hnd Hv; [reflexivity|].
  inversion Hnd as [|? ? Ha Hl]; subst. rewrite !wsum_cons, !mem_nat_cons.
  destruct (Nat.eqb n a) eqn:En.
  - apply Nat.eqb_eq in En. subst a. rewrite Nat.eqb_refl. cbn [orb]. rewrite Hv.
    rewrite (wsum_notin l n visited Ha). lia.
  - assert (E' : Nat.eqb a n = false) by (rewrite Nat.eqb_sym; exact En). rewrite E'. cbn [orb].
    specialize (IH Hl Hv). destruct (mem_nat a visited); lia.
Qed.

Lemma potential_visit n rest visited : mem_nat n visited = false ->
  potential (rest ++ outbound sp n) (n :: visited) = potential rest visited.
Proof.
  intros Hv. unfold potential. rewrite app_length.
  pose proof (wsum_visit (seq 0 (length sp)) n visited (seq_NoDup _ _) Hv) as H.
  destruct (mem_nat n (seq 0 (length sp))) eqn:Em.
  - lia.
  - apply mem_nat_false in Em. rewrite (outbound_out_of_range n) in * by (destruct (Nat.lt_ge_cases n (length sp)) as [Hl|Hl]; [exfalso; apply Em; apply in_seq; lia|exact Hl]).
    simpl. lia.
Qed.

Lemma potential_mark n rest visited : mem_nat n visited = false ->
  potential rest (n :: visited) <= potential rest visited.
Proof.
  intros Hv. unfold potential.
  pose proof (wsum_visit (seq 0 (length sp)) n visited (seq_NoDup _ _) Hv) as H. lia.
Qed.

Lemma walk_inv : forall f work visited acc,
  WInv work visited acc -> potential work visited < f ->
  exists visited', WInv [] visited' (affected_walk f sp s work visited acc).
Proof.
  induction f as [|f IH]; intros work visited acc [I1 I2] Hf; [lia|].
  cbn [affected_walk]. destruct work as [|n rest]; [exists visited; split; assumption|].
  destruct (mem_nat n visited) eqn:Ev.
  - apply IH.
    + apply mem_nat_In in Ev. split.
      * intros m Hm. destruct (I1 m Hm) as [E|H]; [left; exact E|right]. destruct (jrow m); [exact H|].
        intros x Hx. destruct (H x Hx) as [Q|[<-|Q]]; auto.
      * intros x Hx. destruct (I2 x Hx) as [Q|[<-|Q]]; auto.
    + unfold potential in *. simpl in Hf. lia.
  - fold (jrow n). destruct (jrow n) as [t|] eqn:Ej.
    + apply IH.
      * split.
        -- intros m [<-|Hm].
           ++ right. rewrite Ej. destruct (mem_nat t acc) eqn:Ea; [apply mem_nat_In; exact Ea|apply in_or_app; right; left; reflexivity].
           ++ destruct (I1 m Hm) as [E|H]; [left; exact E|right]. destruct (jrow m) as [t'|].
              ** destruct (mem_nat t acc); [exact H|apply in_or_app; left; exact H].
              ** intros x Hx. destruct (H x Hx) as [Q|[<-|Q]]; [left; right; exact Q|left; left; reflexivity|right; exact Q].
        -- intros x Hx. destruct (I2 x Hx) as [Q|[<-|Q]]; [left; right; exact Q|left; left; reflexivity|right; exact Q].
      * pose proof (potential_mark n rest visited Ev). unfold potential in *. simpl in Hf. lia.
    + apply IH.
      * split.
        -- intros m [<-|Hm].
           ++ right. rewrite Ej. intros x Hx. right. apply in_or_app. right. exact Hx.
           ++ destruct (I1 m Hm) as [E|H]; [left; exact E|right]. destruct (jrow m) as [t'|]; [exact H|].
              intros x Hx. destruct (H x Hx) as [Q|[<-|Q]]; [left; right; exact Q|left; left; reflexivity|right; apply in_or_app; left; exact Q].
        -- intros x Hx. destruct (I2 x Hx) as [Q|[<-|Q]]; [left; right; exact Q|left; left; reflexivity|right; apply in_or_app; left; exact Q].
      * rewrite (potential_visit n rest visited Ev). unfold potential in *. simpl in Hf. lia.
Qed.

Lemma wsum_le_sum_out visited : wsum (seq 0 (length sp)) visited <= sum_out sp.
Proof.
  unfold wsum, sum_out. induction (seq 0 (length sp)) as [|a l IH]; simpl; [lia|]. destruct (mem_nat a visited); lia.
Qed.

Theorem walk_complete j t :
  chain s p j -> j <> p -> is_join sp j = true -> find_last_by_name s j = Some t -> In t (affected sp s p).
Proof.
  intros Hc Hne Hj Ht. unfold affected.
  destruct (walk_inv (S (length sp + sum_out sp + length (outbound sp p))) (outbound sp p) [p] []) as [visited' [I1 I2]].
  - split.
    + intros n [<-|[]]. left. reflexivity.
    + intros x Hx. right. exact Hx.
  - unfold potential. pose proof (wsum_le_sum_out [p]). lia.
  - set (res := affected_walk _ sp s (outbound sp p) [p] []) in *.
    assert (Hclosed : forall n, chain s p n -> In n visited').
    { intros n Hn. induction Hn as [n Hn|m n Hm IH Hr Hn].
      - destruct (I2 n Hn) as [Q|[]]. exact Q.
      - destruct (I1 m IH) as [->|H].
        + destruct (I2 n Hn) as [Q|[]]. exact Q.
        + unfold jrow in H. rewrite Hr in H. destruct (is_join sp m); destruct (H n Hn) as [Q|[]]; exact Q. }
    destruct (I1 j (Hclosed j Hc)) as [E|H]; [contradiction|]. unfold jrow in H. rewrite Hj, Ht in H. exact H.
Qed.
End Walk.

(* ------------------------------------------------------------ the theorem *)
(* s' differs from s in the task execution tid only (not in its name or id); p is that task's name *)
Theorem affected_complete s s' tid j t :
  map tkey (tasks s') = map tkey (tasks s) ->
  (forall k, k <> tid -> get_task s' k = get_task s k) ->
  let p := t_name (get_task s tid) in
  j <> p -> is_join sp j = true -> find_last_by_name s' j = Some t ->
  join_logical sp s' j <> join_logical sp s j ->
  In t (affected sp s' p).
Proof.
  intros Hk Hr p Hne Hj Ht Hd.
  pose proof (join_logical_change s s' tid Hk Hr j Hd) as Hc. fold p in Hc.
  apply walk_complete with (j := j); try assumption.
  clear - Hc Hk. induction Hc as [n Hn|m n Hm IH Hrl Hn]; [apply ch_direct; exact Hn|].
  apply (ch_step s' p m n IH); [rewrite (find_last_keys s s' m Hk); exact Hrl|exact Hn].
Qed.
End Aff.

(* the instance the engine uses: Task.complete rewrites one task execution (state, routes, flags) and
   `check_affected` then registers a refresh job for every member of `affected` *)
Lemma set_nth_keys : forall (l : list trow) k r, k < length l -> tkey r = tkey (nth k l dummy_trow) ->
  map tkey (set_nth k r l) = map tkey l.
Proof.
  induction l as [|a l IH]; intros k r Hk Hr; simpl in Hk; [lia|]. destruct k as [|k]; simpl.
  - rewrite Hr. reflexivity.
  - rewrite IH by (try lia; exact Hr). reflexivity.
Qed.

Lemma set_nth_other {A} (d : A) : forall (l : list A) k x j, j <> k -> nth j (set_nth k x l) d = nth j l d.
Proof.
  induction l as [|a l IH]; intros k x j Hne; [destruct k; reflexivity|]. destruct k as [|k]; destruct j as [|j]; simpl; try reflexivity; try lia.
  apply IH. lia.
Qed.

Lemma keys_name s s' k : map tkey (tasks s') = map tkey (tasks s) -> t_name (get_task s' k) = t_name (get_task s k).
Proof.
  intros H. unfold get_task.
  change (t_name (nth k (tasks s') dummy_trow)) with (fst (tkey (nth k (tasks s') dummy_trow))).
  change (t_name (nth k (tasks s) dummy_trow)) with (fst (tkey (nth k (tasks s) dummy_trow))).
  rewrite <- !(map_nth tkey). rewrite H. reflexivity.
Qed.

(* s0: before the task execution tid changed, s: after it (completed); the workflow is still running *)
Theorem changed_joins_get_refresh sp s0 s tid j t ops :
  map tkey (tasks s) = map tkey (tasks s0) ->
  (forall k, k <> tid -> get_task s k = get_task s0 k) ->
  is_completed (t_state (get_task s tid)) = true -> is_completed (wf_state s) = false ->
  j <> t_name (get_task s tid) -> is_join sp j = true -> find_last_by_name s j = Some t ->
  join_logical sp s j <> join_logical sp s0 j ->
  In (OSchedRefresh t) (snd (check_affected sp (s, ops) tid)).
Proof.
  intros Hk Hr Hc Hw Hne Hj Ht Hd. unfold check_affected. cbn [fst snd]. rewrite Hc, Hw. cbn [negb snd].
  apply in_or_app. right. apply in_map. rewrite (keys_name s0 s tid Hk) in *.
  exact (affected_complete sp s0 s tid j t Hk Hr Hne Hj Ht Hd).
Qed.

(* Task.complete's own writes keep the name and the id of the task execution *)
Lemma upd_task_keys s tid r : tid < length (tasks s) -> tkey r = tkey (get_task s tid) ->
  map tkey (tasks (upd_task s tid r)) = map tkey (tasks s) /\ (forall k, k <> tid -> get_task (upd_task s tid r) k = get_task s k).
Proof.
  intros Hl Hr. split; [apply set_nth_keys; assumption|]. intros k Hne. unfold get_task, upd_task. cbn [tasks]. apply set_nth_other. exact Hne.
Qed.

(* hypotheses met, through a task that has no execution: 0 -on-success-> 1 -> 2 (join all of 1 and 3); 3 has
   succeeded and created the join's execution, 1 has none; task 0 fails: 1 can never run, the join's logical
   state turns from WAITING to ERROR, and the walk from task 0 passes through task 1 to reach it *)
Example affected_complete_nonvacuous :
  let sp := [ mkTspec JNone [(TTask 1, GTrue)] [] [] [] [OErr];
              mkTspec JNone [(TTask 2, GTrue)] [] [] [] [OOk];
              mkTspec JAll [] [] [] [] [OOk];
              mkTspec JNone [(TTask 2, GTrue)] [] [] [] [OOk] ] in
  let row0 := mkTrow 0 RUNNING false [] false false false 0 [] in
  let row3 := mkTrow 3 SUCCESS true [(2, OnSuccess)] true false false 1 [] in
  let rowj := mkTrow 2 WAITING false [] false false true 2 [1] in
  let s0 := mkSt true RUNNING [] [row0; row3; rowj] [] [] [] [] in
  let s := upd_task s0 0 (mkTrow 0 ERROR true [] false false false 0 []) in
  map tkey (tasks s) = map tkey (tasks s0) /\ (forall k, k <> 0 -> get_task s k = get_task s0 k) /\
  is_completed (t_state (get_task s 0)) = true /\ is_completed (wf_state s) = false /\
  is_join sp 2 = true /\ find_last_by_name s 2 = Some 2 /\ find_last_by_name s 1 = None /\
  join_logical sp s0 2 = WAITING /\ join_logical sp s 2 = ERROR /\
  affected sp s 0 = [2] /\ snd (check_affected sp (s, []) 0) = [OSchedRefresh 2].
Proof.
  split; [reflexivity|]. split.
  - intros k Hk. destruct k as [|[|[|k]]]; try reflexivity; try congruence.
  - vm_compute. repeat split.
Qed.
