(* C02 (id order): the only place where the engine model depends on the database's row order
   (ORDER BY random uuid) is "the last execution with a given task name".  When every task name
   has at most one execution - every acyclic run without reruns - that choice, hence the join
   logical state, does not depend on the ids at all. *)
From Coq Require Import List Bool Arith Lia.
Require Import Mistral.Gen.States Mistral.Model.PySort Mistral.Model.Engine.
Import ListNotations.

(* rows equal up to their id rank *)
Definition same_row (a b : trow) : Prop :=
  t_name a = t_name b /\ t_state a = t_state b /\ t_processed a = t_processed b /\ t_next a = t_next b /\
  t_has_next a = t_has_next b /\ t_err_handled a = t_err_handled b /\ t_unique a = t_unique b /\ t_trig a = t_trig b.

Definition same_rows (l l' : list trow) : Prop := Forall2 same_row l l'.

Lemma find_last_aux_none l name : forall i acc,
  ~ In name (map t_name l) -> find_last_by_name_aux l name i acc = acc.
Proof.
  induction l as [|r l IH]; intros i acc Hn; simpl; [reflexivity|].
  simpl in Hn. destruct (Nat.eqb (t_name r) name) eqn:E.
  - apply Nat.eqb_eq in E. exfalso. apply Hn. left. exact E.
  - apply IH. intros H. apply Hn. right. exact H.
Qed.

(* with unique names the index found is the position of the single row with that name,
   whatever the id ranks and the accumulator's rank *)
Lemma find_last_aux_unique l name : forall l' i,
  same_rows l l' -> NoDup (map t_name l) ->
  option_map fst (find_last_by_name_aux l name i None) = option_map fst (find_last_by_name_aux l' name i None).
Proof.
  induction l as [|r l IH]; intros l' i Hs Hn; inversion Hs as [|? r' ? l'' Hr Hl]; subst; simpl; [reflexivity|].
  inversion Hn as [|? ? Hnot Hnd]; subst.
  destruct Hr as (En & _).
  destruct (Nat.eqb (t_name r) name) eqn:E.
  - rewrite <- En, E.
    apply Nat.eqb_eq in E.
    assert (H1 : ~ In name (map t_name l)) by (rewrite <- E; exact Hnot).
    assert (H2 : ~ In name (map t_name l'')).
    { intros Hin. apply H1. clear -Hl Hin. induction Hl as [|a b la lb Hab Hl IHl]; simpl in *; [exact Hin|].
      destruct Hin as [Hin|Hin]; [left; destruct Hab as (Ea & _); congruence|right; auto]. }
    rewrite (find_last_aux_none l name (S i) _ H1), (find_last_aux_none l'' name (S i) _ H2). reflexivity.
  - rewrite <- En, E. apply IH; assumption.
Qed.

Theorem last_by_name_id_independent s s' name :
  same_rows (tasks s) (tasks s') -> NoDup (map t_name (tasks s)) ->
  find_last_by_name s name = find_last_by_name s' name.
Proof.
  intros Hs Hn. unfold find_last_by_name.
  pose proof (find_last_aux_unique (tasks s) name (tasks s') 0 Hs Hn) as H.
  destruct (find_last_by_name_aux (tasks s) name 0 None) as [[i u]|];
    destruct (find_last_by_name_aux (tasks s') name 0 None) as [[j v]|]; simpl in H; congruence.
Qed.
