(* Safety theorems about Model/Engine.v used by C03, C04, C06, C10, C11:
   - command dispatch never touches action executions; a delivered result is final and a
     second delivery is rejected without any change (accept once);
   - while the workflow is PAUSED no event except resume creates a task execution;
   - once the workflow is completed no event except rerun/skip creates a task execution
     or changes the workflow state;
   - stop(state) makes the workflow hold the requested state;
   - a join's action is scheduled by the refresh job only when its logical state is RUNNING.
   All for every program, state, uid oracle and event. *)
From Coq Require Import List Bool Arith Lia.
Require Import Mistral.Gen.States Mistral.Model.PySort Mistral.Model.Engine.
Require Import Mistral.Proofs.StatesProofs Mistral.Proofs.EngineMutual Mistral.Proofs.EngineWf.
Import ListNotations.

Lemma set_nth_length {A} n (x : A) l : length (set_nth n x l) = length l.
Proof. revert n. induction l as [|y l IH]; intros [|n]; simpl; auto. Qed.

(* ================================================================= actions *)
(* dispatch / completion never modify the action table *)
Definition Pacts (a b : tx) : Prop := acts (fst b) = acts (fst a).

Lemma acts_defer sp s name trig : acts (fst (fst (defer sp s name trig))) = acts s.
Proof.
  unfold defer. destruct (find_join_exec s name true); [reflexivity|].
  destruct (find_join_exec s name false); [|reflexivity]. destruct (_ && _); reflexivity.
Qed.

Lemma acts_set_workflow_state s x s1 : set_workflow_state s x = Some s1 -> acts s1 = acts s.
Proof.
  unfold set_workflow_state, stop_workflow, pause_workflow, succeed_workflow, fail_workflow, cancel_workflow,
    wf_set_state.
  repeat match goal with
         | |- context [if ?b then _ else _] => destruct b
         | |- context [match ?x with _ => _ end] => destruct x
         end; intros H; inversion H; reflexivity.
Qed.

Lemma dispatch_acts sp fuel :
  (forall t cmds, Pacts t (fst (process_cmds sp fuel t cmds))) /\
  (forall t cmds, Pacts t (fst (dispatch sp fuel t cmds))) /\
  (forall t tid x, Pacts t (fst (complete_task sp fuel t tid x))).
Proof.
  apply mutual_P; unfold Pacts.
  - reflexivity.
  - intros a b c H1 H2. congruence.
  - reflexivity.
  - reflexivity.
  - intros t name w trig _ _. unfold run_task_cmd. destruct w.
    + pose proof (acts_defer sp (fst t) name trig) as H. destruct (defer sp (fst t) name trig) as [[s1 tid] chk]. exact H.
    + reflexivity.
  - intros t tid a b _ _. unfold run_existing_cmd. simpl. destruct (_ && _); [reflexivity|]. destruct (_ && _); reflexivity.
  - intros t x s1 _ _ H. simpl. apply acts_set_workflow_state in H. exact H.
  - intros t tid x. unfold complete_pre. destruct (_ && _); [reflexivity|].
    destruct (if is_completed _ then _ else _); [|reflexivity].
    cbv zeta. destruct (is_paused _); reflexivity.
Qed.

Lemma acts_check_affected sp t tid : acts (fst (check_affected sp t tid)) = acts (fst t).
Proof. unfold check_affected. destruct (negb _); [reflexivity|]. destruct (is_completed _); reflexivity. Qed.

Lemma acts_commit t : acts (commit t) = acts (fst t).
Proof. unfold commit. destruct (snd t); reflexivity. Qed.

Lemma wf_set_state_inv s x s1 : wf_set_state s x = Some s1 -> s1 = set_wf_state s x.
Proof. unfold wf_set_state. destruct (is_valid_transition _ _) as [[|]|]; intros H; inversion H; reflexivity. Qed.

Lemma fail_workflow_inv s s1 : fail_workflow s = Some s1 -> s1 = s \/ s1 = set_wf_state s ERROR.
Proof.
  unfold fail_workflow. destruct (is_completed _); intros H.
  - inversion H. left. reflexivity.
  - right. apply wf_set_state_inv. exact H.
Qed.

Definition hdr_only (s s1 : st) : Prop := s1 = s \/ exists x, s1 = set_wf_state s x.

Lemma wf_set_state_hdr s x s1 : wf_set_state s x = Some s1 -> hdr_only s s1.
Proof. intros H. right. exists x. apply wf_set_state_inv. exact H. Qed.

Lemma stop_workflow_hdr s x s1 : stop_workflow s x = Some s1 -> hdr_only s s1.
Proof.
  unfold stop_workflow, succeed_workflow, fail_workflow, cancel_workflow.
  destruct x; try (intros H; inversion H; left; reflexivity).
  - destruct (state_eqb _ SUCCESS); [intros H; inversion H; left; reflexivity|apply wf_set_state_hdr].
  - destruct (is_completed _); [intros H; inversion H; left; reflexivity|apply wf_set_state_hdr].
  - destruct (is_completed _); [intros H; inversion H; left; reflexivity|apply wf_set_state_hdr].
Qed.

Lemma pause_workflow_hdr s s1 : pause_workflow s = Some s1 -> hdr_only s s1.
Proof.
  unfold pause_workflow. destruct (is_paused _); [intros H; inversion H; left; reflexivity|apply wf_set_state_hdr].
Qed.

Lemma check_and_complete_hdr s s1 : check_and_complete s = Some s1 -> hdr_only s s1.
Proof.
  unfold check_and_complete, cancel_workflow, succeed_workflow, fail_workflow.
  destruct (is_completed (wf_state s)); [intros H; inversion H; left; reflexivity|].
  destruct (is_paused_or_completed (wf_state s)); [intros H; inversion H; left; reflexivity|].
  destruct (Nat.ltb 0 (incomplete_count s)); [intros H; inversion H; left; reflexivity|].
  destruct (any_cancels s); [apply wf_set_state_hdr|].
  destruct (all_errors_handled s); [|apply wf_set_state_hdr].
  destruct (state_eqb _ SUCCESS); [intros H; inversion H; left; reflexivity|apply wf_set_state_hdr].
Qed.

Lemma hdr_only_ntasks s s1 : hdr_only s s1 -> length (tasks s1) = length (tasks s).
Proof. intros [-> | [x ->]]; reflexivity. Qed.

Lemma acts_force_fail s tid : acts (force_fail s tid) = acts s.
Proof.
  unfold force_fail. cbv zeta. set (s1 := upd_task s tid _).
  destruct (fail_workflow s1) as [s2|] eqn:E; [|reflexivity].
  apply fail_workflow_inv in E. destruct E as [-> | ->]; reflexivity.
Qed.

Lemma get_act_upd s aid r : aid < length (acts s) -> get_act (upd_act s aid r) aid = r.
Proof.
  unfold get_act, upd_act. simpl. generalize (acts s). intros l. revert aid.
  induction l as [|y l IH]; intros [|n] H; simpl in *; try lia; auto. apply IH. lia.
Qed.

(* an accepted result makes the action completed ... *)
Theorem result_accepted_completes sp s aid res s' :
  do_result sp s aid res = (s', Ok) ->
  aid < length (acts s) /\ aid < length (acts s') /\
  is_completed (a_state (get_act s' aid)) = true /\ a_accepted (get_act s' aid) = true.
Proof.
  unfold do_result. cbv zeta.
  destruct (Nat.leb (length (acts s)) aid) eqn:El; [discriminate|]. apply Nat.leb_gt in El.
  destruct (is_completed (a_state (get_act s aid))) eqn:Ec; [discriminate|].
  set (s1 := upd_act s aid _).
  pose proof (proj2 (proj2 (dispatch_acts sp (FUEL sp s1))) (s1, []) (a_task (get_act s aid))
                    (state_of_outcome res)) as H. unfold Pacts in H. simpl in H.
  destruct (complete_task sp (FUEL sp s1) (s1, []) (a_task (get_act s aid)) (state_of_outcome res)) as [t1 fl].
  simpl in H.
  assert (Hs' : forall sx, acts sx = acts s1 ->
            aid < length (acts sx) /\ is_completed (a_state (get_act sx aid)) = true /\ a_accepted (get_act sx aid) = true).
  { intros sx Hx. unfold get_act. rewrite Hx. fold (get_act s1 aid). unfold s1 at 1. simpl.
    rewrite set_nth_length. split; [exact El|]. unfold s1. rewrite get_act_upd by exact El. simpl.
    split; [|reflexivity]. destruct res; reflexivity. }
  destruct fl; intros E; inversion E; subst s'.
  - destruct (Hs' (commit (check_affected sp t1 (a_task (get_act s aid))))) as (A & B & C).
    { rewrite acts_commit, acts_check_affected. exact H. }
    repeat split; assumption.
  - destruct (Hs' (commit (force_fail (fst t1) (a_task (get_act s aid)), snd t1))) as (A & B & C).
    { rewrite acts_commit. simpl. rewrite acts_force_fail. exact H. }
    repeat split; assumption.
Qed.

(* ... and any further delivery for a completed action is rejected and changes nothing *)
Theorem completed_action_rejects sp s aid res :
  is_completed (a_state (get_act s aid)) = true ->
  step sp s (EDup (IResult aid res)) = (s, Internal).
Proof.
  intros Hc. simpl. unfold do_result. cbv zeta.
  destruct (Nat.leb (length (acts s)) aid); [reflexivity|]. rewrite Hc. reflexivity.
Qed.

Theorem duplicate_result_inert sp s aid res res' s' :
  do_result sp s aid res = (s', Ok) ->
  step sp s' (EDup (IResult aid res')) = (s', Internal).
Proof.
  intros H. apply result_accepted_completes in H. destruct H as (_ & _ & Hc & _).
  apply completed_action_rejects. exact Hc.
Qed.

(* ================================================================ task creation *)
Definition ntasks (s : st) : nat := length (tasks s).

(* while PAUSED / once completed: dispatch creates no task execution and keeps the workflow state *)
Definition quiet (s : st) : bool := state_eqb (wf_state s) PAUSED || is_completed (wf_state s).

Definition Pq (a b : tx) : Prop :=
  quiet (fst a) = true -> ntasks (fst b) = ntasks (fst a) /\ wf_state (fst b) = wf_state (fst a).

Lemma quiet_split s : quiet s = true ->
  (is_completed (wf_state s) = false /\ state_eqb (wf_state s) PAUSED = true) \/ is_completed (wf_state s) = true.
Proof.
  unfold quiet. destruct (is_completed (wf_state s)); [right; reflexivity|].
  rewrite orb_false_r. intros H. left. split; [reflexivity|exact H].
Qed.

Lemma dispatch_quiet sp fuel :
  (forall t cmds, Pq t (fst (process_cmds sp fuel t cmds))) /\
  (forall t cmds, Pq t (fst (dispatch sp fuel t cmds))) /\
  (forall t tid x, Pq t (fst (complete_task sp fuel t tid x))).
Proof.
  apply mutual_P; unfold Pq.
  - intros t _. split; reflexivity.
  - intros a b c H1 H2 Hq. destruct (H1 Hq) as [N1 W1].
    assert (Hqb : quiet (fst b) = true) by (unfold quiet in *; rewrite W1; exact Hq).
    destruct (H2 Hqb) as [N2 W2]. split; congruence.
  - intros t c _ _ _. split; reflexivity.
  - intros t _. split; reflexivity.
  - intros t name w trig Hc Hp Hq. unfold quiet in Hq. rewrite Hc, Hp in Hq. discriminate.
  - intros t tid a b Hc Hp Hq. unfold quiet in Hq. rewrite Hc, Hp in Hq. discriminate.
  - intros t x s1 Hc Hp _ Hq. unfold quiet in Hq. rewrite Hc, Hp in Hq. discriminate.
  - intros t tid x. unfold complete_pre. destruct (_ && _); [intros _; split; reflexivity|].
    destruct (if is_completed _ then _ else _).
    + cbv zeta. destruct (is_paused _); intros _; unfold ntasks; simpl; rewrite !set_nth_length; split; reflexivity.
    + intros _. unfold ntasks. simpl. rewrite set_nth_length. split; reflexivity.
Qed.

Lemma ntasks_check_affected sp t tid : ntasks (fst (check_affected sp t tid)) = ntasks (fst t).
Proof. unfold check_affected. destruct (negb _); [reflexivity|]. destruct (is_completed _); reflexivity. Qed.
Lemma ntasks_commit t : ntasks (commit t) = ntasks (fst t).
Proof. unfold commit. destruct (snd t); reflexivity. Qed.
Lemma ntasks_force_fail s tid : ntasks (force_fail s tid) = ntasks s.
Proof.
  unfold force_fail. cbv zeta. set (s1 := upd_task s tid _).
  assert (H1 : ntasks s1 = ntasks s) by (unfold ntasks, s1; simpl; apply set_nth_length).
  destruct (fail_workflow s1) as [s2|] eqn:E; [|exact H1].
  apply fail_workflow_inv in E. destruct E as [-> | ->]; exact H1.
Qed.

Lemma ntasks_do_start_task sp s tid f r x : ntasks (fst (do_start_task sp s tid f r x)) = ntasks s.
Proof.
  unfold do_start_task. cbv zeta. destruct (Nat.leb _ _); [reflexivity|].
  destruct f.
  - destruct (is_idle _); simpl; rewrite ntasks_commit, ntasks_check_affected; unfold ntasks; simpl;
      rewrite ?set_nth_length; reflexivity.
  - destruct (negb r && negb (is_idle _)); [simpl; rewrite ntasks_commit; reflexivity|].
    destruct (negb r).
    + simpl. rewrite ntasks_commit, ntasks_check_affected. unfold ntasks. simpl. rewrite set_nth_length. reflexivity.
    + destruct (state_eqb _ SUCCESS); [reflexivity|]. simpl.
      rewrite ntasks_commit, ntasks_check_affected. unfold ntasks. simpl. rewrite set_nth_length. reflexivity.
Qed.

Lemma ntasks_run_ops sp ops : forall s, ntasks (run_ops sp s ops) = ntasks s.
Proof.
  induction ops as [|o ops IH]; intros s; simpl; [reflexivity|]. rewrite IH.
  destruct o as [tid f r x|aid| |tid]; simpl; try reflexivity.
  - destruct (check_and_complete s) as [s'|] eqn:E; [|reflexivity].
    apply check_and_complete_hdr, hdr_only_ntasks in E. exact E.
  - destruct (has_refresh_job s tid); reflexivity.
Qed.

Lemma do_result_quiet sp s aid res :
  quiet s = true -> ntasks (fst (do_result sp s aid res)) = ntasks s.
Proof.
  intros Hq. unfold do_result. cbv zeta.
  destruct (Nat.leb _ _); [reflexivity|]. destruct (is_completed (a_state _)); [reflexivity|].
  set (s1 := upd_act s aid _).
  pose proof (proj2 (proj2 (dispatch_quiet sp (FUEL sp s1))) (s1, []) (a_task (get_act s aid))
                    (state_of_outcome res)) as H. unfold Pq in H. simpl in H.
  specialize (H Hq). destruct H as [N _].
  destruct (complete_task sp (FUEL sp s1) (s1, []) (a_task (get_act s aid)) (state_of_outcome res)) as [t1 fl].
  simpl in N. destruct fl; simpl.
  - rewrite ntasks_commit, ntasks_check_affected. exact N.
  - rewrite ntasks_commit. simpl. rewrite ntasks_force_fail. exact N.
Qed.

Lemma refresh_body_quiet sp s tid lg :
  quiet s = true -> ntasks (fst (refresh_body sp s tid lg)) = ntasks s.
Proof.
  intros Hq. unfold refresh_body. cbv zeta.
  destruct (state_eqb lg RUNNING).
  - simpl. rewrite ntasks_commit, ntasks_check_affected. unfold ntasks. simpl. rewrite set_nth_length. reflexivity.
  - destruct (state_eqb lg ERROR); [|reflexivity].
    pose proof (proj2 (proj2 (dispatch_quiet sp (FUEL sp s))) (s, []) tid ERROR) as H. unfold Pq in H. simpl in H.
    specialize (H Hq). destruct H as [N _].
    destruct (complete_task sp (FUEL sp s) (s, []) tid ERROR) as [t1 fl]. simpl in N.
    destruct fl; simpl.
    + rewrite ntasks_commit, ntasks_check_affected. exact N.
    + rewrite ntasks_commit. simpl. rewrite ntasks_force_fail. exact N.
Qed.

Lemma do_refresh_quiet sp s tid :
  quiet s = true -> ntasks (fst (do_refresh sp s tid)) = ntasks s.
Proof.
  intros Hq. unfold do_refresh. cbv zeta.
  destruct (_ || _); [reflexivity|]. destruct (is_completed (wf_state s)); [reflexivity|].
  rewrite refresh_body_quiet; [unfold ntasks; simpl; apply set_nth_length|exact Hq].
Qed.

Lemma ntasks_stop s x s1 : stop_workflow s x = Some s1 -> ntasks s1 = ntasks s.
Proof. intros H. apply stop_workflow_hdr, hdr_only_ntasks in H. exact H. Qed.

Lemma ntasks_pause s s1 : pause_workflow s = Some s1 -> ntasks s1 = ntasks s.
Proof. intros H. apply pause_workflow_hdr, hdr_only_ntasks in H. exact H. Qed.

(* C10: while the (created) workflow is PAUSED, no event except resume creates a task *)
Theorem paused_no_task_creation sp s e :
  wf_created s = true -> wf_state s = PAUSED -> e <> EResume ->
  ntasks (fst (step sp s e)) = ntasks s.
Proof.
  intros Hc Hp He.
  assert (Hq : quiet s = true) by (unfold quiet; rewrite Hp; reflexivity).
  destruct e as [|i|n| | |x|tid reset|tid|i|]; simpl.
  - rewrite Hc. reflexivity.
  - destruct (remove_first (item_eqb i) (pend s)) as [[it rest]|]; [|reflexivity].
    assert (Hq0 : quiet (set_pend s rest) = true) by exact Hq.
    destruct it as [tid f r x|aid|aid res|ops|tid].
    + rewrite ntasks_do_start_task. reflexivity.
    + reflexivity.
    + pose proof (do_result_quiet sp (set_pend s rest) aid res Hq0) as H.
      destruct (do_result sp (set_pend s rest) aid res) as [s1 o]. simpl in H.
      destruct o; simpl; try reflexivity. exact H.
    + reflexivity.
    + rewrite do_refresh_quiet by exact Hq0. reflexivity.
  - destruct (remove_nth_ptq n (pend s)) as [[ops rest]|]; [|reflexivity].
    simpl. rewrite ntasks_run_ops. reflexivity.
  - rewrite Hc. simpl. destruct (pause_workflow s) as [s1|] eqn:E; [|reflexivity].
    simpl. apply ntasks_pause in E. exact E.
  - congruence.
  - rewrite Hc. simpl. destruct (stop_workflow s x) as [s1|] eqn:E; [|reflexivity].
    simpl. apply ntasks_stop in E. exact E.
  - rewrite Hc. simpl. destruct (Nat.leb _ _); [reflexivity|]. rewrite Hp. reflexivity.
  - rewrite Hc. simpl. destruct (Nat.leb _ _); [reflexivity|]. rewrite Hp. reflexivity.
  - destruct i as [tid f r x|aid|aid res|ops|tid]; try reflexivity.
    + rewrite ntasks_do_start_task. reflexivity.
    + pose proof (do_result_quiet sp s aid res Hq) as H.
      destruct (do_result sp s aid res) as [s1 o]. simpl in H. destruct o; simpl; try reflexivity. exact H.
  - reflexivity.
Qed.

(* C11: once the workflow is completed, no event except rerun / skip creates a task
   or changes the workflow state *)
Theorem completed_no_task_creation sp s e :
  wf_created s = true -> is_completed (wf_state s) = true -> is_rerun e = false ->
  ntasks (fst (step sp s e)) = ntasks s.
Proof.
  intros Hc Hp He.
  assert (Hq : quiet s = true) by (unfold quiet; rewrite Hp; apply orb_true_r).
  destruct e as [|i|n| | |x|tid reset|tid|i|]; simpl; try discriminate He.
  - rewrite Hc. reflexivity.
  - destruct (remove_first (item_eqb i) (pend s)) as [[it rest]|]; [|reflexivity].
    assert (Hq0 : quiet (set_pend s rest) = true) by exact Hq.
    destruct it as [tid f r x|aid|aid res|ops|tid].
    + rewrite ntasks_do_start_task. reflexivity.
    + reflexivity.
    + pose proof (do_result_quiet sp (set_pend s rest) aid res Hq0) as H.
      destruct (do_result sp (set_pend s rest) aid res) as [s1 o]. simpl in H.
      destruct o; simpl; try reflexivity. exact H.
    + reflexivity.
    + rewrite do_refresh_quiet by exact Hq0. reflexivity.
  - destruct (remove_nth_ptq n (pend s)) as [[ops rest]|]; [|reflexivity].
    simpl. rewrite ntasks_run_ops. reflexivity.
  - rewrite Hc. simpl. destruct (pause_workflow s) as [s1|] eqn:E; [|reflexivity].
    simpl. apply ntasks_pause in E. exact E.
  - rewrite Hc. simpl.
    assert (Hn : is_paused_or_idle (wf_state s) = false).
    { destruct (wf_state s); vm_compute in Hp |- *; congruence. }
    rewrite Hn. reflexivity.
  - rewrite Hc. simpl. destruct (stop_workflow s x) as [s1|] eqn:E; [|reflexivity].
    simpl. apply ntasks_stop in E. exact E.
  - destruct i as [tid f r x|aid|aid res|ops|tid]; try reflexivity.
    + rewrite ntasks_do_start_task. reflexivity.
    + pose proof (do_result_quiet sp s aid res Hq) as H.
      destruct (do_result sp s aid res) as [s1 o]. simpl in H. destruct o; simpl; try reflexivity. exact H.
  - reflexivity.
Qed.

Theorem completed_state_frozen sp s e :
  wf_created s = true -> is_completed (wf_state s) = true -> is_rerun e = false ->
  live_wf_state (wf_state s) = true ->
  wf_state (fst (step sp s e)) = wf_state s.
Proof.
  intros Hc Hp He Hl.
  destruct (wf_state s) eqn:Ew; simpl in Hp, Hl; try discriminate.
  - rewrite <- Ew. rewrite (success_final sp s e Hc Ew). congruence.
  - rewrite <- Ew. apply failed_left_only_by_rerun; auto.
  - rewrite <- Ew. apply failed_left_only_by_rerun; auto.
Qed.

(* ==================================================================== stop *)
(* C11: an accepted stop makes the workflow hold the requested state (after the F9 fix
   also from PAUSED); a refused one (declared error) changes nothing *)
Theorem stop_holds_state sp s x :
  wf_created s = true -> (x = SUCCESS \/ x = ERROR \/ x = CANCELLED) ->
  let r := step sp s (EStop x) in
  (snd r = Ok /\ (wf_state (fst r) = x \/ (is_completed (wf_state s) = true /\ wf_state (fst r) = wf_state s)))
  \/ (snd r = Declared /\ fst r = s).
Proof.
  intros Hc Hx. simpl. rewrite Hc. simpl.
  destruct (stop_workflow s x) as [s1|] eqn:E; [left|right; split; reflexivity].
  split; [reflexivity|]. simpl.
  unfold stop_workflow, succeed_workflow, fail_workflow, cancel_workflow in E.
  destruct Hx as [-> | [-> | ->]].
  - destruct (state_eqb (wf_state s) SUCCESS) eqn:Es.
    + inversion E; subst. right. split; [destruct (wf_state s1); try discriminate Es; reflexivity|reflexivity].
    + apply wf_set_state_valid in E. left. apply E.
  - destruct (is_completed (wf_state s)) eqn:Ec.
    + inversion E; subst. right. split; reflexivity.
    + apply wf_set_state_valid in E. left. apply E.
  - destruct (is_completed (wf_state s)) eqn:Ec.
    + inversion E; subst. right. split; reflexivity.
    + apply wf_set_state_valid in E. left. apply E.
Qed.

(* ============================================================ join start *)
(* the refresh job gives a WAITING join an action only when its logical state is RUNNING *)
Theorem refresh_starts_only_if_logically_running sp s tid :
  length (acts (fst (do_refresh sp s tid))) <> length (acts s) ->
  logical_state sp s tid = RUNNING /\ is_completed (wf_state s) = false /\
  is_completed (t_state (get_task s tid)) = false /\ t_state (get_task s tid) <> RUNNING.
Proof.
  unfold do_refresh. cbv zeta.
  destruct (is_completed (t_state (get_task s tid))) eqn:E1; simpl; [intros H; exfalso; apply H; reflexivity|].
  destruct (state_eqb (t_state (get_task s tid)) RUNNING) eqn:E2; [intros H; exfalso; apply H; reflexivity|].
  destruct (is_completed (wf_state s)) eqn:E3; [intros H; exfalso; apply H; reflexivity|].
  set (s' := upd_task s tid _). unfold refresh_body. cbv zeta.
  destruct (state_eqb (logical_state sp s tid) RUNNING) eqn:E4.
  - intros _. repeat split; try reflexivity.
    + destruct (logical_state sp s tid); simpl in E4; try discriminate; reflexivity.
    + intros Hx. rewrite Hx in E2. discriminate.
  - destruct (state_eqb (logical_state sp s tid) ERROR); [|intros H; exfalso; apply H; reflexivity].
    pose proof (proj2 (proj2 (dispatch_acts sp (FUEL sp s'))) (s', []) tid ERROR) as H. unfold Pacts in H. simpl in H.
    destruct (complete_task sp (FUEL sp s') (s', []) tid ERROR) as [t1 fl]. simpl in H.
    destruct fl; simpl; intros Hx; exfalso; apply Hx.
    + rewrite acts_commit, acts_check_affected, H. reflexivity.
    + rewrite acts_commit. simpl. rewrite acts_force_fail, H. reflexivity.
Qed.

(* join_logical = RUNNING means enough inbound tasks completed and routed to the join *)
Theorem join_running_needs_cardinality sp s name :
  join_logical sp s name = RUNNING -> inbound sp name <> [] ->
  let inds := map (fun m => induced_state sp s m name) (inbound sp name) in
  match ts_join (get_ts sp name) with
  | JAll => count_ind IndRunning inds = length inds
  | JOne => 1 <= count_ind IndRunning inds
  | JNum k => k <= count_ind IndRunning inds
  | JNone => True
  end.
Proof.
  unfold join_logical. destruct (inbound sp name) as [|m ins] eqn:Ei; [intros _ H; congruence|].
  intros H _. cbv zeta in *.
  set (inds := map (fun m0 => induced_state sp s m0 name) (m :: ins)) in *.
  destruct (ts_join (get_ts sp name)) eqn:Ej; [trivial| | |].
  - destruct (Nat.eqb (length inds) (count_ind IndRunning inds)) eqn:E.
    + apply Nat.eqb_eq in E. symmetry. exact E.
    + destruct (Nat.ltb 0 _); discriminate H.
  - destruct (Nat.leb 1 (count_ind IndRunning inds)) eqn:E.
    + apply Nat.leb_le in E. exact E.
    + destruct (Nat.ltb _ _); discriminate H.
  - destruct (Nat.leb k (count_ind IndRunning inds)) eqn:E.
    + apply Nat.leb_le in E. exact E.
    + destruct (Nat.ltb _ _); discriminate H.
Qed.

(* an inbound task induces RUNNING only if its (DB-last) execution is completed and its saved
   next_tasks contain the join *)
Theorem induced_running_sound sp s inb join :
  induced_state sp s inb join = IndRunning ->
  exists tid, find_last_by_name s inb = Some tid /\
              is_completed (t_state (get_task s tid)) = true /\ routes_to (get_task s tid) join = true.
Proof.
  unfold induced_state. destruct (find_last_by_name s inb) as [tid|].
  - cbv zeta. destruct (is_completed (t_state (get_task s tid))) eqn:E; simpl; [|discriminate].
    destruct (routes_to (get_task s tid) join) eqn:R; [|discriminate].
    intros _. exists tid. repeat split; assumption.
  - destruct (possible_route _ _ _ _ _); discriminate.
Qed.
