(* Proofs about Model/Norm.v (property C14): the normalisation applied by the spec
   constructors is idempotent, so a specification rebuilt from its own to_dict()
   (the stored form) is the same specification. *)
From Coq Require Import List String ZArith Bool.
Require Import Mistral.Model.Jv Mistral.Model.Norm.
Import ListNotations.
Open Scope string_scope.

(* ---- association lists ---- *)

Lemma lookup_set_eq k v l : lookup k (set k v l) = Some v.
Proof.
  induction l as [|[k' v'] l IH]; simpl.
  - rewrite String.eqb_refl. reflexivity.
  - destruct (String.eqb k k') eqn:E; simpl; rewrite E; auto.
Qed.

Lemma lookup_set_neq k k' v l : k <> k' -> lookup k (set k' v l) = lookup k l.
Proof.
  intros Hne. induction l as [|[k2 v2] l IH]; simpl.
  - apply String.eqb_neq in Hne. rewrite Hne. reflexivity.
  - destruct (String.eqb k' k2) eqn:E; simpl.
    + apply String.eqb_eq in E. subst k2.
      apply String.eqb_neq in Hne. rewrite Hne. reflexivity.
    + destruct (String.eqb k k2); auto.
Qed.

Lemma set_same k v l : lookup k l = Some v -> set k v l = l.
Proof.
  induction l as [|[k' v'] l IH]; simpl; [discriminate|].
  destruct (String.eqb k k') eqn:E.
  - intros H. injection H as ->. reflexivity.
  - intros H. rewrite IH by exact H. reflexivity.
Qed.

Lemma set_set k v v' l : set k v (set k v' l) = set k v l.
Proof.
  induction l as [|[k2 v2] l IH]; simpl.
  - rewrite String.eqb_refl. reflexivity.
  - destruct (String.eqb k k2) eqn:E; simpl; rewrite E; [reflexivity|]. rewrite IH. reflexivity.
Qed.

Lemma set_keys_in k v l : lookup k l <> None -> map fst (set k v l) = map fst l.
Proof.
  induction l as [|[k' v'] l IH]; simpl; [congruence|].
  destruct (String.eqb k k') eqn:E; simpl; [reflexivity|].
  intros H. rewrite IH by exact H. reflexivity.
Qed.

(* ---- merge of inline parameters ---- *)

Lemma merge_flat_fix left params :
  Forall (fun kv => lookup (fst kv) left = Some (snd kv)) params ->
  merge_flat left params = left.
Proof.
  unfold merge_flat. induction params as [|[k v] ps IH]; cbn [fold_left]; [reflexivity|].
  intros H. inversion H as [|x l H1 H2]; subst. cbn [fst snd] in *.
  rewrite (set_same _ _ _ H1). apply IH. exact H2.
Qed.

Lemma merge_flat_other k left params :
  ~ In k (map fst params) -> lookup k (merge_flat left params) = lookup k left.
Proof.
  unfold merge_flat. revert left. induction params as [|[k' v'] ps IH]; intros left Hn; cbn [fold_left]; [reflexivity|].
  cbn [map fst] in Hn. rewrite IH by (intros Hc; apply Hn; right; exact Hc).
  cbn [fst snd]. apply lookup_set_neq. intros ->. apply Hn. left. reflexivity.
Qed.

Lemma merge_flat_has left params :
  NoDup (map fst params) ->
  Forall (fun kv => lookup (fst kv) (merge_flat left params) = Some (snd kv)) params.
Proof.
  unfold merge_flat. revert left. induction params as [|[k v] ps IH]; intros left Hnd; [constructor|].
  cbn [map fst] in Hnd. inversion Hnd as [|x l Hnin Hnd']; subst.
  constructor.
  - cbn [fold_left fst snd].
    change (lookup k (merge_flat (set k v left) ps) = Some v).
    rewrite merge_flat_other by exact Hnin. apply lookup_set_eq.
  - cbn [fold_left]. apply IH. exact Hnd'.
Qed.

Lemma merge_flat_idem left params :
  NoDup (map fst params) ->
  merge_flat (merge_flat left params) params = merge_flat left params.
Proof. intros H. apply merge_flat_fix, merge_flat_has, H. Qed.

Section WithParams.
  Variable pp : string -> obj.
  (* the inline parameters of a command form a Python dict: keys are distinct *)
  Hypothesis pp_nodup : forall s, NoDup (map fst (pp s)).

  Lemma task_cmd_set k v t : k <> "action" -> k <> "workflow" ->
    task_cmd (set k v t) = task_cmd t.
  Proof.
    intros H1 H2. unfold task_cmd.
    rewrite !(lookup_set_neq "action" k) by congruence.
    rewrite !(lookup_set_neq "workflow" k) by congruence. reflexivity.
  Qed.

  Lemma merge_into_idem key cmd t :
    merge_into pp key cmd (merge_into pp key cmd t) = merge_into pp key cmd t.
  Proof.
    unfold merge_into. destruct cmd as [c|]; [|reflexivity].
    destruct (lookup key t) as [[| | | | |i]|] eqn:E; rewrite ?E; try reflexivity.
    rewrite lookup_set_eq, set_set, merge_flat_idem by apply pp_nodup. reflexivity.
  Qed.

  Lemma merge_into_lookup key cmd t k : k <> key ->
    lookup k (merge_into pp key cmd t) = lookup k t.
  Proof.
    intros Hne. unfold merge_into. destruct cmd as [c|]; [|reflexivity].
    destruct (lookup key t) as [[| | | | |i]|]; try reflexivity.
    apply lookup_set_neq. exact Hne.
  Qed.

  Lemma merge_into_cmd key cmd t : key <> "action" -> key <> "workflow" ->
    task_cmd (merge_into pp key cmd t) = task_cmd t.
  Proof.
    intros H1 H2. unfold merge_into. destruct cmd as [c|]; [|reflexivity].
    destruct (lookup key t) as [[| | | | |i]|]; try reflexivity.
    apply task_cmd_set; assumption.
  Qed.

  Lemma norm_task_obj_idem t : norm_task_obj pp (norm_task_obj pp t) = norm_task_obj pp t.
  Proof.
    unfold norm_task_obj. rewrite merge_into_cmd by discriminate. apply merge_into_idem.
  Qed.

  Lemma norm_task_obj_lookup t k : k <> "input" ->
    lookup k (norm_task_obj pp t) = lookup k t.
  Proof. intros H. unfold norm_task_obj. apply merge_into_lookup. exact H. Qed.

  Lemma norm_task_idem ty kv : norm_task pp ty (norm_task pp ty kv) = norm_task pp ty kv.
  Proof.
    destruct kv as [k v]. unfold norm_task at 2. destruct v as [| | | | |t]; try reflexivity.
    destruct (String.eqb k "version") eqn:Ek.
    - unfold norm_task. rewrite Ek, set_set. reflexivity.
    - unfold norm_task. rewrite Ek.
      set (t3 := set "version" v20 (set "name" (JStr k) (set "type" ty t))).
      assert (Hty : set "type" ty (norm_task_obj pp t3) = norm_task_obj pp t3).
      { apply set_same. rewrite norm_task_obj_lookup by discriminate. unfold t3.
        rewrite !lookup_set_neq by discriminate. apply lookup_set_eq. }
      rewrite Hty.
      assert (Hn : set "name" (JStr k) (norm_task_obj pp t3) = norm_task_obj pp t3).
      { apply set_same. rewrite norm_task_obj_lookup by discriminate. unfold t3.
        rewrite lookup_set_neq by discriminate. apply lookup_set_eq. }
      rewrite Hn.
      assert (Hv : set "version" v20 (norm_task_obj pp t3) = norm_task_obj pp t3).
      { apply set_same. rewrite norm_task_obj_lookup by discriminate. unfold t3.
        apply lookup_set_eq. }
      rewrite Hv, norm_task_obj_idem. reflexivity.
  Qed.

  Lemma wf_type_of_set k v w : k <> "type" -> wf_type_of (set k v w) = wf_type_of w.
  Proof. intros H. unfold wf_type_of. rewrite lookup_set_neq by congruence. reflexivity. Qed.

  Lemma norm_wf_obj_idem w : norm_wf_obj pp (norm_wf_obj pp w) = norm_wf_obj pp w.
  Proof.
    unfold norm_wf_obj. destruct (lookup "tasks" w) as [[| | | | |ts]|] eqn:E; rewrite ?E; try reflexivity.
    rewrite lookup_set_eq, set_set, wf_type_of_set by discriminate.
    rewrite map_map. f_equal. f_equal. apply map_ext. intros kv. apply norm_task_idem.
  Qed.

  Lemma norm_wf_obj_lookup w k : k <> "tasks" -> lookup k (norm_wf_obj pp w) = lookup k w.
  Proof.
    intros H. unfold norm_wf_obj. destruct (lookup "tasks" w) as [[| | | | |ts]|]; try reflexivity.
    apply lookup_set_neq. exact H.
  Qed.

  Lemma norm_action_obj_idem a : norm_action_obj pp (norm_action_obj pp a) = norm_action_obj pp a.
  Proof.
    unfold norm_action_obj.
    assert (H : action_cmd (merge_into pp "base-input" (action_cmd a) a) = action_cmd a).
    { unfold action_cmd. rewrite merge_into_lookup by discriminate. reflexivity. }
    rewrite H. apply merge_into_idem.
  Qed.

  Lemma norm_action_obj_lookup a k : k <> "base-input" ->
    lookup k (norm_action_obj pp a) = lookup k a.
  Proof. intros H. unfold norm_action_obj. apply merge_into_lookup. exact H. Qed.

  (* ---- members, lists, sections: for any builder that is idempotent and keeps name/version ---- *)
  Section Members.
    Variable build : obj -> obj.
    Hypothesis build_idem : forall m, build (build m) = build m.
    Hypothesis build_name : forall m, lookup "name" (build m) = lookup "name" m.
    Hypothesis build_version : forall m, lookup "version" (build m) = lookup "version" m.

    Lemma norm_member_idem kv : norm_member build (norm_member build kv) = norm_member build kv.
    Proof.
      destruct kv as [k v]. unfold norm_member at 2.
      destruct (String.eqb k "version") eqn:Ek.
      - unfold norm_member. rewrite Ek. reflexivity.
      - destruct v as [| | | | |m]; unfold norm_member; rewrite Ek; try reflexivity.
        set (m2 := set "version" v20 (set "name" (JStr k) m)).
        assert (Hn : set "name" (JStr k) (build m2) = build m2).
        { apply set_same. rewrite build_name. unfold m2.
          rewrite lookup_set_neq by discriminate. apply lookup_set_eq. }
        rewrite Hn.
        assert (Hv : set "version" v20 (build m2) = build m2).
        { apply set_same. rewrite build_version. unfold m2. apply lookup_set_eq. }
        rewrite Hv, build_idem. reflexivity.
    Qed.

    Lemma norm_list_idem d : norm_list build (norm_list build d) = norm_list build d.
    Proof.
      destruct d as [| | | | |kvs]; try reflexivity. cbn [norm_list].
      rewrite map_map. f_equal. apply map_ext. apply norm_member_idem.
    Qed.

    Lemma lookup_version_members l :
      lookup "version" (map (norm_member build) l) = lookup "version" l.
    Proof.
      induction l as [|[k v] l IH]; [reflexivity|]. cbn [map].
      unfold norm_member at 1. destruct (String.eqb k "version") eqn:Ek.
      - cbn [lookup]. rewrite String.eqb_sym, Ek. reflexivity.
      - destruct v; cbn [lookup]; rewrite String.eqb_sym, Ek; exact IH.
    Qed.

    Lemma norm_section_fix key x s0 :
      lookup key x = Some (JObj (map (norm_member build) (set "version" v20 s0))) ->
      norm_section build key x = x.
    Proof.
      intros H. unfold norm_section. rewrite H.
      set (s1 := map (norm_member build) (set "version" v20 s0)).
      assert (Hv : set "version" v20 s1 = s1).
      { apply set_same. unfold s1. rewrite lookup_version_members. apply lookup_set_eq. }
      rewrite Hv.
      assert (Hm : map (norm_member build) s1 = s1).
      { unfold s1. rewrite map_map. apply map_ext. apply norm_member_idem. }
      rewrite Hm. apply set_same. exact H.
    Qed.

    Lemma norm_section_lookup key x k : k <> key ->
      lookup k (norm_section build key x) = lookup k x.
    Proof.
      intros H. unfold norm_section. destruct (lookup key x) as [[| | | | |s]|]; try reflexivity.
      apply lookup_set_neq. exact H.
    Qed.

    Lemma norm_section_idem key x :
      norm_section build key (norm_section build key x) = norm_section build key x.
    Proof.
      destruct (lookup key x) as [[| | | | |s]|] eqn:E.
      1-5,7: (assert (Hx : norm_section build key x = x) by (unfold norm_section; rewrite E; reflexivity);
              rewrite !Hx; reflexivity).
      assert (Hx : norm_section build key x
                   = set key (JObj (map (norm_member build) (set "version" v20 s))) x)
        by (unfold norm_section; rewrite E; reflexivity).
      rewrite Hx. apply (norm_section_fix key _ s). apply lookup_set_eq.
    Qed.
  End Members.

  Theorem norm_wf_list_idem d : norm_wf_list pp (norm_wf_list pp d) = norm_wf_list pp d.
  Proof.
    apply norm_list_idem.
    - apply norm_wf_obj_idem.
    - intros m. apply norm_wf_obj_lookup. discriminate.
    - intros m. apply norm_wf_obj_lookup. discriminate.
  Qed.

  Theorem norm_action_list_idem d :
    norm_action_list pp (norm_action_list pp d) = norm_action_list pp d.
  Proof.
    apply norm_list_idem.
    - apply norm_action_obj_idem.
    - intros m. apply norm_action_obj_lookup. discriminate.
    - intros m. apply norm_action_obj_lookup. discriminate.
  Qed.

  Theorem norm_wb_idem d : norm_wb pp (norm_wb pp d) = norm_wb pp d.
  Proof.
    destruct d as [| | | | |wb]; try reflexivity. cbn [norm_wb]. f_equal.
    set (A := norm_section (norm_action_obj pp) "actions").
    set (W := norm_section (norm_wf_obj pp) "workflows").
    assert (HA : A (W (A wb)) = W (A wb)).
    { destruct (lookup "actions" wb) as [[| | | | |s]|] eqn:E.
      1-5,7: (assert (HAwb : A wb = wb) by (unfold A, norm_section; rewrite E; reflexivity);
              rewrite HAwb; unfold A; unfold norm_section at 1; unfold W;
              rewrite norm_section_lookup by discriminate; rewrite E; reflexivity).
      assert (HAwb : A wb = set "actions"
                (JObj (map (norm_member (norm_action_obj pp)) (set "version" v20 s))) wb)
        by (unfold A, norm_section; rewrite E; reflexivity).
      unfold A at 1.
      apply (norm_section_fix _ norm_action_obj_idem
               (fun m => norm_action_obj_lookup m "name" ltac:(discriminate))
               (fun m => norm_action_obj_lookup m "version" ltac:(discriminate))
               "actions" _ s).
      unfold W. rewrite norm_section_lookup by discriminate. rewrite HAwb. apply lookup_set_eq. }
    rewrite HA. unfold W.
    apply (norm_section_idem _ norm_wf_obj_idem
             (fun m => norm_wf_obj_lookup m "name" ltac:(discriminate))
             (fun m => norm_wf_obj_lookup m "version" ltac:(discriminate))).
  Qed.

  (* the specification rebuilt from its own to_dict() is the same specification *)
  Theorem spec_roundtrip_wf w :
    spec_of pp (to_dict (spec_of_wf pp w)) = Some (spec_of_wf pp w).
  Proof.
    unfold spec_of_wf, to_dict, wf_fields. cbn [ws_data spec_of]. unfold spec_of_wf.
    rewrite norm_wf_obj_idem. reflexivity.
  Qed.

End WithParams.
