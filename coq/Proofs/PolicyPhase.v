(* Proofs about Model/Policy.v, part 2 (property C08): the life of a task whose
   configuration is well typed and has no timeout, under EVERY event sequence
   (action results with any outcome and any continue-on / break-on truth values, job firings
   in any order - also early -, clock ticks, resume, repeated starts, results for unknown or
   finished actions).  A phase invariant gives: which attempts happen (the documented retry
   rule), the final verdict, finality, exactly-once dispatch of the follow-up commands, the
   delays (when no job ran early), pause-before. *)
From Coq Require Import List NArith ZArith Bool Lia ZifyBool ZifyN ZifyNat.
Require Import Mistral.Gen.States Mistral.Model.Policy Mistral.Proofs.PolicyBound.
Import ListNotations.
Open Scope N_scope.

Local Arguments N.add : simpl never.
Local Arguments N.of_nat : simpl never.
Local Arguments N.ltb : simpl never.
Local Arguments N.leb : simpl never.
Local Arguments N.eqb : simpl never.

(* ------------------------------------------------------------------ *)
(* the documented retry rule *)

(* what an attempt's result counts as: fail-on turns SUCCESS into ERROR *)
Definition eff (n : ncfg) (x : state) : state := if state_eqb x SUCCESS && n_fail n then ERROR else x.

(* does the task go into another attempt after its (k+1)-th attempt ended with h ? *)
Definition goes (n : ncfg) (k : N) (h : hrec) : bool :=
  retry_decide (n_cnt n) k (eff n (h_res h)) (n_hc n) (h_cont h) (n_hb n) (h_brk h).

Lemma decide_spec cnt k x hc co hb br : result_state x = true ->
  (retry_decide cnt k x hc co hb br = true <->
   k < cnt /\ x <> CANCELLED /\ (x = SUCCESS -> hc = true) /\ (hc = true -> co = true) /\
   ~ (x = ERROR /\ hb = true /\ br = true)).
Proof.
  intros R. unfold retry_decide.
  destruct x; try discriminate R; destruct hc, co, hb, br; cbn; destruct (k <? cnt) eqn:E; cbn; split; intros H;
    try discriminate H; try reflexivity;
    try (repeat split; try lia; try congruence; try (intros; congruence); try (intros (A & B & C); congruence); fail);
    try (exfalso; destruct H as (H1 & H2 & H3 & H4 & H5);
         first [lia | congruence | now (specialize (H3 eq_refl)) | now (specialize (H4 eq_refl))
               | (apply H5; repeat split; reflexivity)]).
Qed.

(* the rule in words: another attempt follows iff retries remain, the attempt was not cancelled,
   a success is only repeated under a continue-on clause, a present continue-on clause holds,
   and a failure is not stopped by break-on *)
Lemma goes_spec n k h : result_state (h_res h) = true ->
  (goes n k h = true <->
   k < n_cnt n /\ eff n (h_res h) <> CANCELLED /\
   (eff n (h_res h) = SUCCESS -> n_hc n = true) /\
   (n_hc n = true -> h_cont h = true) /\
   ~ (eff n (h_res h) = ERROR /\ n_hb n = true /\ h_brk h = true)).
Proof.
  intros R. unfold goes. apply decide_spec.
  unfold eff. destruct (h_res h), (n_fail n); try discriminate R; reflexivity.
Qed.

Lemma retry_n_spec n s :
  retry_n n s =
  if retry_decide (n_cnt n) (rnoN s) (s_state s) (n_hc n) (s_cont s) (n_hb n) (s_brk s)
  then add_job (n_dl n) JContinue (set_state RUNNING_DELAYED IDelay (set_rno (Some (rnoN s + 1)) (invalidate s)))
  else s.
Proof.
  unfold retry_n. destruct (n_cnt n =? 0) eqn:E.
  - unfold retry_decide. destruct (negb _ || _); [reflexivity|].
    assert (rnoN s <? n_cnt n = false) as -> by lia. reflexivity.
  - unfold retry_decide. destruct (negb _ || _); reflexivity.
Qed.

Lemma eff_result n x : result_state x = true -> result_state (eff n x) = true.
Proof. unfold eff. destruct x, (n_fail n); vm_compute; congruence. Qed.

Lemma eff_success n x : eff n x = SUCCESS <-> x = SUCCESS /\ n_fail n = false.
Proof. unfold eff. destruct x, (n_fail n); vm_compute; intuition congruence. Qed.

(* ------------------------------------------------------------------ *)
(* list helpers *)

Definition done_act (a : act) : Prop := result_state (a_state a) = true.

Lemma done_not_running a : done_act a -> state_eqb (a_state a) RUNNING = false.
Proof. unfold done_act. destruct (a_state a); vm_compute; congruence. Qed.

Lemma nth_error_snoc {A} (l : list A) a i b :
  nth_error (l ++ [a]) i = Some b ->
  (nth_error l i = Some b /\ (i < length l)%nat) \/ (i = length l /\ b = a).
Proof.
  intros H. destruct (Nat.lt_ge_cases i (length l)) as [L|L].
  - rewrite nth_error_app1 in H by exact L. auto.
  - rewrite nth_error_app2 in H by exact L.
    destruct (i - length l)%nat as [|m] eqn:E; cbn in H.
    + inversion H. right. split; [lia|reflexivity].
    + destruct m; discriminate.
Qed.

Lemma upd_nth_snoc {A} (l : list A) a b : upd_nth (l ++ [a]) (length l) b = l ++ [b].
Proof. induction l as [|h t IH]; cbn; [reflexivity|]. rewrite IH. reflexivity. Qed.

Lemma nth_error_single {A} (a : A) i b : nth_error [a] i = Some b -> i = 0%nat /\ b = a.
Proof. destruct i as [|[|i]]; cbn; intros H; inversion H; auto. Qed.

Definition allgo (n : ncfg) (l : list hrec) : Prop :=
  forall k h, nth_error l k = Some h -> goes n (N.of_nat k) h = true.

Lemma allgo_nil n : allgo n []. Proof. intros [|k] h H; discriminate. Qed.

Lemma allgo_snoc n l h : allgo n l -> goes n (N.of_nat (length l)) h = true -> allgo n (l ++ [h]).
Proof.
  intros A G k h' H. apply nth_error_snoc in H. destruct H as [(H & _)|(-> & ->)]; auto.
Qed.

(* ------------------------------------------------------------------ *)
(* one completion transaction, by cases *)

Lemma complete_case n x i s :
  is_completed (s_state s) = false -> result_state x = true ->
  let s' := complete_n n x i s in
  (n_wa n <> 0 /\ s_waskip s = false /\
   s' = add_job (n_wa n) (JComplete x i) (set_state RUNNING_DELAYED IDelay (set_waskip true (set_state x i s)))) \/
  ((n_wa n = 0 \/ s_waskip s = true) /\
   retry_decide (n_cnt n) (rnoN s) (eff n x) (n_hc n) (s_cont s) (n_hb n) (s_brk s) = true /\
   exists i', s' = add_job (n_dl n) JContinue
                     (set_state RUNNING_DELAYED IDelay (set_rno (Some (rnoN s + 1)) (invalidate (set_state (eff n x) i' s))))) \/
  ((n_wa n = 0 \/ s_waskip s = true) /\
   retry_decide (n_cnt n) (rnoN s) (eff n x) (n_hc n) (s_cont s) (n_hb n) (s_brk s) = false /\
   exists i', s' = dispatch (set_state (eff n x) i' s)).
Proof.
  intros C R. cbv zeta. unfold complete_n. rewrite C. unfold after_n, wa_n.
  cbn [s_waskip set_state s_state s_info].
  destruct (n_wa n =? 0) eqn:W; [|destruct (s_waskip s) eqn:K].
  3: { left. repeat split; [lia|].
       unfold fail_n. cbn [s_state add_job set_jobs set_state set_waskip state_eqb andb].
       rewrite retry_n_spec. cbn [s_state add_job set_jobs set_state set_waskip].
       unfold retry_decide. cbn [is_completed mem existsb state_eqb negb orb]. reflexivity. }
  all: right.
  all: unfold fail_n; cbn [s_state set_state].
  all: assert (E : exists i', (if state_eqb x SUCCESS && n_fail n then set_state ERROR IFailOn (set_state x i s) else set_state x i s)
                        = set_state (eff n x) i' s)
         by (unfold eff; destruct (state_eqb x SUCCESS && n_fail n); eexists; reflexivity).
  all: destruct E as (i' & E); rewrite E; rewrite retry_n_spec; cbn [s_state set_state s_cont s_brk].
  all: change (rnoN (set_state (eff n x) i' s)) with (rnoN s).
  all: destruct (retry_decide (n_cnt n) (rnoN s) (eff n x) (n_hc n) (s_cont s) (n_hb n) (s_brk s)) eqn:D.
  all: try (left; split; [first [left; lia|right; reflexivity]|split; [reflexivity|exists i'; reflexivity]]).
  all: right; split; [first [left; lia|right; reflexivity]|split; [reflexivity|exists i']].
  all: pose proof (eff_result n x R) as RE; destruct (eff n x); try discriminate RE; reflexivity.
Qed.

(* ------------------------------------------------------------------ *)
(* the invariant *)

Definition Glob (n : ncfg) (s : st) : Prop :=
  (forall h, In h (s_hist s) -> h_time h <= s_now s /\ result_state (h_res h) = true) /\
  (s_early s = false -> forall k a h, nth_error (s_acts s) (S k) = Some a -> nth_error (s_hist s) k = Some h ->
     h_time h + n_dl n <= a_start a) /\
  (s_early s = false -> n_pause n = false -> forall a t0, nth_error (s_acts s) 0 = Some a -> s_t0 s = Some t0 ->
     t0 + n_wb n <= a_start a) /\
  (s_early s = false -> forall t x h0, In (t, x) (s_disp s) -> nth_error (s_hist s) 0 = Some h0 -> h_time h0 + n_wa n <= t).

Inductive ph := PIdle | PWb | PRun | PWa | PRt | PFin.

Definition rno_of (l : list hrec) : option N := match l with [] => None | _ => Some (N.of_nat (length l)) end.

Definition Ph (n : ncfg) (p : ph) (s : st) : Prop :=
  match p with
  | PIdle => s_state s = IDLE /\ s_acts s = [] /\ s_jobs s = [] /\ s_hist s = [] /\ s_disp s = [] /\ s_rno s = None /\
             s_wbskip s = false /\ s_waskip s = false /\
             (s_wf s = RUNNING \/ (s_wf s = PAUSED /\ n_pause n = true)) /\ (n_pause n = false -> s_t0 s = None)
  | PWb => s_state s = RUNNING_DELAYED /\ s_acts s = [] /\ s_hist s = [] /\ s_disp s = [] /\ s_rno s = None /\
           s_wbskip s = true /\ s_waskip s = false /\ s_wf s = RUNNING /\ n_pause n = false /\
           exists t0, s_t0 s = Some t0 /\ s_jobs s = [mkJob (t0 + n_wb n) JContinue]
  | PRun => s_state s = RUNNING /\ s_jobs s = [] /\ s_disp s = [] /\ s_wf s = RUNNING /\
            s_rno s = rno_of (s_hist s) /\ N.of_nat (length (s_hist s)) <= n_cnt n /\ allgo n (s_hist s) /\
            (s_hist s = [] -> s_waskip s = false) /\ (s_hist s <> [] -> n_wa n <> 0 -> s_waskip s = true) /\
            (s_early s = false -> forall h0, nth_error (s_hist s) 0 = Some h0 -> h_time h0 + n_wa n <= s_now s) /\
            exists dn t, s_acts s = dn ++ [mkAct RUNNING false t] /\ length dn = length (s_hist s) /\ Forall done_act dn
  | PWa => s_state s = RUNNING_DELAYED /\ s_disp s = [] /\ s_wf s = RUNNING /\ s_rno s = None /\ s_waskip s = true /\
           n_wa n <> 0 /\
           exists h a i, s_hist s = [h] /\ s_acts s = [a] /\ done_act a /\
             s_jobs s = [mkJob (h_time h + n_wa n) (JComplete (h_res h) i)] /\ s_cont s = h_cont h /\ s_brk s = h_brk h
  | PRt => s_state s = RUNNING_DELAYED /\ s_disp s = [] /\ s_wf s = RUNNING /\
           length (s_acts s) = length (s_hist s) /\ Forall done_act (s_acts s) /\ s_hist s <> [] /\
           s_rno s = Some (N.of_nat (length (s_hist s))) /\ N.of_nat (length (s_hist s)) <= n_cnt n /\ allgo n (s_hist s) /\
           (n_wa n <> 0 -> s_waskip s = true) /\
           (s_early s = false -> forall h0, nth_error (s_hist s) 0 = Some h0 -> h_time h0 + n_wa n <= s_now s) /\
           exists at_, s_jobs s = [mkJob at_ JContinue] /\ (forall hs h, s_hist s = hs ++ [h] -> h_time h + n_dl n <= at_)
  | PFin => is_completed (s_state s) = true /\ s_jobs s = [] /\ s_wf s = RUNNING /\
            length (s_acts s) = length (s_hist s) /\ Forall done_act (s_acts s) /\
            exists hs h t, s_hist s = hs ++ [h] /\ allgo n hs /\ goes n (N.of_nat (length hs)) h = false /\
              s_state s = eff n (h_res h) /\ s_disp s = [(t, s_state s)] /\ N.of_nat (length hs) <= n_cnt n
  end.

Definition Inv (n : ncfg) (s : st) : Prop := Glob n s /\ exists p, Ph n p s.

Ltac open s :=
  destruct s as [st_ inf_ rno_ wbs_ was_ conc_ proc_ wf_ now_ co_ br_ jobs_ acts_ disp_ hist_ t0_ early_];
  cbn [s_state s_info s_rno s_wbskip s_waskip s_conc s_proc s_wf s_now s_cont s_brk s_jobs s_acts s_disp s_hist s_t0 s_early] in *.

Ltac fields :=
  cbn [s_state s_info s_rno s_wbskip s_waskip s_conc s_proc s_wf s_now s_cont s_brk s_jobs s_acts s_disp s_hist s_t0 s_early
       set_state set_rno set_wbskip set_waskip set_conc set_proc set_wf set_now set_env set_jobs set_acts set_disp set_hist
       set_t0 set_early add_job new_action invalidate reset_actions continue_task run_existing_resumed dispatch] in *.

Lemma init_inv n : Inv n init.
Proof.
  split.
  - repeat split; cbn; intros; try contradiction; try (destruct k; discriminate); try discriminate.
  - exists PIdle. cbn. repeat split; auto.
Qed.

Lemma inv_tick n s d : Inv n s -> Inv n (set_now (s_now s + d) s).
Proof.
  intros ((G1 & G2 & G3 & G4) & p & P). split.
  - split; [|split; [|split]]; fields; auto.
    intros h' H'. destruct (G1 h' H'). split; auto. lia.
  - exists p. destruct p; cbn [Ph] in *; fields; auto.
    + destruct P as (A & B & C & D & E & F & G & H & I & J & K). repeat split; auto.
      intros Ee h0 H0. specialize (J Ee h0 H0). lia.
    + destruct P as (A & B & C & D & E & F & G & H & I & J & K & L). repeat split; auto.
      intros Ee h0 H0. specialize (K Ee h0 H0). lia.
Qed.

Lemma ph_not_idle n p s : Ph n p s -> p <> PIdle -> is_idle (s_state s) = false.
Proof.
  destruct p; cbn [Ph]; intros P Hp; try congruence;
    try (destruct P as (A & _); rewrite A; reflexivity).
  destruct P as (A & _). apply completed_not_idle, A.
Qed.

Lemma inv_start n s : n_tmo n = 0 -> Inv n s -> Inv n (start_n n s).
Proof.
  intros T (G & p & P).
  destruct p; try (unfold start_n; rewrite (ph_not_idle _ _ _ P) by discriminate; split; [exact G|eexists; exact P]).
  destruct G as (G1 & G2 & G3 & G4). cbn [Ph] in P.
  destruct P as (A & B & C & D & E & F & Gw & H & I & J).
  open s. subst.
  unfold start_n, before_n, pause_n, wb_n, tmo_n, conc_n. rewrite T. change (0 =? 0) with true.
  cbn [is_idle state_eqb s_state s_t0 s_now s_info].
  destruct (n_pause n) eqn:Pz.
  - (* pause-before: the task goes back to IDLE, the workflow is PAUSED, no action *)
    assert (X : forall t0' conc', Inv n (mkSt IDLE IPause None false false conc' proc_ PAUSED now_ co_ br_ [] [] [] [] t0' early_)).
    { intros t0' conc'. split.
      - split; [|split; [|split]]; fields; intros; try contradiction; try (destruct k; discriminate); try discriminate.
      - exists PIdle. cbn. repeat split; auto; intros; congruence. }
    destruct t0_; fields; destruct (n_wb n =? 0); fields; destruct (n_conc n =? 0); fields; apply X.
  - destruct (n_wb n =? 0) eqn:W.
    + (* no wait-before: the action starts at once *)
      assert (X : forall conc', Inv n (mkSt RUNNING inf_ None false false conc' proc_ wf_ now_ co_ br_ [] [mkAct RUNNING false now_] [] []
                                       (Some now_) early_)).
      { intros conc'. destruct I as [I|(_ & I)]; [|congruence]. fields. subst. split.
        - split; [|split; [|split]]; fields.
          + intros h [].
          + intros _ k a h Ha. destruct k; discriminate.
          + intros _ _ a t0 Ha Ht. inversion Ha; inversion Ht; subst. cbn [a_start]. lia.
          + intros _ t x h0 [].
        - exists PRun. cbn. repeat split; auto; try lia; try apply allgo_nil; try congruence.
          exists [], now_. repeat split; auto. }
      rewrite (J eq_refl). fields. destruct (n_conc n =? 0); fields; apply X.
    + (* wait-before: DELAYED, one continue job at start + delay *)
      assert (X : forall conc', Inv n (mkSt RUNNING_DELAYED IDelay None true false conc' proc_ wf_ now_ co_ br_
                                       [mkJob (now_ + n_wb n) JContinue] [] [] [] (Some now_) early_)).
      { intros conc'. destruct I as [I|(_ & I)]; [|congruence]. fields. subst. split.
        - split; [|split; [|split]]; fields; intros; try contradiction; try (destruct k; discriminate); try discriminate.
        - exists PWb. cbn. repeat split; auto. exists now_. auto. }
      rewrite (J eq_refl). fields. destruct (n_conc n =? 0); fields; apply X.
Qed.

Lemma ph_wf_running n p s : Ph n p s -> p <> PIdle -> s_wf s = RUNNING.
Proof. destruct p; cbn [Ph]; intros P Hp; try congruence; tauto. Qed.

Lemma inv_resume n s : Inv n s -> Inv n (resume s).
Proof.
  intros (G & p & P).
  destruct p; try (unfold resume; rewrite (ph_wf_running _ _ _ P) by discriminate; split; [exact G|eexists; exact P]).
  destruct G as (G1 & G2 & G3 & G4). cbn [Ph] in P.
  destruct P as (A & B & C & D & E & F & Gw & H & [I|(I & Pz)] & J); open s; subst.
  - unfold resume. cbn [s_wf is_paused state_eqb].
    split; [split; [|split; [|split]]; fields; assumption|]. exists PIdle. cbn. repeat split; auto.
  - unfold resume. cbn. split.
    + split; [|split; [|split]]; fields.
      * intros h [].
      * intros _ k a h Ha. destruct k; discriminate.
      * intros _ Pf. congruence.
      * intros _ t x h0 [].
    + exists PRun. cbn. repeat split; auto; try lia; try apply allgo_nil; try congruence.
      exists [], now_. repeat split; auto.
Qed.

Lemma act_noop n i x co br s : Forall done_act (s_acts s) -> act_done_n n i x co br s = s.
Proof.
  intros F. unfold act_done_n. destruct (nth_error (s_acts s) i) as [a|] eqn:E; [|reflexivity].
  rewrite (done_not_running a (Forall_nth _ _ _ _ F E)). reflexivity.
Qed.

(* the action rows of l' are those of l up to state / accepted flag (same start times) *)
Definition start_pres (l l' : list act) : Prop :=
  length l' = length l /\ forall i a', nth_error l' i = Some a' -> exists a, nth_error l i = Some a /\ a_start a = a_start a'.

Lemma start_pres_snoc dn a a' : a_start a = a_start a' -> start_pres (dn ++ [a]) (dn ++ [a']).
Proof.
  intros E. split; [rewrite !app_length; reflexivity|].
  intros i b H. apply nth_error_snoc in H. destruct H as [(H & L)|(-> & ->)].
  - exists b. split; [rewrite nth_error_app1 by exact L; exact H|reflexivity].
  - exists a. split; [|exact E]. rewrite nth_error_app2 by lia. rewrite Nat.sub_diag. reflexivity.
Qed.

Lemma start_pres_map l (f : act -> act) : (forall a, a_start (f a) = a_start a) -> start_pres l (map f l).
Proof.
  intros E. split; [apply map_length|].
  intros i b H. rewrite nth_error_map in H. destruct (nth_error l i) as [a|]; [|discriminate].
  inversion H; subst. exists a. split; [reflexivity|]. symmetry. apply E.
Qed.

Lemma start_pres_trans l1 l2 l3 : start_pres l1 l2 -> start_pres l2 l3 -> start_pres l1 l3.
Proof.
  intros (L1 & H1) (L2 & H2). split; [congruence|].
  intros i c Hc. destruct (H2 i c Hc) as (b & Hb & Eb). destruct (H1 i b Hb) as (a & Ha & Ea).
  exists a. split; [exact Ha|congruence].
Qed.

(* Glob after an attempt's result was recorded (history grows by h, action rows keep their start times) *)
Lemma glob_after_act n s s' h :
  Glob n s ->
  length (s_acts s) = S (length (s_hist s)) ->
  s_hist s' = s_hist s ++ [h] -> h_time h = s_now s -> result_state (h_res h) = true ->
  s_now s' = s_now s -> s_early s' = s_early s -> s_t0 s' = s_t0 s ->
  start_pres (s_acts s) (s_acts s') ->
  (forall t x, In (t, x) (s_disp s') -> s_early s = false ->
     forall h0, nth_error (s_hist s') 0 = Some h0 -> h_time h0 + n_wa n <= t) ->
  Glob n s'.
Proof.
  intros (G1 & G2 & G3 & G4) L Hh Ht Hr Hn He H0 (SL & SP) Hd.
  split; [|split; [|split]].
  - intros h' Hin. rewrite Hh in Hin. apply in_app_iff in Hin. rewrite Hn.
    destruct Hin as [Hin|[<-|[]]]; [apply G1, Hin|]. split; [lia|exact Hr].
  - rewrite He. intros Ee k a h' Ha Hk. rewrite Hh in Hk.
    apply nth_error_snoc in Hk. destruct Hk as [(Hk & Lt)|(-> & ->)].
    + destruct (SP _ _ Ha) as (a0 & Ha0 & Es). rewrite <- Es. exact (G2 Ee k a0 h' Ha0 Hk).
    + exfalso. assert (nth_error (s_acts s') (S (length (s_hist s))) = None) as Hn'
        by (apply nth_error_None; lia). congruence.
  - rewrite He, H0. intros Ee Pz a t0 Ha Ht0.
    destruct (SP _ _ Ha) as (a0 & Ha0 & Es). rewrite <- Es. exact (G3 Ee Pz a0 t0 Ha0 Ht0).
  - rewrite He. intros Ee t x h0 Hin Hh0. exact (Hd t x Hin Ee h0 Hh0).
Qed.

Lemma rnoN_rno_of s l : s_rno s = rno_of l -> rnoN s = N.of_nat (length l).
Proof. unfold rnoN. intros ->. destruct l; reflexivity. Qed.

Lemma result_not_delayed x : result_state x = true -> state_eqb x RUNNING_DELAYED = false.
Proof. destruct x; vm_compute; congruence. Qed.

Lemma inv_act n i x co br s : Inv n s -> Inv n (act_done_n n i x co br s).
Proof.
  intros (G & p & P).
  destruct p.
  - rewrite act_noop; [split; [exact G|eexists; exact P]|]. cbn in P. destruct P as (_ & -> & _). constructor.
  - rewrite act_noop; [split; [exact G|eexists; exact P]|]. cbn in P. destruct P as (_ & -> & _). constructor.
  - (* an attempt is running *)
    pose proof P as P0.
    cbn [Ph] in P. destruct P as (A & B & C & D & E & F & Ga & H & I & J & dn & t & Hacts & Ldn & Fdn).
    unfold act_done_n. rewrite Hacts.
    destruct (nth_error (dn ++ [mkAct RUNNING false t]) i) as [a|] eqn:En;
      [|split; [exact G|exists PRun; exact P0]].
    apply nth_error_snoc in En. destruct En as [(En & Lt)|(-> & ->)].
    { rewrite (done_not_running a (Forall_nth _ _ _ _ Fdn En)). cbn [andb].
      split; [exact G|exists PRun; exact P0]. }
    cbn [a_state state_eqb andb a_start]. destruct (result_state x) eqn:Rx;
      [|split; [exact G|exists PRun; exact P0]].
    rewrite upd_nth_snoc.
    set (h := mkH (s_now s) x co br).
    set (inf := if state_eqb x SUCCESS then INone else IAction).
    set (s2 := set_hist _ _).
    assert (Rn : rnoN s2 = N.of_nat (length (s_hist s))) by (apply (rnoN_rno_of s); exact E).
    assert (C2 : is_completed (s_state s2) = false) by (unfold s2; fields; rewrite A; reflexivity).
    assert (SPa : start_pres (s_acts s) (dn ++ [mkAct x true t])) by (rewrite Hacts; apply start_pres_snoc; reflexivity).
    assert (La : length (s_acts s) = S (length (s_hist s))) by (rewrite Hacts, app_length; cbn; lia).
    assert (Hwa : (n_wa n = 0 \/ s_waskip s = true) -> s_early s = false ->
                  forall h0, nth_error (s_hist s ++ [h]) 0 = Some h0 -> h_time h0 + n_wa n <= s_now s).
    { intros Wc Ee h0 H0. destruct (s_hist s) as [|h1 tl] eqn:Eh.
      - cbn in H0. inversion H0; subst h0. cbn [h h_time].
        destruct Wc as [Wc|Wc]; [lia|]. rewrite (H eq_refl) in Wc. discriminate.
      - cbn in H0. inversion H0; subst h0. apply (J Ee). reflexivity. }
    destruct (complete_case n x inf s2 C2 Rx) as [(Wa & Ws & Eq)|[(Wc & Dc & i' & Eq)|(Wc & Dc & i' & Eq)]];
      cbv zeta in Eq; rewrite Eq; clear Eq; unfold s2 in *; clear s2; fields.
    + (* wait-after delays the first completion *)
      assert (Eh : s_hist s = []).
      { destruct (s_hist s) as [|h1 tl] eqn:Eh; [reflexivity|]. exfalso.
        assert (s_waskip s = true) as K by (apply I; [congruence|exact Wa]).
        congruence. }
      assert (dn = []) as -> by (destruct dn; [reflexivity|rewrite Eh in Ldn; discriminate]).
      split.
      * eapply (glob_after_act n s _ h G La); fields; try reflexivity; try exact Rx.
        -- exact SPa.
        -- rewrite C. intros t' x' [].
      * exists PWa. cbn [Ph]. fields. rewrite Eh. repeat split; auto; try (rewrite E, Eh; reflexivity).
        exists h, (mkAct x true t), inf. repeat split; auto; try exact Rx; try (rewrite B; reflexivity).
    + (* the retry policy schedules another attempt *)
      rewrite Rn in Dc.
      pose proof (retry_decide_remain _ _ _ _ _ _ _ Dc) as Rem.
      split.
      * eapply (glob_after_act n s _ h G La); fields; try reflexivity; try exact Rx.
        -- eapply start_pres_trans; [exact SPa|]. apply start_pres_map. reflexivity.
        -- rewrite C. intros t' x' [].
      * exists PRt. cbn [Ph]. fields. rewrite app_length, map_length, app_length. cbn [length].
        repeat split; auto; try lia.
        -- rewrite Forall_map. apply Forall_app. split; [|repeat constructor; exact Rx].
           eapply Forall_impl; [|exact Fdn]. intros a Ha. exact Ha.
        -- destruct (s_hist s); discriminate.
        -- rewrite Rn. f_equal. lia.
        -- apply allgo_snoc; [exact Ga|exact Dc].
        -- rewrite B. eexists. split; [reflexivity|]. intros hs h' Hs. apply app_inj_tail in Hs. destruct Hs as (_ & <-).
           cbn [h_time]. lia.
    + (* final *)
      rewrite Rn in Dc.
      unfold dispatch. fields. rewrite D. cbn [is_paused state_eqb]. fields. rewrite C.
      split.
      * eapply (glob_after_act n s _ h G La); fields; try reflexivity; try exact Rx.
        -- exact SPa.
        -- intros t' x' [Hin|[]] Ee h0 H0. inversion Hin; subst t'. apply Hwa; auto.
      * exists PFin. cbn [Ph]. fields. rewrite !app_length. cbn [length].
        repeat split; auto; try lia.
        -- apply result_completed, eff_result, Rx.
        -- apply Forall_app. split; [exact Fdn|repeat constructor; exact Rx].
        -- exists (s_hist s), h, (s_now s). repeat split; auto.
  - rewrite act_noop; [split; [exact G|eexists; exact P]|]. cbn in P.
    destruct P as (_ & _ & _ & _ & _ & _ & h & a & i0 & _ & -> & Da & _). repeat constructor. exact Da.
  - rewrite act_noop; [split; [exact G|eexists; exact P]|]. cbn in P. tauto.
  - rewrite act_noop; [split; [exact G|eexists; exact P]|]. cbn in P. tauto.
Qed.

Lemma glob_keep n s s' :
  Glob n s -> s_hist s' = s_hist s -> s_now s' = s_now s -> s_t0 s' = s_t0 s ->
  (s_early s' = false -> s_early s = false) -> start_pres (s_acts s) (s_acts s') ->
  (forall t x, In (t, x) (s_disp s') -> s_early s' = false ->
     forall h0, nth_error (s_hist s') 0 = Some h0 -> h_time h0 + n_wa n <= t) ->
  Glob n s'.
Proof.
  intros (G1 & G2 & G3 & G4) Hh Hn H0 He (SL & SP) Hd.
  split; [|split; [|split]].
  - rewrite Hh, Hn. exact G1.
  - rewrite Hh. intros Ee k a h Ha Hk. destruct (SP _ _ Ha) as (a0 & Ha0 & Es). rewrite <- Es.
    exact (G2 (He Ee) k a0 h Ha0 Hk).
  - rewrite H0. intros Ee Pz a t0 Ha Ht0. destruct (SP _ _ Ha) as (a0 & Ha0 & Es). rewrite <- Es.
    exact (G3 (He Ee) Pz a0 t0 Ha0 Ht0).
  - intros Ee t x h0 Hin Hh0. exact (Hd t x Hin Ee h0 Hh0).
Qed.

Lemma glob_new_act n s s' l' a :
  Glob n s -> s_hist s' = s_hist s -> s_now s' = s_now s -> s_t0 s' = s_t0 s ->
  (s_early s' = false -> s_early s = false) ->
  s_acts s' = l' ++ [a] -> start_pres (s_acts s) l' -> s_disp s' = s_disp s ->
  (s_early s' = false -> forall k h, S k = length l' -> nth_error (s_hist s) k = Some h -> h_time h + n_dl n <= a_start a) ->
  (s_early s' = false -> n_pause n = false -> l' = [] -> forall t0, s_t0 s = Some t0 -> t0 + n_wb n <= a_start a) ->
  Glob n s'.
Proof.
  intros (G1 & G2 & G3 & G4) Hh Hn H0 He Ha (SL & SP) Hd N1 N2.
  split; [|split; [|split]].
  - rewrite Hh, Hn. exact G1.
  - rewrite Hh, Ha. intros Ee k b h Hb Hk. apply nth_error_snoc in Hb. destruct Hb as [(Hb & Lt)|(Hl & ->)].
    + destruct (SP _ _ Hb) as (a0 & Ha0 & Es). rewrite <- Es. exact (G2 (He Ee) k a0 h Ha0 Hk).
    + exact (N1 Ee k h Hl Hk).
  - rewrite H0, Ha. intros Ee Pz b t0 Hb Ht0. apply nth_error_snoc in Hb. destruct Hb as [(Hb & Lt)|(Hl & ->)].
    + destruct (SP _ _ Hb) as (a0 & Ha0 & Es). rewrite <- Es. exact (G3 (He Ee) Pz a0 t0 Ha0 Ht0).
    + apply (N2 Ee Pz); [|exact Ht0]. destruct l'; [reflexivity|discriminate].
  - rewrite Hd, Hh. intros Ee. exact (G4 (He Ee)).
Qed.

Lemma nth_error_last_split {A} (l : list A) k x : nth_error l k = Some x -> S k = length l -> exists hs, l = hs ++ [x].
Proof.
  revert k. induction l as [|y t IH]; intros [|k] H L; cbn in *; try discriminate.
  - inversion H; subst. destruct t; [exists []; reflexivity|discriminate].
  - destruct (IH k H) as (hs & ->); [lia|]. exists (y :: hs). reflexivity.
Qed.

Lemma fire_none n j s : nth_error (s_jobs s) j = None -> fire_n n j s = s.
Proof. intros H. unfold fire_n. rewrite H. reflexivity. Qed.

Lemma early_mono (b e : bool) : (if b then true else e) = false -> e = false /\ b = false.
Proof. destruct b; [discriminate|auto]. Qed.

Definition popped (s : st) (jb : job) : st :=
  set_early (if s_now s <? j_at jb then true else s_early s) (set_jobs [] s).

Lemma fire_single n j s jb : s_jobs s = [jb] ->
  fire_n n j s =
  match j with
  | O => match j_kind jb with
         | JContinue => if state_eqb (s_state s) RUNNING_DELAYED then continue_task (popped s jb) else popped s jb
         | JComplete x i => if state_eqb (s_state s) RUNNING_DELAYED then complete_n n x i (popped s jb) else popped s jb
         | JTimeout => if is_completed (s_state (popped s jb)) then popped s jb
                       else complete_n n ERROR ITimeout (abandon (popped s jb))
         | JRefresh => popped s jb
         end
  | S _ => s
  end.
Proof.
  intros H. unfold fire_n, popped. rewrite H. destruct j as [|j]; [|destruct j; reflexivity].
  cbn [nth_error del_nth]. destruct (s_now s <? j_at jb); reflexivity.
Qed.

Lemma inv_fire n j s : Inv n s -> Inv n (fire_n n j s).
Proof.
  intros (G & p & P).
  destruct p.
  - rewrite fire_none; [split; [exact G|eexists; exact P]|]. cbn in P. destruct P as (_ & _ & -> & _). destruct j; reflexivity.
  - (* the wait-before job *)
    pose proof P as P0.
    cbn [Ph] in P. destruct P as (A & B & C & D & E & F & Gw & H & I & t0 & Ht0 & Hj).
    rewrite (fire_single _ _ _ _ Hj). destruct j as [|j]; [|split; [exact G|exists PWb; exact P0]].
    cbn [j_kind]. rewrite A. cbn [state_eqb]. unfold popped. cbn [j_at].
    split.
    + eapply (glob_new_act n s _ [] _ G); fields; try reflexivity.
      * intros Ee. apply early_mono in Ee. tauto.
      * rewrite B. reflexivity.
      * rewrite B. split; [reflexivity|]. intros i a Ha. destruct i; discriminate.
      * intros _ k h Hk. discriminate.
      * intros Ee _ _ t0' Ht. apply early_mono in Ee. destruct Ee as (_ & Ee). rewrite Ht0 in Ht. inversion Ht; subst.
        cbn [a_start]. lia.
    + exists PRun. cbn [Ph]. fields. rewrite B, C. cbn [map app length].
      repeat split; auto; try lia; try apply allgo_nil; try congruence.
      * intros _ h0 H0. discriminate.
      * exists [], (s_now s). repeat split; auto.
  - rewrite fire_none; [split; [exact G|eexists; exact P]|]. cbn in P. destruct P as (_ & -> & _). destruct j; reflexivity.
  - (* the wait-after job: the postponed completion *)
    pose proof P as P0.
    cbn [Ph] in P. destruct P as (A & B & C & D & E & F & h & a & i0 & Hh & Ha & Da & Hj & Hc & Hb).
    rewrite (fire_single _ _ _ _ Hj). destruct j as [|j]; [|split; [exact G|exists PWa; exact P0]].
    cbn [j_kind j_at]. rewrite A. cbn [state_eqb].
    pose proof G as (G1 & _). destruct (G1 h) as (Th & Rh); [rewrite Hh; left; reflexivity|].
    set (s1 := popped s (mkJob (h_time h + n_wa n) (JComplete (h_res h) i0))).
    assert (C1 : is_completed (s_state s1) = false) by (unfold s1, popped; fields; rewrite A; reflexivity).
    assert (Rn : rnoN s1 = 0) by (unfold s1, popped, rnoN; fields; rewrite D; reflexivity).
    assert (Hea : s_early s1 = false -> s_early s = false /\ h_time h + n_wa n <= s_now s).
    { unfold s1, popped. fields. intros Ee. apply early_mono in Ee. cbn [j_at] in Ee. split; [tauto|].
      destruct Ee as (_ & Ee). lia. }
    destruct (complete_case n (h_res h) i0 s1 C1 Rh) as [(Wa & Ws & Eq)|[(Wc & Dc & i' & Eq)|(Wc & Dc & i' & Eq)]];
      cbv zeta in Eq; rewrite Eq; clear Eq.
    + exfalso. unfold s1, popped in Ws. fields. congruence.
    + rewrite Rn in Dc. unfold s1, popped in Dc. fields. rewrite Hc, Hb in Dc.
      pose proof (retry_decide_remain _ _ _ _ _ _ _ Dc) as Rem.
      unfold s1, popped in *. clear s1. fields.
      split.
      * eapply (glob_keep n s _ G); fields; try reflexivity.
        -- intros Ee. apply Hea, Ee.
        -- apply start_pres_map. reflexivity.
        -- rewrite B. intros t x [].
      * exists PRt. cbn [Ph]. fields. rewrite Hh, Ha, B. cbn [map length app].
        repeat split; auto; try (clear - Rem; lia); try congruence;
          try (repeat constructor; exact Da);
          try (rewrite Rn; reflexivity);
          try (intros k h' Hk; apply nth_error_single in Hk; destruct Hk as (-> & ->); exact Dc);
          try (intros Ee h0 H0; inversion H0; subst h0; apply Hea, Ee).
        eexists. split; [reflexivity|]. intros hs h' Hs. destruct hs as [|? [|? ?]]; try discriminate.
        inversion Hs; subst h'. clear - Th. lia.
    + rewrite Rn in Dc. unfold s1, popped in Dc. fields. rewrite Hc, Hb in Dc.
      unfold s1, popped in *. clear s1. unfold dispatch. fields. rewrite C. cbn [is_paused state_eqb]. fields. rewrite B.
      split.
      * eapply (glob_keep n s _ G); fields; try reflexivity.
        -- intros Ee. apply Hea, Ee.
        -- split; [reflexivity|]. intros i a' Hi. exists a'. auto.
        -- intros t x [Hin|[]] Ee h0 H0. inversion Hin; subst t. rewrite Hh in H0. inversion H0; subst h0. apply Hea, Ee.
      * exists PFin. cbn [Ph]. fields. rewrite Hh, Ha. cbn [length app].
        repeat split; auto;
          try (apply result_completed, eff_result, Rh);
          try (repeat constructor; exact Da).
        exists [], h, (s_now s). cbn [length app]. repeat split; auto; try lia. apply allgo_nil.
  - (* the retry job: the next attempt starts *)
    pose proof P as P0.
    cbn [Ph] in P. destruct P as (A & B & C & D & E & F & Gr & H & I & J & K & at_ & Hj & Hat).
    rewrite (fire_single _ _ _ _ Hj). destruct j as [|j]; [|split; [exact G|exists PRt; exact P0]].
    cbn [j_kind]. rewrite A. cbn [state_eqb]. unfold popped. cbn [j_at].
    split.
    + eapply (glob_new_act n s _ (map _ (s_acts s)) _ G); fields; try reflexivity.
      * intros Ee. apply early_mono in Ee. tauto.
      * apply start_pres_map. intros a. destruct (a_acc a && _); reflexivity.
      * intros Ee k h Hk Hn. apply early_mono in Ee. destruct Ee as (_ & Ee).
        rewrite map_length, D in Hk. destruct (nth_error_last_split _ _ _ Hn Hk) as (hs & Hs).
        specialize (Hat hs h Hs). cbn [a_start]. lia.
      * intros _ _ Hm. exfalso. destruct (s_acts s); [|discriminate]. destruct (s_hist s); [congruence|discriminate].
    + exists PRun. cbn [Ph]. fields. rewrite B.
      repeat split; auto; try congruence.
      * rewrite Gr. destruct (s_hist s); [congruence|reflexivity].
      * intros Ee. apply early_mono in Ee. apply K. tauto.
      * eexists _, (s_now s). split; [reflexivity|]. rewrite map_length. split; [exact D|].
        rewrite Forall_map. eapply Forall_impl; [|exact E]. intros a Ha. unfold done_act in *.
        destruct (a_acc a && _); exact Ha.
  - rewrite fire_none; [split; [exact G|eexists; exact P]|]. cbn in P. destruct P as (_ & -> & _). destruct j; reflexivity.
Qed.

Lemma step_inv n s e : n_tmo n = 0 -> Inv n s -> Inv n (step_n n s e).
Proof.
  intros T I. destruct e; cbn [step_n].
  - apply inv_start; assumption.
  - apply inv_resume; assumption.
  - apply inv_act; assumption.
  - apply inv_fire; assumption.
  - apply inv_tick; assumption.
Qed.

Lemma run_inv_from n evs s : n_tmo n = 0 -> Inv n s -> Inv n (fold_left (step_n n) evs s).
Proof. intros T. revert s. induction evs as [|e t IH]; intros s I; [exact I|]. cbn. apply IH, step_inv; assumption. Qed.

Lemma run_inv n evs : n_tmo n = 0 -> Inv n (run_n n evs).
Proof. intros T. apply run_inv_from; [exact T|apply init_inv]. Qed.

