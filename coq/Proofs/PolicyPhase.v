(* Proofs about Model/Policy.v, part 2 (property C08): the life of a task whose
   configuration is well typed and has no timeout, under EVERY event sequence
   (action results with any outcome and any continue-on / break-on truth values, job firings
   in any order - also early -, clock ticks, resume, repeated starts, results for unknown or
   finished actions).  A phase invariant gives: which attempts happen (the documented retry
   rule), the final verdict, finality, exactly-once dispatch of the follow-up commands, the
   delays (when no job ran early), pause-before. *)
From Coq Require Import List NArith ZArith Bool Lia ZifyBool ZifyN ZifyNat.
Require Import Mistral.Gen.States Mistral.Model.Policy Mistral.Proofs.PolicyBound.
Import ListNotations.
Open Scope N_scope.

Local Arguments N.add : simpl never.
Local Arguments N.of_nat : simpl never.
Local Arguments N.ltb : simpl never.
Local Arguments N.leb : simpl never.
Local Arguments N.eqb : simpl never.

(* ------------------------------------------------------------------ *)
(* the documented retry rule *)

(* what an attempt's result counts as: fail-on turns SUCCESS into ERROR *)
Definition eff (n : ncfg) (x : state) : state := if state_eqb x SUCCESS && n_fail n then ERROR else x.

(* does the task go into another attempt after its (k+1)-th attempt ended with h ? *)
Definition goes (n : ncfg) (k : N) (h : hrec) : bool :=
  retry_decide (n_cnt n) k (eff n (h_res h)) (n_hc n) (h_cont h) (n_hb n) (h_brk h).

Lemma decide_spec cnt k x hc co hb br : result_state x = true ->
  (retry_decide cnt k x hc co hb br = true <->
   k < cnt /\ x <> CANCELLED /\ (x = SUCCESS -> hc = true) /\ (hc = true -> co = true) /\
   ~ (x = ERROR /\ hb = true /\ br = true)).
Proof.
  intros R. unfold retry_decide.
  destruct x; try discriminate R; destruct hc, co, hb, br; cbn; destruct (k <? cnt) eqn:E; cbn; split; intros H;
    try discriminate H; try reflexivity;
    try (repeat split; try lia; try congruence; try (intros; congruence); try (intros (A & B & C); congruence); fail);
    try (exfalso; destruct H as (H1 & H2 & H3 & H4 & H5);
         first [lia | congruence | now (specialize (H3 eq_refl)) | now (specialize (H4 eq_refl))
               | (apply H5; repeat split; reflexivity)]).
Qed.

(* the rule in words: another attempt follows iff retries remain, the attempt was not cancelled,
   a success is only repeated under a continue-on clause, a present continue-on clause holds,
   and a failure is not stopped by break-on *)
Lemma goes_spec n k h : result_state (h_res h) = true ->
  (goes n k h = true <->
   k < n_cnt n /\ eff n (h_res h) <> CANCELLED /\
   (eff n (h_res h) = SUCCESS -> n_hc n = true) /\
   (n_hc n = true -> h_cont h = true) /\
   ~ (eff n (h_res h) = ERROR /\ n_hb n = true /\ h_brk h = true)).
Proof.
  intros R. unfold goes. apply decide_spec.
  unfold eff. destruct (h_res h), (n_fail n); try discriminate R; reflexivity.
Qed.

Lemma retry_n_spec n s :
  retry_n n s =
  if retry_decide (n_cnt n) (rnoN s) (s_state s) (n_hc n) (s_cont s) (n_hb n) (s_brk s)
  then add_job (n_dl n) JContinue (set_state RUNNING_DELAYED IDelay (set_rno (Some (rnoN s + 1)) (invalidate s)))
  else s.
Proof.
  unfold retry_n. destruct (n_cnt n =? 0) eqn:E.
  - unfold retry_decide. destruct (negb _ || _); [reflexivity|].
    assert (rnoN s <? n_cnt n = false) as -> by lia. reflexivity.
  - unfold retry_decide. destruct (negb _ || _); reflexivity.
Qed.

Lemma eff_result n x : result_state x = true -> result_state (eff n x) = true.
Proof. unfold eff. destruct x, (n_fail n); vm_compute; congruence. Qed.

Lemma eff_success n x : eff n x = SUCCESS <-> x = SUCCESS /\ n_fail n = false.
Proof. unfold eff. destruct x, (n_fail n); vm_compute; intuition congruence. Qed.

(* ------------------------------------------------------------------ *)
(* list helpers *)

Definition done_act (a : act) : Prop := result_state (a_state a) = true.

Lemma done_not_running a : done_act a -> state_eqb (a_state a) RUNNING = false.
Proof. unfold done_act. destruct (a_state a); vm_compute; congruence. Qed.

Lemma nth_error_snoc {A} (l : list A) a i b :
  nth_error (l ++ [a]) i = Some b ->
  (nth_error l i = Some b /\ (i < length l)%nat) \/ (i = length l /\ b = a).
Proof.
  intros H. destruct (Nat.lt_ge_cases i (length l)) as [L|L].
  - rewrite nth_error_app1 in H by exact L. auto.
  - rewrite nth_error_app2 in H by exact L.
    destruct (i - length l)%nat as [|m] eqn:E; cbn in H.
    + inversion H. right. split; [lia|reflexivity].
    + destruct m; discriminate.
Qed.

Lemma upd_nth_snoc {A} (l : list A) a b : upd_nth (l ++ [a]) (length l) b = l ++ [b].
Proof. induction l as [|h t IH]; cbn; [reflexivity|]. rewrite IH. reflexivity. Qed.

Lemma nth_error_single {A} (a : A) i b : nth_error [a] i = Some b -> i = 0%nat /\ b = a.
Proof. destruct i as [|[|i]]; cbn; intros H; inversion H; auto. Qed.

Definition allgo (n : ncfg) (l : list hrec) : Prop :=
  forall k h, nth_error l k = Some h -> goes n (N.of_nat k) h = true.

Lemma allgo_nil n : allgo n []. Proof. intros [|k] h H; discriminate. Qed.

Lemma allgo_snoc n l h : allgo n l -> goes n (N.of_nat (length l)) h = true -> allgo n (l ++ [h]).
Proof.
  intros A G k h' H. apply nth_error_snoc in H. destruct H as [(H & _)|(-> & ->)]; auto.
Qed.

(* ------------------------------------------------------------------ *)
(* one completion transaction, by cases *)

Lemma complete_case n x i s :
  is_completed (s_state s) = false -> result_state x = true ->
  let s' := complete_n n x i s in
  (n_wa n <> 0 /\ s_waskip s = false /\
   s' = add_job (n_wa n) (JComplete x i) (set_state RUNNING_DELAYED IDelay (set_waskip true (set_state x i s)))) \/
  ((n_wa n = 0 \/ s_waskip s = true) /\
   retry_decide (n_cnt n) (rnoN s) (eff n x) (n_hc n) (s_cont s) (n_hb n) (s_brk s) = true /\
   exists i', s' = add_job (n_dl n) JContinue
                     (set_state RUNNING_DELAYED IDelay (set_rno (Some (rnoN s + 1)) (invalidate (set_state (eff n x) i' s))))) \/
  ((n_wa n = 0 \/ s_waskip s = true) /\
   retry_decide (n_cnt n) (rnoN s) (eff n x) (n_hc n) (s_cont s) (n_hb n) (s_brk s) = false /\
   exists i', s' = dispatch (set_state (eff n x) i' s)).
Proof.
  intros C R. cbv zeta. unfold complete_n. rewrite C. unfold after_n, wa_n.
  cbn [s_waskip set_state s_state s_info].
  destruct (n_wa n =? 0) eqn:W; [|destruct (s_waskip s) eqn:K].
  3: { left. repeat split; [lia|].
       unfold fail_n. cbn [s_state add_job set_jobs set_state set_waskip state_eqb andb].
       rewrite retry_n_spec. cbn [s_state add_job set_jobs set_state set_waskip].
       unfold retry_decide. cbn [is_completed mem existsb state_eqb negb orb]. reflexivity. }
  all: right.
  all: unfold fail_n; cbn [s_state set_state].
  all: assert (E : exists i', (if state_eqb x SUCCESS && n_fail n then set_state ERROR IFailOn (set_state x i s) else set_state x i s)
                        = set_state (eff n x) i' s)
         by (unfold eff; destruct (state_eqb x SUCCESS && n_fail n); eexists; reflexivity).
  all: destruct E as (i' & E); rewrite E; rewrite retry_n_spec; cbn [s_state set_state s_cont s_brk].
  all: change (rnoN (set_state (eff n x) i' s)) with (rnoN s).
  all: destruct (retry_decide (n_cnt n) (rnoN s) (eff n x) (n_hc n) (s_cont s) (n_hb n) (s_brk s)) eqn:D.
  all: try (left; split; [first [left; lia|right; reflexivity]|split; [reflexivity|exists i'; reflexivity]]).
  all: right; split; [first [left; lia|right; reflexivity]|split; [reflexivity|exists i']].
  all: pose proof (eff_result n x R) as RE; destruct (eff n x); try discriminate RE; reflexivity.
Qed.

(* ------------------------------------------------------------------ *)
(* the invariant *)

Definition Glob (n : ncfg) (s : st) : Prop :=
  (forall h, In h (s_hist s) -> h_time h <= s_now s /\ result_state (h_res h) = true) /\
  (s_early s = false -> forall k a h, nth_error (s_acts s) (S k) = Some a -> nth_error (s_hist s) k = Some h ->
     h_time h + n_dl n <= a_start a) /\
  (s_early s = false -> n_pause n = false -> forall a t0, nth_error (s_acts s) 0 = Some a -> s_t0 s = Some t0 ->
     t0 + n_wb n <= a_start a) /\
  (s_early s = false -> forall t x h0, In (t, x) (s_disp s) -> nth_error (s_hist s) 0 = Some h0 -> h_time h0 + n_wa n <= t).

Inductive ph := PIdle | PWb | PRun | PWa | PRt | PFin.

Definition rno_of (l : list hrec) : option N := match l with [] => None | _ => Some (N.of_nat (length l)) end.

Definition Ph (n : ncfg) (p : ph) (s : st) : Prop :=
  match p with
  | PIdle => s_state s = IDLE /\ s_acts s = [] /\ s_jobs s = [] /\ s_hist s = [] /\ s_disp s = [] /\ s_rno s = None /\
             s_wbskip s = false /\ s_waskip s = false /\
             (s_wf s = RUNNING \/ (s_wf s = PAUSED /\ n_pause n = true)) /\ (n_pause n = false -> s_t0 s = None)
  | PWb => s_state s = RUNNING_DELAYED /\ s_acts s = [] /\ s_hist s = [] /\ s_disp s = [] /\ s_rno s = None /\
           s_wbskip s = true /\ s_waskip s = false /\ s_wf s = RUNNING /\ n_pause n = false /\
           exists t0, s_t0 s = Some t0 /\ s_jobs s = [mkJob (t0 + n_wb n) JContinue]
  | PRun => s_state s = RUNNING /\ s_jobs s = [] /\ s_disp s = [] /\ s_wf s = RUNNING /\
            s_rno s = rno_of (s_hist s) /\ N.of_nat (length (s_hist s)) <= n_cnt n /\ allgo n (s_hist s) /\
            (s_hist s = [] -> s_waskip s = false) /\ (s_hist s <> [] -> n_wa n <> 0 -> s_waskip s = true) /\
            (s_early s = false -> forall h0, nth_error (s_hist s) 0 = Some h0 -> h_time h0 + n_wa n <= s_now s) /\
            exists dn t, s_acts s = dn ++ [mkAct RUNNING false t] /\ length dn = length (s_hist s) /\ Forall done_act dn
  | PWa => s_state s = RUNNING_DELAYED /\ s_disp s = [] /\ s_wf s = RUNNING /\ s_rno s = None /\ s_waskip s = true /\
           n_wa n <> 0 /\
           exists h a i, s_hist s = [h] /\ s_acts s = [a] /\ done_act a /\
             s_jobs s = [mkJob (h_time h + n_wa n) (JComplete (h_res h) i)] /\ s_cont s = h_cont h /\ s_brk s = h_brk h
  | PRt => s_state s = RUNNING_DELAYED /\ s_disp s = [] /\ s_wf s = RUNNING /\
           length (s_acts s) = length (s_hist s) /\ Forall done_act (s_acts s) /\ s_hist s <> [] /\
           s_rno s = Some (N.of_nat (length (s_hist s))) /\ N.of_nat (length (s_hist s)) <= n_cnt n /\ allgo n (s_hist s) /\
           (n_wa n <> 0 -> s_waskip s = true) /\
           (s_early s = false -> forall h0, nth_error (s_hist s) 0 = Some h0 -> h_time h0 + n_wa n <= s_now s) /\
           exists at_, s_jobs s = [mkJob at_ JContinue] /\ (forall hs h, s_hist s = hs ++ [h] -> h_time h + n_dl n <= at_)
  | PFin => is_completed (s_state s) = true /\ s_jobs s = [] /\ s_wf s = RUNNING /\
            length (s_acts s) = length (s_hist s) /\ Forall done_act (s_acts s) /\
            exists hs h t, s_hist s = hs ++ [h] /\ allgo n hs /\ goes n (N.of_nat (length hs)) h = false /\
              s_state s = eff n (h_res h) /\ s_disp s = [(t, s_state s)] /\ N.of_nat (length hs) <= n_cnt n
  end.

Definition Inv (n : ncfg) (s : st) : Prop := Glob n s /\ exists p, Ph n p s.

Ltac open s :=
  destruct s as [st_ inf_ rno_ wbs_ was_ conc_ proc_ wf_ now_ co_ br_ jobs_ acts_ disp_ hist_ t0_ early_];
  cbn [s_state s_info s_rno s_wbskip s_waskip s_conc s_proc s_wf s_now s_cont s_brk s_jobs s_acts s_disp s_hist s_t0 s_early] in *.

Ltac fields :=
  cbn [s_state s_info s_rno s_wbskip s_waskip s_conc s_proc s_wf s_now s_cont s_brk s_jobs s_acts s_disp s_hist s_t0 s_early
       set_state set_rno set_wbskip set_waskip set_conc set_proc set_wf set_now set_env set_jobs set_acts set_disp set_hist
       set_t0 set_early add_job new_action invalidate reset_actions continue_task run_existing_resumed dispatch] in *.

Lemma init_inv n : Inv n init.
Proof.
  split.
  - repeat split; cbn; intros; try contradiction; try (destruct k; discriminate); try discriminate.
  - exists PIdle. cbn. repeat split; auto.
Qed.

Lemma inv_tick n s d : Inv n s -> Inv n (set_now (s_now s + d) s).
Proof.
  intros ((G1 & G2 & G3 & G4) & p & P). split.
  - split; [|split; [|split]]; fields; auto.
    intros h' H'. destruct (G1 h' H'). split; auto. lia.
  - exists p. destruct p; cbn [Ph] in *; fields; auto.
    + destruct P as (A & B & C & D & E & F & G & H & I & J & K). repeat split; auto.
      intros Ee h0 H0. specialize (J Ee h0 H0). lia.
    + destruct P as (A & B & C & D & E & F & G & H & I & J & K & L). repeat split; auto.
      intros Ee h0 H0. specialize (K Ee h0 H0). lia.
Qed.

Lemma ph_not_idle n p s : Ph n p s -> p <> PIdle -> is_idle (s_state s) = false.
Proof.
  destruct p; cbn [Ph]; intros P Hp; try congruence;
    try (destruct P as (A & _); rewrite A; reflexivity).
  destruct P as (A & _). apply completed_not_idle, A.
Qed.

Lemma inv_start n s : n_tmo n = 0 -> Inv n s -> Inv n (start_n n s).
Proof.
  intros T (G & p & P).
  destruct p; try (unfold start_n; rewrite (ph_not_idle _ _ _ P) by discriminate; split; [exact G|eexists; exact P]).
  destruct G as (G1 & G2 & G3 & G4). cbn [Ph] in P.
  destruct P as (A & B & C & D & E & F & Gw & H & I & J).
  open s. subst.
  unfold start_n, before_n, pause_n, wb_n, tmo_n, conc_n. rewrite T. change (0 =? 0) with true.
  cbn [is_idle state_eqb s_state s_t0 s_now s_info].
  destruct (n_pause n) eqn:Pz.
  - (* pause-before: the task goes back to IDLE, the workflow is PAUSED, no action *)
    assert (X : forall t0' conc', Inv n (mkSt IDLE IPause None false false conc' proc_ PAUSED now_ co_ br_ [] [] [] [] t0' early_)).
    { intros t0' conc'. split.
      - split; [|split; [|split]]; fields; intros; try contradiction; try (destruct k; discriminate); try discriminate.
      - exists PIdle. cbn. repeat split; auto; intros; congruence. }
    destruct t0_; fields; destruct (n_wb n =? 0); fields; destruct (n_conc n =? 0); fields; apply X.
  - destruct (n_wb n =? 0) eqn:W.
    + (* no wait-before: the action starts at once *)
      assert (X : forall conc', Inv n (mkSt RUNNING inf_ None false false conc' proc_ wf_ now_ co_ br_ [] [mkAct RUNNING false now_] [] []
                                       (Some now_) early_)).
      { intros conc'. destruct I as [I|(_ & I)]; [|congruence]. fields. subst. split.
        - split; [|split; [|split]]; fields.
          + intros h [].
          + intros _ k a h Ha. destruct k; discriminate.
          + intros _ _ a t0 Ha Ht. inversion Ha; inversion Ht; subst. cbn [a_start]. lia.
          + intros _ t x h0 [].
        - exists PRun. cbn. repeat split; auto; try lia; try apply allgo_nil; try congruence.
          exists [], now_. repeat split; auto. }
      rewrite (J eq_refl). fields. destruct (n_conc n =? 0); fields; apply X.
    + (* wait-before: DELAYED, one continue job at start + delay *)
      assert (X : forall conc', Inv n (mkSt RUNNING_DELAYED IDelay None true false conc' proc_ wf_ now_ co_ br_
                                       [mkJob (now_ + n_wb n) JContinue] [] [] [] (Some now_) early_)).
      { intros conc'. destruct I as [I|(_ & I)]; [|congruence]. fields. subst. split.
        - split; [|split; [|split]]; fields; intros; try contradiction; try (destruct k; discriminate); try discriminate.
        - exists PWb. cbn. repeat split; auto. exists now_. auto. }
      rewrite (J eq_refl). fields. destruct (n_conc n =? 0); fields; apply X.
Qed.

Lemma ph_wf_running n p s : Ph n p s -> p <> PIdle -> s_wf s = RUNNING.
Proof. destruct p; cbn [Ph]; intros P Hp; try congruence; tauto. Qed.

Lemma inv_resume n s : Inv n s -> Inv n (resume s).
Proof.
  intros (G & p & P).
  destruct p; try (unfold resume; rewrite (ph_wf_running _ _ _ P) by discriminate; split; [exact G|eexists; exact P]).
  destruct G as (G1 & G2 & G3 & G4). cbn [Ph] in P.
  destruct P as (A & B & C & D & E & F & Gw & H & [I|(I & Pz)] & J); open s; subst.
  - split; [repeat split; assumption|]. exists PIdle. cbn. repeat split; auto.
  - unfold resume. cbn. split.
    + split; [|split; [|split]]; fields.
      * intros h [].
      * intros _ k a h Ha. destruct k; discriminate.
      * intros _ Pf. congruence.
      * intros _ t x h0 [].
    + exists PRun. cbn. repeat split; auto; try lia; try apply allgo_nil; try congruence.
      exists [], now_. repeat split; auto.
Qed.
