(* Proofs about Model/Ctx.v (data-flow context algebra).
   Exported with stable names for Properties/C05.v and Properties/C02.v. *)
From Coq Require Import List ZArith NArith Bool String Ascii Lia ZifyBool ZifyNat ZifyN Permutation.
Require Import Mistral.Model.Ctx.
Import ListNotations.
Open Scope string_scope.

(* ------------------------------------------------------------------ *)
(* association lists *)

Lemma eqb_refl' : forall s, String.eqb s s = true.
Proof. intro; apply String.eqb_refl. Qed.

Lemma eqb_sym' : forall a b, String.eqb a b = String.eqb b a.
Proof.
  intros a b. destruct (String.eqb a b) eqn:E.
  - apply String.eqb_eq in E; subst. symmetry; apply String.eqb_refl.
  - destruct (String.eqb b a) eqn:E'; auto. apply String.eqb_eq in E'; subst.
    rewrite String.eqb_refl in E; discriminate.
Qed.

Section AssocFacts.
  Context {A : Type}.
  Implicit Types (d : list (string * A)).

  Lemma lookup_set : forall d k k' (v : A),
    lookup k (set k' v d) = if String.eqb k k' then Some v else lookup k d.
  Proof.
    induction d as [|[k0 v0] t IH]; intros k k' v; cbn [set lookup].
    - reflexivity.
    - destruct (String.eqb k' k0) eqn:E0; cbn [lookup].
      + apply String.eqb_eq in E0; subst k0.
        destruct (String.eqb k k'); reflexivity.
      + rewrite IH. destruct (String.eqb k k') eqn:E1.
        * apply String.eqb_eq in E1; subst k. rewrite E0. reflexivity.
        * reflexivity.
  Qed.

  Lemma lookup_remove : forall d k k',
    lookup k (remove k' d) = if String.eqb k' k then None else lookup k d.
  Proof.
    induction d as [|[k0 v0] t IH]; intros k k'; unfold remove; cbn [filter lookup fst].
    - destruct (String.eqb k' k); reflexivity.
    - fold (remove k' t). destruct (String.eqb k' k0) eqn:E0; cbn [negb lookup].
      + rewrite IH. apply String.eqb_eq in E0; subst k0.
        destruct (String.eqb k' k) eqn:E1.
        * reflexivity.
        * rewrite eqb_sym', E1. reflexivity.
      + rewrite IH. destruct (String.eqb k' k) eqn:E1.
        * apply String.eqb_eq in E1; subst k'. rewrite E0. reflexivity.
        * reflexivity.
  Qed.

  Lemma lookup_In : forall d k (v : A), lookup k d = Some v -> In (k, v) d.
  Proof.
    induction d as [|[k0 v0] t IH]; intros k v H; cbn [lookup] in H.
    - discriminate.
    - destruct (String.eqb k k0) eqn:E.
      + apply String.eqb_eq in E; subst. inversion H; subst. left; reflexivity.
      + right. apply IH; assumption.
  Qed.

  Lemma lookup_None_notin : forall d k, lookup k d = None <-> ~ In k (map fst d).
  Proof.
    induction d as [|[k0 v0] t IH]; intros k; cbn [lookup map fst In].
    - split; auto.
    - destruct (String.eqb k k0) eqn:E.
      + apply String.eqb_eq in E; subst. split; [discriminate | intros H; exfalso; apply H; left; reflexivity].
      + rewrite IH. apply String.eqb_neq in E. split.
        * intros H [H1|H1]; [apply E; symmetry; assumption | apply H; assumption].
        * intros H H1; apply H; right; assumption.
  Qed.

  Lemma In_lookup_nodup : forall d k (v : A),
    NoDup (map fst d) -> In (k, v) d -> lookup k d = Some v.
  Proof.
    induction d as [|[k0 v0] t IH]; intros k v ND HI; cbn [lookup].
    - destruct HI.
    - cbn [map fst] in ND. inversion ND as [|? ? Hn ND']; subst.
      destruct HI as [HI|HI].
      + inversion HI; subst. rewrite eqb_refl'. reflexivity.
      + destruct (String.eqb k k0) eqn:E.
        * apply String.eqb_eq in E; subst. exfalso. apply Hn.
          change k0 with (fst (k0, v)). apply in_map. assumption.
        * apply IH; assumption.
  Qed.

  Lemma keys_set : forall d k (v : A) x,
    In x (map fst (set k v d)) <-> x = k \/ In x (map fst d).
  Proof.
    induction d as [|[k0 v0] t IH]; intros k v x; cbn [set map fst In].
    - split; [intros [H|[]]; left; auto | intros [H|[]]; left; auto].
    - destruct (String.eqb k k0) eqn:E; cbn [map fst In].
      + apply String.eqb_eq in E; subst. split; [intros [H|H]; auto | intros [H|[H|H]]; auto].
      + rewrite IH. split; [intros [H|[H|H]]; auto | intros [H|[H|H]]; auto].
  Qed.

  Lemma nodup_set : forall d k (v : A), NoDup (map fst d) -> NoDup (map fst (set k v d)).
  Proof.
    induction d as [|[k0 v0] t IH]; intros k v ND; cbn [set map fst].
    - constructor; [intros [] | constructor].
    - cbn [map fst] in ND. inversion ND as [|? ? Hn ND']; subst.
      destruct (String.eqb k k0) eqn:E; cbn [map fst].
      + apply String.eqb_eq in E; subst. constructor; assumption.
      + constructor.
        * rewrite keys_set. intros [H|H]; [subst; rewrite eqb_refl' in E; discriminate | auto].
        * apply IH; assumption.
  Qed.

  Lemma In_set : forall d k (v : A) k1 v1,
    In (k1, v1) (set k v d) -> (k1 = k /\ v1 = v) \/ In (k1, v1) d.
  Proof.
    induction d as [|[k0 v0] t IH]; intros k v k1 v1 H; cbn [set] in H.
    - destruct H as [H|[]]. inversion H; auto.
    - destruct (String.eqb k k0) eqn:E.
      + destruct H as [H|H]; [inversion H; auto | right; right; assumption].
      + destruct H as [H|H]; [right; left; assumption |].
        apply IH in H. destruct H as [H|H]; [left; assumption | right; right; assumption].
  Qed.

  Lemma nodup_remove : forall d k, NoDup (map fst d) -> NoDup (map fst (remove k d)).
  Proof.
    induction d as [|[k0 v0] t IH]; intros k ND; unfold remove; cbn [filter map fst].
    - constructor.
    - cbn [map fst] in ND. inversion ND as [|? ? Hn ND']; subst. fold (remove k t).
      destruct (negb (String.eqb k k0)); cbn [map fst].
      + constructor; [| apply IH; assumption].
        intros H. apply Hn. unfold remove in H. rewrite in_map_iff in *.
        destruct H as [[a b] [H1 H2]]. apply filter_In in H2. exists (a, b). tauto.
      + apply IH; assumption.
  Qed.

  Lemma In_remove : forall d k k1 (v1 : A), In (k1, v1) (remove k d) -> In (k1, v1) d.
  Proof. intros d k k1 v1 H. unfold remove in H. apply filter_In in H. tauto. Qed.
End AssocFacts.

(* ------------------------------------------------------------------ *)
(* versions *)

Lemma getv_bump : forall vs p q,
  getv q (bump p vs) = if String.eqb q p then (getv p vs + 1)%N else getv q vs.
Proof.
  intros vs p q. unfold getv at 1, bump. rewrite lookup_set.
  destruct (String.eqb q p); reflexivity.
Qed.

Fixpoint occ (q : string) (ps : list string) : N :=
  match ps with
  | [] => 0%N
  | p :: t => ((if String.eqb q p then 1 else 0) + occ q t)%N
  end.

Lemma occ_pos_In : forall q ps, In q ps -> (1 <= occ q ps)%N.
Proof.
  induction ps as [|p t IH]; intros H; cbn [occ].
  - destruct H.
  - destruct H as [H|H].
    + subst. rewrite eqb_refl'. lia.
    + specialize (IH H). destruct (String.eqb q p); lia.
Qed.

Lemma occ_zero_notin : forall q ps, ~ In q ps -> occ q ps = 0%N.
Proof.
  induction ps as [|p t IH]; intros H; cbn [occ].
  - reflexivity.
  - destruct (String.eqb q p) eqn:E.
    + apply String.eqb_eq in E; subst. exfalso; apply H; left; reflexivity.
    + rewrite IH; [reflexivity | intros H1; apply H; right; assumption].
Qed.

Lemma occ_nodup_In : forall q ps, NoDup ps -> In q ps -> occ q ps = 1%N.
Proof.
  induction ps as [|p t IH]; intros ND H; cbn [occ].
  - destruct H.
  - inversion ND as [|? ? Hn ND']; subst. destruct H as [H|H].
    + subst. rewrite eqb_refl'. rewrite occ_zero_notin by assumption. reflexivity.
    + destruct (String.eqb q p) eqn:E.
      * apply String.eqb_eq in E; subst. contradiction.
      * rewrite IH by assumption. reflexivity.
Qed.

Lemma getv_bump_all : forall ps vs q,
  getv q (bump_all ps vs) = (getv q vs + occ q ps)%N.
Proof.
  induction ps as [|p t IH]; intros vs q; unfold bump_all; cbn [fold_left occ].
  - lia.
  - fold (bump_all t (bump p vs)). rewrite IH, getv_bump.
    destruct (String.eqb q p) eqn:E.
    + apply String.eqb_eq in E; subst. lia.
    + lia.
Qed.

Lemma nodup_bump_all : forall ps vs, NoDup (map fst vs) -> NoDup (map fst (bump_all ps vs)).
Proof.
  induction ps as [|p t IH]; intros vs ND; unfold bump_all; cbn [fold_left].
  - assumption.
  - fold (bump_all t (bump p vs)). apply IH. unfold bump. apply nodup_set; assumption.
Qed.

Lemma getv_merge_vers : forall r l q,
  NoDup (map fst r) -> getv q (merge_vers l r) = N.max (getv q l) (getv q r).
Proof.
  induction r as [|[k n] t IH]; intros l q ND; unfold merge_vers; cbn [fold_left fst snd].
  - unfold getv at 3. cbn [lookup]. lia.
  - cbn [map fst] in ND. inversion ND as [|? ? Hn ND']; subst.
    fold (merge_vers (set k (N.max (getv k l) n) l) t). rewrite IH by assumption.
    unfold getv at 1. rewrite lookup_set. unfold getv at 4. cbn [lookup].
    destruct (String.eqb q k) eqn:E.
    + apply String.eqb_eq in E; subst q.
      assert (H0 : getv k t = 0%N).
      { unfold getv. apply lookup_None_notin in Hn. rewrite Hn. reflexivity. }
      rewrite H0. lia.
    + fold (getv q l). fold (getv q t). reflexivity.
Qed.

Lemma nodup_merge_vers : forall r l, NoDup (map fst l) -> NoDup (map fst (merge_vers l r)).
Proof.
  induction r as [|[k n] t IH]; intros l ND; unfold merge_vers; cbn [fold_left fst snd].
  - assumption.
  - fold (merge_vers (set k (N.max (getv k l) n) l) t). apply IH. apply nodup_set; assumption.
Qed.

(* ------------------------------------------------------------------ *)
(* update_dict / outbound *)

Lemma lookup_update_dict : forall r l k,
  NoDup (map fst r) ->
  lookup k (update_dict l r) = match lookup k r with Some v => Some v | None => lookup k l end.
Proof.
  induction r as [|[k1 v1] t IH]; intros l k ND; unfold update_dict; cbn [fold_left fst snd lookup].
  - reflexivity.
  - cbn [map fst] in ND. inversion ND as [|? ? Hn ND']; subst.
    fold (update_dict (set k1 v1 l) t). rewrite IH by assumption. rewrite lookup_set.
    destruct (String.eqb k k1) eqn:E.
    + apply String.eqb_eq in E; subst k. apply lookup_None_notin in Hn. rewrite Hn. reflexivity.
    + reflexivity.
Qed.

Lemma nodup_update_dict : forall r l, NoDup (map fst l) -> NoDup (map fst (update_dict l r)).
Proof.
  induction r as [|[k1 v1] t IH]; intros l ND; unfold update_dict; cbn [fold_left fst snd].
  - assumption.
  - fold (update_dict (set k1 v1 l) t). apply IH. apply nodup_set; assumption.
Qed.

Lemma In_update_dict : forall r l k v,
  In (k, v) (update_dict l r) -> In (k, v) l \/ In (k, v) r.
Proof.
  induction r as [|[k1 v1] t IH]; intros l k v H; unfold update_dict in H; cbn [fold_left fst snd] in H.
  - left; assumption.
  - fold (update_dict (set k1 v1 l) t) in H. apply IH in H. destruct H as [H|H].
    + apply In_set in H. destruct H as [[H1 H2]|H]; [subst; right; left; reflexivity | left; assumption].
    + right; right; assumption.
Qed.

(* outbound context: published values on top of the inbound data ... *)
Theorem outbound_data : forall c pub k,
  NoDup (map fst pub) ->
  lookup k (cdata (outbound c pub)) =
  match lookup k pub with Some v => Some v | None => lookup k (cdata c) end.
Proof. intros. unfold outbound. cbn [cdata]. apply lookup_update_dict; assumption. Qed.

(* ... and every version counter incremented once per occurrence among the published leaf paths *)
Theorem outbound_vers : forall c pub q,
  getv q (cvers (outbound c pub)) = (getv q (cvers c) + occ q (pub_paths pub))%N.
Proof. intros. unfold outbound. cbn [cvers]. apply getv_bump_all. Qed.

Corollary outbound_vers_untouched : forall c pub q,
  ~ In q (pub_paths pub) -> getv q (cvers (outbound c pub)) = getv q (cvers c).
Proof. intros c pub q H. rewrite outbound_vers, occ_zero_notin by assumption. lia. Qed.

Corollary outbound_vers_bumped : forall c pub q,
  In q (pub_paths pub) -> (getv q (cvers c) < getv q (cvers (outbound c pub)))%N.
Proof. intros c pub q H. rewrite outbound_vers. pose proof (occ_pos_In _ _ H). lia. Qed.

Corollary outbound_vers_exact : forall c pub q,
  NoDup (pub_paths pub) -> In q (pub_paths pub) ->
  getv q (cvers (outbound c pub)) = (getv q (cvers c) + 1)%N.
Proof. intros c pub q ND H. rewrite outbound_vers, occ_nodup_In by assumption. reflexivity. Qed.

(* published paths vs navigation *)
Lemma pub_paths_v_dict : forall p d,
  pub_paths_v p (VDict d) = p :: flat_map (fun kv => pub_paths_v (join_path p (fst kv)) (snd kv)) d.
Proof.
  intros p d. cbn [pub_paths_v]. f_equal. induction d as [|[k v] t IH]; cbn [flat_map fst snd].
  - reflexivity.
  - rewrite IH. reflexivity.
Qed.

Lemma pub_paths_v_self : forall p v, In p (pub_paths_v p v).
Proof. intros p v. destruct v; left; reflexivity. Qed.

Lemma pub_paths_v_child : forall p d k v,
  lookup k d = Some v -> incl (pub_paths_v (join_path p k) v) (pub_paths_v p (VDict d)).
Proof.
  intros p d k v H q Hq. rewrite pub_paths_v_dict. right. apply in_flat_map. exists (k, v). split.
  - apply lookup_In; assumption.
  - exact Hq.
Qed.

(* every position reached inside a published value - leaf or dict node - is a bumped path *)
Lemma pub_path_of_position : forall ks p v x,
  at_path ks v = Some x -> In (path_str p ks) (pub_paths_v p v).
Proof.
  induction ks as [|k t IH]; intros p v x H; cbn [at_path path_str] in *.
  - apply pub_paths_v_self.
  - destruct v; try discriminate. destruct (lookup k d) eqn:E; try discriminate.
    eapply pub_paths_v_child; [eassumption|]. eapply IH; eassumption.
Qed.

Lemma pub_paths_top : forall pub k v,
  lookup k pub = Some v -> incl (pub_paths_v (join_path "" k) v) (pub_paths pub).
Proof.
  intros pub k v H q Hq. unfold pub_paths. apply in_flat_map. exists (k, v). split; [apply lookup_In; assumption | exact Hq].
Qed.

Corollary published_position_bumped : forall c pub k t x,
  at_path (k :: t) (VDict pub) = Some x ->
  (getv (path_str "" (k :: t)) (cvers c) < getv (path_str "" (k :: t)) (cvers (outbound c pub)))%N.
Proof.
  intros c pub k t x H. apply outbound_vers_bumped. cbn [at_path path_str] in *.
  destruct (lookup k pub) eqn:E; try discriminate.
  eapply pub_paths_top; [eassumption|]. eapply pub_path_of_position; eassumption.
Qed.

(* ------------------------------------------------------------------ *)
(* merge: one-level characterisation *)

Lemma merge_val_dict : forall vl vr p ld rd,
  merge_val vl vr p (VDict ld) (VDict rd) = VDict (merge_items vl vr p ld rd).
Proof. reflexivity. Qed.

Lemma merge_val_leaf : forall vl vr p lv rv,
  is_dict lv && is_dict rv = false ->
  merge_val vl vr p lv rv = if N.ltb (getv p vl) (getv p vr) then rv else lv.
Proof.
  intros vl vr p lv rv H. destruct rv; try reflexivity. destruct lv; try reflexivity. discriminate.
Qed.

Definition pick_val (vl vr : vers) (p : string) (ol or : option value) : option value :=
  match ol, or with
  | None, r => r
  | Some l, None => Some l
  | Some l, Some r => Some (merge_val vl vr p l r)
  end.

Theorem lookup_merge_items : forall vl vr p rd ld k,
  NoDup (map fst rd) ->
  lookup k (merge_items vl vr p ld rd) =
  pick_val vl vr (join_path p k) (lookup k ld) (lookup k rd).
Proof.
  intros vl vr p. induction rd as [|[k1 v1] t IH]; intros ld k ND; unfold merge_items; cbn [fold_left lookup].
  - unfold pick_val. destruct (lookup k ld); reflexivity.
  - cbn [map fst] in ND. inversion ND as [|? ? Hn ND']; subst.
    fold (merge_items vl vr p (merge_step vl vr p ld (k1, v1)) t). rewrite IH by assumption.
    unfold merge_step. cbn [fst snd].
    destruct (String.eqb k k1) eqn:E.
    + apply String.eqb_eq in E; subst k. apply lookup_None_notin in Hn. rewrite Hn.
      destruct (lookup k1 ld) eqn:E1; rewrite lookup_set, eqb_refl'; reflexivity.
    + destruct (lookup k1 ld) eqn:E1; rewrite lookup_set, E; reflexivity.
Qed.

Lemma nodup_merge_items : forall vl vr p rd ld,
  NoDup (map fst ld) -> NoDup (map fst (merge_items vl vr p ld rd)).
Proof.
  intros vl vr p. induction rd as [|[k1 v1] t IH]; intros ld ND; unfold merge_items; cbn [fold_left].
  - assumption.
  - fold (merge_items vl vr p (merge_step vl vr p ld (k1, v1)) t). apply IH.
    unfold merge_step. destruct (lookup (fst (k1, v1)) ld); apply nodup_set; assumption.
Qed.

(* ------------------------------------------------------------------ *)
(* well-formed values: python dicts have distinct keys, at every depth that the
   merge can reach (lists are never entered) *)
Inductive wf_value : value -> Prop :=
| wf_null : wf_value VNull
| wf_bool : forall b, wf_value (VBool b)
| wf_num : forall z, wf_value (VNum z)
| wf_str : forall s, wf_value (VStr s)
| wf_list : forall l, wf_value (VList l)
| wf_dict : forall d, NoDup (map fst d) -> (forall k v, In (k, v) d -> wf_value v) -> wf_value (VDict d).

Definition wf_dict_ (d : dict) : Prop := wf_value (VDict d).

Record wf_ctx (c : ctx) : Prop := {
  wf_data : wf_value (VDict (cdata c));
  wf_vers : NoDup (map fst (cvers c))
}.

Lemma wf_dict_nodup : forall d, wf_value (VDict d) -> NoDup (map fst d).
Proof. intros d H; inversion H; assumption. Qed.

Lemma wf_dict_elem : forall d k v, wf_value (VDict d) -> lookup k d = Some v -> wf_value v.
Proof. intros d k v H L; inversion H as [| | | | |? ? HE]; subst. eapply HE. apply lookup_In; eassumption. Qed.

Lemma wf_remove : forall d k, wf_value (VDict d) -> wf_value (VDict (remove k d)).
Proof.
  intros d k H. inversion H as [| | | | |? ND HE]; subst. constructor.
  - apply nodup_remove; assumption.
  - intros k1 v1 HI. eapply HE. eapply In_remove; eassumption.
Qed.

Lemma wf_update_dict : forall l r, wf_value (VDict l) -> wf_value (VDict r) -> wf_value (VDict (update_dict l r)).
Proof.
  intros l r Hl Hr. inversion Hl as [| | | | |? NDl HEl]; inversion Hr as [| | | | |? NDr HEr]; subst.
  constructor.
  - apply nodup_update_dict; assumption.
  - intros k v HI. apply In_update_dict in HI. destruct HI; [eapply HEl | eapply HEr]; eassumption.
Qed.

Lemma wf_outbound : forall c pub, wf_ctx c -> wf_value (VDict pub) -> wf_ctx (outbound c pub).
Proof.
  intros c pub [Hd Hv] Hp. constructor; unfold outbound; cbn [cdata cvers].
  - apply wf_update_dict; assumption.
  - apply nodup_bump_all; assumption.
Qed.

(* merging well-formed values gives a well-formed value *)
Lemma wf_merge_val : forall vl vr rv, wf_value rv -> forall p lv, wf_value lv -> wf_value (merge_val vl vr p lv rv).
Proof.
  intros vl vr rv Hr. induction Hr as [| | | | |rd ND HE IH]; intros p lv Hl;
    try (rewrite merge_val_leaf by (cbn; apply andb_false_r); destruct (N.ltb _ _); auto using wf_value).
  destruct lv; try (rewrite merge_val_leaf by reflexivity; destruct (N.ltb _ _); auto using wf_value).
  rewrite merge_val_dict.
  (* invariant over the fold *)
  assert (G : forall rd', (forall k v, In (k, v) rd' -> In (k, v) rd) ->
              forall ld, wf_value (VDict ld) -> wf_value (VDict (merge_items vl vr p ld rd'))).
  { induction rd' as [|[k1 v1] t IHt]; intros Hsub ld Hld; unfold merge_items; cbn [fold_left].
    - assumption.
    - fold (merge_items vl vr p (merge_step vl vr p ld (k1, v1)) t). apply IHt.
      + intros k v HI; apply Hsub; right; assumption.
      + unfold merge_step. cbn [fst snd]. inversion Hld as [| | | | |? NDl HEl]; subst.
        destruct (lookup k1 ld) eqn:E.
        * constructor; [apply nodup_set; assumption|].
          intros k' v' HI. apply In_set in HI. destruct HI as [[H1 H2]|HI].
          -- subst. eapply IH; [apply Hsub; left; reflexivity|]. eapply HEl. apply lookup_In; eassumption.
          -- eapply HEl; eassumption.
        * constructor; [apply nodup_set; assumption|].
          intros k' v' HI. apply In_set in HI. destruct HI as [[H1 H2]|HI].
          -- subst. eapply HE. apply Hsub; left; reflexivity.
          -- eapply HEl; eassumption. }
  apply G; auto.
Qed.

Lemma wf_merge_ctx : forall l r, wf_ctx l -> wf_ctx r -> wf_ctx (merge_ctx l r).
Proof.
  intros l r [Hld Hlv] [Hrd Hrv]. constructor; unfold merge_ctx; cbn [cdata cvers].
  - rewrite <- merge_val_dict. apply wf_merge_val; apply wf_remove; assumption.
  - apply nodup_merge_vers; assumption.
Qed.

(* ------------------------------------------------------------------ *)
(* merge along paths: the newer version wins, ties keep the left value *)

Theorem merge_prefers_newer_path : forall vl vr ks p l r a b,
  wf_value r ->
  at_path ks l = Some a -> at_path ks r = Some b -> is_dict a && is_dict b = false ->
  at_path ks (merge_val vl vr p l r) =
  Some (if N.ltb (getv (path_str p ks) vl) (getv (path_str p ks) vr) then b else a).
Proof.
  intros vl vr. induction ks as [|k t IH]; intros p l r a b Hr Ha Hb Hab; cbn [at_path path_str] in *.
  - inversion Ha; inversion Hb; subst. rewrite merge_val_leaf by assumption.
    destruct (N.ltb _ _); reflexivity.
  - destruct l as [| | | | |ld]; try discriminate. destruct r as [| | | | |rd]; try discriminate.
    destruct (lookup k ld) as [lv|] eqn:El; try discriminate.
    destruct (lookup k rd) as [rv|] eqn:Er; try discriminate.
    rewrite merge_val_dict. cbn [at_path].
    rewrite lookup_merge_items by (apply wf_dict_nodup; assumption).
    rewrite El, Er. cbn [pick_val]. apply IH; try assumption. eapply wf_dict_elem; eassumption.
Qed.

(* keys present on one side only are kept / added *)
Theorem merge_keeps_left_only : forall vl vr p ld rd k v,
  NoDup (map fst rd) -> lookup k ld = Some v -> lookup k rd = None ->
  lookup k (merge_items vl vr p ld rd) = Some v.
Proof. intros. rewrite lookup_merge_items by assumption. rewrite H0, H1. reflexivity. Qed.

Theorem merge_adds_right_only : forall vl vr p ld rd k v,
  NoDup (map fst rd) -> lookup k ld = None -> lookup k rd = Some v ->
  lookup k (merge_items vl vr p ld rd) = Some v.
Proof. intros. rewrite lookup_merge_items by assumption. rewrite H0, H1. reflexivity. Qed.

Theorem merge_absent_both : forall vl vr p ld rd k,
  NoDup (map fst rd) -> lookup k ld = None -> lookup k rd = None ->
  lookup k (merge_items vl vr p ld rd) = None.
Proof. intros. rewrite lookup_merge_items by assumption. rewrite H0, H1. reflexivity. Qed.

(* ------------------------------------------------------------------ *)
(* context level *)

Lemma join_path_top0 : forall k, join_path "" k = k.
Proof. reflexivity. Qed.

Lemma at_path_remove : forall d k ks x,
  at_path ks (VDict (remove k d)) = Some x -> at_path ks (VDict d) = Some x \/ ks = [].
Proof.
  intros d k ks x H. destruct ks as [|k0 t]; [right; reflexivity|left].
  cbn [at_path] in *. rewrite lookup_remove in H. destruct (String.eqb k k0); [discriminate | assumption].
Qed.

Lemma at_path_remove_other : forall d k k0 t,
  k0 <> k -> at_path (k0 :: t) (VDict (remove k d)) = at_path (k0 :: t) (VDict d).
Proof.
  intros d k k0 t H. cbn [at_path]. rewrite lookup_remove.
  destruct (String.eqb k k0) eqn:E; [apply String.eqb_eq in E; subst; contradiction | reflexivity].
Qed.

Lemma at_path_update_dict : forall l r k t v,
  NoDup (map fst r) -> lookup k r = Some v ->
  at_path (k :: t) (VDict (update_dict l r)) = at_path (k :: t) (VDict r).
Proof. intros l r k t v ND H. cbn [at_path]. rewrite lookup_update_dict by assumption. rewrite H. reflexivity. Qed.

(* the publishing side is strictly newer at the position [p] and at every position below it
   along [ks] *)
Fixpoint newer_along (vt vo : vers) (p : string) (ks : list string) : Prop :=
  (getv p vo < getv p vt)%N /\
  match ks with [] => True | k :: t => newer_along vt vo (join_path p k) t end.

(* the other side is nowhere newer than [vc] along the same positions *)
Fixpoint not_newer_along (vo vc : vers) (p : string) (ks : list string) : Prop :=
  (getv p vo <= getv p vc)%N /\
  match ks with [] => True | k :: t => not_newer_along vo vc (join_path p k) t end.

Lemma not_newer_along_all : forall vo vc p ks,
  (forall q, (getv q vo <= getv q vc)%N) -> not_newer_along vo vc p ks.
Proof.
  intros vo vc p ks H. revert p. induction ks as [|k t IH]; intros p; cbn [not_newer_along]; split; auto.
Qed.

(* the side that published the leaf is on the left *)
Lemma fresh_left_wins : forall vt vo ks p tv ov x,
  wf_value ov ->
  at_path ks tv = Some x -> is_dict x = false -> newer_along vt vo p ks ->
  at_path ks (merge_val vt vo p tv ov) = Some x.
Proof.
  intros vt vo. induction ks as [|k t IH]; intros p tv ov x Hw Hx Hd [Hv Hn]; cbn [at_path] in *.
  - inversion Hx; subst. rewrite merge_val_leaf by (rewrite Hd; reflexivity).
    destruct (N.ltb_spec (getv p vt) (getv p vo)); [lia | reflexivity].
  - destruct tv as [| | | | |td]; try discriminate.
    destruct (lookup k td) as [tv'|] eqn:Et; try discriminate.
    destruct ov as [| | | | |od];
      try (rewrite merge_val_leaf by (apply andb_false_r);
           destruct (N.ltb_spec (getv p vt) (getv p vo)); [lia|]; cbn [at_path]; rewrite Et; assumption).
    rewrite merge_val_dict. cbn [at_path]. rewrite lookup_merge_items by (apply wf_dict_nodup; assumption).
    rewrite Et. destruct (lookup k od) as [ov'|] eqn:Eo; cbn [pick_val].
    + apply IH; try assumption. eapply wf_dict_elem; eassumption.
    + assumption.
Qed.

(* ... or on the right *)
Lemma fresh_right_wins : forall vt vo ks p tv ov x,
  wf_value tv ->
  at_path ks tv = Some x -> is_dict x = false -> newer_along vt vo p ks ->
  at_path ks (merge_val vo vt p ov tv) = Some x.
Proof.
  intros vt vo. induction ks as [|k t IH]; intros p tv ov x Hw Hx Hd [Hv Hn]; cbn [at_path] in *.
  - inversion Hx; subst. rewrite merge_val_leaf by (rewrite Hd; apply andb_false_r).
    destruct (N.ltb_spec (getv p vo) (getv p vt)); [reflexivity | lia].
  - destruct tv as [| | | | |td]; try discriminate.
    destruct (lookup k td) as [tv'|] eqn:Et; try discriminate.
    destruct ov as [| | | | |od];
      try (rewrite merge_val_leaf by reflexivity;
           destruct (N.ltb_spec (getv p vo) (getv p vt)); [|lia]; cbn [at_path]; rewrite Et; assumption).
    rewrite merge_val_dict. cbn [at_path]. rewrite lookup_merge_items by (apply wf_dict_nodup; assumption).
    rewrite Et. destruct (lookup k od) as [ov'|] eqn:Eo; cbn [pick_val].
    + apply IH; try assumption. eapply wf_dict_elem; eassumption.
    + assumption.
Qed.

(* publishing makes the publisher strictly newer along the whole position *)
Lemma newer_along_bumped : forall vt vo vc ks p v x,
  at_path ks v = Some x ->
  (forall q, In q (pub_paths_v p v) -> (getv q vc < getv q vt)%N) ->
  not_newer_along vo vc p ks -> newer_along vt vo p ks.
Proof.
  intros vt vo vc. induction ks as [|k t IH]; intros p v x Hx Hb [Hle Hn]; cbn [newer_along at_path] in *.
  - split; [|exact I]. pose proof (Hb p (pub_paths_v_self p v)). lia.
  - split; [pose proof (Hb p (pub_paths_v_self p v)); lia|].
    destruct v; try discriminate. destruct (lookup k d) eqn:E; try discriminate.
    eapply IH; [eassumption | | assumption].
    intros q Hq. apply Hb. eapply pub_paths_v_child; eassumption.
Qed.

(* A leaf value published by a task (at ANY depth, whatever shape the variable had before)
   survives a merge, in either argument order, with ANY context that is not newer than the
   task's inbound context along the position of the leaf (an "inherited copy"). *)
Theorem no_stale_overwrite : forall c pub o k t x,
  wf_ctx c -> wf_value (VDict pub) -> wf_ctx o ->
  k <> TASK_EXECUTION_KEY ->
  at_path (k :: t) (VDict pub) = Some x -> is_dict x = false ->
  not_newer_along (cvers o) (cvers c) (join_path "" k) t ->
  at_path (k :: t) (VDict (cdata (merge_ctx (outbound c pub) o))) = Some x /\
  at_path (k :: t) (VDict (cdata (merge_ctx o (outbound c pub)))) = Some x.
Proof.
  intros c pub o k t x Hc Hp Ho Hk Hx Hd Hv.
  assert (Hout : at_path (k :: t) (VDict (remove TASK_EXECUTION_KEY (cdata (outbound c pub)))) = Some x).
  { rewrite at_path_remove_other by assumption. unfold outbound; cbn [cdata].
    cbn [at_path] in Hx. destruct (lookup k pub) eqn:E; try discriminate.
    erewrite at_path_update_dict; [| apply wf_dict_nodup; assumption | eassumption].
    cbn [at_path]. rewrite E. assumption. }
  pose proof (wf_outbound c pub Hc Hp) as [Hwo _]. destruct Ho as [Hod Hov].
  (* both data parts are dicts: descend one level by hand, then use the value lemmas *)
  cbn [at_path] in Hx. destruct (lookup k pub) as [pv|] eqn:Epub; try discriminate.
  assert (Hnew : newer_along (cvers (outbound c pub)) (cvers o) (join_path "" k) t).
  { eapply newer_along_bumped; [eassumption | | eassumption].
    intros q Hq. apply outbound_vers_bumped. eapply pub_paths_top; eassumption. }
  assert (Lout : lookup k (remove TASK_EXECUTION_KEY (cdata (outbound c pub))) = Some pv).
  { rewrite lookup_remove. destruct (String.eqb TASK_EXECUTION_KEY k) eqn:E;
      [apply String.eqb_eq in E; subst; contradiction|].
    unfold outbound; cbn [cdata]. rewrite lookup_update_dict by (apply wf_dict_nodup; assumption).
    rewrite Epub. reflexivity. }
  assert (Wpv : wf_value pv) by exact (wf_dict_elem pub k pv Hp Epub).
  unfold merge_ctx; cbn [cdata at_path]. split.
  - rewrite lookup_merge_items by (apply nodup_remove; apply wf_dict_nodup; assumption).
    rewrite Lout. destruct (lookup k (remove TASK_EXECUTION_KEY (cdata o))) as [ov|] eqn:Eo; cbn [pick_val].
    + apply fresh_left_wins; try assumption.
      exact (wf_dict_elem _ k ov (wf_remove _ TASK_EXECUTION_KEY Hod) Eo).
    + assumption.
  - rewrite lookup_merge_items by (apply nodup_remove; apply wf_dict_nodup; assumption).
    rewrite Lout. destruct (lookup k (remove TASK_EXECUTION_KEY (cdata o))) as [ov|] eqn:Eo; cbn [pick_val].
    + apply fresh_right_wins; assumption.
    + assumption.
Qed.

(* top-level variables: a scalar (or list) published under a variable is never replaced *)
Corollary no_stale_overwrite_flat : forall c pub o k x,
  wf_ctx c -> wf_value (VDict pub) -> wf_ctx o ->
  k <> TASK_EXECUTION_KEY ->
  lookup k pub = Some x -> is_dict x = false ->
  (getv k (cvers o) <= getv k (cvers c))%N ->
  lookup k (cdata (merge_ctx (outbound c pub) o)) = Some x /\
  lookup k (cdata (merge_ctx o (outbound c pub))) = Some x.
Proof.
  intros c pub o k x Hc Hp Ho Hk Hx Hd Hv.
  destruct (no_stale_overwrite c pub o k [] x Hc Hp Ho Hk) as [H1 H2]; try assumption.
  - cbn [at_path]. rewrite Hx. reflexivity.
  - cbn [not_newer_along]. rewrite join_path_top0. split; [assumption | exact I].
  - cbn [at_path] in H1, H2.
    destruct (lookup k (cdata (merge_ctx (outbound c pub) o))); try discriminate.
    destruct (lookup k (cdata (merge_ctx o (outbound c pub)))); try discriminate.
    inversion H1; inversion H2; subst. split; reflexivity.
Qed.

(* inherited copy in the plain sense: nowhere newer than the publisher's inbound context *)
Corollary no_stale_overwrite_inherited : forall c pub o k t x,
  wf_ctx c -> wf_value (VDict pub) -> wf_ctx o ->
  k <> TASK_EXECUTION_KEY ->
  at_path (k :: t) (VDict pub) = Some x -> is_dict x = false ->
  (forall q, (getv q (cvers o) <= getv q (cvers c))%N) ->
  at_path (k :: t) (VDict (cdata (merge_ctx (outbound c pub) o))) = Some x /\
  at_path (k :: t) (VDict (cdata (merge_ctx o (outbound c pub)))) = Some x.
Proof.
  intros. apply no_stale_overwrite; try assumption. apply not_newer_along_all; assumption.
Qed.

(* concrete values: decide well-formedness by computation *)
Ltac solve_nodup :=
  cbn; repeat (constructor; [cbn; intuition congruence|]); try constructor.
Ltac solve_wf :=
  repeat first
    [ apply wf_null | apply wf_bool | apply wf_num | apply wf_str | apply wf_list
    | apply wf_dict;
      [ solve_nodup
      | let k := fresh "k" in let v := fresh "v" in let HI := fresh "HI" in
        intros k v HI; cbn in HI;
        repeat (destruct HI as [HI|HI]; [inversion HI; subst; clear HI|]); try contradiction ] ].

(* Regression witness of the former defect (a variable that was a scalar upstream is
   re-published as a dict in one branch, the other branch only inherits the scalar): with the
   dict node's own path versioned, both merge orders keep the published leaf. *)
Definition stale_c : ctx := outbound empty_ctx [("a", VNum 1)].
Definition stale_pub : dict := [("a", VDict [("b", VNum 2)])].

Lemma wf_stale_c : wf_ctx stale_c.
Proof. apply wf_outbound; [constructor; cbn; [solve_wf | constructor] | solve_wf]. Qed.

Lemma former_stale_witness_clean :
  at_path ["a"; "b"] (VDict (cdata (merge_ctx stale_c (outbound stale_c stale_pub)))) = Some (VNum 2) /\
  at_path ["a"; "b"] (VDict (cdata (merge_ctx (outbound stale_c stale_pub) stale_c))) = Some (VNum 2).
Proof.
  apply (no_stale_overwrite_inherited stale_c stale_pub stale_c "a" ["b"] (VNum 2)).
  - apply wf_stale_c.
  - unfold stale_pub. solve_wf.
  - apply wf_stale_c.
  - discriminate.
  - reflexivity.
  - reflexivity.
  - intros q. lia.
Qed.

(* ------------------------------------------------------------------ *)
(* extensional equality of nested values: same observation at every key path *)

Definition shape (v : value) : value := match v with VDict _ => VDict [] | _ => v end.
Definition obs (ks : list string) (v : value) : option value := option_map shape (at_path ks v).
Definition veq (a b : value) : Prop := forall ks, obs ks a = obs ks b.

Lemma veq_refl : forall a, veq a a.
Proof. intros a ks; reflexivity. Qed.

Lemma veq_sym : forall a b, veq a b -> veq b a.
Proof. intros a b H ks; symmetry; apply H. Qed.

Lemma veq_trans : forall a b c, veq a b -> veq b c -> veq a c.
Proof. intros a b c H1 H2 ks; rewrite H1; apply H2. Qed.

Definition orel (R : value -> value -> Prop) (x y : option value) : Prop :=
  match x, y with
  | None, None => True
  | Some a, Some b => R a b
  | _, _ => False
  end.

Lemma veq_dict_intro : forall d1 d2,
  (forall k, orel veq (lookup k d1) (lookup k d2)) -> veq (VDict d1) (VDict d2).
Proof.
  intros d1 d2 H ks. destruct ks as [|k t]; [reflexivity|].
  unfold obs. cbn [at_path]. specialize (H k).
  destruct (lookup k d1), (lookup k d2); cbn [orel] in H; try contradiction; [apply H | reflexivity].
Qed.

Lemma veq_dict_elim : forall d1 d2 k,
  veq (VDict d1) (VDict d2) -> orel veq (lookup k d1) (lookup k d2).
Proof.
  intros d1 d2 k H. pose proof (H [k]) as H0. unfold obs in H0. cbn [at_path] in H0.
  destruct (lookup k d1) eqn:E1, (lookup k d2) eqn:E2; cbn [orel]; cbn in H0; try discriminate; auto.
  intros ks. specialize (H (k :: ks)). unfold obs in *. cbn [at_path] in H. rewrite E1, E2 in H. exact H.
Qed.

(* conflict freedom of two values under the version maps: wherever the merge compares
   versions (a position present on both sides, not dict-vs-dict) a tie means the two
   sides hold the same value *)
Definition cf_at (vl vr : vers) (p : string) (a b : value) : Prop :=
  forall ks x y, at_path ks a = Some x -> at_path ks b = Some y ->
    is_dict x && is_dict y = false ->
    getv (path_str p ks) vl = getv (path_str p ks) vr -> x = y.

Lemma cf_at_down : forall vl vr p da db k x y,
  cf_at vl vr p (VDict da) (VDict db) -> lookup k da = Some x -> lookup k db = Some y ->
  cf_at vl vr (join_path p k) x y.
Proof.
  intros vl vr p da db k x y H Hx Hy ks x' y' Hx' Hy' Hd Hv.
  apply (H (k :: ks)); cbn [at_path path_str]; try assumption; [rewrite Hx | rewrite Hy]; assumption.
Qed.

Lemma cf_at_sym : forall vl vr p a b, cf_at vl vr p a b -> cf_at vr vl p b a.
Proof.
  intros vl vr p a b H ks x y Hx Hy Hd Hv. symmetry. apply (H ks); try assumption.
  - rewrite andb_comm; assumption.
  - symmetry; assumption.
Qed.

Theorem merge_val_comm : forall vl vr a, wf_value a -> forall p w, wf_value w ->
  cf_at vl vr p a w -> veq (merge_val vl vr p a w) (merge_val vr vl p w a).
Proof.
  intros vl vr a Ha. induction Ha as [| | | | |da NDa HEa IH]; intros p w Hw Hcf.
  1-5: (rewrite !merge_val_leaf by (try reflexivity; apply andb_false_r);
        destruct (N.ltb_spec (getv p vl) (getv p vr)); destruct (N.ltb_spec (getv p vr) (getv p vl));
        try lia; try apply veq_refl;
        assert (E : getv p vl = getv p vr) by lia;
        rewrite (Hcf [] _ w eq_refl eq_refl eq_refl E); apply veq_refl).
  destruct w as [| | | | |db].
  1-5: (rewrite !merge_val_leaf by (try reflexivity; apply andb_false_r);
        destruct (N.ltb_spec (getv p vl) (getv p vr)); destruct (N.ltb_spec (getv p vr) (getv p vl));
        try lia; try apply veq_refl;
        assert (E : getv p vl = getv p vr) by lia;
        rewrite (Hcf [] (VDict da) _ eq_refl eq_refl eq_refl E); apply veq_refl).
  rewrite !merge_val_dict. apply veq_dict_intro. intros k.
  rewrite !lookup_merge_items by (try assumption; apply wf_dict_nodup; assumption).
  destruct (lookup k da) as [x|] eqn:Ex, (lookup k db) as [y|] eqn:Ey; cbn [pick_val orel]; try apply veq_refl; auto.
  apply (IH k x (lookup_In _ _ _ Ex)).
  - eapply wf_dict_elem; eassumption.
  - eapply cf_at_down; eassumption.
Qed.

Theorem merge_val_idem : forall vs a, wf_value a -> forall p, veq (merge_val vs vs p a a) a.
Proof.
  intros vs a Ha. induction Ha as [| | | | |da NDa HEa IH]; intros p;
    try (rewrite merge_val_leaf by reflexivity; rewrite N.ltb_irrefl; apply veq_refl).
  rewrite merge_val_dict. apply veq_dict_intro. intros k.
  rewrite lookup_merge_items by assumption.
  destruct (lookup k da) as [x|] eqn:Ex; cbn [pick_val orel]; auto.
  apply (IH k x (lookup_In _ _ _ Ex)).
Qed.

(* contexts: same data (extensionally) and same version at every path *)
Definition ceq (c1 c2 : ctx) : Prop :=
  veq (VDict (cdata c1)) (VDict (cdata c2)) /\ forall q, getv q (cvers c1) = getv q (cvers c2).

Definition cf_ctx (l r : ctx) : Prop :=
  cf_at (cvers l) (cvers r) "" (VDict (cdata l)) (VDict (cdata r)).

Lemma cf_at_remove : forall vl vr k da db,
  cf_at vl vr "" (VDict da) (VDict db) -> cf_at vl vr "" (VDict (remove k da)) (VDict (remove k db)).
Proof.
  intros vl vr k da db H ks x y Hx Hy Hd Hv.
  destruct (at_path_remove _ _ _ _ Hx) as [Hx'|E]; destruct (at_path_remove _ _ _ _ Hy) as [Hy'|E'];
    try (subst ks; cbn [at_path] in Hx, Hy; inversion Hx; inversion Hy; subst; discriminate).
  apply (H ks); assumption.
Qed.

Theorem merge_ctx_comm : forall l r, wf_ctx l -> wf_ctx r -> cf_ctx l r ->
  ceq (merge_ctx l r) (merge_ctx r l).
Proof.
  intros l r [Hld Hlv] [Hrd Hrv] Hcf. split; unfold merge_ctx; cbn [cdata cvers].
  - rewrite <- !merge_val_dict. apply merge_val_comm; try (apply wf_remove; assumption).
    apply cf_at_remove; assumption.
  - intros q. rewrite !getv_merge_vers by assumption. lia.
Qed.

Definition strip (c : ctx) : ctx := mkCtx (remove TASK_EXECUTION_KEY (cdata c)) (cvers c).

Theorem merge_ctx_idem : forall c, wf_ctx c -> ceq (merge_ctx c c) (strip c).
Proof.
  intros c [Hd Hv]. split; unfold merge_ctx, strip; cbn [cdata cvers].
  - rewrite <- merge_val_dict. apply merge_val_idem. apply wf_remove; assumption.
  - intros q. rewrite getv_merge_vers by assumption. lia.
Qed.

(* ------------------------------------------------------------------ *)
(* flat contexts (no dict-valued variable): pointwise algebra of the merge and
   order independence of the upstream fold *)

Definition cell := (option value * N)%type.

(* what a context holds for variable k: value (if any) and version *)
Definition den (c : ctx) (k : string) : cell := (lookup k (cdata c), getv k (cvers c)).

Definition dmerge (x y : cell) : cell :=
  (match fst x, fst y with
   | None, r => r
   | Some a, None => Some a
   | Some a, Some b => if N.ltb (snd x) (snd y) then Some b else Some a
   end, N.max (snd x) (snd y)).

Definition flat_ctx (c : ctx) : Prop := forall k v, lookup k (cdata c) = Some v -> is_dict v = false.
Definition te_free (c : ctx) : Prop := lookup TASK_EXECUTION_KEY (cdata c) = None.

Lemma join_path_top : forall k, join_path "" k = k.
Proof. reflexivity. Qed.

Theorem den_merge_ctx_flat : forall l r k,
  wf_ctx r -> flat_ctx l -> te_free l -> te_free r ->
  den (merge_ctx l r) k = dmerge (den l k) (den r k).
Proof.
  intros l r k [Hrd Hrv] Hfl Htl Htr. unfold den, dmerge, merge_ctx. cbn [cdata cvers fst snd].
  rewrite getv_merge_vers by assumption. f_equal.
  rewrite lookup_merge_items by (apply nodup_remove; apply wf_dict_nodup; assumption).
  rewrite !lookup_remove, join_path_top.
  destruct (String.eqb TASK_EXECUTION_KEY k) eqn:E.
  - apply String.eqb_eq in E; subst k. unfold te_free in *. rewrite Htl, Htr. reflexivity.
  - destruct (lookup k (cdata l)) as [a|] eqn:Ea, (lookup k (cdata r)) as [b|] eqn:Eb; cbn [pick_val]; try reflexivity.
    rewrite merge_val_leaf by (rewrite (Hfl _ _ Ea); reflexivity).
    destruct (N.ltb _ _); reflexivity.
Qed.

Lemma flat_merge_ctx : forall l r, wf_ctx r -> flat_ctx l -> flat_ctx r -> flat_ctx (merge_ctx l r).
Proof.
  intros l r [Hrd Hrv] Hl Hr k v H. unfold merge_ctx in H; cbn [cdata] in H.
  rewrite lookup_merge_items in H by (apply nodup_remove; apply wf_dict_nodup; assumption).
  rewrite !lookup_remove in H. destruct (String.eqb TASK_EXECUTION_KEY k); [discriminate|].
  destruct (lookup k (cdata l)) as [a|] eqn:Ea, (lookup k (cdata r)) as [b|] eqn:Eb; cbn [pick_val] in H; try discriminate.
  - rewrite merge_val_leaf in H by (rewrite (Hl _ _ Ea); reflexivity).
    destruct (N.ltb _ _); inversion H; subst; [eapply Hr | eapply Hl]; eassumption.
  - inversion H; subst. eapply Hl; eassumption.
  - inversion H; subst. eapply Hr; eassumption.
Qed.

Lemma te_free_merge_ctx : forall l r, wf_ctx r -> te_free (merge_ctx l r).
Proof.
  intros l r [Hrd Hrv]. unfold te_free, merge_ctx; cbn [cdata].
  rewrite lookup_merge_items by (apply nodup_remove; apply wf_dict_nodup; assumption).
  rewrite !lookup_remove, eqb_refl'. reflexivity.
Qed.

(* cells *)
Definition cell_ok (x : cell) : Prop := fst x = None -> snd x = 0%N.
Definition cfc (x y : cell) : Prop :=
  match fst x, fst y with Some a, Some b => snd x = snd y -> a = b | _, _ => True end.

Lemma dmerge_comm : forall x y, cfc x y -> dmerge x y = dmerge y x.
Proof.
  intros [[a|] n] [[b|] m] H; unfold dmerge, cfc in *; cbn [fst snd] in *; f_equal; try lia.
  destruct (N.ltb_spec n m), (N.ltb_spec m n); try lia; try reflexivity.
  rewrite H by lia. reflexivity.
Qed.

Lemma dmerge_idem : forall x, dmerge x x = x.
Proof.
  intros [[a|] n]; unfold dmerge; cbn [fst snd]; rewrite ?N.ltb_irrefl, N.max_id; reflexivity.
Qed.

Lemma dmerge_assoc : forall x y z,
  cell_ok x -> cell_ok y -> cell_ok z -> cfc x y -> cfc y z -> cfc x z ->
  dmerge (dmerge x y) z = dmerge x (dmerge y z).
Proof.
  intros [[a|] n] [[b|] m] [[c|] o] Hx Hy Hz Hxy Hyz Hxz;
    unfold dmerge, cfc, cell_ok in *; cbn [fst snd] in *; f_equal; try lia;
    try (specialize (Hx eq_refl)); try (specialize (Hy eq_refl)); try (specialize (Hz eq_refl)); subst;
    repeat match goal with
           | |- context [N.ltb ?u ?v] => destruct (N.ltb_spec u v); cbn [fst snd]
           end; try reflexivity; try lia;
    try (rewrite Hxy by lia; reflexivity); try (rewrite Hyz by lia; reflexivity);
    try (rewrite Hxz by lia; reflexivity); try (rewrite <- Hxz by lia; reflexivity);
    try (rewrite <- Hxy by lia; reflexivity); try (rewrite <- Hyz by lia; reflexivity).
Qed.

Lemma cell_ok_dmerge : forall x y, cell_ok x -> cell_ok y -> cell_ok (dmerge x y).
Proof.
  intros [[a|] n] [[b|] m] Hx Hy; unfold dmerge, cell_ok in *; cbn [fst snd] in *; intros H; try discriminate.
  - destruct (N.ltb n m); discriminate.
  - rewrite Hx, Hy by reflexivity. reflexivity.
Qed.

Lemma cfc_dmerge : forall x y z, cell_ok x -> cell_ok y -> cfc x z -> cfc y z -> cfc (dmerge x y) z.
Proof.
  intros [[a|] n] [[b|] m] [[c|] o] Hx Hy Hxz Hyz; unfold dmerge, cfc, cell_ok in *; cbn [fst snd] in *; auto.
  - destruct (N.ltb_spec n m); cbn [fst snd]; intros E; [apply Hyz | apply Hxz]; lia.
  - destruct (N.ltb n m); exact I.
  - intros E. apply Hxz. rewrite Hy in E by reflexivity. lia.
  - intros E. apply Hyz. rewrite Hx in E by reflexivity. lia.
Qed.

(* fold of dmerge over a list of cells *)
Definition pairwise_cf (L : list cell) : Prop := forall x y, In x L -> In y L -> cfc x y.
Definition all_ok (L : list cell) : Prop := forall x, In x L -> cell_ok x.

Lemma cfc_sym : forall x y, cfc x y -> cfc y x.
Proof.
  intros [[a|] n] [[b|] m] H; unfold cfc in *; cbn [fst snd] in *; auto.
  intros E. symmetry. apply H. symmetry. assumption.
Qed.

Lemma fold_dmerge_perm_tail : forall l l', Permutation l l' ->
  forall b, pairwise_cf (b :: l) -> all_ok (b :: l) ->
  fold_left dmerge l b = fold_left dmerge l' b.
Proof.
  intros l l' HP. induction HP as [|x l l' HP IH|x y l|l l' l'' HP1 IH1 HP2 IH2]; intros b Hcf Hok.
  - reflexivity.
  - cbn [fold_left]. apply IH.
    + intros u v Hu Hv. destruct Hu as [Hu|Hu], Hv as [Hv|Hv]; subst.
      * apply cfc_dmerge; try (apply Hok; cbn; auto); apply cfc_sym; apply cfc_dmerge;
          try (apply Hok; cbn; auto); apply Hcf; cbn; auto.
      * apply cfc_dmerge; try (apply Hok; cbn; auto); apply Hcf; cbn; auto.
      * apply cfc_sym. apply cfc_dmerge; try (apply Hok; cbn; auto); apply Hcf; cbn; auto.
      * apply Hcf; cbn; auto.
    + intros u [Hu|Hu]; subst.
      * apply cell_ok_dmerge; apply Hok; cbn; auto.
      * apply Hok; cbn; auto.
  - cbn [fold_left]. f_equal.
    rewrite !dmerge_assoc; try (apply Hok; cbn; auto); try (apply Hcf; cbn; auto).
    f_equal. apply dmerge_comm. apply Hcf; cbn; auto.
  - rewrite IH1 by assumption. apply IH2.
    + intros u v Hu Hv. apply Hcf.
      * destruct Hu as [Hu|Hu]; [left; assumption | right; eapply Permutation_in; [apply Permutation_sym; eassumption | assumption]].
      * destruct Hv as [Hv|Hv]; [left; assumption | right; eapply Permutation_in; [apply Permutation_sym; eassumption | assumption]].
    + intros u Hu. apply Hok.
      destruct Hu as [Hu|Hu]; [left; assumption | right; eapply Permutation_in; [apply Permutation_sym; eassumption | assumption]].
Qed.

(* the whole list, base included, may be permuted *)
Definition big (L : list cell) : option cell :=
  match L with [] => None | b :: l => Some (fold_left dmerge l b) end.

Theorem big_perm : forall L L', Permutation L L' -> pairwise_cf L -> all_ok L -> big L = big L'.
Proof.
  intros L L' HP. induction HP as [|x l l' HP IH|x y l|l l' l'' HP1 IH1 HP2 IH2]; intros Hcf Hok.
  - reflexivity.
  - cbn [big]. f_equal. apply fold_dmerge_perm_tail; assumption.
  - cbn [big fold_left]. f_equal. f_equal. apply dmerge_comm. apply Hcf; cbn; auto.
  - rewrite IH1 by assumption. apply IH2.
    + intros u v Hu Hv. apply Hcf; eapply Permutation_in; try (apply Permutation_sym; eassumption); assumption.
    + intros u Hu. apply Hok; eapply Permutation_in; try (apply Permutation_sym; eassumption); assumption.
Qed.

(* ---- lifting to contexts ---- *)
Record good (c : ctx) : Prop := {
  good_wf : wf_ctx c;
  good_flat : flat_ctx c;
  good_te : te_free c
}.

Lemma good_merge : forall l r, good l -> good r -> good (merge_ctx l r).
Proof.
  intros l r [Hlw Hlf Hlt] [Hrw Hrf Hrt]. constructor.
  - apply wf_merge_ctx; assumption.
  - apply flat_merge_ctx; assumption.
  - apply te_free_merge_ctx; assumption.
Qed.

Lemma den_fold_merge : forall cs b k, good b -> Forall good cs ->
  den (fold_left merge_ctx cs b) k = fold_left dmerge (map (fun c => den c k) cs) (den b k) /\
  good (fold_left merge_ctx cs b).
Proof.
  induction cs as [|c t IH]; intros b k Hb Hcs; cbn [fold_left map].
  - split; [reflexivity | assumption].
  - inversion Hcs as [|? ? Hc Ht]; subst.
    destruct (IH (merge_ctx b c) k (good_merge _ _ Hb Hc) Ht) as [H1 H2]. split; [|assumption].
    rewrite H1. rewrite den_merge_ctx_flat; [reflexivity | apply Hc | apply Hb | apply Hb | apply Hc].
Qed.

Lemma merge_all_fold : forall ts base, merge_all base ts = fold_left merge_ctx (map out_of ts) base.
Proof.
  induction ts as [|t ts IH]; intros base; unfold merge_all in *; cbn [fold_left map].
  - reflexivity.
  - apply IH.
Qed.

Definition cells (ups : list tex) (k : string) : list cell := map (fun t => den (out_of t) k) ups.

(* the value/version the upstream evaluation yields for variable k *)
Definition den_up (ups : list tex) (k : string) : option cell :=
  option_map (fun c => den c k) (eval_upstream ups).

Lemma eval_upstream_snoc : forall l b, eval_upstream (l ++ [b]) = Some (merge_all (out_of b) l).
Proof. intros l b. unfold eval_upstream. rewrite rev_unit, rev_involutive. reflexivity. Qed.

Lemma den_up_snoc : forall l b k, Forall good (map out_of (l ++ [b])) ->
  den_up (l ++ [b]) k = big (den (out_of b) k :: cells l k).
Proof.
  intros l b k Hg. unfold den_up. rewrite eval_upstream_snoc. cbn [option_map big]. f_equal.
  rewrite merge_all_fold. rewrite map_app in Hg. apply Forall_app in Hg. destruct Hg as [Hg1 Hg2].
  inversion Hg2; subst.
  destruct (den_fold_merge (map out_of l) (out_of b) k) as [Hden _]; try assumption.
  rewrite Hden. unfold cells. rewrite map_map. reflexivity.
Qed.

(* ORDER INDEPENDENCE (flat contexts): the list of upstream rows - including which
   row comes last and so becomes the base - may be permuted arbitrarily. *)
Theorem upstream_perm_flat : forall ups ups' k,
  Permutation ups ups' ->
  Forall good (map out_of ups) ->
  pairwise_cf (cells ups k) -> all_ok (cells ups k) ->
  den_up ups k = den_up ups' k.
Proof.
  intros ups ups' k HP Hg Hcf Hok.
  destruct ups as [|t0 ts0] using rev_ind.
  - apply Permutation_nil in HP. subst. reflexivity.
  - clear IHts0. destruct ups' as [|t1 ts1] using rev_ind.
    + apply Permutation_sym, Permutation_nil in HP. destruct ts0; discriminate.
    + clear IHts1.
      assert (Hg' : Forall good (map out_of (ts1 ++ [t1]))).
      { rewrite Forall_forall in *. intros c Hc. apply Hg.
        eapply Permutation_in; [apply Permutation_sym; apply Permutation_map; eassumption | assumption]. }
      rewrite !den_up_snoc by assumption.
      assert (P1 : Permutation (den (out_of t0) k :: cells ts0 k) (cells (ts0 ++ [t0]) k)).
      { unfold cells. rewrite map_app. cbn [map]. apply Permutation_cons_append. }
      assert (P2 : Permutation (cells (ts1 ++ [t1]) k) (den (out_of t1) k :: cells ts1 k)).
      { unfold cells. rewrite map_app. cbn [map]. apply Permutation_sym, Permutation_cons_append. }
      assert (P3 : Permutation (cells (ts0 ++ [t0]) k) (cells (ts1 ++ [t1]) k)).
      { unfold cells. apply Permutation_map. assumption. }
      apply big_perm.
      * eapply Permutation_trans; [exact P1|]. eapply Permutation_trans; [exact P3 | exact P2].
      * intros u v Hu Hv. apply Hcf; eapply Permutation_in; try exact P1; assumption.
      * intros u Hu. apply Hok; eapply Permutation_in; try exact P1; assumption.
Qed.

(* pointwise algebra at context level (flat) *)
Theorem merge_ctx_comm_flat : forall l r k, good l -> good r -> cfc (den l k) (den r k) ->
  den (merge_ctx l r) k = den (merge_ctx r l) k.
Proof.
  intros l r k Hl Hr Hcf.
  rewrite !den_merge_ctx_flat; try apply Hl; try apply Hr. apply dmerge_comm; assumption.
Qed.

Theorem merge_ctx_assoc_flat : forall a b c k, good a -> good b -> good c ->
  cell_ok (den a k) -> cell_ok (den b k) -> cell_ok (den c k) ->
  cfc (den a k) (den b k) -> cfc (den b k) (den c k) -> cfc (den a k) (den c k) ->
  den (merge_ctx (merge_ctx a b) c) k = den (merge_ctx a (merge_ctx b c)) k.
Proof.
  intros a b c k Ha Hb Hc Oa Ob Oc Cab Cbc Cac.
  pose proof (good_merge _ _ Ha Hb) as Hab. pose proof (good_merge _ _ Hb Hc) as Hbc.
  rewrite (den_merge_ctx_flat (merge_ctx a b) c); try apply Hab; try apply Hc.
  rewrite (den_merge_ctx_flat a (merge_ctx b c)); try apply Ha; try apply Hbc.
  rewrite (den_merge_ctx_flat a b); try apply Ha; try apply Hb.
  rewrite (den_merge_ctx_flat b c); try apply Hb; try apply Hc.
  apply dmerge_assoc; assumption.
Qed.

Theorem merge_ctx_idem_flat : forall c k, good c -> den (merge_ctx c c) k = den c k.
Proof. intros c k Hc. rewrite den_merge_ctx_flat; try apply Hc. apply dmerge_idem. Qed.

(* outbound keeps the side conditions *)
Definition flat_dict (d : dict) : Prop := forall k v, lookup k d = Some v -> is_dict v = false.
Definition supported (c : ctx) : Prop := forall k, cell_ok (den c k).

Lemma pub_paths_flat : forall d, NoDup (map fst d) -> flat_dict d -> pub_paths d = map fst d.
Proof.
  unfold pub_paths. intros d ND Hf.
  induction d as [|[k v] t IH]; cbn [flat_map map fst snd].
  - reflexivity.
  - cbn [map fst] in ND. inversion ND as [|? ? Hn ND']; subst.
    assert (Hv : is_dict v = false). { apply (Hf k). cbn [lookup]. rewrite eqb_refl'. reflexivity. }
    rewrite IH; try assumption.
    + rewrite join_path_top. destruct v; try discriminate; reflexivity.
    + intros k' v' H. apply (Hf k'). cbn [lookup]. destruct (String.eqb k' k) eqn:E; [|assumption].
      apply String.eqb_eq in E; subst. apply lookup_In in H. exfalso. apply Hn.
      change k with (fst (k, v')). apply in_map. assumption.
Qed.

Lemma good_outbound : forall c pub, good c -> wf_value (VDict pub) -> flat_dict pub ->
  lookup TASK_EXECUTION_KEY pub = None -> good (outbound c pub).
Proof.
  intros c pub [Hw Hf Ht] Hp Hfp Htp. pose proof (wf_dict_nodup _ Hp) as ND. constructor.
  - apply wf_outbound; assumption.
  - intros k v H. rewrite outbound_data in H by assumption.
    destruct (lookup k pub) eqn:E; [inversion H; subst; eapply Hfp; eassumption | eapply Hf; eassumption].
  - unfold te_free. rewrite outbound_data by assumption. rewrite Htp. assumption.
Qed.

Lemma supported_outbound : forall c pub, supported c -> wf_value (VDict pub) -> flat_dict pub ->
  supported (outbound c pub).
Proof.
  intros c pub Hs Hp Hfp k. pose proof (wf_dict_nodup _ Hp) as ND.
  unfold cell_ok, den; cbn [fst snd]. rewrite outbound_data by assumption. intros H.
  rewrite outbound_vers. destruct (lookup k pub) eqn:E; [discriminate|].
  pose proof (Hs k H) as H0. cbn [den snd] in H0. rewrite H0. rewrite pub_paths_flat by assumption.
  rewrite occ_zero_notin; [reflexivity | apply lookup_None_notin; assumption].
Qed.

Lemma supported_merge : forall l r, good l -> good r -> supported l -> supported r -> supported (merge_ctx l r).
Proof.
  intros l r Hl Hr Sl Sr k. rewrite den_merge_ctx_flat; try apply Hl; try apply Hr.
  apply cell_ok_dmerge; [apply Sl | apply Sr].
Qed.

(* ---- the row with the strictly highest version decides, wherever it stands ---- *)
Lemma fold_dmerge_below : forall l b n, (snd b < n)%N -> (forall y, In y l -> (snd y < n)%N) ->
  (snd (fold_left dmerge l b) < n)%N.
Proof.
  induction l as [|y t IH]; intros b n Hb Hl; cbn [fold_left].
  - assumption.
  - apply IH.
    + unfold dmerge; cbn [snd]. specialize (Hl y (or_introl eq_refl)). lia.
    + intros z Hz. apply Hl. right; assumption.
Qed.

Lemma fold_dmerge_keep : forall l v n, (forall y, In y l -> (snd y < n)%N) ->
  fold_left dmerge l (Some v, n) = (Some v, n).
Proof.
  induction l as [|y t IH]; intros v n Hl; cbn [fold_left].
  - reflexivity.
  - assert (E : dmerge (Some v, n) y = (Some v, n)).
    { specialize (Hl y (or_introl eq_refl)). destruct y as [[w|] m]; unfold dmerge; cbn [fst snd] in *.
      - destruct (N.ltb_spec n m); [lia|]. f_equal. lia.
      - f_equal. lia. }
    rewrite E. apply IH. intros z Hz. apply Hl. right; assumption.
Qed.

Lemma dmerge_take : forall a v n, (snd a < n)%N -> dmerge a (Some v, n) = (Some v, n).
Proof.
  intros [[w|] m] v n H; unfold dmerge; cbn [fst snd] in *.
  - destruct (N.ltb_spec m n); [|lia]. f_equal. lia.
  - f_equal. lia.
Qed.

Theorem big_strict_max : forall l1 l2 v n,
  (forall y, In y (l1 ++ l2) -> (snd y < n)%N) ->
  big (l1 ++ (Some v, n) :: l2) = Some (Some v, n).
Proof.
  intros l1 l2 v n H. destruct l1 as [|b l1]; cbn [app big]; f_equal.
  - apply fold_dmerge_keep. intros y Hy. apply H. assumption.
  - rewrite fold_left_app. cbn [fold_left]. rewrite dmerge_take.
    + apply fold_dmerge_keep. intros y Hy. apply H. cbn [app]. right. apply in_or_app. right; assumption.
    + apply fold_dmerge_below.
      * apply H. left; reflexivity.
      * intros y Hy. apply H. cbn [app]. right. apply in_or_app. left; assumption.
Qed.

Theorem upstream_latest_wins_flat : forall u1 t u2 k v,
  Forall good (map out_of (u1 ++ t :: u2)) ->
  lookup k (cdata (out_of t)) = Some v ->
  (forall t', In t' (u1 ++ u2) -> (getv k (cvers (out_of t')) < getv k (cvers (out_of t)))%N) ->
  den_up (u1 ++ t :: u2) k = Some (Some v, getv k (cvers (out_of t))).
Proof.
  intros u1 t u2 k v Hg Hv Hlt.
  assert (Hx : den (out_of t) k = (Some v, getv k (cvers (out_of t)))).
  { unfold den. rewrite Hv. reflexivity. }
  destruct u2 as [|b u2'] using rev_ind.
  - rewrite den_up_snoc by assumption. rewrite Hx.
    apply (big_strict_max [] (cells u1 k)). intros y Hy. cbn [app] in Hy. unfold cells in Hy.
    apply in_map_iff in Hy. destruct Hy as [t' [E Hi]]. subst y. cbn [den snd].
    apply Hlt. rewrite app_nil_r. assumption.
  - clear IHu2'.
    assert (EL : (u1 ++ t :: u2' ++ [b])%list = ((u1 ++ t :: u2') ++ [b])%list)
      by (rewrite <- app_assoc; reflexivity).
    rewrite EL in Hg |- *. rewrite den_up_snoc by assumption.
    unfold cells. rewrite map_app. cbn [map]. rewrite Hx.
    apply (big_strict_max (den (out_of b) k :: map (fun t0 => den (out_of t0) k) u1)
                          (map (fun t0 => den (out_of t0) k) u2')).
    intros y Hy. cbn [app] in Hy.
    assert (G : forall t', In t' (u1 ++ u2' ++ [b])%list -> (snd (den (out_of t') k) < getv k (cvers (out_of t)))%N).
    { intros t' Ht'. cbn [den snd]. apply Hlt. assumption. }
    destruct Hy as [Hy|Hy].
    + subst y. apply G. apply in_or_app. right. apply in_or_app. right. left; reflexivity.
    + apply in_app_or in Hy. destruct Hy as [Hy|Hy]; apply in_map_iff in Hy; destruct Hy as [t' [E Hi]]; subst y; apply G.
      * apply in_or_app. left; assumption.
      * apply in_or_app. right. apply in_or_app. left; assumption.
Qed.

(* ------------------------------------------------------------------ *)
(* ContextView *)

Theorem view_lookup_first : forall ds1 d ds2 k v,
  (forall d', In d' ds1 -> lookup k d' = None) -> lookup k d = Some v ->
  view_lookup k (ds1 ++ d :: ds2) = Some v.
Proof.
  induction ds1 as [|d1 t IH]; intros d ds2 k v Hn Hv; cbn [app view_lookup].
  - rewrite Hv. reflexivity.
  - rewrite (Hn d1 (or_introl eq_refl)). apply IH; [intros d' Hd; apply Hn; right; assumption | assumption].
Qed.

Theorem view_lookup_none : forall ds k,
  (forall d, In d ds -> lookup k d = None) <-> view_lookup k ds = None.
Proof.
  induction ds as [|d t IH]; intros k; cbn [view_lookup].
  - split; [reflexivity | intros _ d []].
  - split.
    + intros H. rewrite (H d (or_introl eq_refl)). apply IH. intros d' Hd. apply H. right; assumption.
    + intros H d' [Hd|Hd].
      * subst. destruct (lookup k d'); [discriminate | reflexivity].
      * destruct (lookup k d); [discriminate|]. apply (proj2 (IH k) H). assumption.
Qed.

Theorem view_has_spec : forall ds k, view_has k ds = true <-> view_lookup k ds <> None.
Proof.
  induction ds as [|d t IH]; intros k; cbn [view_has view_lookup existsb].
  - split; [discriminate | intros H; exfalso; apply H; reflexivity].
  - unfold has at 1. destruct (lookup k d); cbn [orb].
    + split; [discriminate | reflexivity].
    + apply IH.
Qed.

(* ------------------------------------------------------------------ *)
(* packaged statements used by Properties/C05.v *)

Lemma outbound_vers_exact_both : forall c pub q,
  NoDup (pub_paths pub) ->
  (In q (pub_paths pub) -> getv q (cvers (outbound c pub)) = (getv q (cvers c) + 1)%N) /\
  (~ In q (pub_paths pub) -> getv q (cvers (outbound c pub)) = getv q (cvers c)).
Proof. intros c pub q ND. split; [apply outbound_vers_exact; assumption | apply outbound_vers_untouched]. Qed.

Lemma good_preserved : forall c pub l r,
  (good c -> wf_value (VDict pub) -> flat_dict pub -> lookup TASK_EXECUTION_KEY pub = None -> good (outbound c pub)) /\
  (good l -> good r -> good (merge_ctx l r)) /\
  (supported c -> wf_value (VDict pub) -> flat_dict pub -> supported (outbound c pub)) /\
  (good l -> good r -> supported l -> supported r -> supported (merge_ctx l r)).
Proof.
  intros c pub l r. split; [apply good_outbound|]. split; [apply good_merge|].
  split; [apply supported_outbound | apply supported_merge].
Qed.

(* non-vacuity: a concrete fork *)
Definition nv_root : ctx := outbound empty_ctx [("a", VNum 1); ("b", VStr "sa")].
Definition nv_A : tex := (nv_root, [("a", VNum 2)]).
Definition nv_B : tex := (nv_root, [("c", VBool true)]).

Ltac solve_flat :=
  let k := fresh "k" in let v := fresh "v" in let H := fresh "H" in
  intros k v H; cbn [lookup] in H;
  repeat match type of H with
         | (if ?b then _ else _) = _ => destruct b
         end; try discriminate; inversion H; reflexivity.

Lemma good_empty : good empty_ctx.
Proof.
  constructor.
  - constructor; cbn; [solve_wf | constructor].
  - intros k v H; discriminate.
  - reflexivity.
Qed.

Lemma good_nv_root : good nv_root.
Proof. apply good_outbound; [apply good_empty | solve_wf | solve_flat | reflexivity]. Qed.

Lemma nonvacuous_fork :
  Forall good (map out_of [nv_A; nv_B]) /\
  pairwise_cf (cells [nv_A; nv_B] "a") /\ all_ok (cells [nv_A; nv_B] "a") /\
  den_up [nv_A; nv_B] "a" = Some (Some (VNum 2), 2%N) /\
  den_up [nv_B; nv_A] "a" = Some (Some (VNum 2), 2%N) /\
  wf_ctx nv_root /\
  (getv "a" (cvers (out_of nv_B)) <= getv "a" (cvers nv_root))%N /\
  lookup "a" (cdata (merge_ctx (out_of nv_B) (out_of nv_A))) = Some (VNum 2).
Proof.
  split.
  { cbn [map]. constructor; [|constructor; [|constructor]];
      unfold out_of, nv_A, nv_B; cbn [fst snd];
      (apply good_outbound; [apply good_nv_root | solve_wf | solve_flat | reflexivity]). }
  split.
  { intros x y Hx Hy. cbn in Hx, Hy.
    destruct Hx as [Hx|[Hx|[]]], Hy as [Hy|[Hy|[]]]; subst; unfold cfc; cbn [fst snd]; intros E; try reflexivity; discriminate. }
  split.
  { intros x Hx. cbn in Hx. destruct Hx as [Hx|[Hx|[]]]; subst; intros E; discriminate. }
  split; [vm_compute; reflexivity|]. split; [vm_compute; reflexivity|].
  split; [apply good_nv_root|]. split; [vm_compute; discriminate | vm_compute; reflexivity].
Qed.

(* ------------------------------------------------------------------ *)
(* nested values: under shape compatibility (no dict meets a non-dict at a common
   position) the merge is the SAME pointwise cell merge, at every key path *)

Definition shape_compat (a b : value) : Prop :=
  forall ks x y, at_path ks a = Some x -> at_path ks b = Some y -> is_dict x = is_dict y.

Lemma shape_compat_down : forall da db k x y,
  shape_compat (VDict da) (VDict db) -> lookup k da = Some x -> lookup k db = Some y -> shape_compat x y.
Proof.
  intros da db k x y H Hx Hy ks x' y' Hx' Hy'.
  apply (H (k :: ks)); cbn [at_path]; [rewrite Hx | rewrite Hy]; assumption.
Qed.

Lemma shape_compat_sym : forall a b, shape_compat a b -> shape_compat b a.
Proof. intros a b H ks x y Hx Hy. symmetry. eapply H; eassumption. Qed.

Lemma obs_nil : forall v, obs [] v = Some (shape v).
Proof. reflexivity. Qed.

Lemma obs_cons_dict : forall k t d, obs (k :: t) (VDict d) = match lookup k d with Some v => obs t v | None => None end.
Proof. intros. unfold obs. cbn [at_path]. destruct (lookup k d); reflexivity. Qed.

Lemma obs_cons_leaf : forall k t v, is_dict v = false -> obs (k :: t) v = None.
Proof. intros k t v H. unfold obs. destruct v; try reflexivity. discriminate. Qed.

Lemma shape_shape_leaf : forall v, is_dict v = false -> shape v = v.
Proof. intros v H; destruct v; try reflexivity; discriminate. Qed.

Theorem obs_merge_val : forall vl vr ks p a b,
  wf_value b -> shape_compat a b ->
  obs ks (merge_val vl vr p a b) =
  fst (dmerge (obs ks a, getv (path_str p ks) vl) (obs ks b, getv (path_str p ks) vr)).
Proof.
  intros vl vr. induction ks as [|k t IH]; intros p a b Hw Hs.
  - cbn [path_str]. rewrite !obs_nil. unfold dmerge. cbn [fst snd].
    pose proof (Hs [] a b eq_refl eq_refl) as Hd.
    destruct (is_dict a) eqn:Ea.
    + destruct a; try discriminate. destruct b; try discriminate. rewrite merge_val_dict. cbn [shape].
      destruct (N.ltb _ _); reflexivity.
    + rewrite merge_val_leaf by (rewrite Ea; reflexivity).
      destruct (N.ltb _ _); reflexivity.
  - cbn [path_str]. pose proof (Hs [] a b eq_refl eq_refl) as Hd.
    destruct (is_dict a) eqn:Ea.
    + destruct a as [| | | | |da]; try discriminate. destruct b as [| | | | |db]; try discriminate.
      rewrite merge_val_dict. rewrite !obs_cons_dict.
      rewrite lookup_merge_items by (apply wf_dict_nodup; assumption).
      destruct (lookup k da) as [x|] eqn:Ex, (lookup k db) as [y|] eqn:Ey; cbn [pick_val].
      * rewrite IH; [reflexivity | eapply wf_dict_elem; eassumption | eapply shape_compat_down; eassumption].
      * unfold dmerge; cbn [fst snd]. destruct (obs t x); reflexivity.
      * unfold dmerge; cbn [fst snd]. reflexivity.
      * reflexivity.
    + rewrite merge_val_leaf by (rewrite Ea; reflexivity).
      assert (Eb : is_dict b = false) by (rewrite <- Hd; reflexivity).
      rewrite (obs_cons_leaf k t a Ea), (obs_cons_leaf k t b Eb).
      destruct (N.ltb _ _); [apply obs_cons_leaf; assumption | apply obs_cons_leaf; assumption].
Qed.

(* cell of a context at a key path *)
Definition den_path (c : ctx) (ks : list string) : cell :=
  (obs ks (VDict (cdata c)), getv (path_str "" ks) (cvers c)).

Definition shape_compat_ctx (l r : ctx) : Prop := shape_compat (VDict (cdata l)) (VDict (cdata r)).

Lemma obs_remove_te : forall d ks, lookup TASK_EXECUTION_KEY d = None ->
  obs ks (VDict (remove TASK_EXECUTION_KEY d)) = obs ks (VDict d).
Proof.
  intros d ks H. destruct ks as [|k t]; [reflexivity|]. rewrite !obs_cons_dict, lookup_remove.
  destruct (String.eqb TASK_EXECUTION_KEY k) eqn:E; [|reflexivity].
  apply String.eqb_eq in E; subst k. rewrite H. reflexivity.
Qed.

Lemma shape_compat_remove : forall da db k,
  shape_compat (VDict da) (VDict db) -> shape_compat (VDict (remove k da)) (VDict (remove k db)).
Proof.
  intros da db k H ks x y Hx Hy.
  destruct (at_path_remove _ _ _ _ Hx) as [Hx'|E]; destruct (at_path_remove _ _ _ _ Hy) as [Hy'|E'];
    try (subst ks; cbn [at_path] in Hx, Hy; inversion Hx; inversion Hy; subst; reflexivity).
  eapply H; eassumption.
Qed.

Record goodn (c : ctx) : Prop := { goodn_wf : wf_ctx c; goodn_te : te_free c }.

Theorem den_path_merge_ctx : forall l r ks,
  goodn l -> goodn r -> shape_compat_ctx l r ->
  den_path (merge_ctx l r) ks = dmerge (den_path l ks) (den_path r ks).
Proof.
  intros l r ks [[Hld Hlv] Htl] [[Hrd Hrv] Htr] Hs. unfold den_path, merge_ctx. cbn [cdata cvers].
  rewrite getv_merge_vers by assumption.
  rewrite <- merge_val_dict. rewrite obs_merge_val; [| apply wf_remove; assumption | apply shape_compat_remove; assumption].
  rewrite !obs_remove_te by assumption. unfold dmerge. cbn [fst snd]. reflexivity.
Qed.

Lemma goodn_merge : forall l r, goodn l -> goodn r -> goodn (merge_ctx l r).
Proof.
  intros l r [Hl Htl] [Hr Htr]. constructor; [apply wf_merge_ctx; assumption | apply te_free_merge_ctx; assumption].
Qed.

(* shape compatibility with a third context is kept by the merge *)
Lemma obs_shape_compat : forall a b,
  shape_compat a b <-> (forall ks sa sb, obs ks a = Some sa -> obs ks b = Some sb -> is_dict sa = is_dict sb).
Proof.
  intros a b. unfold obs. split.
  - intros H ks sa sb Ha Hb. destruct (at_path ks a) as [x|] eqn:Ex; try discriminate.
    destruct (at_path ks b) as [y|] eqn:Ey; try discriminate. cbn in Ha, Hb. inversion Ha; inversion Hb; subst.
    pose proof (H ks x y Ex Ey) as E. destruct x, y; cbn in *; congruence.
  - intros H ks x y Hx Hy. specialize (H ks (shape x) (shape y)). rewrite Hx, Hy in H. cbn in H.
    specialize (H eq_refl eq_refl). destruct x, y; cbn in *; congruence.
Qed.

Lemma shape_compat_merge : forall l r c,
  goodn l -> goodn r -> shape_compat_ctx l r -> shape_compat_ctx l c -> shape_compat_ctx r c ->
  shape_compat_ctx (merge_ctx l r) c.
Proof.
  intros l r c Hl Hr Hlr Hlc Hrc. unfold shape_compat_ctx in *. apply obs_shape_compat.
  intros ks sa sb Ha Hb.
  pose proof (den_path_merge_ctx l r ks Hl Hr Hlr) as E. unfold den_path in E.
  apply (f_equal fst) in E. cbn [fst] in E. rewrite E in Ha. clear E.
  unfold dmerge in Ha. cbn [fst snd] in Ha.
  destruct (obs ks (VDict (cdata l))) as [ol|] eqn:El; destruct (obs ks (VDict (cdata r))) as [or|] eqn:Er.
  - destruct (N.ltb _ _); inversion Ha; subst.
    + eapply (proj1 (obs_shape_compat _ _) Hrc); eassumption.
    + eapply (proj1 (obs_shape_compat _ _) Hlc); eassumption.
  - inversion Ha; subst. eapply (proj1 (obs_shape_compat _ _) Hlc); eassumption.
  - inversion Ha; subst. eapply (proj1 (obs_shape_compat _ _) Hrc); eassumption.
  - discriminate.
Qed.

(* pairwise shape compatibility of a list of contexts, base included *)
Definition pairwise_sc (L : list ctx) : Prop := forall x y, In x L -> In y L -> shape_compat_ctx x y.

Lemma den_path_fold_merge : forall cs b ks, goodn b -> Forall goodn cs -> pairwise_sc (b :: cs) ->
  den_path (fold_left merge_ctx cs b) ks = fold_left dmerge (map (fun c => den_path c ks) cs) (den_path b ks).
Proof.
  induction cs as [|c t IH]; intros b ks Hb Hcs Hsc; cbn [fold_left map].
  - reflexivity.
  - inversion Hcs as [|? ? Hc Ht]; subst.
    assert (Sbc : shape_compat_ctx b c) by (apply (Hsc b c); cbn; auto).
    rewrite IH; try assumption.
    + rewrite den_path_merge_ctx; [reflexivity | assumption | assumption | exact Sbc].
    + apply goodn_merge; assumption.
    + assert (A : forall y, In y t -> shape_compat_ctx (merge_ctx b c) y).
      { intros y Hy. apply shape_compat_merge; try assumption; [apply (Hsc b y) | apply (Hsc c y)]; cbn; auto. }
      intros x y Hx Hy. destruct Hx as [Hx|Hx], Hy as [Hy|Hy]; subst.
      * apply shape_compat_merge; try assumption; unfold shape_compat_ctx; apply shape_compat_sym;
          apply shape_compat_merge; try assumption;
          first [apply (Hsc b b) | apply (Hsc c b) | apply (Hsc b c) | apply (Hsc c c)]; cbn; auto.
      * apply A; assumption.
      * unfold shape_compat_ctx. apply shape_compat_sym. apply A; assumption.
      * apply (Hsc x y); cbn; auto.
Qed.

Definition cells_path (ups : list tex) (ks : list string) : list cell := map (fun t => den_path (out_of t) ks) ups.

Definition den_up_path (ups : list tex) (ks : list string) : option cell :=
  option_map (fun c => den_path c ks) (eval_upstream ups).

Lemma den_up_path_snoc : forall l b ks,
  Forall goodn (map out_of (l ++ [b])) -> pairwise_sc (map out_of (l ++ [b])) ->
  den_up_path (l ++ [b]) ks = big (den_path (out_of b) ks :: cells_path l ks).
Proof.
  intros l b ks Hg Hsc. unfold den_up_path. rewrite eval_upstream_snoc. cbn [option_map big]. f_equal.
  rewrite merge_all_fold. rewrite map_app in Hg, Hsc. apply Forall_app in Hg. destruct Hg as [Hg1 Hg2].
  inversion Hg2; subst.
  rewrite den_path_fold_merge; try assumption.
  - unfold cells_path. rewrite map_map. reflexivity.
  - intros x y Hx Hy. apply Hsc; cbn [map]; apply in_or_app.
    + destruct Hx as [Hx|Hx]; [right; left; assumption | left; assumption].
    + destruct Hy as [Hy|Hy]; [right; left; assumption | left; assumption].
Qed.

(* ORDER INDEPENDENCE, nested values: at every key path *)
Theorem upstream_perm_nested : forall ups ups' ks,
  Permutation ups ups' ->
  Forall goodn (map out_of ups) -> pairwise_sc (map out_of ups) ->
  pairwise_cf (cells_path ups ks) -> all_ok (cells_path ups ks) ->
  den_up_path ups ks = den_up_path ups' ks.
Proof.
  intros ups ups' ks HP Hg Hsc Hcf Hok.
  destruct ups as [|t0 ts0] using rev_ind.
  - apply Permutation_nil in HP. subst. reflexivity.
  - clear IHts0. destruct ups' as [|t1 ts1] using rev_ind.
    + apply Permutation_sym, Permutation_nil in HP. destruct ts0; discriminate.
    + clear IHts1.
      assert (PM : Permutation (map out_of (ts0 ++ [t0])) (map out_of (ts1 ++ [t1]))) by (apply Permutation_map; assumption).
      assert (Hg' : Forall goodn (map out_of (ts1 ++ [t1]))).
      { rewrite Forall_forall in *. intros c Hc. apply Hg. eapply Permutation_in; [apply Permutation_sym; eassumption | assumption]. }
      assert (Hsc' : pairwise_sc (map out_of (ts1 ++ [t1]))).
      { intros x y Hx Hy. apply Hsc; eapply Permutation_in; try (apply Permutation_sym; eassumption); assumption. }
      rewrite !den_up_path_snoc by assumption.
      assert (P1 : Permutation (den_path (out_of t0) ks :: cells_path ts0 ks) (cells_path (ts0 ++ [t0]) ks)).
      { unfold cells_path. rewrite map_app. cbn [map]. apply Permutation_cons_append. }
      assert (P2 : Permutation (cells_path (ts1 ++ [t1]) ks) (den_path (out_of t1) ks :: cells_path ts1 ks)).
      { unfold cells_path. rewrite map_app. cbn [map]. apply Permutation_sym, Permutation_cons_append. }
      assert (P3 : Permutation (cells_path (ts0 ++ [t0]) ks) (cells_path (ts1 ++ [t1]) ks)).
      { unfold cells_path. apply Permutation_map. assumption. }
      apply big_perm.
      * eapply Permutation_trans; [exact P1|]. eapply Permutation_trans; [exact P3 | exact P2].
      * intros u v Hu Hv. apply Hcf; eapply Permutation_in; try exact P1; assumption.
      * intros u Hu. apply Hok; eapply Permutation_in; try exact P1; assumption.
Qed.

(* the row with the strictly highest version at a path decides what is there *)
Theorem upstream_latest_wins_nested : forall u1 t u2 ks o,
  Forall goodn (map out_of (u1 ++ t :: u2)) -> pairwise_sc (map out_of (u1 ++ t :: u2)) ->
  obs ks (VDict (cdata (out_of t))) = Some o ->
  (forall t', In t' (u1 ++ u2) ->
     (getv (path_str "" ks) (cvers (out_of t')) < getv (path_str "" ks) (cvers (out_of t)))%N) ->
  den_up_path (u1 ++ t :: u2) ks = Some (Some o, getv (path_str "" ks) (cvers (out_of t))).
Proof.
  intros u1 t u2 ks o Hg Hsc Hv Hlt.
  assert (Hx : den_path (out_of t) ks = (Some o, getv (path_str "" ks) (cvers (out_of t)))).
  { unfold den_path. rewrite Hv. reflexivity. }
  destruct u2 as [|b u2'] using rev_ind.
  - rewrite den_up_path_snoc by assumption. rewrite Hx.
    apply (big_strict_max [] (cells_path u1 ks)). intros y Hy. cbn [app] in Hy. unfold cells_path in Hy.
    apply in_map_iff in Hy. destruct Hy as [t' [E Hi]]. subst y. cbn [den_path snd].
    apply Hlt. rewrite app_nil_r. assumption.
  - clear IHu2'.
    assert (EL : (u1 ++ t :: u2' ++ [b])%list = ((u1 ++ t :: u2') ++ [b])%list)
      by (rewrite <- app_assoc; reflexivity).
    rewrite EL in Hg, Hsc |- *. rewrite den_up_path_snoc by assumption.
    unfold cells_path. rewrite map_app. cbn [map]. rewrite Hx.
    apply (big_strict_max (den_path (out_of b) ks :: map (fun t0 => den_path (out_of t0) ks) u1)
                          (map (fun t0 => den_path (out_of t0) ks) u2')).
    intros y Hy. cbn [app] in Hy.
    assert (G : forall t', In t' (u1 ++ u2' ++ [b])%list ->
                (snd (den_path (out_of t') ks) < getv (path_str "" ks) (cvers (out_of t)))%N).
    { intros t' Ht'. cbn [den_path snd]. apply Hlt. assumption. }
    destruct Hy as [Hy|Hy].
    + subst y. apply G. apply in_or_app. right. apply in_or_app. right. left; reflexivity.
    + apply in_app_or in Hy. destruct Hy as [Hy|Hy]; apply in_map_iff in Hy; destruct Hy as [t' [E Hi]]; subst y; apply G.
      * apply in_or_app. left; assumption.
      * apply in_or_app. right. apply in_or_app. left; assumption.
Qed.

Lemma goodn_outbound : forall c pub, goodn c -> wf_value (VDict pub) ->
  lookup TASK_EXECUTION_KEY pub = None -> goodn (outbound c pub).
Proof.
  intros c pub [Hw Ht] Hp Htp. constructor.
  - apply wf_outbound; assumption.
  - unfold te_free. rewrite outbound_data by (apply wf_dict_nodup; assumption). rewrite Htp. assumption.
Qed.
