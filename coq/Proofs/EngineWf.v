(* Workflow-state discipline of Model/Engine.v (property C03, used by C10/C11 too):
   every step moves the workflow state along edges of the state table translated from
   mistral/workflow/states.py, SUCCESS is final, ERROR / CANCELLED are left only by an
   explicit rerun / skip, a created workflow is never IDLE.  All statements are for every
   program, every state, every event (and lifted to every event list). *)
From Coq Require Import List Bool Arith Lia.
Require Import Mistral.Gen.States Mistral.Model.PySort Mistral.Model.Engine.
Require Import Mistral.Proofs.StatesProofs Mistral.Proofs.EngineMutual.
Import ListNotations.

(* one compare-and-swap performed by command dispatch / completion checks: a valid edge of
   the table whose target is ERROR, SUCCESS, CANCELLED or PAUSED (never RUNNING) *)
Definition fin4 (b : state) : bool := mem b [ERROR; SUCCESS; CANCELLED; PAUSED].
Definition M (a b : state) : Prop := valid a b = true /\ fin4 b = true.

Inductive reach (R : state -> state -> Prop) : state -> state -> Prop :=
| reach_refl a : reach R a a
| reach_step a b c : reach R a b -> R b c -> reach R a c.

Lemma reach_trans (R : state -> state -> Prop) a b c : reach R a b -> reach R b c -> reach R a c.
Proof. intros H1 H2. induction H2 as [|x y z Hxy IH Hyz]; [assumption|]. eapply reach_step; [apply IH; exact H1|exact Hyz]. Qed.

Lemma reach_one (R : state -> state -> Prop) a b : R a b -> reach R a b.
Proof. intros H. eapply reach_step; [apply reach_refl|exact H]. Qed.

(* RM s s' : the workflow header of s' is obtained from the one of s by M-moves *)
Definition RM (s s' : st) : Prop :=
  wf_created s' = wf_created s /\ reach M (wf_state s) (wf_state s').

Lemma RM_refl s : RM s s. Proof. split; [reflexivity|apply reach_refl]. Qed.
Lemma RM_trans a b c : RM a b -> RM b c -> RM a c.
Proof. intros [H1 H2] [H3 H4]. split; [congruence|eapply reach_trans; eauto]. Qed.
Lemma RM_frame s s' : wf_created s' = wf_created s -> wf_state s' = wf_state s -> RM s s'.
Proof. intros H1 H2. split; [exact H1|rewrite H2; apply reach_refl]. Qed.

(* ---------------------------------------------------------------- frames *)
Ltac frame := apply RM_frame; reflexivity.

Lemma RM_defer sp s name trig : RM s (fst (fst (defer sp s name trig))).
Proof.
  unfold defer. destruct (find_join_exec s name true); [apply RM_refl|].
  destruct (find_join_exec s name false); [|frame].
  destruct (_ && _); [frame|apply RM_refl].
Qed.

Lemma RM_run_task_cmd sp t name w trig : RM (fst t) (fst (run_task_cmd sp t name w trig)).
Proof.
  unfold run_task_cmd. destruct w.
  - pose proof (RM_defer sp (fst t) name trig) as H. destruct (defer sp (fst t) name trig) as [[s1 tid] chk]. exact H.
  - frame.
Qed.

Lemma RM_run_existing_cmd t tid a b : RM (fst t) (fst (run_existing_cmd t tid a b)).
Proof. unfold run_existing_cmd. simpl. destruct (_ && _); [frame|]. destruct (_ && _); [frame|apply RM_refl]. Qed.

Lemma RM_check_affected sp t tid : RM (fst t) (fst (check_affected sp t tid)).
Proof.
  unfold check_affected. destruct (negb _); [apply RM_refl|]. destruct (is_completed _); apply RM_refl.
Qed.

Lemma RM_commit t : RM (fst t) (commit t).
Proof. unfold commit. destruct (snd t); [apply RM_refl|frame]. Qed.

Lemma RM_schedule_waiting_refresh s : RM s (schedule_waiting_refresh s).
Proof.
  unfold schedule_waiting_refresh.
  generalize (combine (seq 0 (length (tasks s))) (tasks s)). intros l.
  revert s. induction l as [|p l IH]; intros s; simpl; [apply RM_refl|].
  eapply RM_trans; [|apply IH]. destruct (_ && _); [frame|apply RM_refl].
Qed.

Lemma RM_complete_pre sp t tid x :
  match complete_pre sp t tid x with
  | PreIgnored t1 | PreRaised t1 | PreCmds t1 _ => RM (fst t) (fst t1)
  end.
Proof.
  unfold complete_pre. destruct (_ && _); [apply RM_refl|].
  destruct (if is_completed _ then _ else _); [|frame].
  cbv zeta. destruct (is_paused _); frame.
Qed.

(* ------------------------------------------------------- the state changers *)
Lemma wf_set_state_valid s x s1 : wf_set_state s x = Some s1 ->
  wf_state s1 = x /\ valid (wf_state s) x = true /\ wf_created s1 = wf_created s.
Proof.
  unfold wf_set_state, valid. destruct (is_valid_transition (wf_state s) x) as [[|]|]; intros H; inversion H.
  repeat split; reflexivity.
Qed.

Lemma wf_set_state_RM s x s1 : fin4 x = true -> wf_set_state s x = Some s1 -> RM s s1.
Proof.
  intros Hx H. apply wf_set_state_valid in H. destruct H as (E & V & C).
  split; [exact C|]. rewrite E. apply reach_one. split; assumption.
Qed.

Lemma fail_workflow_M s s1 : fail_workflow s = Some s1 -> RM s s1.
Proof.
  unfold fail_workflow. destruct (is_completed (wf_state s)).
  - intros H; inversion H; apply RM_refl.
  - apply wf_set_state_RM. reflexivity.
Qed.

Lemma succeed_workflow_M s s1 : succeed_workflow s = Some s1 -> RM s s1.
Proof.
  unfold succeed_workflow. destruct (state_eqb (wf_state s) SUCCESS).
  - intros H; inversion H; apply RM_refl.
  - apply wf_set_state_RM. reflexivity.
Qed.

Lemma cancel_workflow_M s s1 : cancel_workflow s = Some s1 -> RM s s1.
Proof.
  unfold cancel_workflow. destruct (is_completed (wf_state s)).
  - intros H; inversion H; apply RM_refl.
  - apply wf_set_state_RM. reflexivity.
Qed.

Lemma stop_workflow_M s x s1 : stop_workflow s x = Some s1 -> RM s s1.
Proof.
  unfold stop_workflow. destruct x; try (intros H; inversion H; apply RM_refl).
  - apply succeed_workflow_M.
  - apply cancel_workflow_M.
  - apply fail_workflow_M.
Qed.

Lemma pause_workflow_M s s1 : pause_workflow s = Some s1 -> RM s s1.
Proof.
  unfold pause_workflow. destruct (is_paused (wf_state s)).
  - intros H; inversion H; apply RM_refl.
  - apply wf_set_state_RM. reflexivity.
Qed.

Lemma set_workflow_state_M s x s1 : set_workflow_state s x = Some s1 -> RM s s1.
Proof.
  unfold set_workflow_state. destruct (is_completed x); [apply stop_workflow_M|].
  destruct (is_paused x); [apply pause_workflow_M|discriminate].
Qed.

Lemma check_and_complete_M s s1 : check_and_complete s = Some s1 -> RM s s1.
Proof.
  unfold check_and_complete.
  destruct (is_completed (wf_state s)); [intros H; inversion H; apply RM_refl|].
  destruct (is_paused_or_completed (wf_state s)); [intros H; inversion H; apply RM_refl|].
  destruct (Nat.ltb 0 (incomplete_count s)); [intros H; inversion H; apply RM_refl|].
  destruct (any_cancels s); [apply cancel_workflow_M|].
  destruct (all_errors_handled s); [apply succeed_workflow_M|apply fail_workflow_M].
Qed.

Lemma force_fail_M s tid : RM s (force_fail s tid).
Proof.
  unfold force_fail. cbv zeta.
  set (s1 := upd_task s tid _).
  assert (H1 : RM s s1) by frame.
  destruct (fail_workflow s1) as [s2|] eqn:E; [|exact H1].
  eapply RM_trans; [exact H1|apply fail_workflow_M; exact E].
Qed.

(* ------------------------------------------------- dispatch (mutual recursion) *)
Definition PM (a b : tx) : Prop := RM (fst a) (fst b).

Lemma dispatch_M sp fuel :
  (forall t cmds, PM t (fst (process_cmds sp fuel t cmds))) /\
  (forall t cmds, PM t (fst (dispatch sp fuel t cmds))) /\
  (forall t tid x, PM t (fst (complete_task sp fuel t tid x))).
Proof.
  apply mutual_P; unfold PM.
  - intros t; apply RM_refl.
  - intros a b c; apply RM_trans.
  - intros t c _ _. frame.
  - intros t. frame.
  - intros t name w trig _ _. apply RM_run_task_cmd.
  - intros t tid a b _ _. apply RM_run_existing_cmd.
  - intros t x s1 _ _ H. simpl. apply set_workflow_state_M in H. exact H.
  - intros t tid x. apply RM_complete_pre.
Qed.

Lemma continue_workflow_cmds_M sp t cmds :
  RM (fst t) (fst (fst (continue_workflow_cmds sp t cmds))).
Proof.
  unfold continue_workflow_cmds.
  set (cm := filter _ cmds). set (s := mark_processed (fst t)).
  assert (Hs : RM (fst t) s) by frame.
  assert (Hd : RM (fst t) (fst (fst (dispatch sp (FUEL sp s) (s, snd t) cm)))).
  { eapply RM_trans; [exact Hs|].
    exact (proj1 (proj2 (dispatch_M sp (FUEL sp s))) (s, snd t) cm). }
  destruct cm as [|c cm'].
  - destruct (backlog s) as [|b bl] eqn:Eb.
    + destruct (check_and_complete s) as [s1|] eqn:Ec; simpl.
      * eapply RM_trans; [exact Hs|apply check_and_complete_M; exact Ec].
      * exact Hs.
    + exact Hd.
  - exact Hd.
Qed.

Lemma continue_workflow_M sp t cmds :
  RM (fst t) (fst (fst (continue_workflow sp t cmds))).
Proof.
  unfold continue_workflow. pose proof (continue_workflow_cmds_M sp t cmds) as H.
  destruct (continue_workflow_cmds sp t cmds) as [t1 fl]. simpl in *.
  destruct fl; simpl; [|exact H].
  eapply RM_trans; [exact H|apply RM_schedule_waiting_refresh].
Qed.

Lemma run_ops_M sp ops : forall s, RM s (run_ops sp s ops).
Proof.
  induction ops as [|o ops IH]; intros s; simpl; [apply RM_refl|].
  eapply RM_trans; [|apply IH].
  destruct o as [tid f r x|aid| |tid]; simpl; try frame.
  - destruct (check_and_complete s) as [s'|] eqn:E; [apply check_and_complete_M; exact E|apply RM_refl].
  - destruct (has_refresh_job s tid); [apply RM_refl|frame].
Qed.

Lemma RM_schedule_action t tid : RM (fst t) (fst (schedule_action t tid)).
Proof. frame. Qed.

Lemma do_start_task_M sp s tid f r x : RM s (fst (do_start_task sp s tid f r x)).
Proof.
  unfold do_start_task. cbv zeta.
  destruct (Nat.leb _ _); [apply RM_refl|].
  destruct f.
  - destruct (is_idle _); simpl.
    + eapply RM_trans; [|apply RM_commit]. eapply RM_trans; [|apply RM_check_affected]. frame.
    + eapply RM_trans; [|apply RM_commit]. apply (RM_check_affected sp (s, [])).
  - destruct (negb r && negb (is_idle _)); [exact (RM_commit (s, [OCheck]))|].
    destruct (negb r).
    + simpl. eapply RM_trans; [|apply RM_commit]. eapply RM_trans; [|apply RM_check_affected]. frame.
    + destruct (state_eqb _ SUCCESS); [apply RM_refl|].
      simpl. eapply RM_trans; [|apply RM_commit]. eapply RM_trans; [|apply RM_check_affected]. frame.
Qed.

Lemma do_result_M sp s aid res : RM s (fst (do_result sp s aid res)).
Proof.
  unfold do_result. cbv zeta.
  destruct (Nat.leb _ _); [apply RM_refl|].
  destruct (is_completed (a_state _)); [apply RM_refl|].
  set (s1 := upd_act s aid _).
  assert (H0 : RM s s1) by frame.
  pose proof (proj2 (proj2 (dispatch_M sp (FUEL sp s1))) (s1, []) (a_task (get_act s aid))
                    (state_of_outcome res)) as H. unfold PM in H. simpl in H.
  destruct (complete_task sp (FUEL sp s1) (s1, []) (a_task (get_act s aid)) (state_of_outcome res)) as [t1 fl].
  simpl in H. destruct fl; simpl.
  - eapply RM_trans; [exact H0|]. eapply RM_trans; [exact H|].
    eapply RM_trans; [|apply RM_commit]. apply RM_check_affected.
  - eapply RM_trans; [exact H0|]. eapply RM_trans; [exact H|].
    eapply RM_trans; [|apply (RM_commit (force_fail (fst t1) (a_task (get_act s aid)), snd t1))].
    apply force_fail_M.
Qed.

Lemma refresh_body_M sp s tid lg : RM s (fst (refresh_body sp s tid lg)).
Proof.
  unfold refresh_body. cbv zeta.
  destruct (state_eqb lg RUNNING).
  - simpl. eapply RM_trans; [|apply RM_commit]. eapply RM_trans; [|apply RM_check_affected]. frame.
  - destruct (state_eqb lg ERROR); [|apply RM_refl].
    pose proof (proj2 (proj2 (dispatch_M sp (FUEL sp s))) (s, []) tid ERROR) as H. unfold PM in H. simpl in H.
    destruct (complete_task sp (FUEL sp s) (s, []) tid ERROR) as [t1 fl]. simpl in H.
    destruct fl; simpl.
    + eapply RM_trans; [exact H|]. eapply RM_trans; [|apply RM_commit]. apply RM_check_affected.
    + eapply RM_trans; [exact H|].
      eapply RM_trans; [|apply (RM_commit (force_fail (fst t1) tid, snd t1))]. apply force_fail_M.
Qed.

Lemma do_refresh_M sp s tid : RM s (fst (do_refresh sp s tid)).
Proof.
  unfold do_refresh. cbv zeta.
  destruct (_ || _); [apply RM_refl|].
  destruct (is_completed (wf_state s)); [apply RM_refl|].
  eapply RM_trans; [|apply refresh_body_M]. frame.
Qed.

(* ------------------------------------------------------------------ steps *)
(* moves performed by one event: M-moves, plus (to RUNNING) at the start of resume / rerun /
   skip *)
Definition is_rerun (e : ev) : bool := match e with ERerun _ _ | ESkipTask _ => true | _ => false end.

Definition step_move (e : ev) (a b : state) : Prop :=
  M a b \/
  (valid a b = true /\ b = RUNNING /\
   ((e = EResume /\ (a = PAUSED \/ a = IDLE)) \/ is_rerun e = true)).

Lemma reach_mono (R R' : state -> state -> Prop) a b :
  (forall x y, R x y -> R' x y) -> reach R a b -> reach R' a b.
Proof. intros H Hr. induction Hr; [apply reach_refl|eapply reach_step; eauto]. Qed.

Definition RS (e : ev) (s s' : st) : Prop :=
  wf_created s' = wf_created s /\ reach (step_move e) (wf_state s) (wf_state s').

Lemma RM_RS e s s' : RM s s' -> RS e s s'.
Proof. intros [H1 H2]. split; [exact H1|]. eapply reach_mono; [|exact H2]. intros x y H. left. exact H. Qed.

Lemma RS_refl e s : RS e s s. Proof. apply RM_RS, RM_refl. Qed.

Lemma RS_trans e a b c : RS e a b -> RS e b c -> RS e a c.
Proof. intros [H1 H2] [H3 H4]. split; [congruence|eapply reach_trans; eauto]. Qed.

Lemma to_running_RS e s s1 :
  wf_set_state s RUNNING = Some s1 ->
  ((e = EResume /\ (wf_state s = PAUSED \/ wf_state s = IDLE)) \/ is_rerun e = true) ->
  RS e s s1.
Proof.
  intros H He. apply wf_set_state_valid in H. destruct H as (E & V & C).
  split; [exact C|]. rewrite E. apply reach_one. right. split; [exact V|]. split; [reflexivity|exact He].
Qed.

Theorem step_RS sp s e : wf_created s = true -> RS e s (fst (step sp s e)).
Proof.
  intros Hc. destruct e as [|i|n| | |x|tid reset|tid|i|]; simpl.
  - (* EStart *) rewrite Hc. apply RS_refl.
  - (* EFire *)
    destruct (remove_first (item_eqb i) (pend s)) as [[it rest]|]; [|apply RS_refl].
    assert (H0 : RM s (set_pend s rest)) by frame.
    destruct it as [tid f r x|aid|aid res|ops|tid]; apply RM_RS.
    + eapply RM_trans; [exact H0|apply do_start_task_M].
    + simpl. frame.
    + pose proof (do_result_M sp (set_pend s rest) aid res) as H.
      destruct (do_result sp (set_pend s rest) aid res) as [s1 o]. simpl in H.
      destruct o; simpl; try exact H0. eapply RM_trans; [exact H0|exact H].
    + apply RM_refl.
    + eapply RM_trans; [exact H0|apply do_refresh_M].
  - (* EFirePtq *)
    destruct (remove_nth_ptq n (pend s)) as [[ops rest]|]; [|apply RS_refl].
    simpl. apply RM_RS. eapply RM_trans; [|apply run_ops_M]. frame.
  - (* EPause *) rewrite Hc. simpl.
    destruct (pause_workflow s) as [s1|] eqn:E; [|apply RS_refl].
    apply RM_RS. apply pause_workflow_M. exact E.
  - (* EResume *) rewrite Hc. simpl.
    destruct (is_paused_or_idle (wf_state s)) eqn:Ep; [|apply RS_refl]. simpl.
    destruct (wf_set_state s RUNNING) as [s1|] eqn:E; [|apply RS_refl].
    match goal with |- context [fold_right ?f ?a ?l] => destruct (fold_right f a l) as [more|] end;
      [|apply RS_refl].
    match goal with |- context [continue_workflow sp (s1, []) ?c] =>
      pose proof (continue_workflow_M sp (s1, []) c) as H;
      destruct (continue_workflow sp (s1, []) c) as [t1 fl] end.
    simpl in H. destruct fl; simpl; [|apply RS_refl].
    eapply RS_trans; [eapply to_running_RS; [exact E|]|].
    + left. split; [reflexivity|].
      unfold is_paused_or_idle, is_paused, is_idle in Ep. destruct (wf_state s); simpl in Ep; try discriminate; auto.
    + apply RM_RS. eapply RM_trans; [exact H|apply RM_commit].
  - (* EStop *) rewrite Hc. simpl.
    destruct (stop_workflow s x) as [s1|] eqn:E; [|apply RS_refl].
    apply RM_RS. apply stop_workflow_M in E. exact E.
  - (* ERerun *) rewrite Hc. simpl.
    destruct (Nat.leb _ _); [apply RS_refl|].
    destruct (state_eqb (wf_state s) PAUSED); [apply RS_refl|].
    destruct (wf_set_state s RUNNING) as [s1|] eqn:E; [|apply RS_refl].
    cbv zeta. set (s1' := upd_task s1 tid _).
    assert (H1 : RM s1 s1') by frame.
    pose proof (continue_workflow_M sp (s1', []) [CRunExisting tid reset true]) as H.
    destruct (continue_workflow sp (s1', []) _) as [t1 fl]. simpl in H.
    destruct fl; simpl; [|apply RS_refl].
    eapply RS_trans; [eapply to_running_RS; [exact E|right; reflexivity]|].
    apply RM_RS. eapply RM_trans; [exact H1|]. eapply RM_trans; [exact H|apply RM_commit].
  - (* ESkipTask *) rewrite Hc. simpl.
    destruct (Nat.leb _ _); [apply RS_refl|].
    destruct (state_eqb (wf_state s) PAUSED); [apply RS_refl|].
    destruct (wf_set_state s RUNNING) as [s1|] eqn:E; [|apply RS_refl].
    cbv zeta. set (s1' := upd_task s1 tid _).
    assert (H1 : RM s1 s1') by frame.
    pose proof (continue_workflow_M sp (s1', []) [CSkip tid]) as H.
    destruct (continue_workflow sp (s1', []) _) as [t1 fl]. simpl in H.
    destruct fl; simpl; [|apply RS_refl].
    eapply RS_trans; [eapply to_running_RS; [exact E|right; reflexivity]|].
    apply RM_RS. eapply RM_trans; [exact H1|]. eapply RM_trans; [exact H|]. eapply RM_trans; [|apply RM_commit]. apply RM_check_affected.
  - (* EDup *)
    destruct i as [tid f r x|aid|aid res|ops|tid]; try apply RS_refl; apply RM_RS.
    + apply do_start_task_M.
    + pose proof (do_result_M sp s aid res) as H.
      destruct (do_result sp s aid res) as [s1 o]. simpl in H.
      destruct o; simpl; try apply RM_refl. exact H.
  - (* EEvict *) apply RS_refl.
Qed.

Theorem step_wf_moves sp s e :
  wf_created s = true -> reach (step_move e) (wf_state s) (wf_state (fst (step sp s e))).
Proof. intros Hc. apply (step_RS sp s e Hc). Qed.

Theorem created_monotone sp s e : wf_created s = true -> wf_created (fst (step sp s e)) = true.
Proof. intros Hc. rewrite <- Hc. apply (step_RS sp s e Hc). Qed.

(* ------------------------------------------------------------ corollaries *)
Lemma reach_from_success (R : state -> state -> Prop) a b :
  (forall x y, R x y -> valid x y = true) -> reach R a b -> a = SUCCESS -> b = SUCCESS.
Proof.
  intros HR Hr. induction Hr as [a|a b c Hab IH Hbc]; intros Ha; [exact Ha|].
  specialize (IH Ha). subst b. apply HR in Hbc. apply success_is_terminal in Hbc. exact Hbc.
Qed.

Lemma step_move_valid e x y : step_move e x y -> valid x y = true.
Proof. intros [[H _]|[H _]]; exact H. Qed.

Theorem success_final sp s e :
  wf_created s = true -> wf_state s = SUCCESS -> wf_state (fst (step sp s e)) = SUCCESS.
Proof.
  intros Hc Hs. eapply reach_from_success; [apply (step_move_valid e)|apply step_wf_moves; exact Hc|exact Hs].
Qed.

(* ERROR / CANCELLED are left only by a rerun or skip event *)
Lemma reach_stays_failed e a b :
  is_rerun e = false -> reach (step_move e) a b -> (a = ERROR \/ a = CANCELLED) -> b = a.
Proof.
  intros He Hr. induction Hr as [a|a b c Hab IH Hbc]; intros Ha; [reflexivity|].
  specialize (IH Ha). subst b.
  destruct Hbc as [[V F]|[V [Eb [[_ [Hp|Hp]]|Hre]]]].
  - destruct Ha as [-> | ->]; destruct c; vm_compute in V, F; try discriminate; reflexivity.
  - destruct Ha as [-> | ->]; discriminate.
  - destruct Ha as [-> | ->]; discriminate.
  - congruence.
Qed.

Theorem failed_left_only_by_rerun sp s e :
  wf_created s = true -> is_rerun e = false ->
  (wf_state s = ERROR \/ wf_state s = CANCELLED) ->
  wf_state (fst (step sp s e)) = wf_state s.
Proof.
  intros Hc He Hs. eapply reach_stays_failed; [exact He|apply step_wf_moves; exact Hc|exact Hs].
Qed.

(* a created workflow is never IDLE and only holds workflow states *)
Definition live_wf_state (x : state) : bool := mem x [RUNNING; PAUSED; SUCCESS; ERROR; CANCELLED].

Lemma reach_live e a b : reach (step_move e) a b -> live_wf_state a = true -> live_wf_state b = true.
Proof.
  intros Hr. induction Hr as [a|a b c Hab IH Hbc]; intros Ha; [exact Ha|].
  specialize (IH Ha). destruct Hbc as [[V F]|[V [-> _]]]; [|reflexivity].
  destruct c; vm_compute in F; try discriminate; reflexivity.
Qed.

(* the first event creates the workflow in RUNNING (creation and IDLE -> RUNNING share one
   transaction, so IDLE is never a committed state) *)
Lemma start_creates sp s :
  wf_created s = false -> wf_created (fst (step sp s EStart)) = true ->
  live_wf_state (wf_state (fst (step sp s EStart))) = true.
Proof.
  intros Hc. simpl. rewrite Hc.
  set (s0 := mkSt true RUNNING [] [] [] [] (pend s) (uids s)).
  match goal with |- context [dispatch sp ?f (s0, []) ?c] =>
    pose proof (proj1 (proj2 (dispatch_M sp f)) (s0, []) c) as H;
    destruct (dispatch sp f (s0, []) c) as [t1 fl] end.
  unfold PM in H. simpl in H. destruct fl; [|simpl; rewrite Hc; discriminate].
  destruct (check_and_complete (fst t1)) as [s2|] eqn:E; [|simpl; rewrite Hc; discriminate].
  intros _. simpl.
  apply check_and_complete_M in E.
  assert (Hr : reach M RUNNING (wf_state (commit (s2, snd t1)))).
  { destruct H as [_ H]. destruct E as [_ E]. destruct (RM_commit (s2, snd t1)) as [_ C].
    simpl in C. eapply reach_trans; [exact H|]. eapply reach_trans; [exact E|exact C]. }
  apply (reach_live EStart RUNNING); [|reflexivity].
  eapply reach_mono; [|exact Hr]. intros x y Hm. left. exact Hm.
Qed.

(* Invariant over every event list: once created, the workflow holds a live workflow state *)
Definition hdr_inv (s : st) : Prop := wf_created s = true -> live_wf_state (wf_state s) = true.

Lemma hdr_inv_step sp s e : hdr_inv s -> hdr_inv (fst (step sp s e)).
Proof.
  intros Hi Hc'. destruct (wf_created s) eqn:Hc.
  - eapply reach_live; [apply step_wf_moves; exact Hc|apply Hi; exact Hc].
  - destruct e; try (simpl in Hc' |- *; rewrite ?Hc in *; simpl in *; congruence).
    + apply start_creates; assumption.
    + (* EFire on a state without workflow: header untouched *)
      exfalso. revert Hc'. simpl.
      destruct (remove_first (item_eqb i) (pend s)) as [[it rest]|]; [|simpl; congruence].
      assert (H0 : RM s (set_pend s rest)) by frame.
      destruct it as [tid f r x|aid|aid res|ops|tid].
      * destruct (do_start_task_M sp (set_pend s rest) tid f r x) as [C _]. rewrite C. simpl. congruence.
      * simpl. congruence.
      * pose proof (do_result_M sp (set_pend s rest) aid res) as [C _].
        destruct (do_result sp (set_pend s rest) aid res) as [s1 o]. simpl in C.
        destruct o; simpl; try congruence; rewrite C; simpl; congruence.
      * simpl. congruence.
      * destruct (do_refresh_M sp (set_pend s rest) tid) as [C _]. rewrite C. simpl. congruence.
    + exfalso. revert Hc'. simpl.
      destruct (remove_nth_ptq n (pend s)) as [[ops rest]|]; [|simpl; congruence].
      simpl. destruct (run_ops_M sp ops (set_pend s rest)) as [C _]. rewrite C. simpl. congruence.
    + exfalso. revert Hc'. simpl. destruct i as [tid f r x|aid|aid res|ops|tid]; simpl; try congruence.
      * destruct (do_start_task_M sp s tid f r x) as [C _]. rewrite C. congruence.
      * pose proof (do_result_M sp s aid res) as [C _].
        destruct (do_result sp s aid res) as [s1 o]. simpl in C.
        destruct o; simpl; try congruence.
Qed.

Theorem hdr_inv_run sp u evs : hdr_inv (run sp u evs).
Proof.
  unfold run.
  assert (H : forall s, hdr_inv s -> hdr_inv (fold_left (fun s e => fst (step sp s e)) evs s)).
  { induction evs as [|e evs IH]; intros s Hs; simpl; [exact Hs|]. apply IH. apply hdr_inv_step. exact Hs. }
  apply H. intros Hc. discriminate Hc.
Qed.

(* Documented moves only: between live workflow states every table edge is a documented one *)
Lemma step_move_documented e x y :
  live_wf_state x = true -> step_move e x y -> x = y \/ documented_wf_move x y = true.
Proof.
  intros Hx Hm.
  assert (V : valid x y = true) by (destruct Hm as [[V _]|[V _]]; exact V).
  assert (Hy : live_wf_state y = true).
  { destruct Hm as [[_ F]|[_ [-> _]]]; [|reflexivity]. destruct y; vm_compute in F; try discriminate; reflexivity. }
  destruct x, y; vm_compute in Hx, Hy, V; try discriminate; auto.
Qed.
